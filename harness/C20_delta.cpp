// C20 (unit level): capture_delta / apply_delta round trip over real TSOutput / TSInput endpoints.
//   Output A receives a bounded tick history through the ordinary output mutation API (the history a
//   producer node could create); every cycle in which A ticked, d = capture_delta(inA) is applied to a
//   second output B with apply_delta (exactly what dense_record_impl / replay_impl do per cycle).
//   symbolic  : every payload value written to a TS leaf
//   enumerated: schema shape, which children / keys tick, key-set primitives per cycle (add, remove,
//               touch = explicitly empty tick, erase, remove+re-add in one cycle, add+remove in one cycle),
//               gaps (cycles without a tick)
//   oracle    : after every cycle B ticked iff A ticked; B.valid == A.valid; B.value == A.value;
//               B.delta_value == A.delta_value; capture_delta(inB) equals d; children (TSB/TSL fields,
//               TSD keys) agree on modified / valid.
#include "hk.h"

#include <hgraph/types/time_series/ts_delta.h>
#include <hgraph/types/time_series/ts_input.h>
#include <hgraph/types/time_series/ts_output.h>

#include <cstdio>

#ifndef NCYC
#define NCYC 3  // cycles (ticks or gaps)
#endif
#ifndef NPRIM
#define NPRIM 2  // key-set primitives per keyed collection per cycle
#endif
#ifndef NKEYS
#define NKEYS 2  // concrete key universe {1..NKEYS}
#endif
#ifndef SHAPES
#define SHAPES 0x7f  // bit i enables shape i (see shape_schema)
#endif
#ifndef VMAX
#define VMAX 1000
#endif

using namespace hk;

namespace {
using BundleSet = TSB<"C20BundleSet", Field<"a", TS<Int>>, Field<"s", TSS<Int>>>;
using BundleDict = TSB<"C20BundleDict", Field<"d", TSD<Int, TS<Int>>>, Field<"x", TS<Int>>>;
constexpr int NSHAPES = 7;

const TSValueTypeMetaData *shape_schema(int shape) {
    switch (shape) {
        case 0: return schema_descriptor<TS<Int>>::ts_meta();
        case 1: return schema_descriptor<TSS<Int>>::ts_meta();
        case 2: return schema_descriptor<TSD<Int, TS<Int>>>::ts_meta();
        case 3: return schema_descriptor<TSL<TS<Int>, 2>>::ts_meta();
        case 4: return schema_descriptor<BundleSet>::ts_meta();
        case 5: return schema_descriptor<TSD<Int, TSS<Int>>>::ts_meta();
        default: return schema_descriptor<BundleDict>::ts_meta();
    }
}

bool g_empty_tick = false;      // some collection got an explicitly empty tick (touch) while already valid
bool g_readd = false;           // a key removed and re-added in one cycle
bool g_add_remove = false;      // a key added and removed again in one cycle
bool g_removed = false;         // a live key removed
bool g_child_only = false;      // only a child of an existing TSD key / TSB field / TSL element ticked

Value key_value(int k) { return Value{Int{k}}; }
Int sym_val() { return verif_range("v", -VMAX, VMAX); }

// ---- drivers: ordinary producer-side mutation of A (never through apply_delta) -------------------
void drive(const TSOutputView &out, DateTime t, bool force);

void drive_ts(const TSOutputView &out, DateTime t) {
    Value v{sym_val()};
    auto m = out.begin_mutation(t);
    (void)m.copy_value_from(v.view());
}

// one key-set primitive on a TSS: 0 none, 1..NKEYS add k, NKEYS+1..2NKEYS remove k, 2NKEYS+1 touch
void drive_tss(const TSOutputView &out, DateTime t, int nprim) {
    auto set = out.as_set();
    bool added_now[NKEYS + 1] = {}, removed_now[NKEYS + 1] = {};
    for (int p = 0; p < nprim; p++) {
        int op = verif_choice("sop", 2 * NKEYS + 2);
        if (op == 0) break;
        bool was_valid = out.valid();
        auto m = set.begin_mutation(t);
        if (op <= NKEYS) {
            int k = op;
            Value kv = key_value(k);
            bool did = m.add(kv.view());
            if (did && removed_now[k]) g_readd = true;
            if (did) added_now[k] = true;
        } else if (op <= 2 * NKEYS) {
            int k = op - NKEYS;
            Value kv = key_value(k);
            bool did = m.remove(kv.view());
            if (did && added_now[k]) g_add_remove = true;
            if (did && !added_now[k]) g_removed = true;
            if (did) removed_now[k] = true;
        } else {
            m.touch();
            if (was_valid) g_empty_tick = true;
        }
    }
}

// TSD primitives: 0 none, 1..NKEYS upsert k (child driven recursively), NKEYS+1..2NKEYS erase k, 2NKEYS+1 touch
void drive_tsd(const TSOutputView &out, DateTime t, int nprim) {
    auto dict = out.as_dict();
    const bool child_is_set = out.schema()->element_ts()->kind == TSTypeKind::TSS;
    bool removed_now[NKEYS + 1] = {}, added_now[NKEYS + 1] = {};
    for (int p = 0; p < nprim; p++) {
        int op = verif_choice("dop", 2 * NKEYS + 2);
        if (op == 0) break;
        bool was_valid = out.valid();
        auto m = dict.begin_mutation(t);
        if (op <= NKEYS) {
            int k = op;
            Value kv = key_value(k);
            bool existed = dict.contains(kv.view());
            if (existed) g_child_only = true;
            if (!existed && removed_now[k]) g_readd = true;
            if (!existed) added_now[k] = true;
            auto child = m.at(kv.view());
            TSOutputView cv{out.output(), child, t};
            if (child_is_set) drive_tss(cv, t, 1); else drive_ts(cv, t);
        } else if (op <= 2 * NKEYS) {
            int k = op - NKEYS;
            Value kv = key_value(k);
            bool did = m.erase(kv.view());
            if (did && added_now[k]) g_add_remove = true;
            if (did && !added_now[k]) g_removed = true;
            if (did) removed_now[k] = true;
        } else {
            m.touch();
            if (was_valid) g_empty_tick = true;
        }
    }
}

void drive_indexed(const TSOutputView &out, DateTime t) {
    const std::size_t n = out.data_view().indexed_child_count();
    bool was_valid = out.valid();
    int ticked = 0;
    for (std::size_t i = 0; i < n; i++) {
        if (!verif_bool("child")) continue;
        auto child = out.indexed_child_at(i);
        drive(child, t, true);
        ticked++;
    }
    if (was_valid && ticked == 1) g_child_only = true;
}

void drive(const TSOutputView &out, DateTime t, bool force) {
    switch (out.schema()->kind) {
        case TSTypeKind::TS:
            if (force || verif_bool("tick")) drive_ts(out, t);
            break;
        case TSTypeKind::TSS: drive_tss(out, t, force ? 1 : NPRIM); break;
        case TSTypeKind::TSD: drive_tsd(out, t, force ? 1 : NPRIM); break;
        default: drive_indexed(out, t); break;
    }
}

// ---- oracle -------------------------------------------------------------------------------------
struct Acc {
    bool same_cycles = true, empty_tick = true, valid = true, value = true, delta = true, recapture = true, children = true;
};

bool views_equal(const ValueView &a, const ValueView &b) {
    if (a.has_value() != b.has_value()) return false;
    if (!a.has_value()) return true;
    return a.equals(b);
}

bool delta_is_empty(const TSValueTypeMetaData *schema, const ValueView &d) {
    if (!d.has_value()) return true;
    switch (schema->kind) {
        case TSTypeKind::TSS: {
            auto b = d.as_bundle();
            return b.at(0).as_indexed_view().size() == 0 && b.at(1).as_indexed_view().size() == 0;
        }
        case TSTypeKind::TSD: {
            auto b = d.as_bundle();
            return b.at(0).as_indexed_view().size() == 0 && b.at(1).as_map().size() == 0;
        }
        case TSTypeKind::TSL: return d.as_map().size() == 0;
        case TSTypeKind::TSB: {
            auto b = d.as_bundle();
            for (std::size_t i = 0; i < schema->field_count(); i++)
                if (!delta_is_empty(schema->fields()[i].type, b.at(i))) return false;
            return true;
        }
        default: return false;
    }
}

void compare_children(const TSInputView &a, const TSInputView &b, Acc &acc) {
    const auto kind = a.schema()->kind;
    if (kind == TSTypeKind::TSB || kind == TSTypeKind::TSL) {
        const std::size_t n = a.data_view().indexed_child_count();
        acc.children &= (b.data_view().indexed_child_count() == n);
        for (std::size_t i = 0; i < n; i++) {
            auto ca = a.indexed_child_at(i);
            auto cb = b.indexed_child_at(i);
            acc.children &= (ca.valid() == cb.valid());
            acc.children &= (ca.modified() == cb.modified());
            if (ca.valid() && cb.valid()) acc.children &= views_equal(ca.value(), cb.value());
            compare_children(ca, cb, acc);
        }
    } else if (kind == TSTypeKind::TSD) {
        auto da = a.as_dict();
        auto db = b.as_dict();
        acc.children &= (da.size() == db.size());
        for (int k = 1; k <= NKEYS; k++) {
            Value kv = key_value(k);
            bool ina = da.contains(kv.view()), inb = db.contains(kv.view());
            acc.children &= (ina == inb);
            if (ina && inb) {
                auto ca = da.at(kv.view());
                auto cb = db.at(kv.view());
                acc.children &= (ca.valid() == cb.valid());
                acc.children &= (ca.modified() == cb.modified());
                if (ca.valid() && cb.valid()) acc.children &= views_equal(ca.value(), cb.value());
            }
        }
    } else if (kind == TSTypeKind::TSS) {
        auto sa = a.as_set();
        auto sb = b.as_set();
        acc.children &= (sa.size() == sb.size());
        for (int k = 1; k <= NKEYS; k++) {
            Value kv = key_value(k);
            acc.children &= (sa.contains(kv.view()) == sb.contains(kv.view()));
        }
    }
}
}  // namespace

extern "C" int harness_main() {
    (void)TypeRegistry::instance().register_scalar<Int>("int");
    // ---- shape (enumerated first so that shards split on it)
    int shape = verif_choice("shape", NSHAPES);
    if (!((SHAPES >> shape) & 1)) { verif_end_path(); return 0; }
    const auto *schema = shape_schema(shape);

    TSOutput A{schema}, B{schema};
    TSInput inA{TSInputBuilderFactory::checked_builder_for(*schema, TSEndpointSchema::peered(schema))};
    TSInput inB{TSInputBuilderFactory::checked_builder_for(*schema, TSEndpointSchema::peered(schema))};
    inA.view(nullptr, MIN_ST).bind_output(A.view(MIN_ST));
    inB.view(nullptr, MIN_ST).bind_output(B.view(MIN_ST));

    Acc acc;
    int ticks = 0, gaps = 0;
    bool gap_then_tick = false;
    for (int c = 0; c < NCYC; c++) {
        DateTime t = MIN_ST + TimeDelta{c};
        {
            auto av = A.view(t);
            drive(av, t, false);
        }
        auto ia = inA.view(nullptr, t);
        const bool a_mod = ia.modified();
        bool observable = false, d_empty = false;
        const bool b_was_valid = B.view(t).valid();
        Value d;
        if (a_mod) {
            // what dense_record_impl does ...
            d = capture_delta(ia);
            observable = delta_is_observable(ia, d.view());
            d_empty = delta_is_empty(schema, d.view());
            // ... and what replay_impl does with the recorded element
            if (observable) {
                auto bv = B.view(t);
                apply_delta(bv, d.view());
            }
            ticks++;
            if (gaps > 0) gap_then_tick = true;
        } else {
            gaps++;
        }
        auto ib = inB.view(nullptr, t);
        const bool b_mod = ib.modified();
#ifdef C20_DEBUG
        std::fprintf(stderr, "c=%d A: mod=%d valid=%d value=%s delta=%s | d=%s obs=%d empty=%d | B: mod=%d valid=%d value=%s delta=%s\n", c, (int)a_mod,
                     (int)ia.valid(), ia.valid() ? ia.value().to_string().c_str() : "-", a_mod && ia.delta_value().has_value() ? ia.delta_value().to_string().c_str() : "-",
                     a_mod && d.view().has_value() ? d.view().to_string().c_str() : "-", (int)observable, (int)d_empty, (int)b_mod, (int)ib.valid(),
                     ib.valid() ? ib.value().to_string().c_str() : "-", b_mod && ib.delta_value().has_value() ? ib.delta_value().to_string().c_str() : "-");
#endif
        // same cycles: B ticks exactly when A produced an observable (= recorded) tick.  One class is kept
        // under its own id: an empty structural delta recorded from an already valid collection that is
        // applied to an already valid copy (apply_delta de-duplicates it: no tick).
        const bool want_tick = a_mod && observable;
        if (want_tick && d_empty && b_was_valid && !b_mod) acc.empty_tick = false;
        else acc.same_cycles &= (b_mod == want_tick);
        acc.valid &= (ib.valid() == ia.valid());
        if (ia.valid() && ib.valid()) acc.value &= views_equal(ia.value(), ib.value());
        if (a_mod && b_mod) {
            acc.delta &= views_equal(ia.delta_value(), ib.delta_value());
            Value d2 = capture_delta(ib);
            acc.recapture &= views_equal(d.view(), d2.view());
        }
        compare_children(ia, ib, acc);
    }
    verif_assert(acc.same_cycles, "C20.same_cycles");
    verif_assert(acc.empty_tick, "C20.empty_tick_reproduced");
    verif_assert(acc.valid, "C20.same_validity");
    verif_assert(acc.value, "C20.same_value");
    verif_assert(acc.delta, "C20.same_delta");
    verif_assert(acc.recapture, "C20.recapture_equals_delta");
    verif_assert(acc.children, "C20.children_agree");

    if (ticks >= 2) verif_reach("two_ticks");
    if (gap_then_tick) verif_reach("gap_then_tick");
    if (g_removed) verif_reach("key_removed");
    if (g_readd) verif_reach("key_removed_and_readded_same_cycle");
    if (g_add_remove) verif_reach("key_added_and_removed_same_cycle");
    if (g_empty_tick) verif_reach("empty_structural_tick");
    if (g_child_only) verif_reach("child_only_tick");
    verif_log("shape", shape);
    verif_log("ticks", ticks);
    verif_reach("end");
    return 0;
}

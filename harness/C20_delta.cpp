// C20 (unit level): capture_delta / apply_delta round trip over real TSOutput / TSInput endpoints.
//   Output A receives a bounded tick history through the ordinary output mutation API (the history a
//   producer node could create); every cycle in which A ticked, d = capture_delta(inA) is applied to a
//   second output B with apply_delta (exactly what dense_record_impl / replay_impl do per cycle, including
//   the delta_is_observable filter of the recorder).
//   symbolic  : every payload value written to a TS leaf / pushed to a window
//   enumerated: schema shape, which children / keys tick, key-set primitives per cycle (add, remove,
//               touch = explicitly empty tick, no-op add/remove, erase, remove+re-add in one cycle,
//               add+remove in one cycle), gaps (cycles without a tick)
//   oracle    : after every cycle B ticked iff A ticked (observably); B.valid == A.valid; B.value == A.value;
//               B.delta_value == A.delta_value; capture_delta(inB) equals d; children (TSB/TSL fields,
//               TSD keys, TSS members) agree on membership / modified / valid / value.
//   Two input classes are reported under their own assertion ids (see notes/C20.md):
//     C20.empty_tick_reproduced                   - A ticks with an EMPTY set/dict delta while already valid
//     C20.unticked_collection_field_stays_invalid - TSB with a set/dict field that never ticked
#include "hk.h"

#include <hgraph/types/time_series/ts_delta.h>
#include <hgraph/types/time_series/ts_input.h>
#include <hgraph/types/time_series/ts_output.h>

#include <cstdio>

#ifndef NCYC
#define NCYC 3  // cycles (ticks or gaps)
#endif
#ifndef NPRIM
#define NPRIM 2  // key-set primitives per root-level keyed collection per cycle (nested collections: 1)
#endif
#ifndef NPRIM5
#define NPRIM5 1  // primitives per cycle at the root of the nested TSD<int,TSS<int>> shape
#endif
#ifndef NKEYS
#define NKEYS 2  // concrete key universe {1..NKEYS}
#endif
#ifndef SHAPES
#define SHAPES 0x1ff  // bit i enables shape i (see shape_schema)
#endif
#ifndef VMAX
#define VMAX 1000
#endif

using namespace hk;

namespace {
using BundleSet = TSB<"C20BundleSet", Field<"a", TS<Int>>, Field<"s", TSS<Int>>>;
using BundleDict = TSB<"C20BundleDict", Field<"d", TSD<Int, TS<Int>>>, Field<"x", TS<Int>>>;
constexpr int NSHAPES = 9;

const TSValueTypeMetaData *shape_schema(int shape) {
    switch (shape) {
        case 0: return schema_descriptor<TS<Int>>::ts_meta();
        case 1: return schema_descriptor<TSS<Int>>::ts_meta();
        case 2: return schema_descriptor<TSD<Int, TS<Int>>>::ts_meta();
        case 3: return schema_descriptor<TSL<TS<Int>, 2>>::ts_meta();
        case 4: return schema_descriptor<BundleSet>::ts_meta();
        case 5: return schema_descriptor<TSD<Int, TSS<Int>>>::ts_meta();
        case 6: return schema_descriptor<BundleDict>::ts_meta();
        case 7: return schema_descriptor<TSW<Int, 2, 1>>::ts_meta();
        default: return schema_descriptor<TSL<TS<Int>>>::ts_meta();  // dynamic list
    }
}

bool g_empty_tick = false;   // a collection got an empty tick (touch / no-op add / no-op remove) while already valid
bool g_readd = false;        // a key removed and re-added in one cycle
bool g_add_remove = false;   // a key added and removed again in one cycle
bool g_removed = false;      // a live key removed
bool g_child_only = false;   // only a child of an existing TSD key / TSB field / TSL element ticked

Value key_value(int k) { return Value{Int{k}}; }
Int sym_val() { return verif_range("v", -VMAX, VMAX); }

// ---- drivers: ordinary producer-side mutation of A (never through apply_delta) -------------------
void drive(const TSOutputView &out, DateTime t, bool nested);

void drive_ts(const TSOutputView &out, DateTime t) {
    Value v{sym_val()};
    auto m = out.begin_mutation(t);
    (void)m.copy_value_from(v.view());
}

// key-set primitives on a TSS: 0 none, 1..NKEYS add k, NKEYS+1..2NKEYS remove k, 2NKEYS+1 touch
// (must: the first primitive is not "none" - the element of a TSD key always ticks when it is upserted)
void drive_tss(const TSOutputView &out, DateTime t, int nprim, bool must = false) {
    auto set = out.as_set();
    bool added_now[NKEYS + 1] = {}, removed_now[NKEYS + 1] = {};
    for (int p = 0; p < nprim; p++) {
        int op = (must && p == 0) ? 1 + verif_choice("sop1", 2 * NKEYS + 1) : verif_choice("sop", 2 * NKEYS + 2);
        if (op == 0) break;
        bool was_valid = out.valid();
        auto m = set.begin_mutation(t);
        if (op <= NKEYS) {
            int k = op;
            Value kv = key_value(k);
            bool did = m.add(kv.view());
            if (did && removed_now[k]) g_readd = true;
            if (did) added_now[k] = true;
            if (!did && was_valid) g_empty_tick = true;
        } else if (op <= 2 * NKEYS) {
            int k = op - NKEYS;
            Value kv = key_value(k);
            bool did = m.remove(kv.view());
            if (did && added_now[k]) g_add_remove = true;
            if (did && !added_now[k]) g_removed = true;
            if (did) removed_now[k] = true;
            if (!did && was_valid) g_empty_tick = true;
        } else {
            m.touch();
            if (was_valid) g_empty_tick = true;
        }
    }
}

// TSD primitives: 0 none, 1..NKEYS upsert k (element driven recursively), NKEYS+1..2NKEYS erase k, 2NKEYS+1 touch
void drive_tsd(const TSOutputView &out, DateTime t, int nprim) {
    auto dict = out.as_dict();
    const bool child_is_set = out.schema()->element_ts()->kind == TSTypeKind::TSS;
    bool removed_now[NKEYS + 1] = {}, added_now[NKEYS + 1] = {};
    for (int p = 0; p < nprim; p++) {
        int op = verif_choice("dop", 2 * NKEYS + 2);
        if (op == 0) break;
        bool was_valid = out.valid();
        auto m = dict.begin_mutation(t);
        if (op <= NKEYS) {
            int k = op;
            Value kv = key_value(k);
            bool existed = dict.contains(kv.view());
            if (existed) g_child_only = true;
            if (!existed && removed_now[k]) g_readd = true;
            if (!existed) added_now[k] = true;
            auto child = m.at(kv.view());
            TSOutputView cv{out.output(), child, t};
            if (child_is_set) drive_tss(cv, t, 1, true); else drive_ts(cv, t);
        } else if (op <= 2 * NKEYS) {
            int k = op - NKEYS;
            Value kv = key_value(k);
            bool did = m.erase(kv.view());
            if (did && added_now[k]) g_add_remove = true;
            if (did && !added_now[k]) g_removed = true;
            if (did) removed_now[k] = true;
        } else {
            m.touch();
            if (was_valid) g_empty_tick = true;
        }
    }
}

void drive_indexed(const TSOutputView &out, DateTime t) {
    const std::size_t n = out.data_view().indexed_child_count();
    bool was_valid = out.valid();
    int ticked = 0;
    for (std::size_t i = 0; i < n; i++) {
        auto child = out.indexed_child_at(i);
        const auto ck = child.schema()->kind;
        if (ck == TSTypeKind::TS) {
            if (!verif_bool("child")) continue;
            drive_ts(child, t);
            ticked++;
        } else {
            drive(child, t, true);
            if (child.modified()) ticked++;
        }
    }
    if (was_valid && ticked == 1) g_child_only = true;
}

void drive_dynamic_list(const TSOutputView &out, DateTime t) {
    // dynamic TSL<TS<int>>: tick element 0 and/or 1 (the list grows on first access; no holes)
    int which = verif_choice("elems", 4);
    auto list = out.as_list();
    for (std::size_t i = 0; i < 2; i++) {
        if (!((which >> i) & 1)) continue;
        if (i > list.size()) continue;
        auto child = list.at(i);
        drive_ts(child, t);
    }
}

void drive_window(const TSOutputView &out, DateTime t) {
    if (!verif_bool("tick")) return;
    Value v{sym_val()};
    auto w = out.as_window();
    w.begin_mutation(t).push(v.view());
}

void drive(const TSOutputView &out, DateTime t, bool nested) {
    const auto *schema = out.schema();
    switch (schema->kind) {
        case TSTypeKind::TS:
            if (verif_bool("tick")) drive_ts(out, t);
            break;
        case TSTypeKind::TSS: drive_tss(out, t, nested ? 1 : NPRIM); break;
        case TSTypeKind::TSD: drive_tsd(out, t, nested ? 1 : (schema->element_ts()->kind == TSTypeKind::TSS ? NPRIM5 : NPRIM)); break;
        case TSTypeKind::TSW: drive_window(out, t); break;
        case TSTypeKind::TSL:
            if (schema->fixed_size() == 0) { drive_dynamic_list(out, t); break; }
            drive_indexed(out, t);
            break;
        default: drive_indexed(out, t); break;
    }
}

// ---- classification of the two reported input classes --------------------------------------------
bool set_delta_empty(const ValueView &d) {
    auto b = d.as_bundle();
    return b.at(0).as_indexed_view().size() == 0 && b.at(1).as_indexed_view().size() == 0;
}
bool dict_delta_empty(const ValueView &d) {
    auto b = d.as_bundle();
    return b.at(0).as_indexed_view().size() == 0 && b.at(1).as_map().size() == 0;
}
struct CycleClass {
    bool dedup = false;     // d carries an empty set/dict delta for a position that ticked in A and is already valid in B
    bool validate = false;  // d carries an empty set/dict delta for a TSB field that never ticked in A (invalid in A and in B)
};
void classify(const TSValueTypeMetaData *schema, const ValueView &d, const TSInputView &a, const TSOutputView &bpre, CycleClass &cc) {
    if (!d.has_value()) return;
    switch (schema->kind) {
        case TSTypeKind::TSS:
            if (a.modified() && bpre.valid() && set_delta_empty(d)) cc.dedup = true;
            break;
        case TSTypeKind::TSD: {
            if (a.modified() && bpre.valid() && dict_delta_empty(d)) cc.dedup = true;
            auto bundle = d.as_bundle();
            auto removed = bundle.at(0).as_indexed_view();
            auto modified = bundle.at(1).as_map();
            auto da = a.as_dict();
            auto db = bpre.as_dict();
            for (int k = 1; k <= NKEYS; k++) {
                Value kv = key_value(k);
                if (!modified.contains(kv.view()) || !db.contains(kv.view()) || !da.contains(kv.view())) continue;
                bool re_created = false;
                for (std::size_t i = 0; i < removed.size(); i++) re_created |= removed.at(i).equals(kv.view());
                if (re_created) continue;
                auto ca = da.at(kv.view());
                auto cb = db.at(kv.view());
                classify(schema->element_ts(), modified.at(kv.view()), ca, cb, cc);
            }
            break;
        }
        case TSTypeKind::TSB: {
            auto bundle = d.as_bundle();
            for (std::size_t i = 0; i < schema->field_count(); i++) {
                const auto *fs = schema->fields()[i].type;
                auto ca = a.indexed_child_at(i);
                auto cb = bpre.indexed_child_at(i);
                auto fd = bundle.at(i);
                if (!fd.has_value()) continue;
                const bool coll = fs->kind == TSTypeKind::TSS || fs->kind == TSTypeKind::TSD;
                if (coll && !ca.valid() && !ca.modified() && !cb.valid()) { cc.validate = true; continue; }
                if (ca.modified()) classify(fs, fd, ca, cb, cc);
            }
            break;
        }
        default: break;
    }
}

// ---- oracle -------------------------------------------------------------------------------------
struct Acc {
    bool same_cycles = true, valid = true, value = true, delta = true, recapture = true, children = true, children_modified = true;
    bool empty_tick = true, unticked_field = true;
};

bool views_equal(const ValueView &a, const ValueView &b) {
    if (a.has_value() != b.has_value()) return false;
    if (!a.has_value()) return true;
    return a.equals(b);
}

struct ChildCmp { bool state = true, modified = true; };
void compare_children(const TSInputView &a, const TSInputView &b, ChildCmp &c) {
    const auto kind = a.schema()->kind;
    if (kind == TSTypeKind::TSB || kind == TSTypeKind::TSL) {
        const std::size_t n = a.data_view().indexed_child_count();
        c.state &= (b.data_view().indexed_child_count() == n);
        if (b.data_view().indexed_child_count() != n) return;
        for (std::size_t i = 0; i < n; i++) {
            auto ca = a.indexed_child_at(i);
            auto cb = b.indexed_child_at(i);
            c.state &= (ca.valid() == cb.valid());
            c.modified &= (ca.modified() == cb.modified());
            if (ca.valid() && cb.valid()) c.state &= views_equal(ca.value(), cb.value());
            compare_children(ca, cb, c);
        }
    } else if (kind == TSTypeKind::TSD) {
        auto da = a.as_dict();
        auto db = b.as_dict();
        c.state &= (da.size() == db.size());
        for (int k = 1; k <= NKEYS; k++) {
            Value kv = key_value(k);
            bool ina = da.contains(kv.view()), inb = db.contains(kv.view());
            c.state &= (ina == inb);
            if (ina && inb) {
                auto ca = da.at(kv.view());
                auto cb = db.at(kv.view());
                c.state &= (ca.valid() == cb.valid());
                c.modified &= (ca.modified() == cb.modified());
                if (ca.valid() && cb.valid()) c.state &= views_equal(ca.value(), cb.value());
                compare_children(ca, cb, c);
            }
        }
    } else if (kind == TSTypeKind::TSS) {
        auto sa = a.as_set();
        auto sb = b.as_set();
        c.state &= (sa.size() == sb.size());
        for (int k = 1; k <= NKEYS; k++) {
            Value kv = key_value(k);
            c.state &= (sa.contains(kv.view()) == sb.contains(kv.view()));
        }
    }
}
}  // namespace

extern "C" int harness_main() {
    (void)TypeRegistry::instance().register_scalar<Int>("int");
    // ---- shape (enumerated first so that shards split on it)
    int shape = verif_choice("shape", NSHAPES);
    if (!((SHAPES >> shape) & 1)) { verif_end_path(); return 0; }
    const auto *schema = shape_schema(shape);

    TSOutput A{schema}, B{schema};
    TSInput inA{TSInputBuilderFactory::checked_builder_for(*schema, TSEndpointSchema::peered(schema))};
    TSInput inB{TSInputBuilderFactory::checked_builder_for(*schema, TSEndpointSchema::peered(schema))};
    inA.view(nullptr, MIN_ST).bind_output(A.view(MIN_ST));
    inB.view(nullptr, MIN_ST).bind_output(B.view(MIN_ST));

    Acc acc;
    int ticks = 0, gaps = 0;
    bool gap_then_tick = false, tainted = false, saw_dedup = false;
    for (int c = 0; c < NCYC; c++) {
        DateTime t = MIN_ST + TimeDelta{c};
        {
            auto av = A.view(t);
            drive(av, t, false);
        }
        auto ia = inA.view(nullptr, t);
        const bool a_mod = ia.modified();
        bool observable = false;
        CycleClass cc;
        Value d;
        if (a_mod) {
            // what dense_record_impl does ...
            d = capture_delta(ia);
            observable = delta_is_observable(ia, d.view());
            // ... and what replay_impl does with the recorded element
            if (observable) {
                auto bv = B.view(t);
                classify(schema, d.view(), ia, bv, cc);
                apply_delta(bv, d.view());
            }
            ticks++;
            if (gaps > 0) gap_then_tick = true;
        } else {
            gaps++;
        }
        tainted |= cc.validate;
        saw_dedup |= cc.dedup;
        auto ib = inB.view(nullptr, t);
        const bool b_mod = ib.modified();
#ifdef C20_DEBUG
        std::fprintf(stderr, "c=%d A: mod=%d valid=%d value=%s delta=%s | d=%s obs=%d dedup=%d validate=%d | B: mod=%d valid=%d value=%s delta=%s\n", c, (int)a_mod,
                     (int)ia.valid(), ia.valid() ? ia.value().to_string().c_str() : "-", a_mod && ia.delta_value().has_value() ? ia.delta_value().to_string().c_str() : "-",
                     a_mod && d.view().has_value() ? d.view().to_string().c_str() : "-", (int)observable, (int)cc.dedup, (int)cc.validate, (int)b_mod, (int)ib.valid(),
                     ib.valid() ? ib.value().to_string().c_str() : "-", b_mod && ib.delta_value().has_value() ? ib.delta_value().to_string().c_str() : "-");
#endif
        // ---- per-cycle comparison, then attribution to assertion ids
        const bool want_tick = a_mod && observable;  // B ticks exactly when A produced a recorded tick
        bool ok_cycles = (b_mod == want_tick);
        bool ok_valid = (ib.valid() == ia.valid());
        bool ok_value = true, ok_delta = true, ok_recapture = true;
        if (ia.valid() && ib.valid()) ok_value = views_equal(ia.value(), ib.value());
        if (a_mod && b_mod) {
            ok_delta = views_equal(ia.delta_value(), ib.delta_value());
            Value d2 = capture_delta(ib);
            ok_recapture = views_equal(d.view(), d2.view());
        }
        ChildCmp ch;
        compare_children(ia, ib, ch);
        if (tainted) {
            // B's never-ticked set/dict field was validated by the replayed default delta: A and B differ from here on
            acc.unticked_field &= ok_cycles & ok_valid & ok_value & ok_delta & ok_recapture & ch.state & ch.modified;
        } else if (cc.dedup) {
            // state must still agree; only tick-ness / delta shape may differ, and only because of the de-duplicated empty delta
            acc.valid &= ok_valid;
            acc.value &= ok_value;
            acc.children &= ch.state;
            acc.empty_tick &= ok_cycles & ok_delta & ok_recapture & ch.modified;
        } else {
            acc.same_cycles &= ok_cycles;
            acc.valid &= ok_valid;
            acc.value &= ok_value;
            acc.delta &= ok_delta;
            acc.recapture &= ok_recapture;
            acc.children &= ch.state;
            acc.children_modified &= ch.modified;
        }
    }
    verif_assert(acc.same_cycles, "C20.same_cycles");
    verif_assert(acc.valid, "C20.same_validity");
    verif_assert(acc.value, "C20.same_value");
    verif_assert(acc.delta, "C20.same_delta");
    verif_assert(acc.recapture, "C20.recapture_equals_delta");
    verif_assert(acc.children, "C20.children_state_agrees");
    verif_assert(acc.children_modified, "C20.children_modified_agrees");
    verif_assert(acc.empty_tick, "C20.empty_tick_reproduced");
    verif_assert(acc.unticked_field, "C20.unticked_collection_field_stays_invalid");

    if (ticks >= 2) verif_reach("two_ticks");
    if (gap_then_tick) verif_reach("gap_then_tick");
    if (g_removed) verif_reach("key_removed");
    if (g_readd) verif_reach("key_removed_and_readded_same_cycle");
    if (g_add_remove) verif_reach("key_added_and_removed_same_cycle");
    if (g_empty_tick) verif_reach("empty_structural_tick");
    if (g_child_only) verif_reach("child_only_tick");
    if (saw_dedup) verif_reach("class_empty_delta_on_valid_collection");
    if (tainted) verif_reach("class_unticked_collection_field");
    verif_log("shape", shape);
    verif_log("ticks", ticks);
    verif_reach("end");
    return 0;
}

// C20 (unit level): capture_delta / apply_delta round trip over real TSOutput / TSInput endpoints.
//   Output A receives a bounded tick history through the ordinary output mutation API (the history a
//   producer node could create); every cycle in which A ticked, d = capture_delta(inA) is applied to a
//   second output B with apply_delta (exactly what dense_record_impl / replay_impl do per cycle, including
//   the delta_is_observable filter of the recorder).
//   symbolic  : every payload value written to a TS leaf / pushed to a window
//   enumerated: schema shape, which children / keys tick, key-set primitives per cycle (add, remove,
//               touch = explicitly empty tick, no-op add/remove, erase, remove+re-add in one cycle,
//               add+remove in one cycle), gaps (cycles without a tick)
//   oracle    : after every cycle B ticked iff A ticked (observably); B.valid == A.valid; B.value == A.value;
//               B.delta_value == A.delta_value; capture_delta(inB) equals d; children (TSB/TSL fields,
//               TSD keys, TSS members) agree on membership / modified / valid / value.
//   Two input classes are reported under their own assertion ids (see notes/C20.md):
//     C20.empty_tick_reproduced                   - A ticks with an EMPTY set/dict delta while already valid
//     C20.unticked_collection_field_stays_invalid - TSB with a set/dict field that never ticked
#include "hk_c20.h"  // shapes, producer-side history drivers, bound macros NPRIM / NPRIM5 / NKEYS / VMAX

#include <cstdio>

#ifndef NCYC
#define NCYC 3  // cycles (ticks or gaps)
#endif
#ifndef SHAPES
#define SHAPES 0x3ff  // bit i enables shape i (see hk_c20.h shape_schema)
#endif

using namespace hk;

namespace {
using namespace hk::c20;

// ---- oracle -------------------------------------------------------------------------------------
struct Acc {
    bool same_cycles = true, valid = true, value = true, delta = true, recapture = true, children = true, children_modified = true;
    bool empty_tick = true, unticked_field = true;
};

struct ChildCmp { bool state = true, modified = true; };
void compare_children(const TSInputView &a, const TSInputView &b, ChildCmp &c) {
    const auto kind = a.schema()->kind;
    if (kind == TSTypeKind::TSB || kind == TSTypeKind::TSL) {
        const std::size_t n = a.data_view().indexed_child_count();
        c.state &= (b.data_view().indexed_child_count() == n);
        if (b.data_view().indexed_child_count() != n) return;
        for (std::size_t i = 0; i < n; i++) {
            auto ca = a.indexed_child_at(i);
            auto cb = b.indexed_child_at(i);
            c.state &= (ca.valid() == cb.valid());
            c.modified &= (ca.modified() == cb.modified());
            if (ca.valid() && cb.valid()) c.state &= views_equal(ca.value(), cb.value());
            compare_children(ca, cb, c);
        }
    } else if (kind == TSTypeKind::TSD) {
        auto da = a.as_dict();
        auto db = b.as_dict();
        c.state &= (da.size() == db.size());
        for (int k = 1; k <= NKEYS; k++) {
            Value kv = key_value(k);
            bool ina = da.contains(kv.view()), inb = db.contains(kv.view());
            c.state &= (ina == inb);
            if (ina && inb) {
                auto ca = da.at(kv.view());
                auto cb = db.at(kv.view());
                c.state &= (ca.valid() == cb.valid());
                c.modified &= (ca.modified() == cb.modified());
                if (ca.valid() && cb.valid()) c.state &= views_equal(ca.value(), cb.value());
                compare_children(ca, cb, c);
            }
        }
    } else if (kind == TSTypeKind::TSW) {
        // window contents are compared whether or not the window has reached min_period (valid)
        auto wa = a.as_window();
        auto wb = b.as_window();
        c.state &= (wa.size() == wb.size());
        if (wa.size() == wb.size())
            for (std::size_t i = 0; i < wa.size(); i++) c.state &= views_equal(wa.at(i), wb.at(i));
    } else if (kind == TSTypeKind::TSS) {
        auto sa = a.as_set();
        auto sb = b.as_set();
        c.state &= (sa.size() == sb.size());
        for (int k = 1; k <= NKEYS; k++) {
            Value kv = key_value(k);
            c.state &= (sa.contains(kv.view()) == sb.contains(kv.view()));
        }
    }
}
}  // namespace

extern "C" int harness_main() {
    (void)TypeRegistry::instance().register_scalar<Int>("int");
    // ---- shape (enumerated first so that shards split on it)
    int shape = verif_choice("shape", NSHAPES);
    if (!((SHAPES >> shape) & 1)) { verif_end_path(); return 0; }
    const auto *schema = shape_schema(shape);

    TSOutput A{schema}, B{schema};
    TSInput inA{TSInputBuilderFactory::checked_builder_for(*schema, TSEndpointSchema::peered(schema))};
    TSInput inB{TSInputBuilderFactory::checked_builder_for(*schema, TSEndpointSchema::peered(schema))};
    inA.view(nullptr, MIN_ST).bind_output(A.view(MIN_ST));
    inB.view(nullptr, MIN_ST).bind_output(B.view(MIN_ST));

    Acc acc;
    int ticks = 0, gaps = 0;
    bool gap_then_tick = false, tainted = false, saw_dedup = false, below_min_recorded = false, unrecorded_tick = false;
    for (int c = 0; c < NCYC; c++) {
        DateTime t = MIN_ST + TimeDelta{c};
        {
            auto av = A.view(t);
            drive(av, t, false);
        }
        auto ia = inA.view(nullptr, t);
        const bool a_mod = ia.modified();
        bool observable = false;
        CycleClass cc;
        Value d;
        if (a_mod) {
            // what dense_record_impl does ...
            d = capture_delta(ia);
            observable = delta_is_observable(ia, d.view());
            // ... and what replay_impl does with the recorded element
            if (observable) {
                auto bv = B.view(t);
                classify(schema, d.view(), ia, bv, cc);
                apply_delta(bv, d.view());
                if (schema->kind == TSTypeKind::TSW && !ia.valid()) below_min_recorded = true;
            } else {
                unrecorded_tick = true;
            }
            ticks++;
            if (gaps > 0) gap_then_tick = true;
        } else {
            gaps++;
        }
        tainted |= cc.validate;
        saw_dedup |= cc.dedup;
        auto ib = inB.view(nullptr, t);
        const bool b_mod = ib.modified();
#ifdef C20_DEBUG
        std::fprintf(stderr, "c=%d A: mod=%d valid=%d value=%s delta=%s | d=%s obs=%d dedup=%d validate=%d | B: mod=%d valid=%d value=%s delta=%s\n", c, (int)a_mod,
                     (int)ia.valid(), ia.valid() ? ia.value().to_string().c_str() : "-", a_mod && ia.delta_value().has_value() ? ia.delta_value().to_string().c_str() : "-",
                     a_mod && d.view().has_value() ? d.view().to_string().c_str() : "-", (int)observable, (int)cc.dedup, (int)cc.validate, (int)b_mod, (int)ib.valid(),
                     ib.valid() ? ib.value().to_string().c_str() : "-", b_mod && ib.delta_value().has_value() ? ib.delta_value().to_string().c_str() : "-");
#endif
        // ---- per-cycle comparison, then attribution to assertion ids
        const bool want_tick = a_mod && observable;  // B ticks exactly when A produced a recorded tick
        bool ok_cycles = (b_mod == want_tick);
        bool ok_valid = (ib.valid() == ia.valid());
        bool ok_value = true, ok_delta = true, ok_recapture = true;
        if (ia.valid() && ib.valid()) ok_value = views_equal(ia.value(), ib.value());
        if (a_mod && b_mod) {
            ok_delta = views_equal(ia.delta_value(), ib.delta_value());
            Value d2 = capture_delta(ib);
            ok_recapture = views_equal(d.view(), d2.view());
        }
        ChildCmp ch;
        compare_children(ia, ib, ch);
        if (tainted) {
            // B's never-ticked set/dict field was validated by the replayed default delta: A and B differ from here on
            acc.unticked_field &= ok_cycles & ok_valid & ok_value & ok_delta & ok_recapture & ch.state & ch.modified;
        } else if (cc.dedup) {
            // state must still agree; only tick-ness / delta shape may differ, and only because of the de-duplicated empty delta
            acc.valid &= ok_valid;
            acc.value &= ok_value;
            acc.children &= ch.state;
            acc.empty_tick &= ok_cycles & ok_delta & ok_recapture & ch.modified;
        } else {
            acc.same_cycles &= ok_cycles;
            acc.valid &= ok_valid;
            acc.value &= ok_value;
            acc.delta &= ok_delta;
            acc.recapture &= ok_recapture;
            acc.children &= ch.state;
            acc.children_modified &= ch.modified;
        }
    }
    // every tick of these histories is a real tick (no invalidation, no scheduling-only notification): the recorder's
    // observability filter must keep all of them, valid or not (a tick window emits before it reaches min_period)
    verif_assert(!unrecorded_tick, "C20.every_tick_is_recorded");
    verif_assert(acc.same_cycles, "C20.same_cycles");
    verif_assert(acc.valid, "C20.same_validity");
    verif_assert(acc.value, "C20.same_value");
    verif_assert(acc.delta, "C20.same_delta");
    verif_assert(acc.recapture, "C20.recapture_equals_delta");
    verif_assert(acc.children, "C20.children_state_agrees");
    verif_assert(acc.children_modified, "C20.children_modified_agrees");
    verif_assert(acc.empty_tick, "C20.empty_tick_reproduced");
    verif_assert(acc.unticked_field, "C20.unticked_collection_field_stays_invalid");

    if (ticks >= 2) verif_reach("two_ticks");
    if (gap_then_tick) verif_reach("gap_then_tick");
    if (g_removed) verif_reach("key_removed");
    if (g_readd) verif_reach("key_removed_and_readded_same_cycle");
    if (g_add_remove) verif_reach("key_added_and_removed_same_cycle");
    if (g_empty_tick) verif_reach("empty_structural_tick");
    if (g_child_only) verif_reach("child_only_tick");
    if (saw_dedup) verif_reach("class_empty_delta_on_valid_collection");
    if (tainted) verif_reach("class_unticked_collection_field");
    if (below_min_recorded && ticks >= 3) verif_reach("window_push_below_min_period_recorded");
    verif_log("shape", shape);
    verif_log("ticks", ticks);
    verif_reach("end");
    return 0;
}

// C18 for a NATIVE-callback node whose evaluation may be refused by the readiness gate (node.cpp ready_to_evaluate,
// NodeTypeMetaData::valid_inputs): the scheduler tail of node.cpp evaluate_impl (advance / re-arm) must do its work also
// for evaluations that did not run user code.  Same scenario as C03_native_gate (hk/hk_native.h): inputs a (active) and
// b (passive or active), both required; a wake-up requested in start(), another one in the first run.
//   symbolic  : every emission time of a and b, both wake-up deltas, payloads;  enumerated: emissions per source, b active
//   oracle    : (1) at every requested time inside the run window the graph evaluates the node (observer), whatever else
//                   notified it before, ready or not; and if it is ready then user code runs;
//               (2) after every engine cycle the scheduler holds exactly the requests that are still in the future
//                   (is_scheduled / next_scheduled_time agree with the model: nothing pending at or before now);
//               (3) inside user code is_scheduled_now / is_scheduled / next_scheduled_time agree with the model;
//               (4) the run does not throw ("Graph cannot schedule a node in the past").
#include "hk_native.h"

using namespace hkn;

namespace {
// earliest of the first nreq_before requests that is still pending at `now`
DateTime min_pending(DateTime now, int nreq_before, bool at_entry, bool &any) {
    DateTime m = MAX_DT;
    any = false;
    for (int i = 0; i < nreq_before; i++) {
        // at user-code entry: requests made earlier that have not fired before now (a request for now is still there);
        // after a cycle: requests made so far for a later time
        bool live = at_entry ? (g_req[i].when >= now) : (g_req[i].when > now);
        any |= live;
        m = (live & (g_req[i].when < m)) ? g_req[i].when : m;
    }
    return m;
}
}  // namespace

extern "C" int harness_main() {
    const DateTime start = run_scenario();
    const DateTime end = start + TimeDelta{WIN};

    verif_assert(!g_overflow, "C18.log_overflow");
    verif_assert(!g_threw, "C18.native_run_threw");

    bool ok_woken = true, ok_ran = true, r_unready_fire = false, r_notified_before = false;
    for (int i = 0; i < g_nreq; i++) {
        DateTime T = g_req[i].when;
        bool in_window = T < end;
        bool ready = valid_at(0, T) & valid_at(1, T);
        ok_woken &= !in_window | node_evaluated_at(T);
        ok_ran &= !(in_window & ready) | ran_at(T);
        r_unready_fire |= in_window & !ready;
        bool notified_unready_before = false;
        for (int j = 0; j < g_nemit[0]; j++) {
            DateTime ta = g_emit[0][j].t;
            notified_unready_before |= (ta < T) & (ta > g_req[i].issued) & !(valid_at(0, ta) & valid_at(1, ta));
        }
        r_notified_before |= in_window & notified_unready_before;
    }
    verif_assert(ok_woken, "C18.native_node_not_woken_at_pending_time");
    verif_assert(ok_ran, "C18.native_pending_request_not_honoured_when_ready");

    bool ok_after = true, ok_not_past = true;
    for (int p = 0; p < g_nprobe; p++) {
        bool any;
        DateTime m = min_pending(g_probe[p].now, g_probe[p].nreq_before, false, any);
        ok_not_past &= !g_probe[p].is_sched | (g_probe[p].next > g_probe[p].now);
        ok_after &= (g_probe[p].is_sched == any) & (!any | (g_probe[p].next == m));
    }
    verif_assert(ok_not_past, "C18.native_pending_time_not_in_future_after_cycle");
    verif_assert(ok_after, "C18.native_queries_after_cycle");

    bool ok_entry = true;
    for (int i = 0; i < g_nrun && i < MAXRUN; i++) {
        bool any;
        DateTime m = min_pending(g_run[i].t, g_run[i].nreq_before, true, any);
        ok_entry &= (g_run[i].is_sched == any) & (!any | (g_run[i].next == m)) & (g_run[i].sched_now == (any & (m == g_run[i].t)));
    }
    verif_assert(ok_entry, "C18.native_queries_in_user_code");

    if (r_unready_fire) verif_reach("request_fired_while_not_ready");
    if (r_notified_before) verif_reach("notified_while_not_ready_before_pending_time");
    if (g_nreq == 2) verif_reach("second_request_from_run");
    if (g_nprobe >= 3) verif_reach("three_cycles");
    verif_log("runs", g_nrun);
    verif_reach("end");
    return 0;
}

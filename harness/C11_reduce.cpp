// C11: reduce equals the fold over exactly the currently valid elements.
//   real wire_reduce_tsd -> reduce_node (reduce_node.cpp) with a binary `add` combiner sub-graph
//   (hand-made WiredFn, compiled once by the wiring body, instantiated per combine point by the
//   runtime) over   COLL=0: TSD<Int,TS<Int>>   COLL=1: fixed TSL<TS<Int>,N>   COLL=2: dynamic TSL<TS<Int>>
//   fed by a scripted source, with / without a (live) zero.
//   enumerated: zero mode {none, constant, re-ticking every cycle}; key order (asc/desc); per cycle and
//               key the action {none, set (add/update), remove, remove+re-add, [phantom add], [add+remove]}
//               (lists: {none, set}); a BULK group of further keys acted on as a unit {none, set all,
//               remove all} to grow the tree over its capacity boundaries (2 -> 4 -> 8 -> 16 leaves)
//   symbolic  : every element value and every zero value (full int64)
//   oracle    : after every engine cycle (clock-driven checker ranked below the reduce node):
//                 no live valid element & no zero  -> output invalid
//                 no live valid element & zero     -> output == zero
//                 one element & zero               -> output == element + zero
//                 one element, no zero             -> output == element
//                 >= 2 elements                    -> output == sum of the live elements (zero symbol absent)
//               and the value last DELIVERED to a consumer that is activated only by the reduce
//               output equals the same fold (a missed tick leaves a stale value there).
#include "hk_ho.h"

#ifndef COLL
#define COLL 0
#endif
#ifndef NKEYS       // individually scripted keys / list elements
#define NKEYS 3
#endif
#ifndef BULK        // further keys acted on as one group
#define BULK 0
#endif
#ifndef NCYC
#define NCYC 3
#endif
#ifndef EXTRA_OPS   // TSD only. 1: also phantom add (key without value) and add+remove in one cycle
#define EXTRA_OPS 0
#endif
#ifndef ZMODES      // number of zero modes explored: 1 = none, 2 = +constant, 3 = +re-ticking
#define ZMODES 3
#endif
#ifndef ORDERS      // 1: keys applied ascending; 2: also descending (enumerated)
#define ORDERS 1
#endif

using namespace hk;

namespace {
using U = std::uint64_t;
constexpr int NK = NKEYS + BULK;
#if COLL == 0
using CollSchema = TSD<Int, TS<Int>>;
#elif COLL == 1
using CollSchema = TSL<TS<Int>, NK>;
#else
using CollSchema = TSL<TS<Int>>;
#endif
// ---- model ----
bool m_live[NK];     // key present with a value
bool m_phantom[NK];  // key present without a value
Int m_val[NK];
int g_zmode = 0;     // 0 none, 1 constant, 2 re-ticking
bool m_zero_valid = false;
Int m_zero = 0;
int g_order = 0;
// ---- observations ----
bool g_delivered = false;
Int g_last_delivered = 0;
int g_deliveries = 0;
int g_checks = 0;
bool ok_valid = true, ok_invalid = true, ok_value = true, ok_delivered = true;
bool r_removed = false, r_readd = false, r_empty_again = false, r_three = false, r_five = false, r_nine = false,
     r_singleton_zero = false, r_zero_empty = false, r_regrow = false, r_phantom = false, r_hole = false;
bool was_nonempty = false, was_empty_after = false;

struct AddInts {
    static constexpr auto name = "add";
    static void eval(In<"a", TS<Int>> a, In<"b", TS<Int>> b, Out<TS<Int>> out) { out.set((Int)((U)a.value() + (U)b.value())); }
};

// Scripted collection source: decides its actions lazily, cycle by cycle (so that symx shares the
// whole prefix of the run between scripts).
struct CollSrc {
    static constexpr auto name = "coll_src";
    static constexpr bool schedule_on_start = true;
    using OutT = Out<CollSchema>;
    static void set_key(int k, const OutT &out) {
        Int v = verif_i64("val");
        out[k].set(v);
        m_live[k] = true; m_phantom[k] = false; m_val[k] = v;
    }
#if COLL == 0
    static void remove_key(int k, const OutT &out) {
        for (int j = 0; j < k; j++) r_hole |= m_live[j];  // a lower key stays: the last dense leaf moves into the hole
        (void)out.erase(Int{k});
        m_live[k] = false; m_phantom[k] = false;
        r_removed = true;
    }
    static void apply_key(int k, const OutT &out) {
        bool present = m_live[k] || m_phantom[k];
        int nopt = present ? 4 : (EXTRA_OPS ? 4 : 2);
        int a = verif_choice("act", nopt);
        if (a == 0) return;
        if (!present) {
            if (a == 1) set_key(k, out);
            else if (a == 2) {  // phantom: key without a value
                (void)out[Int{k}];
                m_phantom[k] = true;
                r_phantom = true;
            } else {  // add + remove in one cycle (cancelled by the slot protocol)
                Int v = verif_i64("val");
                out[Int{k}].set(v);
                (void)out.erase(Int{k});
            }
            return;
        }
        if (a == 1) set_key(k, out);          // update (or first value of a phantom key)
        else if (a == 2) remove_key(k, out);  // remove
        else {                                // remove + re-add in the same cycle
            remove_key(k, out);
            set_key(k, out);
            r_readd = true;
        }
    }
    static void apply_bulk(const OutT &out) {
        if (BULK == 0) return;
        bool present = m_live[NKEYS];
        int a = verif_choice("bulk", present ? 3 : 2);
        if (a == 1) for (int k = NKEYS; k < NK; k++) set_key(k, out);
        if (a == 2) for (int k = NK - 1; k >= NKEYS; k--) remove_key(k, out);
    }
#else
    static void apply_key(int k, const OutT &out) {
        if (verif_choice("act", 2) == 1) set_key(k, out);
    }
    static void apply_bulk(const OutT &out) {
        if (BULK == 0) return;
        if (verif_choice("bulk", 2) == 1) for (int k = NKEYS; k < NK; k++) set_key(k, out);
    }
#endif
    static void eval(NodeScheduler s, State<Int> n, OutT out) {
        Int c = n.get();
        if (g_order == 0) { for (int k = 0; k < NKEYS; k++) apply_key(k, out); apply_bulk(out); }
        else { apply_bulk(out); for (int k = NKEYS - 1; k >= 0; k--) apply_key(k, out); }
        n.set(c + 1);
        if (c + 1 < NCYC) s.schedule(MIN_TD);
    }
};
struct ZeroSrc {
    static constexpr auto name = "zero_src";
    static constexpr bool schedule_on_start = true;
    static void eval(NodeScheduler s, State<Int> n, Out<TS<Int>> out) {
        Int c = n.get();
        if (g_zmode != 0 && (c == 0 || g_zmode == 2)) {
            Int z = verif_i64("zero");
            out.set(z);
            m_zero = z; m_zero_valid = true;
        }
        n.set(c + 1);
        if (c + 1 < NCYC) s.schedule(MIN_TD);
    }
};
struct Clock {
    static constexpr auto name = "clock";
    static constexpr bool schedule_on_start = true;
    static void eval(NodeScheduler s, State<Int> n, Out<TS<Int>> out) {
        Int c = n.get();
        out.set(c);
        n.set(c + 1);
        if (c + 1 < NCYC) s.schedule(MIN_TD);
    }
};
// activated only by the reduce output: what a plain consumer gets to see (its output only serves to
// rank the Checker after it)
struct Delivered {
    static constexpr auto name = "delivered";
    static void eval(In<"r", TS<Int>> r, Out<TS<Int>> out) {
        g_delivered = true;
        g_last_delivered = r.value();
        g_deliveries++;
        out.set(Int{g_deliveries});
    }
};
// evaluated every cycle (clock), ranked below the reduce node and the Delivered consumer
struct Checker {
    static constexpr auto name = "checker";
    static void eval(In<"clk", TS<Int>> clk, In<"r", TS<Int>, InputValidity::Unchecked, InputActivity::Passive> r,
                     In<"dep", TS<Int>, InputValidity::Unchecked, InputActivity::Passive> dep) {
        (void)clk; (void)dep;
        int n = 0;
        U sum = 0;
        for (int k = 0; k < NK; k++) {
            if (m_live[k]) { n++; sum += (U)m_val[k]; }
        }
        bool has_zero = g_zmode != 0;
        bool exp_valid = n > 0 || (has_zero && m_zero_valid);
        Int exp = (Int)sum;
        if (n == 0) exp = m_zero;
        else if (n == 1 && has_zero) exp = (Int)(sum + (U)m_zero);
        bool valid = r.valid();  // concrete: depends on the shape of the history only
        g_checks++;
        if (exp_valid) {
            ok_valid &= valid;
            if (valid) {
                ok_value &= (r.value() == exp);
                ok_delivered &= g_delivered & (g_last_delivered == exp);
            }
        } else {
            ok_invalid &= !valid;
        }
        if (n > 0) { if (was_empty_after) r_regrow = true; was_nonempty = true; }
        if (n == 0 && was_nonempty) { r_empty_again = true; was_empty_after = true; }
        if (n >= 3) r_three = true;
        if (n >= 5) r_five = true;
        if (n >= 9) r_nine = true;
        if (n == 1 && has_zero) r_singleton_zero = true;
        if (n == 0 && has_zero && was_nonempty) r_zero_empty = true;
    }
};

struct Top {
    static constexpr auto name = "top";
    static void compose(Wiring &w) {
        auto z = wire<ZeroSrc>(w);
        auto d = wire<CollSrc>(w);
        auto clk = wire<Clock>(w);
        std::optional<WiringPortRef> zero;
        if (g_zmode != 0) zero = z.erased();
        WiringPortRef r = ho::wire_reduce_tsd(w, Scalar<"func", WiredFn>{FnN<AddInts, 2>::make()}, d.erased(), zero);
        Port<TS<Int>> rp{w, r};
        auto t = wire<Delivered>(w, rp);
        wire<Checker>(w, clk, rp, t);
    }
};
}  // namespace

extern "C" int harness_main() {
    register_ho_scalars();
    g_zmode = verif_choice("zmode", ZMODES);
    g_order = ORDERS > 1 ? verif_choice("order", ORDERS) : 0;
    run_sim(build_graph<Top>(), MIN_ST, MIN_ST + TimeDelta{NCYC + 2});

    verif_assert(g_checks == NCYC, "C11.checker_ran_every_cycle");
    verif_assert(ok_invalid, "C11.invalid_when_empty_without_zero");
    verif_assert(ok_valid, "C11.valid_when_elements_or_zero");
    verif_assert(ok_value, "C11.value_equals_fold_of_live_elements");
    verif_assert(ok_delivered, "C11.delivered_value_equals_fold");
    if (r_removed) verif_reach("key_removed");
    if (r_hole) verif_reach("removed_while_lower_key_live");
    if (r_readd) verif_reach("key_removed_and_readded_same_cycle");
    if (r_empty_again) verif_reach("shrunk_to_empty");
    if (r_regrow) verif_reach("regrown_after_empty");
    if (r_three) verif_reach("three_live");
    if (r_five) verif_reach("five_live");
    if (r_nine) verif_reach("nine_live");
    if (r_singleton_zero) verif_reach("singleton_with_zero");
    if (r_zero_empty) verif_reach("empty_again_with_zero");
    if (r_phantom) verif_reach("phantom_key");
    verif_log("deliveries", g_deliveries);
    verif_reach("end");
    return 0;
}

// C11: reduce equals the fold over exactly the currently valid elements.
//   real wire_reduce_tsd -> reduce_node (reduce_node.cpp) with a binary `add` combiner sub-graph
//   (hand-made WiredFn, compiled once by the wiring body, instantiated per combine point by the
//   runtime) over   COLL=0: TSD<Int,TS<Int>>   COLL=1: fixed TSL<TS<Int>,N>   COLL=2: dynamic TSL<TS<Int>>
//   fed by a scripted source, with / without a (live) zero.
//   enumerated: zero mode {none, constant, re-ticking every cycle}; key order (asc/desc); per cycle and
//               key the action {none, set (add/update), remove, remove+re-add, [phantom add], [add+remove]}
//               (lists: {none, set}); a BULK group of further keys acted on as a unit {none, set all,
//               remove all} to grow the tree over its capacity boundaries (2 -> 4 -> 8 -> 16 leaves)
//   symbolic  : every element value and every zero value (full int64)
//   oracle    : after every engine cycle (clock-driven checker ranked below the reduce node):
//                 no live valid element & no zero  -> output invalid
//                 no live valid element & zero     -> output == zero
//                 one element & zero               -> output == element + zero
//                 one element, no zero             -> output == element
//                 >= 2 elements                    -> output == sum of the live elements (zero symbol absent)
//               and the value last DELIVERED to a consumer that is activated only by the reduce
//               output equals the same fold (a missed tick leaves a stale value there).
#include "hk_ho.h"

// One binary covers several configurations (enumerated first, so shards split on them):
//   {COLL, NKEYS, BULK, NCYC, EXTRA_OPS, ORDERS}
//   COLL      0 TSD, 1 fixed TSL (size TSLN = NKEYS+BULK), 2 dynamic TSL
//   NKEYS     individually scripted keys / list elements;  BULK  further keys acted on as one group
//   NCYC      engine cycles;  EXTRA_OPS (TSD) 1: also phantom add (key without value) and add+remove in one cycle
//   ORDERS    1: keys applied ascending; 2: also descending (enumerated)
#ifndef CONFIGS
#define CONFIGS {0, 3, 0, 3, 0, 2}, {0, 2, 4, 3, 0, 1}, {0, 2, 0, 3, 1, 1}, {1, 3, 2, 3, 0, 1}, {2, 3, 2, 3, 0, 1}
#endif
#ifndef TSLN        // size of the fixed TSL (every COLL=1 configuration must have NKEYS+BULK == TSLN)
#define TSLN 5
#endif
#ifndef ZMODES      // number of zero modes explored: 1 = none, 2 = +constant, 3 = +re-ticking
#define ZMODES 3
#endif

using namespace hk;

namespace {
using U = std::uint64_t;
struct Cfg { int coll, nkeys, bulk, ncyc, extra, orders; };
constexpr Cfg CFGS[] = {CONFIGS};
constexpr int NCFG = sizeof(CFGS) / sizeof(CFGS[0]);
constexpr int MAXK = 16;
Cfg G{};
int NKEYS = 0, BULK = 0, NK = 0, NCYC = 0;
// ---- model ----
bool m_live[MAXK];     // key present with a value
bool m_phantom[MAXK];  // key present without a value
Int m_val[MAXK];
int g_zmode = 0;     // 0 none, 1 constant, 2 re-ticking
bool m_zero_valid = false;
Int m_zero = 0;
int g_order = 0;
// ---- observations ----
bool g_delivered = false;
Int g_last_delivered = 0;
int g_deliveries = 0;
int g_checks = 0;
bool ok_valid = true, ok_invalid = true, ok_value = true, ok_delivered = true;
bool r_removed = false, r_readd = false, r_empty_again = false, r_three = false, r_five = false, r_nine = false,
     r_singleton_zero = false, r_zero_empty = false, r_regrow = false, r_phantom = false, r_hole = false;
bool was_nonempty = false, was_empty_after = false;

struct AddInts {
    static constexpr auto name = "add";
    static void eval(In<"a", TS<Int>> a, In<"b", TS<Int>> b, Out<TS<Int>> out) { out.set((Int)((U)a.value() + (U)b.value())); }
};

// Scripted collection source: decides its actions lazily, cycle by cycle (so that symx shares the
// whole prefix of the run between scripts).
template <class Schema, bool DICT> struct CollSrc {
    static constexpr auto name = "coll_src";
    static constexpr bool schedule_on_start = true;
    using OutT = Out<Schema>;
    static void set_key(int k, const OutT &out) {
        Int v = verif_i64("val");
        out[k].set(v);
        m_live[k] = true; m_phantom[k] = false; m_val[k] = v;
    }
    static void remove_key(int k, const OutT &out) {
        if constexpr (DICT) {
            for (int j = 0; j < k; j++) r_hole |= m_live[j];  // a lower key stays: another dense leaf moves into the hole
            (void)out.erase(Int{k});
            m_live[k] = false; m_phantom[k] = false;
            r_removed = true;
        }
    }
    static void apply_key(int k, const OutT &out) {
        if constexpr (!DICT) {
            if (verif_choice("act", 2) == 1) set_key(k, out);
        } else {
            bool present = m_live[k] || m_phantom[k];
            int nopt = present ? 4 : (G.extra ? 4 : 2);
            int a = verif_choice("act", nopt);
            if (a == 0) return;
            if (!present) {
                if (a == 1) set_key(k, out);
                else if (a == 2) {  // phantom: key without a value
                    (void)out[Int{k}];
                    m_phantom[k] = true;
                    r_phantom = true;
                } else {  // add + remove in one cycle (netted by the slot protocol)
                    Int v = verif_i64("val");
                    out[Int{k}].set(v);
                    (void)out.erase(Int{k});
                }
                return;
            }
            if (a == 1) set_key(k, out);          // update (or first value of a phantom key)
            else if (a == 2) remove_key(k, out);  // remove
            else {                                // erase + set in the same cycle (netted: an update)
                remove_key(k, out);
                set_key(k, out);
                r_readd = true;
            }
        }
    }
    static void apply_bulk(const OutT &out) {
        if (BULK == 0) return;
        bool present = m_live[NKEYS];
        int a = verif_choice("bulk", (DICT && present) ? 3 : 2);
        if (a == 1) for (int k = NKEYS; k < NK; k++) set_key(k, out);
        if (a == 2) for (int k = NK - 1; k >= NKEYS; k--) remove_key(k, out);
    }
    static void eval(NodeScheduler s, State<Int> n, OutT out) {
        Int c = n.get();
        if (g_order == 0) { for (int k = 0; k < NKEYS; k++) apply_key(k, out); apply_bulk(out); }
        else { apply_bulk(out); for (int k = NKEYS - 1; k >= 0; k--) apply_key(k, out); }
        n.set(c + 1);
        if (c + 1 < NCYC) s.schedule(MIN_TD);
    }
};
struct ZeroSrc {
    static constexpr auto name = "zero_src";
    static constexpr bool schedule_on_start = true;
    static void eval(NodeScheduler s, State<Int> n, Out<TS<Int>> out) {
        Int c = n.get();
        if (g_zmode != 0 && (c == 0 || g_zmode == 2)) {
            Int z = verif_i64("zero");
            out.set(z);
            m_zero = z; m_zero_valid = true;
        }
        n.set(c + 1);
        if (c + 1 < NCYC) s.schedule(MIN_TD);
    }
};
struct Clock {
    static constexpr auto name = "clock";
    static constexpr bool schedule_on_start = true;
    static void eval(NodeScheduler s, State<Int> n, Out<TS<Int>> out) {
        Int c = n.get();
        out.set(c);
        n.set(c + 1);
        if (c + 1 < NCYC) s.schedule(MIN_TD);
    }
};
// activated only by the reduce output: what a plain consumer gets to see (its output only serves to
// rank the Checker after it)
struct Delivered {
    static constexpr auto name = "delivered";
    static void eval(In<"r", TS<Int>> r, Out<TS<Int>> out) {
        g_delivered = true;
        g_last_delivered = r.value();
        g_deliveries++;
        out.set(Int{g_deliveries});
    }
};
// evaluated every cycle (clock), ranked below the reduce node and the Delivered consumer
struct Checker {
    static constexpr auto name = "checker";
    static void eval(In<"clk", TS<Int>> clk, In<"r", TS<Int>, InputValidity::Unchecked, InputActivity::Passive> r,
                     In<"dep", TS<Int>, InputValidity::Unchecked, InputActivity::Passive> dep) {
        (void)clk; (void)dep;
        int n = 0;
        U sum = 0;
        for (int k = 0; k < NK; k++) {
            if (m_live[k]) { n++; sum += (U)m_val[k]; }
        }
        bool has_zero = g_zmode != 0;
        bool exp_valid = n > 0 || (has_zero && m_zero_valid);
        Int exp = (Int)sum;
        if (n == 0) exp = m_zero;
        else if (n == 1 && has_zero) exp = (Int)(sum + (U)m_zero);
        bool valid = r.valid();  // concrete: depends on the shape of the history only
        g_checks++;
        if (exp_valid) {
            ok_valid &= valid;
            if (valid) {
                ok_value &= (r.value() == exp);
                ok_delivered &= g_delivered & (g_last_delivered == exp);
            }
        } else {
            ok_invalid &= !valid;
        }
        if (n > 0) { if (was_empty_after) r_regrow = true; was_nonempty = true; }
        if (n == 0 && was_nonempty) { r_empty_again = true; was_empty_after = true; }
        if (n >= 3) r_three = true;
        if (n >= 5) r_five = true;
        if (n >= 9) r_nine = true;
        if (n == 1 && has_zero) r_singleton_zero = true;
        if (n == 0 && has_zero && was_nonempty) r_zero_empty = true;
    }
};

struct Top {
    static constexpr auto name = "top";
    static void compose(Wiring &w) {
        auto z = wire<ZeroSrc>(w);
        WiringPortRef d;
        if (G.coll == 0) d = wire<CollSrc<TSD<Int, TS<Int>>, true>>(w).erased();
        else if (G.coll == 1) d = wire<CollSrc<TSL<TS<Int>, TSLN>, false>>(w).erased();
        else d = wire<CollSrc<TSL<TS<Int>>, false>>(w).erased();
        auto clk = wire<Clock>(w);
        std::optional<WiringPortRef> zero;
        if (g_zmode != 0) zero = z.erased();
        WiringPortRef r = ho::wire_reduce_tsd(w, Scalar<"func", WiredFn>{FnN<AddInts, 2>::make()}, d, zero);
        Port<TS<Int>> rp{w, r};
        auto t = wire<Delivered>(w, rp);
        wire<Checker>(w, clk, rp, t);
    }
};
}  // namespace

extern "C" int harness_main() {
    register_ho_scalars();
    G = CFGS[NCFG > 1 ? verif_choice("cfg", NCFG) : 0];
    NKEYS = G.nkeys; BULK = G.bulk; NK = NKEYS + BULK; NCYC = G.ncyc;
    if (NK > MAXK || (G.coll == 1 && NK != TSLN)) { verif_fail("C11.harness_configuration"); return 0; }
    g_zmode = verif_choice("zmode", ZMODES);
    g_order = G.orders > 1 ? verif_choice("order", G.orders) : 0;
    run_sim(build_graph<Top>(), MIN_ST, MIN_ST + TimeDelta{NCYC + 2});

    verif_assert(g_checks == NCYC, "C11.checker_ran_every_cycle");
    verif_assert(ok_invalid, "C11.invalid_when_empty_without_zero");
    verif_assert(ok_valid, "C11.valid_when_elements_or_zero");
    verif_assert(ok_value, "C11.value_equals_fold_of_live_elements");
    verif_assert(ok_delivered, "C11.delivered_value_equals_fold");
    if (r_removed) verif_reach("key_removed");
    if (r_hole) verif_reach("removed_while_lower_key_live");
    if (r_readd) verif_reach("key_removed_and_readded_same_cycle");
    if (r_empty_again) verif_reach("shrunk_to_empty");
    if (r_regrow) verif_reach("regrown_after_empty");
    if (r_three) verif_reach("three_live");
    if (r_five) verif_reach("five_live");
    if (r_nine) verif_reach("nine_live");
    if (r_singleton_zero) verif_reach("singleton_with_zero");
    if (r_zero_empty) verif_reach("empty_again_with_zero");
    if (r_phantom) verif_reach("phantom_key");
    verif_log("deliveries", g_deliveries);
    verif_reach("end");
    return 0;
}

// C01 for PARTIAL structural (TSB / fixed TSL) inputs: a consumer whose bundle / list input is wired with an initializer in
// which some children are left unwired (null source) - in every position, also BEFORE a wired child, also nested
// (TSB{a, l: TSL<2>, b} with a null leaf or a wholly null inner list) - must still be ranked after, and evaluated after,
// the producer of every wired child.
//   enumerated: base program (NNODES statements: node 0 a source, then source | add1(earlier statement)), the consumer
//               shape (TSB{a,b} with the other input x before / after it / absent, TSL<3>, nested TSB{a,TSL<2>,b}), per child
//               slot "null" or a producer among the base statements, x among the first statements, and the FORM of the
//               initializer: positional brace list with explicit null ports / named initializer listing only the wired
//               fields (missing fields filled with null sources by graph_wiring.h) / delayed_binding placeholders wired
//               BEFORE every producer and bound afterwards to the partial structural source (consumer first in statement
//               order; D = add1(consumer) may itself be bound into a slot => a cycle that must be rejected) / the partial
//               structural source passed as an argument of a nested child graph whose only node is the consumer;
//               RUN=1: which source ticks in which cycle
//   symbolic  : payloads (RUN=1)
//   oracle    : static  - cyclic <=> rejected; every user node once; every compiled edge source index < target index (root and
//                         child); an edge from every wired child's producer to the consumer (nested owner); consumer ranked
//                         after every producer it reads
//               dynamic - (RUN=1) as C01_eval: per graph per cycle indices strictly increase, no id twice, no consumer before
//                         a producer that runs in that cycle, every due direct producer has run, values = glitch-free model
#ifndef NNODES
#define NNODES 3
#endif
#ifndef RUN
#define RUN 0
#endif
#ifndef XCH  // x (the consumer's plain input) is chosen among the first XCH statements
#define XCH 2
#endif
#include <hgraph/types/subgraph_wiring.h>

#include "hk_c01.h"

using namespace c01;

namespace {
enum Shape : int { SH_B = 0, SH_BX, SH_B0, SH_L3, SH_N, SH_COUNT };
enum Form : int { F_POS = 0, F_NAMED, F_DELAYED, F_NESTED, F_COUNT };

using TsbAB = UnNamedTSB<Field<"a", TS<Int>>, Field<"b", TS<Int>>>;
using TslI2 = TSL<TS<Int>, 2>;
using TslI3 = TSL<TS<Int>, 3>;
using TsbN = UnNamedTSB<Field<"a", TS<Int>>, Field<"l", TslI2>, Field<"b", TS<Int>>>;

struct SP {
    int kind[NNODES], in0[NNODES];
    int nsrc = 1;
    int shape = 0, form = 0;
    int x = -1;            // producer of the plain input, -1 none
    int nslot = 0;
    int slot[4] = {-1, -1, -1, -1};  // producer per leaf slot in flattened order, -1 = null
    bool inner_null = false;         // SH_N: the inner list is ONE null source (slots 1, 2 unused)
    bool with_d = false;             // D = add1(consumer) exists (id CONS + 1)
    bool cyclic = false;
    int nuser = 0;
    bool reads[MAXID][MAXID];
    int depth_of[MAXID];
};
constexpr int CONS = NNODES, DNODE = NNODES + 1;
SP P;
Built B;
GraphBuilder g_child;
bool g_have_child = false;
const WiringInstance *g_owner = nullptr;

template <class T> Int val0(const T &t) { return t.valid() ? t.value() : Int{0}; }

struct PB {
    static constexpr auto name = "c01s_b";
    static void eval(In<"x", TS<Int>, InputValidity::Unchecked> x, In<"tsb", TsbAB, InputValidity::Unchecked> tsb, Scalar<"id", Int> id, Out<TS<Int>> out) {
        Int v = val0(x) + 3 * val0(tsb.field<"a">()) + 9 * val0(tsb.field<"b">()) + node_const(id.value());
        out.set(v);
        on_eval(id.value(), v);
    }
};
struct PBX {
    static constexpr auto name = "c01s_bx";
    static void eval(In<"tsb", TsbAB, InputValidity::Unchecked> tsb, In<"x", TS<Int>, InputValidity::Unchecked> x, Scalar<"id", Int> id, Out<TS<Int>> out) {
        Int v = val0(x) + 3 * val0(tsb.field<"a">()) + 9 * val0(tsb.field<"b">()) + node_const(id.value());
        out.set(v);
        on_eval(id.value(), v);
    }
};
struct PB0 {
    static constexpr auto name = "c01s_b0";
    static void eval(In<"tsb", TsbAB, InputValidity::Unchecked> tsb, Scalar<"id", Int> id, Out<TS<Int>> out) {
        Int v = 3 * val0(tsb.field<"a">()) + 9 * val0(tsb.field<"b">()) + node_const(id.value());
        out.set(v);
        on_eval(id.value(), v);
    }
};
struct PL3 {
    static constexpr auto name = "c01s_l3";
    static void eval(In<"x", TS<Int>, InputValidity::Unchecked> x, In<"l", TslI3, InputValidity::Unchecked> l, Scalar<"id", Int> id, Out<TS<Int>> out) {
        Int v = val0(x) + 3 * val0(l[0]) + 9 * val0(l[1]) + 27 * val0(l[2]) + node_const(id.value());
        out.set(v);
        on_eval(id.value(), v);
    }
};
struct PN {
    static constexpr auto name = "c01s_n";
    static void eval(In<"x", TS<Int>, InputValidity::Unchecked> x, In<"n", TsbN, InputValidity::Unchecked> n, Scalar<"id", Int> id, Out<TS<Int>> out) {
        auto l = n.field<"l">();
        // a wholly unwired inner list is an unbound input: size() still answers 2 but indexing it throws (IndexedTSDataView::at),
        // so it is only indexed when valid (valid <=> some element valid)
        const bool lv = l.valid();
        const Int l0 = lv ? val0(l[0]) : Int{0}, l1 = lv ? val0(l[1]) : Int{0};
        Int v = val0(x) + 3 * val0(n.field<"a">()) + 9 * l0 + 27 * l1 + 81 * val0(n.field<"b">()) + node_const(id.value());
        out.set(v);
        on_eval(id.value(), v);
    }
};

const TSValueTypeMetaData *ts_int() { return schema_descriptor<TS<Int>>::ts_meta(); }
const TSValueTypeMetaData *shape_schema(int sh) {
    if (sh == SH_L3) return schema_descriptor<TslI3>::ts_meta();
    if (sh == SH_N) return schema_descriptor<TsbN>::ts_meta();
    return schema_descriptor<TsbAB>::ts_meta();
}
bool slot_used(const SP &p, int k) { return k < p.nslot && !(p.shape == SH_N && p.inner_null && (k == 1 || k == 2)); }
bool slot_null(const SP &p, int k) { return !slot_used(p, k) || p.slot[k] < 0; }

// ---- enumeration
void choose(SP &p) {
    for (int i = 0; i < MAXID; i++) {
        p.depth_of[i] = 0;
        for (int j = 0; j < MAXID; j++) p.reads[i][j] = false;
    }
    p.kind[0] = K_SRC;
    p.in0[0] = -1;
    for (int i = 1; i < NNODES; i++) {
        int k = verif_choice("kind", 2) == 0 ? K_ADD1 : K_SRC;  // choice 0 = compute node (keeps the all-zero input feasible)
        p.kind[i] = k;
        p.in0[i] = -1;
        if (k == K_SRC) { verif_assume(p.nsrc < MAXSRC); p.nsrc++; }
        else { p.in0[i] = verif_choice("in0", i); p.reads[i][p.in0[i]] = true; }
    }
    p.shape = verif_choice("shape", SH_COUNT);
    p.form = verif_choice("form", F_COUNT);
    const bool tsb2 = p.shape == SH_B || p.shape == SH_BX || p.shape == SH_B0;
    if (p.form == F_NAMED) verif_assume(p.shape != SH_L3);
    if (p.form == F_NESTED) verif_assume(p.shape == SH_B || p.shape == SH_B0 || p.shape == SH_L3);
    if (p.form == F_DELAYED) verif_assume(p.shape != SH_N);
#if RUN
    // positional and named initializers compile to the same builder (checked statically by RUN=0): run only one of them
    if (tsb2) verif_assume(p.form != F_NAMED);
    if (p.shape == SH_N) verif_assume(p.form == F_NAMED);
#endif
    p.with_d = p.form == F_DELAYED || p.form == F_NESTED;
    p.nuser = p.with_d ? NNODES + 2 : NNODES + 1;
    if (p.shape != SH_B0) {
        p.x = p.shape == SH_N ? 0 : verif_choice("x", XCH < NNODES ? XCH : NNODES);
        p.reads[CONS][p.x] = true;
    }
    p.nslot = tsb2 ? 2 : p.shape == SH_L3 ? 3 : 4;
    if (p.shape == SH_N) p.inner_null = verif_bool("inner_null");
    const bool full = tsb2;                                   // TSB{a,b}: every base statement; larger shapes: {null, first, last}
    const bool with_back = p.form == F_DELAYED && !RUN;       // D = add1(consumer) may be bound into a slot (cycle)
    for (int k = 0; k < p.nslot; k++) {
        if (!slot_used(p, k)) continue;
        int nch = (full ? NNODES + 1 : 3) + (with_back ? 1 : 0);
        int c = verif_choice("slot", nch);
        int prod;
        if (full) prod = c == 0 ? -1 : c <= NNODES ? c - 1 : DNODE;
        else prod = c == 0 ? -1 : c == 1 ? 0 : c == 2 ? NNODES - 1 : DNODE;
        p.slot[k] = prod;
        if (prod >= 0) p.reads[CONS][prod] = true;
        if (prod == DNODE) p.cyclic = true;
    }
    if (p.with_d) p.reads[DNODE][CONS] = true;
    if (p.form == F_NESTED) p.depth_of[CONS] = 1;
}

// ---- wiring
WiringPortRef leaf(const SP &p, const Built &b, int k) { return p.slot[k] < 0 ? WiringPortRef::null_source(ts_int()) : b.port[p.slot[k]]; }

// the partial structural source built child by child (positional order), nulls explicit
WiringPortRef positional_source(const SP &p, const Built &b) {
    std::vector<WiringPortRef> ch;
    if (p.shape == SH_N) {
        const auto *inner = schema_descriptor<TslI2>::ts_meta();
        ch.push_back(leaf(p, b, 0));
        ch.push_back(p.inner_null ? WiringPortRef::null_source(inner) : WiringPortRef::structural_source(inner, {leaf(p, b, 1), leaf(p, b, 2)}));
        ch.push_back(leaf(p, b, 3));
    } else {
        for (int k = 0; k < p.nslot; k++) ch.push_back(leaf(p, b, k));
    }
    return WiringPortRef::structural_source(shape_schema(p.shape), std::move(ch));
}

template <class N> WiringPortRef wire_cons_x(Wiring &w, const WiringPortRef &x, const WiringPortRef &s) {
    return wire<N>(w, Port<void>{w, x}, Port<void>{w, s}, Int{CONS}).erased();
}

// consumer wired from ready-made sources (delayed placeholders / boundary shapes / a hand-made structural source)
WiringPortRef wire_consumer_from(Wiring &w, int shape, const WiringPortRef &x, const WiringPortRef &s) {
    switch (shape) {
        case SH_B: return wire_cons_x<PB>(w, x, s);
        case SH_BX: return wire<PBX>(w, Port<void>{w, s}, Port<void>{w, x}, Int{CONS}).erased();
        case SH_B0: return wire<PB0>(w, Port<void>{w, s}, Int{CONS}).erased();
        case SH_L3: return wire_cons_x<PL3>(w, x, s);
        default: return wire_cons_x<PN>(w, x, s);
    }
}

// the consumer wired with the real brace-list / named-initializer syntax
WiringPortRef wire_consumer_braces(Wiring &w, const SP &p, const Built &b) {
    const Int id{CONS};
    if (p.shape == SH_L3) {
        return wire<PL3>(w, Port<void>{w, b.port[p.x]}, {leaf(p, b, 0), leaf(p, b, 1), leaf(p, b, 2)}, id).erased();
    }
    if (p.shape == SH_N) {
        if (p.form == F_POS) {
            WiringPortRef s = positional_source(p, b);
            const auto &c = s.structural_children();
            return wire<PN>(w, Port<void>{w, b.port[p.x]}, {c[0], c[1], c[2]}, id).erased();
        }
        // named: only the wired fields are listed, last field first; a partly wired inner list is itself a structural child
        std::vector<WiringNamedPortRef> f;
        if (p.slot[3] >= 0) f.emplace_back("b", leaf(p, b, 3));
        if (!p.inner_null && (p.slot[1] >= 0 || p.slot[2] >= 0))
            f.emplace_back("l", WiringPortRef::structural_source(schema_descriptor<TslI2>::ts_meta(), {leaf(p, b, 1), leaf(p, b, 2)}));
        if (p.slot[0] >= 0) f.emplace_back("a", leaf(p, b, 0));
        return wire<PN>(w, Port<void>{w, b.port[p.x]}, WiringNamedStructuralSourceArg{std::move(f)}, id).erased();
    }
    const bool wa = p.slot[0] >= 0, wb = p.slot[1] >= 0;
    if (p.form == F_POS) {
        if (p.shape == SH_B) return wire<PB>(w, Port<void>{w, b.port[p.x]}, {leaf(p, b, 0), leaf(p, b, 1)}, id).erased();
        if (p.shape == SH_BX) return wire<PBX>(w, {leaf(p, b, 0), leaf(p, b, 1)}, Port<void>{w, b.port[p.x]}, id).erased();
        return wire<PB0>(w, {leaf(p, b, 0), leaf(p, b, 1)}, id).erased();
    }
    // named TSB{a,b}: {{"b",q}} / {{"a",p}} / {{"b",q},{"a",p}} / nothing listed
#define C01S_NAMED(INIT)                                                                                   \
    do {                                                                                                   \
        if (p.shape == SH_B) return wire<PB>(w, Port<void>{w, b.port[p.x]}, INIT, id).erased();            \
        if (p.shape == SH_BX) return wire<PBX>(w, INIT, Port<void>{w, b.port[p.x]}, id).erased();          \
        return wire<PB0>(w, INIT, id).erased();                                                            \
    } while (0)
    if (wa && wb) C01S_NAMED(WiringNamedStructuralSourceArg({{"b", b.port[p.slot[1]]}, {"a", b.port[p.slot[0]]}}));
    if (wb) C01S_NAMED(WiringNamedStructuralSourceArg({{"b", b.port[p.slot[1]]}}));
    if (wa) C01S_NAMED(WiringNamedStructuralSourceArg({{"a", b.port[p.slot[0]]}}));
    C01S_NAMED(WiringNamedStructuralSourceArg{});
#undef C01S_NAMED
}

void wire_base_s(Wiring &w, const SP &p, Built &b) {
    int ns = 0;
    for (int i = 0; i < NNODES; i++) {
        if (p.kind[i] == K_SRC) { g_src_index[i] = ns++; b.port[i] = wire<CSrc>(w, Int{i}).erased(); }
        else b.port[i] = wire<CAdd1>(w, Port<void>{w, b.port[p.in0[i]]}, Int{i}).erased();
        b.inst[i] = b.port[i].peered_node();
    }
}

void set_node(Built &b, int id, const WiringPortRef &port) {
    b.port[id] = port;
    b.inst[id] = port.peered_node();
}

struct Top {
    static constexpr auto name = "c01_struct";
    static void compose(Wiring &w) {
        const SP &p = P;
        Built &b = B;
        if (p.form == F_DELAYED) {
            // consumer (and its reader D) wired first, from placeholders; producers afterwards; then the bindings
            ErasedDelayedBindingWiringPort dx{w, ts_int()}, ds{w, shape_schema(p.shape)};
            set_node(b, CONS, wire_consumer_from(w, p.shape, dx.port(), ds.port()));
            set_node(b, DNODE, wire<CAdd1>(w, Port<void>{w, b.port[CONS]}, Int{DNODE}).erased());
            wire_base_s(w, p, b);
            if (p.x >= 0) dx.bind(b.port[p.x]);
            ds.bind(positional_source(p, b));
            return;
        }
        wire_base_s(w, p, b);
        if (p.form == F_NESTED) {
            std::vector<WiringPortRef> outer;
            if (p.x >= 0) outer.push_back(b.port[p.x]);
            outer.push_back(positional_source(p, b));
            const int shape = p.shape;
            const bool has_x = p.x >= 0;
            auto out = nested_call(w, "c01s_nested", std::type_index(typeid(SP)), std::move(outer),
                                   [shape, has_x](Wiring &cw, std::span<const WiringPortRef> in) -> std::optional<WiringPortRef> {
                                       return wire_consumer_from(cw, shape, in[0], in[has_x ? 1 : 0]);
                                   });
            g_owner = out->peered_node();
            set_node(b, DNODE, wire<CAdd1>(w, Port<void>{w, *out}, Int{DNODE}).erased());
            b.n_runtime_extra = 1;
            return;
        }
        set_node(b, CONS, wire_consumer_braces(w, p, b));
    }
};

// ---- inspection of the compiled graph (as C01_rank)
int id_of(const NodeBuilder &nb) {
    const Value &s = nb.scalars();
    if (!s.has_value()) return -1;
    auto bundle = s.view().try_as_bundle();
    if (!bundle.has_value() || !bundle->has_field("id")) return -1;
    return (int)bundle->at("id").checked_as<Int>();
}
bool name_is(const NodeBuilder &nb, const char *n) {
    const auto *schema = nb.type().schema();
    return schema != nullptr && schema->display_name != nullptr && std::string_view{schema->display_name} == n;
}
struct ChildGrab {
    static void visit(void *, ChildGraphInspectionView child) {
        if (child.graph == nullptr) return;
        g_child = *child.graph;
        g_have_child = true;
    }
};
void check_graph(const GraphBuilder &gb, int depth, int index_of[MAXID], bool &ok_once, bool &ok_edges) {
    const auto &nodes = gb.nodes();
    int seen[MAXID] = {};
    for (std::size_t i = 0; i < nodes.size(); i++) {
        int id = id_of(nodes[i]);
        if (id >= 0 && id < MAXID) { seen[id]++; index_of[id] = (int)i; }
    }
    for (int id = 0; id < P.nuser; id++) ok_once &= seen[id] == (P.depth_of[id] == depth ? 1 : 0);
    for (const GraphEdge &e : gb.edges()) {
        std::size_t src = graph_edge_source_node(e.source_node);
        if (src >= nodes.size() || e.target_node >= nodes.size()) { ok_edges = false; continue; }
        ok_edges &= src < e.target_node;
    }
}
bool has_edge(const GraphBuilder &gb, int src, int dst) {
    for (const GraphEdge &e : gb.edges())
        if ((int)graph_edge_source_node(e.source_node) == src && (int)e.target_node == dst) return true;
    return false;
}

// Would the consumer be ranked before one of its producers if the edges of the wired children that follow a null sibling
// were not seen?  Harness-side Kahn over its own description, ties broken by statement (instance) order as documented.
bool behind_null(const SP &p, int k) {
    for (int j = 0; j < k; j++) {
        if (p.shape == SH_N && p.inner_null && (j == 1 || j == 2)) { if (j == 1) return true; continue; }
        if (p.slot[j] < 0) return true;
    }
    return false;
}
bool unlucky_without_edges_after_null(const SP &p) {
    int order[MAXID], n = 0;  // statement order of the user nodes (the nested owner stands where the consumer is)
    if (p.form == F_DELAYED) { order[n++] = CONS; order[n++] = DNODE; }
    for (int i = 0; i < NNODES; i++) order[n++] = i;
    if (p.form != F_DELAYED) { order[n++] = CONS; if (p.with_d) order[n++] = DNODE; }
    bool edge[MAXID][MAXID];
    for (int i = 0; i < MAXID; i++) for (int j = 0; j < MAXID; j++) edge[i][j] = p.reads[i][j];
    bool dropped_any = false, dropped[MAXID] = {};
    for (int j = 0; j < NNODES; j++) {
        if (!p.reads[CONS][j]) continue;
        bool keep = p.x == j;
        for (int k = 0; k < p.nslot; k++) if (slot_used(p, k) && p.slot[k] == j && !behind_null(p, k)) keep = true;
        if (!keep) { edge[CONS][j] = false; dropped[j] = true; dropped_any = true; }
    }
    if (!dropped_any) return false;
    int indeg[MAXID] = {}, pos[MAXID], q[MAXID], qh = 0, qt = 0, np = 0;
    for (int a = 0; a < n; a++) for (int c = 0; c < n; c++) if (edge[order[a]][order[c]]) indeg[order[a]]++;
    for (int a = 0; a < n; a++) { pos[order[a]] = -1; if (indeg[order[a]] == 0) q[qt++] = order[a]; }
    while (qh < qt) {
        int v = q[qh++];
        pos[v] = np++;
        for (int a = 0; a < n; a++) if (edge[order[a]][v] && --indeg[order[a]] == 0) q[qt++] = order[a];
    }
    for (int j = 0; j < NNODES; j++) if (dropped[j] && pos[CONS] < pos[j]) return true;
    return false;
}

#if RUN
constexpr int OBS_CAP = 4 * MAXEV + 64;
EventLog<OBS_CAP> g_log;
struct Obs : RecordingObserver<OBS_CAP> {
    using RecordingObserver<OBS_CAP>::RecordingObserver;
    void on_before_graph_evaluation(const GraphView &g) override {
        if (g.is_root()) g_cycle++;
        RecordingObserver<OBS_CAP>::on_before_graph_evaluation(g);
    }
};
#endif
}  // namespace

extern "C" int harness_main() {
    choose(P);
#if RUN
    verif_assume(!P.cyclic);
#endif
    bool threw = false;
    GraphBuilder gb;
    try {
        gb = build_graph<Top>();
    } catch (const std::exception &) {
        threw = true;
    }
    if (P.cyclic) {
        verif_assert(threw, "C01.cyclic_wiring_through_partial_structural_source_not_rejected");
        bool after_null = false;
        for (int k = 0; k < P.nslot; k++) after_null |= slot_used(P, k) && P.slot[k] == DNODE && behind_null(P, k);
        if (after_null) verif_reach("cycle_closed_by_child_after_null_rejected");
        verif_reach("end");
        return 0;
    }
    verif_assert(!threw, "C01.acyclic_partial_structural_wiring_rejected");
    if (threw) { verif_reach("end"); return 0; }

    // ---- static side
    bool ok_once = true, ok_edges = true, ok_present = true, ok_count = true, ok_rank = true;
    int index_of[MAXID];
    for (int i = 0; i < MAXID; i++) index_of[i] = -1;
    check_graph(gb, 0, index_of, ok_once, ok_edges);
    int root_users = 0;
    for (int id = 0; id < P.nuser; id++) root_users += P.depth_of[id] == 0 ? 1 : 0;
    ok_count &= (int)gb.nodes().size() == root_users + B.n_runtime_extra;
    int cons_index = index_of[CONS];  // compiled index of the node that reads the partial structural source
    if (P.form == F_NESTED) {
        cons_index = -1;
        for (std::size_t i = 0; i < gb.nodes().size(); i++) if (name_is(gb.nodes()[i], "c01s_nested")) cons_index = (int)i;
        ok_present &= cons_index >= 0;
        if (cons_index >= 0) {
            gb.nodes()[cons_index].visit_child_graphs(nullptr, &ChildGrab::visit);
            ok_present &= g_have_child;
            if (g_have_child) {
                int cidx[MAXID];
                for (int i = 0; i < MAXID; i++) cidx[i] = -1;
                check_graph(g_child, 1, cidx, ok_once, ok_edges);
                ok_count &= g_child.nodes().size() == 1;
                verif_reach("partial_structural_source_as_nested_argument");
            }
            ok_present &= has_edge(gb, cons_index, index_of[DNODE]);
            ok_rank &= cons_index < index_of[DNODE];
        }
    }
    if (cons_index >= 0)
        for (int j = 0; j < NNODES; j++)
            if (P.reads[CONS][j]) {
                ok_present &= index_of[j] >= 0 && has_edge(gb, index_of[j], cons_index);
                ok_rank &= index_of[j] >= 0 && index_of[j] < cons_index;
            }
    for (int i = 0; i < P.nuser; i++)
        for (int j = 0; j < P.nuser; j++)
            if (P.reads[i][j] && i != CONS && j != CONS && index_of[i] >= 0 && index_of[j] >= 0) {
                ok_present &= has_edge(gb, index_of[j], index_of[i]);
                ok_rank &= index_of[j] < index_of[i];
            }
    if (P.with_d && P.form == F_DELAYED) {
        ok_present &= has_edge(gb, index_of[CONS], index_of[DNODE]);
        ok_rank &= index_of[CONS] < index_of[DNODE];
    }
    verif_assert(ok_once, "C01.partial_struct_node_missing_or_duplicated_in_compiled_graph");
    verif_assert(ok_count, "C01.partial_struct_compiled_node_count");
    verif_assert(ok_edges, "C01.partial_struct_edge_source_not_before_target");
    verif_assert(ok_present, "C01.partial_struct_data_edge_missing_from_compiled_graph");
    verif_assert(ok_rank, "C01.partial_struct_consumer_not_ranked_after_producer");

    // ---- situations reached
    bool null_before_wired = false, null_before_deep = false, all_null = true, trailing_null = false, same_twice = false;
    for (int k = 0; k < P.nslot; k++) {
        if (!slot_used(P, k) || P.slot[k] < 0) continue;
        all_null = false;
        if (behind_null(P, k)) {
            null_before_wired = true;
            if (P.kind[P.slot[k]] != K_SRC) null_before_deep = true;
        }
        for (int j = k + 1; j < P.nslot; j++) {
            if (slot_null(P, j)) trailing_null = true;
            else if (P.slot[j] == P.slot[k]) same_twice = true;
        }
    }
    const bool unlucky = unlucky_without_edges_after_null(P);
    if (null_before_wired) verif_reach("null_child_before_wired_child");
    if (null_before_deep) verif_reach("null_child_before_child_from_compute_node");
    if (unlucky) verif_reach("consumer_would_precede_producer_without_edge_after_null");
    if (unlucky && P.form == F_NAMED) verif_reach("named_partial_initializer_unlucky_order");
    if (unlucky && P.form == F_POS && P.shape == SH_L3 && P.slot[0] < 0) verif_reach("tsl_first_element_null_unlucky_order");
    if (unlucky && P.form == F_DELAYED) verif_reach("delayed_leaf_bound_to_null_before_wired_leaf");
    if (unlucky && P.form == F_NESTED) verif_reach("nested_owner_would_precede_producer");
    if (P.shape == SH_N && unlucky && P.inner_null) verif_reach("whole_inner_list_null_before_wired_field");
    if (P.shape == SH_N && unlucky && !P.inner_null && P.slot[1] < 0 && P.slot[2] >= 0) verif_reach("nested_inner_null_before_wired_element");
    if (all_null) verif_reach("all_children_null");
    if (trailing_null) verif_reach("wired_child_before_null_child");
    if (same_twice) verif_reach("same_producer_in_two_children");

#if RUN
    // ---- dynamic side
    const DateTime start = at_us(1000);
    Obs obs{&g_log};
    run_sim(std::move(gb), start, start + TimeDelta{NCYC + 2}, &obs);
    verif_assert(!g_log.overflow && !g_ev_overflow, "C01.log_overflow");

    bool ok_root = true, ok_nested = true, ok_brackets = true;
    {
        std::int64_t last[2] = {-1, -1};
        bool open[2] = {false, false};
        for (int i = 0; i < g_log.n; i++) {
            const Event &e = g_log.ev[i];
            int d = e.depth;
            if (e.kind == EV_GRAPH_BEGIN) { ok_brackets &= !open[d]; open[d] = true; last[d] = -1; }
            if (e.kind == EV_GRAPH_END) { ok_brackets &= open[d]; open[d] = false; }
            if (e.kind == EV_NODE_BEGIN) {
                ok_brackets &= open[d];
                bool inc = e.node > last[d];
                if (d == 0) ok_root &= inc; else ok_nested &= inc;
                last[d] = e.node;
            }
        }
    }
    verif_assert(ok_brackets, "C01.partial_struct_node_evaluated_outside_graph_evaluation");
    verif_assert(ok_root, "C01.partial_struct_root_node_indices_not_strictly_increasing_in_cycle");
    verif_assert(ok_nested, "C01.partial_struct_nested_node_indices_not_strictly_increasing_in_cycle");

    bool ok_twice = true, ok_order = true;
    for (int a = 0; a < g_nev; a++)
        for (int c = a + 1; c < g_nev; c++) {
            if (g_ev[a].cycle != g_ev[c].cycle) continue;
            ok_twice &= g_ev[a].id != g_ev[c].id;
            ok_order &= !P.reads[g_ev[a].id][g_ev[c].id];
        }
    verif_assert(ok_twice, "C01.partial_struct_node_ran_twice_in_cycle");
    verif_assert(ok_order, "C01.partial_struct_consumer_ran_before_producer");

    bool ok_val = true, ok_due = true, r_together = false, r_multi = false;
    {
        Int cur[MAXID];
        bool has[MAXID];
        for (int i = 0; i < P.nuser; i++) { cur[i] = 0; has[i] = false; }
        static const Int W[4] = {3, 9, 27, 81};
        for (int c = 0; c <= g_cycle; c++) {
            bool ticked[MAXID], ran[MAXID], due[MAXID];
            for (int i = 0; i < P.nuser; i++) ticked[i] = ran[i] = due[i] = false;
            for (int i = 0; i < P.nuser; i++) {  // ids ascend along the data dependencies
                const EvalRec *rec = nullptr;
                for (int e = 0; e < g_nev; e++) if (g_ev[e].cycle == c && g_ev[e].id == i) rec = &g_ev[e];
                ran[i] = rec != nullptr;
                if (i < NNODES && P.kind[i] == K_SRC) {
                    int k = g_src_index[i];
                    if (c < NCYC && g_tick[k][c]) { cur[i] = g_val[k][c]; has[i] = true; ticked[i] = true; }
                    continue;
                }
                for (int j = 0; j < P.nuser; j++) due[i] |= P.reads[i][j] && ticked[j];
                if (rec == nullptr) continue;
                for (int j = 0; j < P.nuser; j++)
                    if (P.reads[i][j] && due[j] && !ran[j]) ok_due = false;
                Int want = node_const(i);
                if (i == CONS) {
                    if (P.x >= 0 && has[P.x]) want += cur[P.x];
                    int nt = P.x >= 0 && ticked[P.x] ? 1 : 0;
                    for (int k = 0; k < P.nslot; k++) {
                        if (slot_null(P, k)) continue;
                        if (has[P.slot[k]]) want += W[k] * cur[P.slot[k]];
                        if (ticked[P.slot[k]]) {
                            nt++;
                            if (behind_null(P, k) && P.kind[P.slot[k]] != K_SRC && ran[P.slot[k]]) r_together = true;
                        }
                    }
                    if (nt >= 2) r_multi = true;
                } else {
                    int a = i == DNODE ? CONS : P.in0[i];
                    if (has[a]) want += cur[a];
                }
                ok_val &= rec->value == want;
                cur[i] = rec->value;
                has[i] = true;
                ticked[i] = true;
            }
        }
    }
    verif_assert(ok_val, "C01.partial_struct_value_read_before_producer_updated");
    verif_assert(ok_due, "C01.partial_struct_consumer_ran_without_due_producer");
    if (r_together) verif_reach("consumer_and_compute_producer_behind_null_ran_in_one_cycle");
    if (r_together && unlucky) verif_reach("unlucky_order_ran");
    if (r_multi) verif_reach("several_inputs_ticked_in_one_cycle");
    if (P.form == F_NESTED) {
        bool inner = false;
        for (int e = 0; e < g_nev; e++) inner |= g_ev[e].id == CONS;
        if (inner) verif_reach("nested_consumer_evaluated");
    }
    verif_log("evals", g_nev);
#else
    verif_log("nodes", (std::int64_t)gb.nodes().size());
#endif
    verif_reach("end");
    return 0;
}

// C05 (unit level, no graph): collection deltas are coherent with collection values at every tick.
// A real TSOutput of a collection shape is mutated by a bounded scripted producer; after every cycle the
// value and the per-tick delta are read back through the producer view, through a bound TSInput consumer
// (the "mirror node"), through delta_value() and through capture_delta(), and are compared with each other,
// with the previous tick's value and with a mirror model.
//   symbolic  : base time, gaps between cycles, all payload values
//   enumerated: per cycle NOPS mutations (shape specific), keys / indices (concrete)
//   oracle    : value(t) == value(t_prev) (+) delta(t) starting from empty; added and removed are disjoint;
//               added elements are present, removed elements are absent and were present before; mutations
//               that cancel within a cycle leave no trace; modified entries carry the new value, unmodified
//               entries keep the old one; a tick-count window holds exactly the last N pushed values in
//               order and is all_valid once min_period values are held.
#include "hk_ts.h"

#include <hgraph/types/time_series/ts_delta.h>
#include <hgraph/types/value/value_builder.h>

#ifndef SHAPE
#define SHAPE 0  // 0 TSS<int>  1 TSD<int,TS<int>>  2 TSL<TS<int>> (dynamic)  3 TSB{a,b}  4 TSW<int,N,min>  5 TSD<int,TSS<int>>
#endif
#ifndef NCYC
#define NCYC 3
#endif
#ifndef NOPS
#define NOPS 2
#endif
#ifndef GMAX
#define GMAX 1000
#endif
#ifndef NK
#define NK 3  // concrete key universe {0..NK-1}
#endif
#ifndef RAMP
#define RAMP 0  // thorough: RAMP extra keys 100.. inserted one per op in a first cycle, to cross slot-store growth boundaries
#endif
#ifndef EXT_OPS
#define EXT_OPS 1  // TSD: also create-without-write and element invalidation (keys that are live but not published)
#endif
#ifndef VMAX
#define VMAX 1000000
#endif

using namespace hkts;

namespace {
constexpr int NU = NK + RAMP;  // universe size
inline I64 key_of(int u) { return u < NK ? (I64)u : (I64)(100 + (u - NK)); }
inline int index_of(I64 key) {
    if (key >= 0 && key < NK) return (int)key;
    if (key >= 100 && key < 100 + RAMP) return NK + (int)(key - 100);
    return -1;
}

TSOutput *g_out = nullptr;
Consumer *g_cons = nullptr;

bool ok_model = true, ok_disjoint = true, ok_added_present = true, ok_removed_absent = true, ok_no_trace = true,
     ok_apply = true, ok_values = true, ok_views = true, ok_quiet = true, ok_window = true, ok_struct = true,
     ok_apply_unpub = true, ok_views_unpub = true, ok_values_unpub = true;
bool g_unpublished_used = false;  // TSD: the history contains a key that is live without a published value

// read a range of int keys into a membership vector over the universe; foreign keys are counted
template <class R> int read_keys(R range, bool *in) {
    for (int u = 0; u < NU; u++) in[u] = false;
    int foreign = 0;
    for (auto v : range) {
        int u = index_of(as_i64(v));
        if (u < 0 || in[u]) foreign++; else in[u] = true;
    }
    return foreign;
}
void read_set_value(const ValueView &set, bool *in, int &foreign) {
    for (int u = 0; u < NU; u++) in[u] = false;
    foreign = 0;
    if (!set.has_value()) { foreign = 1000; return; }
    auto s = set.as_set();
    int n = 0;
    for (int u = 0; u < NU; u++) {
        Value key{Int{key_of(u)}};
        in[u] = s.contains(key.view());
        n += in[u] ? 1 : 0;
    }
    foreign = (int)s.size() - n;
}

// ================================================================================================
#if SHAPE == 0
const TSValueTypeMetaData *shape_schema() { return schemas().tss; }
bool g_model[NU];
bool g_prev[NU];
bool g_ticked = false;
constexpr int N_OPKINDS = 4;  // none, add k, remove k, clear
void apply_op(int op, DateTime t) {
    if (op == 0) return;
    auto ov = g_out->view(t);
    auto os = ov.as_set();
    auto m = os.begin_mutation(t);
    g_ticked = true;
    if (op == 3) {
        m.clear();
        for (int u = 0; u < NU; u++) g_model[u] = false;
        return;
    }
    int k = verif_choice("key", NK);
    Value key{Int{(I64)k}};
    if (op == 1) {
        bool r = m.add(key.view());
        ok_struct &= (r == !g_model[k]);
        if (!g_model[k] && g_prev[k]) verif_reach("removed_and_readded_same_cycle");
        g_model[k] = true;
    } else {
        bool r = m.remove(key.view());
        ok_struct &= (r == g_model[k]);
        if (g_model[k] && !g_prev[k]) verif_reach("added_and_removed_same_cycle");
        g_model[k] = false;
    }
}
void ramp(DateTime t) {
    auto ov = g_out->view(t);
    auto os = ov.as_set();
    auto m = os.begin_mutation(t);
    for (int j = 0; j < RAMP; j++) {
        Value key{Int{key_of(NK + j)}};
        bool r = m.add(key.view());
        ok_struct &= r;
        g_model[NK + j] = true;
    }
    g_ticked = true;
    if (RAMP) verif_reach("growth_ramp");
}
template <class SetV> void observe(const SetV &s, bool modified, const ValueView *delta, bool *cur_out) {
    bool cur[NU], add[NU], rem[NU];
    int n = 0;
    for (int u = 0; u < NU; u++) {
        Value key{Int{key_of(u)}};
        cur[u] = s.contains(key.view());
        n += cur[u] ? 1 : 0;
    }
    bool vals[NU];
    int f0 = read_keys(s.values(), vals);
    int fa = read_keys(s.added(), add);
    int fr = read_keys(s.removed(), rem);
    ok_views &= (f0 == 0) & (fa == 0) & (fr == 0) & ((int)s.size() == n);
    for (int u = 0; u < NU; u++) {
        ok_views &= (vals[u] == cur[u]);
        ok_model &= (cur[u] == g_model[u]);
        ok_disjoint &= !(add[u] & rem[u]);
        ok_added_present &= (!add[u]) | cur[u];
        ok_removed_absent &= (!rem[u]) | !cur[u];
        ok_no_trace &= ((!rem[u]) | g_prev[u]) & ((!add[u]) | !g_prev[u]);
        ok_apply &= (cur[u] == ((g_prev[u] & !rem[u]) | add[u]));
        if (!modified) ok_quiet &= (!add[u]) & (!rem[u]);
    }
    if (delta) {
        ok_views &= (delta->has_value() == modified);
        if (delta->has_value()) {
            bool da[NU], dr[NU];
            int x, y;
            auto b = delta->as_bundle();
            read_set_value(b.at("added"), da, x);
            read_set_value(b.at("removed"), dr, y);
            ok_views &= (x == 0) & (y == 0);
            for (int u = 0; u < NU; u++) ok_views &= (da[u] == add[u]) & (dr[u] == rem[u]);
        }
    }
    if (cur_out) for (int u = 0; u < NU; u++) cur_out[u] = cur[u];
}
void check_cycle(DateTime t) {
    bool cur[NU];
    {
        auto ov = g_out->view(t);
        ok_model &= (ov.modified() == g_ticked);
        auto os = ov.as_set();
        ValueView d = ov.delta_value();
        observe(os, g_ticked, &d, cur);
    }
    {
        auto iv = g_cons->view(t);
        ok_views &= (iv.modified() == g_ticked);
        auto is = iv.as_set();
        ValueView d = iv.delta_value();
        observe(is, g_ticked, &d, nullptr);
        if (g_ticked) {
            Value cap = capture_delta(iv);
            ValueView cv = cap.view();
            observe(is, true, &cv, nullptr);
        }
    }
    for (int u = 0; u < NU; u++) g_prev[u] = cur[u];
    g_ticked = false;
}
#endif

// ================================================================================================
#if SHAPE == 1
const TSValueTypeMetaData *shape_schema() { return schemas().tsd; }
struct Entry { bool live = false; bool cvalid = false; I64 val = 0; };
Entry g_model[NU];
Entry g_prev[NU];
bool g_written[NU];  // element written (and still live) in the current cycle
bool g_ticked = false;
constexpr int N_OPKINDS = EXT_OPS ? 7 : 5;  // none, set k v, erase k, clear, element write k v, [create k, invalidate element k]
void apply_op(int op, DateTime t) {
    if (op == 0) return;
    auto ov = g_out->view(t);
    auto od = ov.as_dict();
    if (op == 3) {
        auto m = od.begin_mutation(t);
        m.clear();
        for (int u = 0; u < NU; u++) { g_model[u] = Entry{}; g_written[u] = false; }
        g_ticked = true;
        return;
    }
    int k = verif_choice("key", NK);
    Value key{Int{(I64)k}};
    if (op == 1) {
        I64 v = verif_range("val", -VMAX, VMAX);
        Value val{Int{v}};
        auto m = od.begin_mutation(t);
        m.set(key.view(), val.view());
        if (!g_model[k].live && g_prev[k].live) verif_reach("removed_and_readded_same_cycle");
        g_model[k] = Entry{true, true, v};
        g_written[k] = true;
        g_ticked = true;
    } else if (op == 2) {
        auto m = od.begin_mutation(t);
        bool r = m.erase(key.view());
        ok_struct &= (r == g_model[k].live);
        if (g_model[k].live && !g_prev[k].live) verif_reach("added_and_removed_same_cycle");
        g_model[k] = Entry{};
        g_written[k] = false;
        g_ticked = true;
    } else if (op == 4) {
        if (!g_model[k].live) return;
        I64 v = verif_range("val", -VMAX, VMAX);
        write_i64(od.at(key.view()), t, v);
        verif_reach("element_only_write");
        g_model[k].cvalid = true; g_model[k].val = v;
        g_written[k] = true;
        g_ticked = true;
    } else if (op == 5) {  // create the key without writing its element
        auto m = od.begin_mutation(t);
        bool fresh = !g_model[k].live;
        (void)m.at(key.view());
        if (!fresh) return;  // at() on an existing key is a pure lookup
        // a key erased earlier in this cycle is resurrected with its element intact
        bool resurrect = g_prev[k].live;
        g_model[k].live = true;
        g_model[k].cvalid = resurrect ? g_prev[k].cvalid : false;
        g_model[k].val = resurrect ? g_prev[k].val : 0;
        if (!g_model[k].cvalid) { g_unpublished_used = true; verif_reach("key_created_without_value"); }
        g_ticked = true;
    } else if (op == 6) {
        if (!g_model[k].live || !g_model[k].cvalid) return;
        bool r = invalidate(od.at(key.view()), t);
        ok_struct &= r;
        g_model[k].cvalid = false;
        g_written[k] = false;
        g_unpublished_used = true;
        verif_reach("element_invalidated");
        g_ticked = true;
    }
}
void ramp(DateTime t) {
    auto ov = g_out->view(t);
    auto od = ov.as_dict();
    auto m = od.begin_mutation(t);
    for (int j = 0; j < RAMP; j++) {
        Value key{Int{key_of(NK + j)}};
        Value val{Int{(I64)(1000 + j)}};
        m.set(key.view(), val.view());
        g_model[NK + j] = Entry{true, true, 1000 + j};
        g_written[NK + j] = true;
    }
    g_ticked = true;
    if (RAMP) verif_reach("growth_ramp");
}
struct Obs { bool live[NU], cvalid[NU], add[NU], rem[NU], mod[NU]; I64 val[NU]; };
template <class DictV> void observe(const DictV &d, bool modified, const ValueView *delta, Obs &o) {
    int n = 0;
    for (int u = 0; u < NU; u++) {
        Value key{Int{key_of(u)}};
        o.live[u] = d.contains(key.view());
        o.cvalid[u] = false; o.val[u] = 0;
        if (o.live[u]) {
            n++;
            auto el = d.at(key.view());
            o.cvalid[u] = el.valid();
            if (o.cvalid[u]) o.val[u] = as_i64(el.value());
        }
    }
    bool keys[NU];
    int f0 = read_keys(d.keys(), keys);
    int fa = read_keys(d.added_keys(), o.add);
    int fr = read_keys(d.removed_keys(), o.rem);
    int fm = read_keys(d.modified_keys(), o.mod);
    ok_views &= (f0 == 0) & (fa == 0) & (fr == 0) & (fm == 0) & ((int)d.size() == n);
    bool &apply = g_unpublished_used ? ok_apply_unpub : ok_apply;
    bool &values = g_unpublished_used ? ok_values_unpub : ok_values;
    for (int u = 0; u < NU; u++) {
        ok_views &= (keys[u] == o.live[u]);
        ok_model &= (o.live[u] == g_model[u].live);
        if (g_model[u].live) {
            ok_model &= (o.cvalid[u] == g_model[u].cvalid);
            if (g_model[u].cvalid) ok_model &= (o.val[u] == g_model[u].val);
        }
        ok_disjoint &= !(o.add[u] & o.rem[u]);
        ok_added_present &= (!o.add[u]) | o.live[u];
        // structural part of value(t) == value(t_prev) (+) delta(t)
        apply &= (o.live[u] == ((g_prev[u].live & !o.rem[u]) | o.add[u]));
        apply &= (!o.rem[u]) | !o.live[u];                                  // removed keys are absent afterwards
        apply &= ((!o.rem[u]) | g_prev[u].live) & ((!o.add[u]) | !g_prev[u].live);  // ... were present before / no trace of cancelled pairs
        // modified entries: exactly the live entries whose element was written in this cycle
        values &= (o.mod[u] == (g_written[u] & g_model[u].live & g_model[u].cvalid));
        values &= (!o.add[u]) | o.mod[u];  // an added entry comes with its value
        if (o.live[u] && g_prev[u].live && !o.mod[u] && o.cvalid[u] && g_prev[u].cvalid) ok_values &= (o.val[u] == g_prev[u].val);
        if (!modified) ok_quiet &= (!o.add[u]) & (!o.rem[u]) & (!o.mod[u]);
    }
    if (delta) {
        ok_views &= (delta->has_value() == modified);
        if (delta->has_value()) {
            bool dr[NU];
            int x;
            auto b = delta->as_bundle();
            read_set_value(b.at("removed"), dr, x);
            bool &views = g_unpublished_used ? ok_views_unpub : ok_views;
            views &= (x == 0);
            ValueView mm = b.at("modified");
            ok_views &= mm.has_value();
            if (mm.has_value()) {
                auto map = mm.as_map();
                int nm = 0;
                for (int u = 0; u < NU; u++) {
                    Value key{Int{key_of(u)}};
                    bool in = map.contains(key.view());
                    views &= (dr[u] == o.rem[u]) & (in == o.mod[u]);
                    if (in) { nm++; if (o.mod[u]) ok_values &= (as_i64(map.at(key.view())) == o.val[u]); }
                }
                views &= ((int)map.size() == nm);
            }
        }
    }
}
void check_cycle(DateTime t) {
    Obs po, co;
    {
        auto ov = g_out->view(t);
        ok_model &= (ov.modified() == g_ticked);
        auto od = ov.as_dict();
        ValueView d = ov.delta_value();
        observe(od, g_ticked, &d, po);
    }
    {
        auto iv = g_cons->view(t);
        ok_views &= (iv.modified() == g_ticked);
        auto id = iv.as_dict();
        ValueView d = iv.delta_value();
        observe(id, g_ticked, &d, co);
        if (g_ticked) {
            Value cap = capture_delta(iv);
            ValueView cv = cap.view();
            observe(id, true, &cv, co);
        }
    }
    for (int u = 0; u < NU; u++) {
        g_prev[u].live = po.live[u]; g_prev[u].cvalid = po.cvalid[u]; g_prev[u].val = po.val[u];
        g_written[u] = false;
    }
    g_ticked = false;
}
#endif

// ================================================================================================
#if SHAPE == 2 || SHAPE == 3
// indexed collections of TS<int>: dynamic TSL (2; grows on first touch of an index) and TSB{a,b} (3)
#ifndef NI
#define NI 3  // index universe of the dynamic list
#endif
#if SHAPE == 2
constexpr int NX = NI;
const TSValueTypeMetaData *shape_schema() { return schemas().tsl_dyn; }
#else
constexpr int NX = 2;
const TSValueTypeMetaData *shape_schema() { return schemas().tsb; }
#endif
struct Elem { bool valid = false; I64 val = 0; };
int g_size = (SHAPE == 3 ? 2 : 0), g_prev_size = (SHAPE == 3 ? 2 : 0);
Elem g_model[NX], g_prev[NX];
bool g_written[NX];
bool g_ticked = false;
constexpr int N_OPKINDS = 4;  // none, write element i, whole-value write (all elements), whole-value write (first element only / prefix)
Value whole_value(I64 v0, I64 v1, bool both) {
#if SHAPE == 3
    BundleBuilder bb{ValuePlanFactory::instance().type_for(schemas().tsb->value_schema)};
    Value a{Int{v0}}, b{Int{v1}};
    bb.set("a", a.view());
    if (both) bb.set("b", b.view());
    return bb.build();
#else
    ListBuilder lb{ValuePlanFactory::instance().type_for(schemas().i64)};
    lb.push_back(Int{v0});
    if (both) lb.push_back(Int{v1});
    return lb.build();
#endif
}
void apply_op(int op, DateTime t) {
    if (op == 0) return;
    auto ov = g_out->view(t);
    if (op == 1) {
        int i = verif_choice("idx", NX);
        I64 v = verif_range("val", -VMAX, VMAX);
        write_i64(ov.indexed_child_at((std::size_t)i), t, v);
        if (i >= g_size) { g_size = i + 1; verif_reach("list_grew"); }
        if (g_written[i]) verif_reach("element_written_twice_in_cycle");
        g_model[i] = Elem{true, v};
        g_written[i] = true;
        g_ticked = true;
    } else {
        bool both = (op == 2);
#if SHAPE == 2
        if (!both && g_size > 1) return;  // a shorter whole value on a longer dynamic list is not exercised
        if (both && g_size > 2) return;
#endif
        I64 v0 = verif_range("val", -VMAX, VMAX), v1 = verif_range("val", -VMAX, VMAX);
        Value whole = whole_value(v0, v1, both);
        auto m = ov.begin_mutation(t);
        (void)m.copy_value_from(whole.view());
        verif_reach("whole_value_write");
        g_model[0] = Elem{true, v0}; g_written[0] = true;
        if (both) { g_model[1] = Elem{true, v1}; g_written[1] = true; }
        int n = both ? 2 : 1;
        if (n > g_size) g_size = n;
        g_ticked = true;
    }
}
void ramp(DateTime) {}
struct Obs { int size; bool valid[NX], mod[NX]; I64 val[NX]; };
template <class V> int size_of(const V &v) {
#if SHAPE == 2
    auto l = v.as_list();
    return (int)l.size();
#else
    auto b = v.as_bundle();
    return (int)b.size();
#endif
}
template <class V> void observe(const V &v, bool modified, const ValueView *delta, Obs &o) {
    o.size = size_of(v);
    ok_model &= (o.size == g_size);
    ok_apply &= (o.size >= g_prev_size);
    for (int i = 0; i < NX; i++) { o.valid[i] = false; o.mod[i] = false; o.val[i] = 0; }
    for (int i = 0; i < o.size && i < NX; i++) {
        auto el = v.indexed_child_at((std::size_t)i);
        o.valid[i] = el.valid();
        o.mod[i] = el.modified();
        if (o.valid[i]) o.val[i] = as_i64(el.value());
        ok_model &= (o.valid[i] == g_model[i].valid);
        if (g_model[i].valid) ok_model &= (o.val[i] == g_model[i].val);
        ok_values &= (o.mod[i] == g_written[i]);
        // unmodified elements keep their previous state
        if (!g_written[i]) {
            ok_apply &= (o.valid[i] == g_prev[i].valid);
            if (g_prev[i].valid) ok_apply &= (o.val[i] == g_prev[i].val);
        }
        if (!modified) ok_quiet &= !o.mod[i];
    }
    if (delta) {
        ok_views &= (delta->has_value() == modified);
        if (delta->has_value()) {
#if SHAPE == 2
            auto map = delta->as_map();
            int nm = 0;
            for (int i = 0; i < NX; i++) {
                Value key{Int{(I64)i}};
                bool in = map.contains(key.view());
                ok_views &= (in == o.mod[i]);
                if (in) { nm++; if (o.mod[i]) ok_values &= (as_i64(map.at(key.view())) == o.val[i]); }
            }
            ok_views &= ((int)map.size() == nm);
#else
            auto b = delta->as_bundle();
            const char *names[2] = {"a", "b"};
            for (int i = 0; i < 2; i++) {
                ValueView f = b.at(names[i]);
                ok_views &= (f.has_value() == o.mod[i]);
                if (f.has_value() && o.mod[i]) ok_values &= (as_i64(f) == o.val[i]);
            }
#endif
        }
    }
}
void check_cycle(DateTime t) {
    Obs po, co;
    {
        auto ov = g_out->view(t);
        ok_model &= (ov.modified() == g_ticked);
        ValueView d = ov.delta_value();
        observe(ov, g_ticked, &d, po);
    }
    {
        auto iv = g_cons->view(t);
        ok_views &= (iv.modified() == g_ticked);
        ValueView d = iv.delta_value();
        observe(iv, g_ticked, &d, co);
        if (g_ticked) {
            Value cap = capture_delta(iv);
            ValueView cv = cap.view();
            observe(iv, true, &cv, co);
        }
    }
    g_prev_size = po.size;
    for (int i = 0; i < NX; i++) { g_prev[i].valid = po.valid[i]; g_prev[i].val = po.val[i]; g_written[i] = false; }
    g_ticked = false;
}
#endif

// ================================================================================================
#if SHAPE == 4
// TSW<int, N, min>: N and min are enumerated (N <= WMAXN, 1 <= min <= N)
#ifndef WMAXN
#define WMAXN 3
#endif
int g_n = 1, g_min = 1;
const TSValueTypeMetaData *g_schema = nullptr;
const TSValueTypeMetaData *shape_schema() { return g_schema; }
int g_count = 0, g_prev_count = 0;
I64 g_win[WMAXN], g_prev_win[WMAXN];
DateTime g_wt[WMAXN];
bool g_valid = false, g_ticked = false, g_pushed = false, g_cleared = false, g_rolled = false;
I64 g_pushed_val = 0, g_evicted = 0;
constexpr int N_OPKINDS = 4;  // none, push v, clear, clear then push v   (the runtime accepts one push per cycle)
void do_push(TSWDataMutationView &m, DateTime t) {
    I64 v = verif_range("val", -VMAX, VMAX);
    Value val{Int{v}};
    m.push(val.view());
    g_rolled = false;
    if (g_count == g_n) {
        g_evicted = g_win[0];
        for (int i = 1; i < g_n; i++) { g_win[i - 1] = g_win[i]; g_wt[i - 1] = g_wt[i]; }
        g_count--;
        g_rolled = true;
        verif_reach("window_rolled");
    }
    g_win[g_count] = v; g_wt[g_count] = t; g_count++;
    g_pushed = true; g_pushed_val = v;
}
void apply_op(int op, DateTime t) {
    if (op == 0) return;
    if (g_ticked) return;  // one mutation scope per cycle: push | clear | clear+push
    auto ov = g_out->view(t);
    auto ow = ov.as_window();
    auto m = ow.begin_mutation(t);
    if (op == 2 || op == 3) { m.clear(); g_count = 0; g_cleared = true; verif_reach("window_cleared"); }
    if (op == 1 || op == 3) do_push(m, t);
    g_valid = true;
    g_ticked = true;
}
void ramp(DateTime) {}
template <class V> void observe(const V &v, const ValueView *delta) {
    auto w = v.as_window();
    int n = (int)w.size();
    ok_window &= (n == g_count) & ((int)w.period() == g_n) & ((int)w.min_period() == g_min);
    for (int i = 0; i < g_count && i < n; i++) ok_window &= (as_i64(w.at((std::size_t)i)) == g_win[i]) & (w.time_at((std::size_t)i) == g_wt[i]);
    int k = 0;
    bool same = true;
    for (auto x : w.values()) { if (k < g_count) same &= (as_i64(x) == g_win[k]); k++; }
    ok_window &= same & (k == g_count);
    ok_window &= (w.full() == (g_count == g_n));
    // validity: the window exists from its first tick; it is all_valid once min_period values are held
    ok_window &= (v.valid() == g_valid) & (v.all_valid() == (g_valid && g_count >= g_min));
    // value(t) == value(t_prev) (+) delta(t): previous contents (dropped by a clear), plus the pushed value, last N kept
    {
        I64 exp[WMAXN + 1];
        int e = 0;
        if (!g_cleared) for (int i = 0; i < g_prev_count; i++) exp[e++] = g_prev_win[i];
        bool has_delta = delta && delta->has_value();
        if (delta) ok_views &= (has_delta == g_pushed);
        if (has_delta) exp[e++] = as_i64(*delta);
        int drop = e > g_n ? e - g_n : 0;
        ok_apply &= (n == e - drop);
        for (int i = 0; i + drop < e && i < n; i++) ok_apply &= (as_i64(w.at((std::size_t)i)) == exp[i + drop]);
        if (has_delta && g_pushed) ok_values &= (as_i64(*delta) == g_pushed_val);
    }
}
void check_cycle(DateTime t) {
    {
        auto ov = g_out->view(t);
        ok_model &= (ov.modified() == g_ticked);
        ValueView d = ov.delta_value();
        observe(ov, &d);
        auto ow = ov.as_window();
        auto dw = ow.data_view();
        bool rolled = g_pushed && g_rolled;
        ok_window &= (dw.has_removed_value(t) == rolled) & (dw.cleared(t) == g_cleared);
        if (rolled && dw.has_removed_value(t)) ok_window &= (as_i64(dw.removed_value(t)) == g_evicted);
    }
    {
        auto iv = g_cons->view(t);
        ok_views &= (iv.modified() == g_ticked);
        ValueView d = iv.delta_value();
        observe(iv, &d);
        if (g_pushed && !g_cleared) {  // capture_delta documents that it rejects ticks in which clear() participated
            Value cap = capture_delta(iv);
            ValueView cv = cap.view();
            observe(iv, &cv);
        }
    }
    g_prev_count = g_count;
    for (int i = 0; i < g_count; i++) g_prev_win[i] = g_win[i];
    g_ticked = false; g_pushed = false; g_cleared = false; g_rolled = false;
}
#define SHAPE_SETUP 1
void shape_setup() {
    g_n = 1 + verif_choice("wn", WMAXN);
    g_min = 1 + verif_choice("wmin", g_n);
    g_schema = TypeRegistry::instance().tsw(schemas().i64, (std::size_t)g_n, (std::size_t)g_min);
    if (g_min > 1) verif_reach("min_period_above_one");
}
#endif

#if SHAPE < 0 || SHAPE > 4
#error "shape not implemented yet"
#endif
}  // namespace

extern "C" int harness_main() {
#ifdef SHAPE_SETUP
    shape_setup();
#endif
    const auto *schema = shape_schema();
    TSOutput out{*schema};
    g_out = &out;
    Consumer cons{schema, "VerifC05Root"};
    g_cons = &cons;

    std::int64_t base = verif_range("base", 0, 1000000);
    DateTime t = MIN_ST + TimeDelta{base};
    { auto v = cons.view(t); v.bind_output(out.view(t)); }
    check_cycle(t);  // before the first tick: empty value, empty delta
#if RAMP > 0
    ramp(t);
    check_cycle(t);
    t = t + TimeDelta{verif_range("gap", 1, GMAX)};
#endif
    for (int cyc = 0; cyc < NCYC; cyc++) {
        if (cyc > 0) t = t + TimeDelta{verif_range("gap", 1, GMAX)};
        bool any = false;
        for (int i = 0; i < NOPS; i++) {
            int op = verif_choice("op", N_OPKINDS);
            any |= (op != 0);
            apply_op(op, t);
        }
        check_cycle(t);
        if (!any) verif_reach("idle_cycle");
    }
    verif_assert(ok_struct, "C05.mutation_result_matches_model");
    verif_assert(ok_model, "C05.value_matches_mirror_model");
    verif_assert(ok_disjoint, "C05.added_and_removed_disjoint");
    verif_assert(ok_added_present, "C05.added_elements_present");
    verif_assert(ok_removed_absent, "C05.removed_elements_absent");
    verif_assert(ok_no_trace, "C05.cancelled_mutations_leave_no_trace");
    verif_assert(ok_apply, "C05.value_equals_previous_plus_delta");
    verif_assert(ok_values, "C05.modified_entries_carry_new_value_others_keep_old");
    verif_assert(ok_quiet, "C05.no_delta_without_tick");
    verif_assert(ok_window, "C05.window_holds_last_n_in_order");
    verif_assert(ok_views, "C05.delta_views_agree");
    // contradicted by the unchanged tree (see notes/C05.md): evaluated only on histories that contain a TSD key
    // which is live but has no published value (created without a write, or element invalidated)
    verif_assert(ok_values_unpub, "C05.modified_entries_with_unpublished_keys");
    verif_assert(ok_views_unpub, "C05.delta_views_agree_with_unpublished_keys");
    verif_assert(ok_apply_unpub, "C05.value_equals_previous_plus_delta_with_unpublished_keys");
    verif_reach("end");
    return 0;
}

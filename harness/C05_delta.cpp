// C05 (unit level, no graph): collection deltas are coherent with collection values at every tick.
// A real TSOutput of a collection shape is mutated by a bounded scripted producer; after every cycle the
// value and the per-tick delta are read back through the producer view, through a bound TSInput consumer
// (the "mirror node"), through delta_value() and through capture_delta(), and are compared with each other,
// with the previous tick's value and with a mirror model.
//   symbolic  : base time, gaps between cycles, all payload values
//   enumerated: per cycle NOPS mutations (shape specific), keys / indices (concrete)
//   oracle    : value(t) == value(t_prev) (+) delta(t) starting from empty; added and removed are disjoint;
//               added elements are present, removed elements are absent and were present before; mutations
//               that cancel within a cycle leave no trace; modified entries carry the new value, unmodified
//               entries keep the old one; a tick-count window holds exactly the last N pushed values in
//               order and is all_valid once min_period values are held.
#include "hk_ts.h"

#include <hgraph/types/time_series/ts_delta.h>
#include <hgraph/types/value/value_builder.h>

// shapes: 0 TSS<int>  1 TSD<int,TS<int>>  2 TSL<TS<int>> (dynamic)  3 TSB{a,b}  4 TSW<int,N,min>  5 TSD<int,TSS<int>>
//         8 TSW<int, duration 10us>: one push per cycle at symbolic times
//         6 TSS<int> over one key, 7 TSD<int,TS<int>> over one key: a prefix cycle, then NPRIM primitives on that key in one cycle
#ifndef ONLY_SHAPE
#define ONLY_SHAPE -1  // -1: the shape is enumerated (verif_choice); 0..4: only that shape (dev runs)
#endif
#ifndef NCYC
#define NCYC 2
#endif
#ifndef NCYC_TSS
#define NCYC_TSS (NCYC + 1)
#endif
#ifndef NCYC_TSD
#define NCYC_TSD NCYC
#endif
#ifndef NCYC_TSW
#define NCYC_TSW (2 * NCYC)
#endif
#ifndef BIG_LAST
#define BIG_LAST NOPS
#endif
#ifndef TSS_LAST
#define TSS_LAST NOPS  // operations in the last TSS cycle
#endif
#ifndef NCYC_TW
#define NCYC_TW 6  // pushes into the duration-based window (>= 6 to wrap the 4-slot ring and then grow it)
#endif
#ifndef TW_GMAX
#define TW_GMAX 12  // gaps between the pushes into the duration window (range 10us): both inside and beyond the range
#endif
#ifndef NPRIM
#define NPRIM 3  // primitives on the single key of the one-key TSS / TSD shapes in their second cycle
#endif
#ifndef MID5
#define MID5 1  // operations in the middle cycle of the nested shape TSD<int,TSS<int>>
#endif
#ifndef NOPS
#define NOPS 2
#endif
#ifndef GMAX
#define GMAX 1000
#endif
#ifndef NK
#define NK 2  // concrete key universe {0..NK-1}
#endif
#ifndef RAMP
#define RAMP 0  // thorough: RAMP extra keys 100.. inserted one per op in a first cycle, to cross slot-store growth boundaries
#endif
#ifndef EXT_OPS
#define EXT_OPS 1  // TSD: also create-without-write and element invalidation (keys that are live but not published)
#endif
#ifndef VMAX
#define VMAX 1000000
#endif

using namespace hkts;

#define SHAPE 0
#define SHAPE_NS shape_tss
#include "C05_delta_shape.inc"
#undef SHAPE
#undef SHAPE_NS
#define SHAPE 1
#define SHAPE_NS shape_tsd
#include "C05_delta_shape.inc"
#undef SHAPE
#undef SHAPE_NS
#define SHAPE 2
#define SHAPE_NS shape_tsl
#include "C05_delta_shape.inc"
#undef SHAPE
#undef SHAPE_NS
#define SHAPE 3
#define SHAPE_NS shape_tsb
#include "C05_delta_shape.inc"
#undef SHAPE
#undef SHAPE_NS
#define SHAPE 4
#define SHAPE_NS shape_tsw
#include "C05_delta_shape.inc"
#undef SHAPE
#undef SHAPE_NS
#define SHAPE 5
#define SHAPE_NS shape_tsd_tss
#include "C05_delta_shape.inc"
#undef SHAPE
#undef SHAPE_NS
#define SHAPE 6
#define SHAPE_NS shape_tss_onekey
#include "C05_delta_shape.inc"
#undef SHAPE
#undef SHAPE_NS
#define SHAPE 7
#define SHAPE_NS shape_tsd_onekey
#include "C05_delta_shape.inc"
#undef SHAPE
#undef SHAPE_NS
#define SHAPE 8
#define SHAPE_NS shape_tsw_time
#include "C05_delta_shape.inc"
#undef SHAPE
#undef SHAPE_NS

extern "C" int harness_main() {
    (void)schemas();  // concrete set-up shared by all shapes
    int shape = ONLY_SHAPE >= 0 ? ONLY_SHAPE : verif_choice("shape", 9);
    switch (shape) {
        case 0: shape_tss::g_reach.mark("shape_tss"); return shape_tss::run();
        case 1: shape_tsd::g_reach.mark("shape_tsd"); return shape_tsd::run();
        case 2: shape_tsl::g_reach.mark("shape_tsl"); return shape_tsl::run();
        case 3: shape_tsb::g_reach.mark("shape_tsb"); return shape_tsb::run();
        case 4: shape_tsw::g_reach.mark("shape_tsw"); return shape_tsw::run();
        case 5: shape_tsd_tss::g_reach.mark("shape_tsd_tss"); return shape_tsd_tss::run();
        case 6: shape_tss_onekey::g_reach.mark("shape_tss_onekey"); return shape_tss_onekey::run();
        case 7: shape_tsd_onekey::g_reach.mark("shape_tsd_onekey"); return shape_tsd_onekey::run();
        default: shape_tsw_time::g_reach.mark("shape_tsw_time"); return shape_tsw_time::run();
    }
}

// C02: wake-ups requested INSIDE a nested child graph that keeps running after one of its cycles failed.
//   root : osrc (self-scheduling source) -> try_except( child ) -> result sink          (real wire_try_except -> try_except_node)
//   child: c0 self-scheduling source            (child node index 0)
//          c1 self-scheduling source            (index 1)
//          c2 compute node, active on the boundary input (osrc), may also use its scheduler (index 2)
//          c3 compute node, active on c0 (passive on c1, c2), also uses its scheduler; child output (index 3)
//   Every evaluation of a child node may THROW (at most MAXFAIL throws per run; which evaluations throw is one 0/1 input per
//   (node, evaluation), consulted lazily = enumerated).  A throwing evaluation either throws first or registers its wake-up
//   and throws then (enumerated per failure, ORDER_ENUM).  try_except captures the failure and the run continues.
//   symbolic : every requested delta (0 = no request) of c0..c3 and osrc, start offset, window length
//   oracle   : root cycle times strictly increase within [start,end); no cycle (root or child) at a time nobody asked for;
//              every wake-up requested inside the window - before, across and after the captured failure(s) - gets a root cycle
//              AND a child cycle at exactly its time, in which the requester runs (unless that very cycle was cut short by a
//              failure of a child node evaluated before the requester: the cycle happened, the statement asks no more);
//              nodes run only when requested or input-ticked; no exception leaves run().
//   The situations are told apart by assertion id (see notes/C02.md).
#include "hk.h"
#include "hk_ho.h"

#include <stdexcept>

#ifndef J0
#define J0 2      // evaluations of c0 that request a wake-up
#endif
#ifndef J1
#define J1 1      // ... of c1
#endif
#ifndef JM
#define JM 0      // ... of c2 (input-driven by osrc; re-arm branch of node.cpp inside the child)
#endif
#ifndef JT
#define JT 1      // ... of c3 (input-driven by c0)
#endif
#ifndef JO
#define JO 1      // ... of the outer source
#endif
#ifndef DMAX
#define DMAX 2
#endif
#ifndef WMAX
#define WMAX 4
#endif
#ifndef MAXFAIL
#define MAXFAIL 2  // throws per run
#endif
#ifndef TEV
#define TEV 2      // only the first TEV evaluations of a child node may throw
#endif
#ifndef TMASK
#define TMASK 15   // bit k: child node k may throw
#endif
#ifndef ORDER_ENUM
#define ORDER_ENUM 1   // 1: per failure enumerate "throws before / after registering its wake-up"; 0: always after
#endif

using namespace hk;

namespace {
constexpr int NCHILD = 4, OUTER = 4, NIDS = 5, MAXJ = 8;
constexpr int MAXREQ = J0 + J1 + JM + JT + JO + 4, MAXRUN = 40, MAXCYC = 24;
const int g_nsched[NIDS] = {J0, J1, JM, JT, JO};
std::int64_t g_d[NIDS][MAXJ];          // delta requested by node id at its j-th evaluation (0: none)
std::int64_t g_throw[NCHILD][MAXJ];    // 0/1: evaluation j of child node id throws
std::int64_t g_first[MAXFAIL + 1];     // 0/1: the i-th failure throws BEFORE registering its wake-up
struct Req { DateTime t, q; int node; };                 // wake-up for time t requested at time q by node
struct Run { DateTime t; int node; bool threw; };
struct Fail { DateTime t; int node; bool first; };
struct Cyc { DateTime t, root_t; };
struct OFail { DateTime t; int node; };                  // a child cycle that ended by an exception, as the observer saw it
Req g_req[MAXREQ];   int g_nreq = 0;
Run g_runs[MAXRUN];  int g_nruns = 0;
Fail g_fail[MAXFAIL + 1]; int g_nfail = 0;
DateTime g_root[MAXCYC]; int g_nroot = 0;
Cyc g_child[MAXCYC]; int g_nchild = 0;
constexpr int MAXOF = 8;
OFail g_of[MAXOF]; int g_nof = 0;
bool g_overflow = false, g_layout_bad = false;
DateTime g_cur_root = MIN_DT;
std::int64_t g_cur_child_index = -1;
int g_nerr = 0, g_nout = 0;
DateTime g_start, g_end;

struct Obs : LifecycleObserver {
    void on_before_graph_evaluation(const GraphView &g) override {
        DateTime t = g.evaluation_time();
        if (g.is_root()) {
            g_cur_root = t;
            if (g_nroot < MAXCYC) g_root[g_nroot++] = t; else g_overflow = true;
        } else {
            if (g_nchild < MAXCYC) g_child[g_nchild++] = Cyc{t, g_cur_root}; else g_overflow = true;
        }
    }
    void on_before_node_evaluation(const NodeView &n) override {
        if (!n.graph().is_root()) g_cur_child_index = (std::int64_t)n.node_index();
    }
    // fires for a completed child cycle and for one that is left by an exception; failed_node() tells them apart
    void on_after_graph_evaluation(const GraphView &g) override {
        if (g.is_root()) return;
        NodeView f = g.failed_node();
        if (f.valid()) {
            if (g_nof < MAXOF) g_of[g_nof++] = OFail{g.evaluation_time(), (int)f.node_index()}; else g_overflow = true;
        }
    }
};

// the scripted body shared by all five nodes; returns normally or throws
void scripted(int id, Int j, const NodeScheduler &s, DateTime now) {
    if (id < NCHILD && g_cur_child_index != id) g_layout_bad = true;   // child node index == id by construction (checked)
    bool thr = false, first = false;
    if (id < NCHILD && ((TMASK >> id) & 1) && j < TEV && j < MAXJ && g_nfail < MAXFAIL) {
        thr = g_throw[id][j] != 0;                       // forks (lazy enumeration of the throwing evaluations)
        if (thr && ORDER_ENUM) first = g_first[g_nfail] != 0;
    }
    if (g_nruns < MAXRUN) g_runs[g_nruns++] = Run{now, id, thr}; else g_overflow = true;
    if (thr) g_fail[g_nfail++] = Fail{now, id, first};
    if (thr && first) throw std::runtime_error("boom");
    if (j < g_nsched[id] && j < MAXJ) {
        std::int64_t d = g_d[id][j];
        if (d > 0) {
            s.schedule(TimeDelta{d});
            if (g_nreq < MAXREQ) g_req[g_nreq++] = Req{now + TimeDelta{d}, now, id}; else g_overflow = true;
        }
    }
    if (thr) throw std::runtime_error("boom");
}
template <int ID> struct Src {       // self-scheduling source
    static constexpr auto name = "c02nf_src";
    static constexpr bool schedule_on_start = true;
    static void eval(NodeScheduler s, State<Int> n, DateTime now, Out<TS<Int>> out) {
        Int j = n.get();
        n.set(j + 1);
        scripted(ID, j, s, now);
        out.set(j);
    }
};
struct Mid {                          // c2: driven by the boundary input
    static constexpr auto name = "c02nf_mid";
    static void eval(In<"x", TS<Int>> x, NodeScheduler s, State<Int> n, DateTime now, Out<TS<Int>> out) {
        Int j = n.get();
        n.set(j + 1);
        scripted(2, j, s, now);
        out.set(x.value() + j);
    }
};
struct Tail {                         // c3: driven by c0
    static constexpr auto name = "c02nf_tail";
    static void eval(In<"a", TS<Int>> a, In<"b", TS<Int>, InputActivity::Passive, InputValidity::Unchecked> b,
                     In<"c", TS<Int>, InputActivity::Passive, InputValidity::Unchecked> c, NodeScheduler s, State<Int> n, DateTime now,
                     Out<TS<Int>> out) {
        Int j = n.get();
        n.set(j + 1);
        scripted(3, j, s, now);
        out.set(a.value() + j);
    }
};
struct ChildW {   // the wrapped graph over one boundary port
    static WiringPortRef wire(Wiring &w, std::span<const WiringPortRef> in) {
        auto c0 = hgraph::wire<Src<0>>(w);
        auto c1 = hgraph::wire<Src<1>>(w);
        auto c2 = hgraph::wire<Mid>(w, Port<TS<Int>>{w, in[0]});
        auto c3 = hgraph::wire<Tail>(w, c0, c1, c2);
        return c3.erased();
    }
};
using TryIntResult = UnNamedTSB<Field<"exception", TS<NodeError>>, Field<"out", TS<Int>>>;
struct ResSink {
    static constexpr auto name = "c02nf_sink";
    static void eval(In<"r", TryIntResult, InputValidity::Unchecked> r) {
        auto e = r.template field<"exception">();
        auto o = r.template field<"out">();
        if (e.valid() && e.modified()) g_nerr++;
        if (o.valid() && o.modified()) g_nout++;
    }
};
struct Top {
    static constexpr auto name = "top";
    static void compose(Wiring &w) {
        auto o = wire<Src<OUTER>>(w);
        WiringPortRef r = ho::wire_try_except(w, FnW<ChildW, 1>::make(), {o.erased()}, {}, ErrorCaptureOptions{});
        wire<ResSink>(w, Port<TryIntResult>{w, r});
    }
};
}  // namespace

extern "C" int harness_main() {
    register_ho_scalars();
    GraphBuilder gb = build_graph<Top>();

    for (int id = 0; id < NIDS; id++)
        for (int j = 0; j < g_nsched[id] && j < MAXJ; j++) g_d[id][j] = verif_range("delta", 0, DMAX);
    for (int id = 0; id < NCHILD; id++)
        for (int j = 0; j < TEV && j < MAXJ; j++) g_throw[id][j] = ((TMASK >> id) & 1) ? verif_range("throw", 0, 1) : 0;
    for (int i = 0; i < MAXFAIL; i++) g_first[i] = ORDER_ENUM ? verif_range("first", 0, 1) : 0;
    std::int64_t s0 = verif_range("start", 0, 1000);
    std::int64_t win = verif_range("window", 1, WMAX);
    g_start = at_us(s0);
    g_end = g_start + TimeDelta{win};
    // schedule_on_start: c0, c1 (inside the child, during the nested node's start) and the outer source ask for the start time
    g_req[g_nreq++] = Req{g_start, g_start, 0};
    g_req[g_nreq++] = Req{g_start, g_start, 1};
    g_req[g_nreq++] = Req{g_start, g_start, OUTER};

    Obs obs;
    bool escaped = false;
    try {
        run_sim(std::move(gb), g_start, g_end, &obs);
    } catch (const std::exception &) {
        escaped = true;
    }

    // ---- oracle (branch-free accumulation over symbolic times)
    verif_assert(!g_overflow, "C02.nf_log_overflow");
    verif_assert(!g_layout_bad, "C02.nf_child_layout_as_designed");
    verif_assert(!escaped, "C02.nf_no_exception_leaves_run");

    bool ok_window = true, ok_requested = true, ok_child_requested = true;
    DateTime prev = MIN_DT;
    for (int i = 0; i < g_nroot; i++) {
        DateTime t = g_root[i];
        bool requested = false;
        for (int r = 0; r < g_nreq; r++) requested |= (g_req[r].t == t);
        ok_window &= (t > prev) & (t >= g_start) & (t < g_end);
        ok_requested &= requested;
        prev = t;
    }
    DateTime cprev = MIN_DT;
    for (int i = 0; i < g_nchild; i++) {
        DateTime t = g_child[i].t;
        bool requested = false;
        for (int r = 0; r < g_nreq; r++) requested |= (g_req[r].t == t) & (g_req[r].node < NCHILD);
        for (int q = 0; q < g_nruns; q++) requested |= (g_runs[q].node == OUTER) & (g_runs[q].t == t);   // boundary input ticked
        ok_child_requested &= requested & (t == g_child[i].root_t) & (t > cprev);
        cprev = t;
    }
    verif_assert(ok_window, "C02.nf_time_strictly_increases_within_window");
    verif_assert(ok_requested, "C02.nf_no_spurious_cycle");
    verif_assert(ok_child_requested, "C02.nf_no_spurious_child_cycle");

    // every request, classified by its relation to the captured failures.  The failures are the ones the observer saw
    // (a child cycle left by an exception, failed_node() = the node it stopped at); one that no throw of the script accounts
    // for was raised by the runtime itself ("unscripted") - whatever comes at or after it has its own assertion id.
    bool unscripted[MAXOF], any_unscripted = false;
    for (int o = 0; o < g_nof; o++) {
        bool mine = false;
        for (int f = 0; f < g_nfail; f++) mine |= (g_fail[f].t == g_of[o].t) & (g_fail[f].node == g_of[o].node);
        unscripted[o] = !mine;
        any_unscripted |= !mine;
    }
    // cut[r]: the child cycle at the due time of request r ended by a failure of a node evaluated before the requester
    bool cut_r[MAXREQ];
    for (int r = 0; r < g_nreq; r++) {
        bool c = false;
        for (int o = 0; o < g_nof; o++) c |= (g_req[r].node < NCHILD) & (g_of[o].t == g_req[r].t) & (g_of[o].node < g_req[r].node);
        cut_r[r] = c;
    }
    bool ok_base = true, ok_lower = true, ok_higher = true, ok_byfail = true, ok_after = true, ok_outer = true, ok_tainted = true, ok_stale = true;
    bool beyond = false, r_lower = false, r_higher = false, r_byfail = false, r_after = false, r_next_tick = false, r_next_cycle = false,
         r_outer_span = false, r_cut = false, r_stale = false;
    for (int r = 0; r < g_nreq; r++) {
        DateTime t = g_req[r].t, q = g_req[r].q;
        int n = g_req[r].node;
        bool root_c = false, child_c = false, ran = false, cut = cut_r[r], stale = false;
        // stale: an EARLIER wake-up of the same node fell due in a cycle that was cut short before the node's turn
        for (int p = 0; p < g_nreq; p++) stale |= (p != r) & (g_req[p].node == n) & cut_r[p] & (g_req[p].t <= q);
        for (int i = 0; i < g_nroot; i++) root_c |= (g_root[i] == t);
        for (int i = 0; i < g_nchild; i++) child_c |= (g_child[i].t == t);
        for (int i = 0; i < g_nruns; i++) ran |= (g_runs[i].t == t) & (g_runs[i].node == n);
        bool span_lower = false, span_higher = false, by_fail = false, after = false, next_tick = false, next_cycle = false, tainted = false,
             outer_span = false;
        for (int o = 0; o < g_nof; o++) {
            DateTime F = g_of[o].t;
            int kf = g_of[o].node;
            bool spans = (q <= F) & (F < t);
            by_fail |= (n == kf) & (q == F);                     // requested by the failing evaluation itself
            span_lower |= spans & (n < kf);
            span_higher |= spans & (n > kf) & (n < NCHILD);
            outer_span |= spans & (n == OUTER);
            after |= (q > F);
            tainted |= unscripted[o] & (F <= t);
            next_tick |= spans & (n < NCHILD) & (t == F + MIN_TD);
            bool between = false;                                 // a root cycle strictly between the failure and the due time
            for (int i = 0; i < g_nroot; i++) between |= (g_root[i] > F) & (g_root[i] < t);
            next_cycle |= spans & (n < NCHILD) & !between;
        }
        bool in_window = t < g_end;
        bool honoured = !in_window | (root_c & ((n >= NCHILD) | child_c) & (ran | cut));
        beyond |= !in_window;
        bool is_outer = (n == OUTER);
        bool c_outer = is_outer;
        // precedence: a wake-up pending across the failure of a child node evaluated BEFORE the requester comes first (one mechanism,
        // see notes/C02.md), then a request of a node whose earlier wake-up fell in a cut-short cycle, then anything at or after a
        // failure raised by the runtime itself, then the remaining relations
        bool c_higher = !is_outer & span_higher;
        bool c_stale = !is_outer & !span_higher & stale;
        bool rest = !is_outer & !span_higher & !stale;
        bool c_tainted = rest & tainted;
        bool c_byfail = rest & !tainted & by_fail;
        bool c_lower = rest & !tainted & !by_fail & span_lower;
        bool c_after = rest & !tainted & !by_fail & !span_lower & after;
        bool c_base = rest & !tainted & !by_fail & !span_lower & !after;
        ok_outer &= !c_outer | honoured;
        ok_tainted &= !c_tainted | honoured;
        ok_stale &= !c_stale | honoured;
        ok_byfail &= !c_byfail | honoured;
        ok_lower &= !c_lower | honoured;
        ok_higher &= !c_higher | honoured;
        ok_after &= !c_after | honoured;
        ok_base &= !c_base | honoured;
        r_lower |= c_lower & in_window;
        r_higher |= c_higher & in_window;
        r_byfail |= c_byfail & in_window;
        r_after |= c_after & in_window;
        r_next_tick |= next_tick & in_window & !is_outer;
        r_next_cycle |= next_cycle & in_window & !is_outer;
        r_outer_span |= outer_span & in_window;
        r_cut |= cut & in_window;
        r_stale |= c_stale & in_window;
    }
    // the two classes with a known finding are announced BEFORE their assertions: symx continues a path under the asserted
    // condition, and a request of such a class is (almost) never honoured, so the label would be unreachable afterwards
    if (r_higher) verif_reach("later_node_wakeup_pending_across_failure");
    if (r_stale) verif_reach("wakeup_requested_after_own_wakeup_fell_in_cut_short_cycle");
    verif_assert(ok_base, "C02.nf_wakeup_honoured_at_exact_time");
    verif_assert(ok_outer, "C02.nf_root_wakeup_honoured_at_exact_time");
    verif_assert(ok_lower, "C02.nf_pending_wakeup_of_earlier_node_survives_failure");
    verif_assert(ok_higher, "C02.nf_pending_wakeup_of_later_node_survives_failure");
    verif_assert(ok_byfail, "C02.nf_wakeup_requested_by_failing_evaluation_honoured");
    verif_assert(ok_after, "C02.nf_wakeup_requested_after_failure_honoured");
    verif_assert(ok_tainted, "C02.nf_wakeup_honoured_after_failure_raised_by_runtime");
    verif_assert(ok_stale, "C02.nf_wakeup_honoured_after_own_wakeup_fell_in_cut_short_cycle");

    // nodes ran only when requested or input-ticked
    bool ok_asked = true;
    for (int i = 0; i < g_nruns; i++) {
        DateTime t = g_runs[i].t;
        int n = g_runs[i].node;
        bool asked = false;
        for (int r = 0; r < g_nreq; r++) asked |= (g_req[r].t == t) & (g_req[r].node == n);
        for (int q = 0; q < g_nruns; q++) {
            asked |= (n == 2) & (g_runs[q].node == OUTER) & (g_runs[q].t == t);                     // boundary input ticked
            asked |= (n == 3) & (g_runs[q].node == 0) & (g_runs[q].t == t) & !g_runs[q].threw;      // c0 ticked
        }
        ok_asked &= asked;
    }
    verif_assert(ok_asked, "C02.nf_node_ran_only_when_requested");

    // ---- reach (concrete facts first, then facts about symbolic times)
    if (g_nfail >= 1) verif_reach("failure_captured");
    if (g_nfail == 0) verif_reach("no_failure");
    bool f_node0 = false, f_nodek = false, f_first = false, f_after_sched = false;
    for (int f = 0; f < g_nfail; f++) {
        f_node0 |= g_fail[f].node == 0;
        f_nodek |= g_fail[f].node > 0;
        f_first |= g_fail[f].first;
        f_after_sched |= !g_fail[f].first;
    }
    if (f_node0) verif_reach("failure_at_child_node_0");
    if (f_nodek) verif_reach("failure_at_child_node_k");
    if (f_first) verif_reach("failure_before_registering_wakeup");
    if (f_after_sched) verif_reach("failure_after_registering_wakeup");
    if (any_unscripted) verif_reach("child_failure_raised_by_runtime");
    bool two_cycles = false, several_due = false, root_driven = false, child_driven = false, in_start = false, cyc_after = false;
    if (g_nfail >= 2) two_cycles = g_fail[0].t != g_fail[1].t;
    for (int f = 0; f < g_nfail; f++) {
        DateTime F = g_fail[f].t;
        int due = 0;
        for (int c = 0; c < NCHILD; c++) {
            bool d = false;
            for (int r = 0; r < g_nreq; r++) d |= (g_req[r].node == c) & (g_req[r].t == F);
            due += d;
        }
        several_due |= due >= 2;
        bool outer_then = false;
        for (int q = 0; q < g_nruns; q++) outer_then |= (g_runs[q].node == OUTER) & (g_runs[q].t == F);
        root_driven |= outer_then & (F > g_start);
        child_driven |= !outer_then;
        in_start |= (F == g_start);
        for (int i = 0; i < g_nroot; i++) cyc_after |= g_root[i] > F;
    }
    if (two_cycles) verif_reach("two_failures_in_different_cycles");
    if (several_due) verif_reach("several_child_nodes_due_in_failing_cycle");
    if (root_driven) verif_reach("failure_in_cycle_driven_by_outer_tick");
    if (child_driven) verif_reach("failure_in_cycle_driven_by_child_wakeup_only");
    if (in_start) verif_reach("failure_in_start_cycle");
    if (cyc_after) verif_reach("cycle_after_failure");
    if (r_lower) verif_reach("earlier_node_wakeup_pending_across_failure");
    if (r_byfail) verif_reach("wakeup_requested_by_failing_evaluation");
    if (r_after) verif_reach("wakeup_requested_after_failure");
    if (r_next_tick) verif_reach("pending_wakeup_due_one_tick_after_failure");
    if (r_next_cycle) verif_reach("pending_wakeup_due_in_next_cycle_after_failure");
    if (r_cut) verif_reach("wakeup_due_in_cycle_cut_short_before_requester");
    if (r_outer_span) verif_reach("outer_wakeup_pending_across_child_failure");
    if (beyond) verif_reach("request_beyond_end");
    if (g_nroot >= 3) verif_reach("three_cycles");
    verif_log("cycles", g_nroot);
    verif_log("child_cycles", g_nchild);
    verif_log("failures", g_nfail);
    verif_log("observed_failures", g_nof);
    verif_log("error_ticks", g_nerr);
    verif_reach("end");
    return 0;
}

// C08 (dictionary shape): stdlib::feedback<TSD<Int, TS<Int>>> delivers each dictionary delta exactly one smallest time
// step later - including the legal "valid but EMPTY" first tick (a state loop opened with an empty book).
//   producer == reader: on every script tick it applies an ENUMERATED operation to its TSD output (keys concrete)
//       0 set k0=a            1 set k1=a                 2 erase k0             3 set k0=a, k1=b
//       4 erase k0, set k2=a  5 clear                    6 touch (empty tick)   7 erase k0, set k0=a (same key, one tick)
//       8 set k0=a, erase k0 (add and remove in one tick)
//   INIT (enumerated): 0 no declared initial value | 1 declared initial delta = EMPTY dictionary | 2 initial {k0: iv}
//   the feedback sink copies the per-cycle delta Bundle{removed, modified} (try_copy_feedback_state / capture_delta_tsd),
//   the source replays it one step later (ts_delta.cpp apply_delta -> delta_has_effect_tsd -> apply_delta_tsd).
//   symbolic: script times (first offset >= 0, gaps >= 1 us), all written values, the initial value, start, window.
//   "what was written" = what an ORDINARY consumer of the producer output saw (recorder g_pr: contents, modified items,
//   added / removed keys), cross-checked against a mirror of the operations.
//   model   : the reader's dictionary is the fold of the delivered deltas over the declared initial contents; delivery j
//             happens at (write time + MIN_TD) (the initial one at start) and shows exactly that write's removed keys and
//             modified items (added = modified keys that were absent).
//   oracle  : at EVERY evaluation of the reader the feedback port == model (contents, validity, modified iff a delivery
//             is due exactly now, per-tick delta); reader-port recorder stream == deliveries (no loss, duplication,
//             reordering, nothing spurious); the reader is evaluated exactly on script ticks and deliveries; engine cycles
//             = {start} u ticks u (producer tick + MIN_TD): the loop goes quiet.
//   A producer tick with an EMPTY delta that makes the feedback port valid for the first time (touch / clear / no-op erase
//   as the first tick, or an empty declared initial delta) MUST be delivered: C08.tsd_empty_first_tick_delivered.
//   An empty-delta tick that finds the feedback dictionary already valid is de-duplicated by apply_delta (known finding
//   F1): tracked under C08.tsd_empty_delta_tick_delivered; every other assertion accepts either behaviour for it.
#include "hk.h"

#include <hgraph/lib/std/operators/control.h>

#ifndef NEMIT
#define NEMIT 2
#endif
#ifndef DMAX
#define DMAX 3
#endif
#ifndef WMAX
#define WMAX 5
#endif
#ifndef OPMASK
#define OPMASK 0x1ff
#endif
#ifndef INITMASK
#define INITMASK 0x7
#endif
#ifdef C08_DEBUG
#include <cstdio>
#endif

using namespace hk;

namespace {
constexpr int NOPS = 9;
constexpr int NK = 3;
constexpr int MAXC = WMAX + 3;
using Dict = TSD<Int, TS<Int>>;

DateTime g_T[NEMIT];
int g_op[NEMIT];
Int g_a[NEMIT], g_b[NEMIT];
int g_init = 0;
Int g_iv = 0;
DateTime g_start, g_end;

// contents + per-tick delta of a dictionary endpoint; masks over the concrete keys {0,1,2}
struct Snap { int live, valid, mod, added, removed; Int val[NK], mval[NK]; };
struct EvalRec { DateTime t; bool src_mod, fb_valid, fb_mod; Snap fb; bool wrote; Snap out; };
struct Tick { DateTime t; Snap s; };
EvalRec g_ev[MAXC]; int g_nev = 0;
Tick g_rd[MAXC]; int g_nrd = 0;  // ordinary consumer of the feedback reader port
Tick g_pr[MAXC]; int g_npr = 0;  // ordinary consumer of the producer output
bool g_overflow = false;
int g_m_live = 0;                // harness mirror of the producer's dictionary
Int g_m_val[NK];

Snap snap_of(const TSDInputView &d, bool valid, bool mod) {
    Snap s{};
    if (!valid) return s;
    for (const auto [k, v] : d.items()) {
        int kk = (int)k.checked_as<Int>();
        s.live |= 1 << kk;
        if (v.valid()) { s.valid |= 1 << kk; s.val[kk] = v.value().checked_as<Int>(); }
    }
    if (mod) {
        for (const auto [k, v] : d.modified_items()) {
            int kk = (int)k.checked_as<Int>();
            s.mod |= 1 << kk;
            if (v.valid()) s.mval[kk] = v.value().checked_as<Int>();
        }
        for (const auto k : d.added_keys()) s.added |= 1 << (int)k.checked_as<Int>();
        for (const auto k : d.removed_keys()) s.removed |= 1 << (int)k.checked_as<Int>();
    }
    return s;
}
// branch-free comparison / selection (the masks of an expected snapshot are selected by symbolic time comparisons)
bool snap_eq(const Snap &a, const Snap &b) {
    bool ok = (a.live == b.live) & (a.valid == b.valid) & (a.mod == b.mod) & (a.added == b.added) & (a.removed == b.removed);
    for (int k = 0; k < NK; k++) {
        ok &= (((a.valid >> k) & 1) == 0) | (a.val[k] == b.val[k]);
        ok &= (((a.mod >> k) & 1) == 0) | (a.mval[k] == b.mval[k]);
    }
    return ok;
}
void sel_contents(Snap &d, bool c, const Snap &s) {
    d.live = c ? s.live : d.live;
    d.valid = c ? s.valid : d.valid;
    for (int k = 0; k < NK; k++) d.val[k] = c ? s.val[k] : d.val[k];
}
void sel_delta(Snap &d, bool c, const Snap &s) {
    d.mod = c ? s.mod : d.mod;
    d.added = c ? s.added : d.added;
    d.removed = c ? s.removed : d.removed;
    for (int k = 0; k < NK; k++) d.mval[k] = c ? s.mval[k] : d.mval[k];
}

struct Src {
    static constexpr auto name = "c08d_src";
    static constexpr bool schedule_on_start = true;
    static void eval(NodeScheduler s, State<Int> k, DateTime now, Out<TS<Int>> out) {
        Int i = k.get();
        if (i < NEMIT && now == g_T[i]) { out.set(Int{i}); i++; k.set(i); }
        if (i < NEMIT) s.schedule(g_T[i]);
    }
};
struct Prod {
    static constexpr auto name = "c08d_prod";
    using OutT = Out<Dict>;
    static void p_set(const OutT &out, int k, Int v, int &setmask) {
        out[Int{k}].set(v);
        g_m_live |= 1 << k; g_m_val[k] = v; setmask |= 1 << k;
    }
    static void p_erase(const OutT &out, int k, int &setmask) {
        (void)out.erase(Int{k});
        g_m_live &= ~(1 << k); setmask &= ~(1 << k);
    }
    static void eval(In<"src", TS<Int>, InputValidity::Unchecked> src, In<"fb", Dict, InputValidity::Unchecked> fb, OutT out, DateTime now) {
        EvalRec r{};
        r.t = now;
        r.src_mod = src.modified();
        r.fb_valid = fb.valid();
        r.fb_mod = fb.modified();
        r.fb = snap_of(fb, r.fb_valid, r.fb_mod);
        if (r.src_mod) {
            int j = (int)src.value();
            int before = g_m_live, setmask = 0;
            Int a = g_a[j], b = g_b[j];
            switch (g_op[j]) {
                case 0: p_set(out, 0, a, setmask); break;
                case 1: p_set(out, 1, a, setmask); break;
                case 2: p_erase(out, 0, setmask); break;
                case 3: p_set(out, 0, a, setmask); p_set(out, 1, b, setmask); break;
                case 4: p_erase(out, 0, setmask); p_set(out, 2, a, setmask); break;
                case 5: out.clear(); g_m_live = 0; break;
                case 6: out.begin_mutation(now).touch(); break;
                case 7: p_erase(out, 0, setmask); p_set(out, 0, a, setmask); break;
                default: p_set(out, 0, a, setmask); p_erase(out, 0, setmask); break;
            }
            r.wrote = true;
            r.out.live = r.out.valid = g_m_live;
            r.out.mod = setmask;
            r.out.added = g_m_live & ~before;
            r.out.removed = before & ~g_m_live;
            for (int k = 0; k < NK; k++) { r.out.val[k] = g_m_val[k]; r.out.mval[k] = g_m_val[k]; }
        }
        if (g_nev < MAXC) g_ev[g_nev++] = r; else g_overflow = true;
    }
};
struct ReadRec {
    static constexpr auto name = "c08d_read_rec";
    static void eval(In<"a", Dict> a, DateTime now) {
        if (g_nrd < MAXC) g_rd[g_nrd++] = Tick{now, snap_of(a, true, true)}; else g_overflow = true;
    }
};
struct ProdRec {
    static constexpr auto name = "c08d_prod_rec";
    static void eval(In<"a", Dict> a, DateTime now) {
        if (g_npr < MAXC) g_pr[g_npr++] = Tick{now, snap_of(a, true, true)}; else g_overflow = true;
    }
};
struct Top {
    static constexpr auto name = "c08d_top";
    static void compose(Wiring &w) {
        auto s = wire<Src>(w);
        auto fb = g_init == 0   ? stdlib::feedback<Dict>(w)
                  : g_init == 1 ? stdlib::feedback<Dict>(w, dict_delta<Int, TS<Int>>({}, {}))
                                : stdlib::feedback<Dict>(w, dict_delta<Int, TS<Int>>({{Int{0}, g_iv}}, {}));
        auto p = wire<Prod>(w, s, fb());
        fb(p);
        wire<ReadRec>(w, fb());
        wire<ProdRec>(w, p);
    }
};
EventLog<8 * MAXC + 32> g_log;

#ifdef C08_DEBUG
void dump(const char *what, DateTime t, const Snap &s) {
    std::fprintf(stderr, "%s t=%ld live=%d valid=%d [%ld %ld %ld] mod=%d [%ld %ld %ld] +%d -%d\n", what, (long)us(t), s.live, s.valid, (long)s.val[0], (long)s.val[1],
                 (long)s.val[2], s.mod, (long)s.mval[0], (long)s.mval[1], (long)s.mval[2], s.added, s.removed);
}
#endif
}  // namespace

extern "C" int harness_main() {
    g_init = verif_choice("init", 3);
    if (!((INITMASK >> g_init) & 1)) { verif_end_path(); return 0; }
    for (int j = 0; j < NEMIT; j++) {
        g_op[j] = verif_choice("op", NOPS);
        if (!((OPMASK >> g_op[j]) & 1)) { verif_end_path(); return 0; }
    }
    g_iv = verif_range("ival", -1000000, 1000000);
    for (int j = 0; j < NEMIT; j++) {
        g_a[j] = verif_range("a", -1000000, 1000000);
        g_b[j] = verif_range("b", -1000000, 1000000);
    }
    std::int64_t s0 = verif_range("start", 0, 1000);
    std::int64_t win = verif_range("window", 1, WMAX);
    g_start = at_us(s0);
    g_end = g_start + TimeDelta{win};
    DateTime t = g_start;
    for (int j = 0; j < NEMIT; j++) {
        t = t + TimeDelta{verif_range("gap", j == 0 ? 0 : 1, DMAX)};
        g_T[j] = t;
    }
    RecordingObserver<8 * MAXC + 32> obs{&g_log};
    run_sim(build_graph<Top>(), g_start, g_end, &obs);

#ifdef C08_DEBUG
    for (int e = 0; e < g_nev; e++) {
        std::fprintf(stderr, "eval t=%ld src=%d fbv=%d fbm=%d wrote=%d\n", (long)us(g_ev[e].t), g_ev[e].src_mod, g_ev[e].fb_valid, g_ev[e].fb_mod, g_ev[e].wrote);
        dump("   fb ", g_ev[e].t, g_ev[e].fb);
        if (g_ev[e].wrote) dump("   out", g_ev[e].t, g_ev[e].out);
    }
    for (int e = 0; e < g_npr; e++) dump("pr", g_pr[e].t, g_pr[e].s);
    for (int e = 0; e < g_nrd; e++) dump("rd", g_rd[e].t, g_rd[e].s);
#endif

    verif_assert(!g_overflow && !g_log.overflow, "C08.log_overflow");

    // ---- what was written: the consumer-visible producer stream agrees with the mirror of the operations (every
    //      operation, also one without net effect, ticks the producer output)
    bool ok_model = true;
    {
        int q = 0;
        for (int e = 0; e < g_nev; e++) {
            if (!g_ev[e].src_mod) continue;
            ok_model &= q < g_npr;
            if (q < g_npr) ok_model &= (g_pr[q].t == g_ev[e].t) & snap_eq(g_ev[e].out, g_pr[q].s);
            q++;
        }
        ok_model &= q == g_npr;
    }

    // ---- the deliveries the statement demands (masks are concrete: keys are concrete)
    struct Deliv { DateTime t; Snap s; bool eff; bool empty; };
    Deliv dl[MAXC + 1];
    int nd = 0;
    Snap cur{};          // the reader's dictionary according to the model
    bool cur_valid = false;
    if (g_init != 0) {
        Deliv d{};
        d.t = g_start;
        if (g_init == 2) { cur.live = cur.valid = 1; cur.val[0] = g_iv; }
        d.s = cur;
        d.s.mod = d.s.added = cur.live;
        d.s.mval[0] = g_iv;
        d.eff = true;
        d.empty = (g_init == 1);
        cur_valid = true;
        dl[nd++] = d;
    }
    bool any_dedup = false, any_first_empty = false;
    for (int i = 0; i < g_npr; i++) {
        const Snap &w = g_pr[i].s;
        Deliv d{};
        d.t = g_pr[i].t + MIN_TD;
        int removed = w.removed & cur.live;
        int added = w.mod & ~cur.live;
        d.empty = (w.mod | removed) == 0;
        d.eff = !d.empty || !cur_valid;
        cur.live = (cur.live & ~removed) | w.mod;
        cur.valid = cur.live;
        for (int k = 0; k < NK; k++) if ((w.mod >> k) & 1) cur.val[k] = w.mval[k];
        d.s = cur;
        d.s.mod = w.mod; d.s.added = added; d.s.removed = removed;
        for (int k = 0; k < NK; k++) d.s.mval[k] = w.mval[k];
        if (d.eff) cur_valid = true;
        if (!d.eff) any_dedup = true;
        if (d.eff && d.empty) any_first_empty = true;
        dl[nd++] = d;
    }

    bool ok_reads = true, ok_evals = true, ok_stream = true, ok_count = true, ok_cycles = true, ok_dedup = true, ok_first_empty = true;
    // ---- every read of the feedback port by the reader node
    for (int e = 0; e < g_nev; e++) {
        const EvalRec &r = g_ev[e];
        bool have = false, mod_eff = false, mod_dedup = false;
        Snap exp{};
        const Snap none{};
        for (int j = 0; j < nd; j++) {
            bool due = dl[j].t <= r.t;  // delivered in this or an earlier cycle (the source ranks before every reader)
            bool now = dl[j].t == r.t;
            have |= due & dl[j].eff;
            sel_contents(exp, due, dl[j].s);
            sel_delta(exp, due, none);
            sel_delta(exp, now, dl[j].s);
            mod_eff |= now & dl[j].eff;
            mod_dedup |= now & !dl[j].eff;
        }
        // a read that does not tick shows no delta; a de-duplicated empty tick (F1) may or may not tick, its delta is empty
        Snap got = r.fb;
        ok_reads &= (r.fb_valid == have) & ((r.fb_mod == mod_eff) | mod_dedup) & snap_eq(exp, got);
        ok_evals &= r.src_mod | r.fb_mod;  // no spurious evaluation
    }
    // ---- the reader-port recorder stream
    for (int e = 0; e < g_nrd; e++) {
        bool match = false;
        for (int j = 0; j < nd; j++) match |= (dl[j].t == g_rd[e].t) & snap_eq(dl[j].s, g_rd[e].s);
        ok_stream &= match;                                           // nothing spurious, right contents and delta
        if (e + 1 < g_nrd) ok_count &= g_rd[e].t < g_rd[e + 1].t;     // no duplication, no reordering
    }
    for (int j = 0; j < nd; j++) {
        bool in_window = dl[j].t < g_end;
        bool rec = false, rec_empty = false, ev = false, ev_empty = false;
        for (int e = 0; e < g_nrd; e++) {
            bool at = g_rd[e].t == dl[j].t;
            rec |= at;
            rec_empty |= at & (g_rd[e].s.live == 0) & (g_rd[e].s.mod == 0) & (g_rd[e].s.removed == 0);
        }
        for (int e = 0; e < g_nev; e++) {
            bool at = (g_ev[e].t == dl[j].t) & g_ev[e].fb_mod;
            ev |= at;
            ev_empty |= at & g_ev[e].fb_valid & (g_ev[e].fb.live == 0);
        }
        if (!dl[j].eff) {
            ok_dedup &= (rec & ev) | !in_window;  // known finding F1 on the unchanged tree
            continue;
        }
        ok_count &= rec | !in_window;             // no loss
        ok_evals &= ev | !in_window;              // the active reader is evaluated on delivery
        if (dl[j].empty) ok_first_empty &= (rec_empty & ev_empty) | !in_window;
    }
    // ---- engine cycles: {start} u script ticks u (every producer tick + MIN_TD: the sink re-arms the source on every tick)
    {
        DateTime cand[1 + NEMIT + MAXC];
        int nc = 0;
        cand[nc++] = g_start;
        for (int j = 0; j < NEMIT; j++) cand[nc++] = g_T[j];
        for (int i = 0; i < g_npr; i++) cand[nc++] = g_pr[i].t + MIN_TD;
        Int expected = 0;
        for (int i = 0; i < nc; i++) {
            bool dup = false;
            for (int k2 = 0; k2 < i; k2++) dup |= (cand[k2] == cand[i]);
            expected += ((cand[i] < g_end) & !dup) ? 1 : 0;
        }
        int cycles = 0;
        for (int i = 0; i < g_log.n; i++) {
            if (g_log.ev[i].kind != EV_GRAPH_BEGIN || g_log.ev[i].depth != 0) continue;
            bool in = false;
            for (int c = 0; c < nc; c++) in |= (cand[c] == g_log.ev[i].t);
            ok_cycles &= in;
            cycles++;
        }
        ok_cycles &= (Int{cycles} == expected);
        verif_log("cycles", cycles);
    }

    verif_assert(ok_model, "C08.tsd_producer_stream_matches_operations");
    verif_assert(ok_reads, "C08.tsd_reader_sees_previous_cycle_dict_and_delta");
    verif_assert(ok_stream, "C08.tsd_reader_stream_is_producer_stream_shifted_by_one_step");
    verif_assert(ok_count, "C08.tsd_no_loss_no_duplication");
    verif_assert(ok_evals, "C08.tsd_reader_evaluated_exactly_on_ticks_and_deliveries");
    verif_assert(ok_cycles, "C08.tsd_cycles_exactly_ticks_and_deliveries");
    verif_assert(ok_first_empty, "C08.tsd_empty_first_tick_delivered");
    verif_assert(ok_dedup, "C08.tsd_empty_delta_tick_delivered");  // fails on the unchanged tree: known finding F1

    // ---- vacuity guards (decided from the concrete masks of what the reader-port recorder really saw)
    bool r_first_empty = false, r_removal = false, r_amend = false, r_swap = false, r_clear = false, r_two_keys = false, r_readd = false;
    bool seen_removed[NK] = {};
    for (int e = 0; e < g_nrd; e++) {
        const Snap &s = g_rd[e].s;
        if (e == 0 && s.live == 0 && s.mod == 0 && s.removed == 0) r_first_empty = true;
        if (s.removed) r_removal = true;
        if (s.mod & ~s.added) r_amend = true;
        if (s.removed && s.added) r_swap = true;
        if (s.removed && s.live == 0 && (s.removed & (s.removed - 1))) r_clear = true;
        if (s.mod & (s.mod - 1)) r_two_keys = true;
        for (int k = 0; k < NK; k++) {
            if (((s.added >> k) & 1) && seen_removed[k]) r_readd = true;
            if ((s.removed >> k) & 1) seen_removed[k] = true;
        }
    }
    if (r_first_empty && g_init == 0) verif_reach("tsd_empty_first_tick_delivered");
    if (r_first_empty && g_init == 1) verif_reach("tsd_empty_initial_delta_delivered");
    if (g_init == 2 && g_nrd >= 1) verif_reach("tsd_initial_delta_delivered");
    if (any_first_empty) verif_reach("tsd_empty_first_tick_written");
    if (any_dedup) verif_reach("tsd_empty_delta_tick_written");
    if (r_removal) verif_reach("tsd_removal_delivered");
    if (r_amend) verif_reach("tsd_amend_delivered");
    if (r_swap) verif_reach("tsd_remove_and_add_in_one_tick_delivered");
    if (r_clear) verif_reach("tsd_clear_of_two_keys_delivered");
    if (r_two_keys) verif_reach("tsd_two_keys_in_one_tick_delivered");
    if (r_readd) verif_reach("tsd_key_readded_after_delivered_removal");
    if (g_nrd >= 2) verif_reach("tsd_two_deliveries");
    if (g_npr >= 2) {
        if (g_pr[1].t == g_pr[0].t + MIN_TD) verif_reach("tsd_back_to_back_writes"); else verif_reach("tsd_writes_with_gap");
    }
    verif_reach("end");
    return 0;
}

// C14: every started node is stopped exactly once, in reverse order, whatever fails.
//   Root graph:  src(0) -> mid(1) -> [nested node: c0(2) -> c1(3)] -> sink(4)      (+ WITH_MAP: see C14_lifecycle_map.cpp)
//   Every scripted node has start / eval / stop hooks which count, append to one global sequence
//   and consult NFAULT fault descriptors (node, phase in {start, evaluate, stop}, occurrence).
//   enumerated: the fault descriptors (none / node x phase), cleanup_on_error on/off, whether a stop is requested
//   symbolic  : the occurrence (evaluation count) of an evaluate fault, the cycle of request_stop, the
//               source's re-scheduling deltas (cycle times)
//   oracle    : starts in evaluation order; stops in reverse order; every node whose start completed has exactly
//               one stop - by the return of run() when clean-up is on, by the release of the executor otherwise;
//               a node whose start failed / never ran is not stopped; no evaluation before start or after stop;
//               the exception reaching the caller is the first one thrown, carries its text and names the
//               failing root-level node and phase; observer after-start / after-stop notifications balance
//               per node (covers the un-scripted nested node itself).
#include "hk.h"

#include <hgraph/runtime/nested_graph_node.h>
#include <hgraph/types/subgraph_wiring.h>

#include <string>
#include <typeindex>

#ifndef NCYC
#define NCYC 3          // evaluation cycles the source asks for
#endif
#ifndef NFAULT
#define NFAULT 2        // fault descriptors
#endif
#ifndef DMAX
#define DMAX 3          // re-scheduling delta of the source, symbolic in [1,DMAX]
#endif
#ifndef PAIR_START_STOP
#define PAIR_START_STOP 1   // 1: allow a start fault combined with a stop fault (rollback with a throwing stop)
#endif

using namespace hk;

namespace {
constexpr int NN = 5;                      // scripted nodes; ids are their start (= evaluation) order
enum Phase : int { PH_START = 0, PH_EVAL = 1, PH_STOP = 2 };
constexpr const char *LABEL[NN] = {"n0src", "n1mid", "n2c0", "n3c1", "n4sink"};
// label of the ROOT-level node that owns scripted node id (children are owned by the nested node)
const char *const ROOT_LABEL[NN] = {"n0src", "n1mid", "nestbox", "nestbox", "n4sink"};
const char *const PHASE_WORD[3] = {"start", "evaluate", "stop"};

struct Fault { int node; int phase; std::int64_t occ; };   // node == NN: no fault
Fault g_fault[NFAULT];

enum SeqKind : int { SQ_START_BEGIN = 1, SQ_START_DONE, SQ_EVAL, SQ_STOP, SQ_RUN_RETURN, SQ_RELEASED };
struct Seq { int kind; int node; };
constexpr int SEQCAP = 16 + NN * (4 + NCYC);
Seq g_seq[SEQCAP];
int g_nseq = 0;
bool g_seq_overflow = false;
void seq(int kind, int node) { if (g_nseq < SEQCAP) g_seq[g_nseq++] = Seq{kind, node}; else g_seq_overflow = true; }

std::int64_t g_count[NN][3];               // how often each hook was entered
int g_first_node = -1, g_first_phase = -1; // first exception thrown by a hook
int g_throws = 0;
std::int64_t g_stop_cycle = -1;            // request_stop during mid's evaluation number g_stop_cycle
std::int64_t g_delta[NCYC + 1];
GraphExecutorView *g_exec = nullptr;

void hook(int id, int phase) {
    std::int64_t k = g_count[id][phase]++;
    seq(phase == PH_START ? SQ_START_BEGIN : phase == PH_EVAL ? SQ_EVAL : SQ_STOP, id);
    for (int f = 0; f < NFAULT; f++) {
        if (g_fault[f].node == id && g_fault[f].phase == phase && g_fault[f].occ == k) {
            if (g_throws++ == 0) { g_first_node = id; g_first_phase = phase; }
            throw std::runtime_error(std::string("boom_") + LABEL[id] + "_" + PHASE_WORD[phase]);
        }
    }
    if (phase == PH_START) seq(SQ_START_DONE, id);
}

struct Src {
    static constexpr auto name = "n0src";
    static constexpr bool schedule_on_start = true;
    static void start() { hook(0, PH_START); }
    static void stop() { hook(0, PH_STOP); }
    static void eval(NodeScheduler s, State<Int> n, Out<TS<Int>> out) {
        Int j = n.get();
        n.set(j + 1);
        if (j + 1 < NCYC) s.schedule(TimeDelta{g_delta[j]});
        hook(0, PH_EVAL);
        out.set(j);
    }
};
template <int ID> struct Pass {
    static constexpr const char *name = LABEL[ID];
    static void start() { hook(ID, PH_START); }
    static void stop() { hook(ID, PH_STOP); }
    static void eval(In<"a", TS<Int>> a, Out<TS<Int>> out) {
        if (ID == 1 && g_count[1][PH_EVAL] == g_stop_cycle && g_exec != nullptr) g_exec->request_stop();
        hook(ID, PH_EVAL);
        out.set(a.value() + 1);
    }
};
struct Sink {
    static constexpr auto name = "n4sink";
    static void start() { hook(4, PH_START); }
    static void stop() { hook(4, PH_STOP); }
    static void eval(In<"a", TS<Int>> a, State<Int> acc) {
        hook(4, PH_EVAL);
        acc.set(acc.get() + a.value());
    }
};

// Hand-rolled nested_<G>: compile  x -> c0 -> c1  into a child graph and add one single_nested_graph_node.
struct nestbox_tag {};
Port<TS<Int>> wire_nestbox(Wiring &w, const Port<TS<Int>> &in) {
    const auto *s = schema_descriptor<TS<Int>>::ts_meta();
    Wiring cw = w.child_wiring();
    Port<TS<Int>> x{cw, WiringPortRef::boundary_source(0, {}, s)};
    auto c0 = wire<Pass<2>>(cw, x);
    auto c1 = wire<Pass<3>>(cw, c0);
    CompiledSubGraph compiled = std::move(cw).finish_subgraph(c1.erased(), {s});

    std::vector<WiringPortRef> inputs{in.erased()};
    std::vector<std::pair<std::string, const TSValueTypeMetaData *>> fields;
    for (std::size_t i = 0; i < compiled.input_schemas.size(); ++i) fields.emplace_back(std::to_string(i), compiled.input_schemas[i]);
    const TSValueTypeMetaData *input_schema = TypeRegistry::instance().un_named_tsb(fields);

    WiringNodeSchema node_schema;
    node_schema.input = input_schema;
    node_schema.output = compiled.output_schema;
    WiringPortRef out = w.add_node(
        std::type_index(typeid(nestbox_tag)), node_schema, std::span<const WiringPortRef>{inputs.data(), inputs.size()}, Value{},
        [&]() {
            NodeTypeMetaData meta;
            meta.display_name = "nestbox";
            meta.input_schema = input_schema;
            meta.output_schema = compiled.output_schema;
            SingleNestedGraphNodeSpec spec;
            spec.graph_builder = std::move(compiled.graph_builder);
            spec.input_bindings = std::move(compiled.input_bindings);
            spec.output_binding = compiled.output_binding;
            NodeBuilder builder = single_nested_graph_node(std::move(meta), std::move(spec));
            builder.input_endpoint(graph_wiring_detail::input_endpoint_for_sources(
                input_schema, std::span<const WiringPortRef>{inputs.data(), inputs.size()}));
            return builder;
        });
    return Port<TS<Int>>{w, std::move(out)};
}

struct Top {
    static constexpr auto name = "top";
    static void compose(Wiring &w) {
        auto s = wire<Src>(w);
        auto m = wire<Pass<1>>(w, s);
        auto n = wire_nestbox(w, m);
        wire<Sink>(w, n);
    }
};

constexpr int LOGCAP = 48 + 24 * NCYC;
EventLog<LOGCAP> g_log;
std::int64_t g_stops_at_return[NN];
}  // namespace

extern "C" int harness_main() {
    GraphBuilder gb = build_graph<Top>();

    // ---- fault descriptors (enumerated shape, symbolic occurrence), run configuration
    bool any_start = false, any_stop = false;
    for (int f = 0; f < NFAULT; f++) {
        int node = verif_choice("fault_node", NN + 1);
        int phase = node == NN ? 0 : verif_choice("fault_phase", 3);
        std::int64_t occ = 0;
        if (node != NN && phase == PH_EVAL) occ = verif_range("fault_occ", 0, NCYC - 1);
        g_fault[f] = Fault{node, phase, occ};
        // symmetry: descriptors in non-decreasing (node, phase) order; "none" last
        if (f > 0) verif_assume(g_fault[f - 1].node * 3 + g_fault[f - 1].phase <= node * 3 + phase);
        if (node != NN && phase == PH_START) any_start = true;
        if (node != NN && phase == PH_STOP) any_stop = true;
    }
    if (!PAIR_START_STOP) verif_assume(!(any_start && any_stop));
    bool cleanup = verif_bool("cleanup_on_error");
    if (verif_bool("stop_requested")) g_stop_cycle = verif_range("stop_cycle", 0, NCYC - 1);
    for (int j = 0; j < NCYC; j++) g_delta[j] = verif_range("delta", 1, DMAX);

    RecordingObserver<LOGCAP> obs{&g_log};
    bool threw = false;
    std::string msg;
    {
        GraphExecutorBuilder eb;
        eb.graph_builder(std::move(gb)).start_time(MIN_ST).end_time(MIN_ST + TimeDelta{1000}).cleanup_on_error(cleanup);
        eb.add_lifecycle_observer(&obs);
        GraphExecutorValue ex = eb.make_executor();
        GraphExecutorView view = ex.view();
        g_exec = &view;
        try {
            view.run();
        } catch (const std::exception &e) {
            threw = true;
            msg = e.what();
        }
        g_exec = nullptr;
        seq(SQ_RUN_RETURN, -1);
        for (int i = 0; i < NN; i++) g_stops_at_return[i] = g_count[i][PH_STOP];
    }   // executor released here
    seq(SQ_RELEASED, -1);

    // ---- oracle
    verif_assert(!g_seq_overflow && !g_log.overflow, "C14.log_overflow");

    bool ok_start_order = true, ok_stop_order = true, ok_eval_window = true;
    bool started[NN] = {}, stopped[NN] = {};
    int nstart = 0, last_stop = NN;
    for (int i = 0; i < g_nseq; i++) {
        int k = g_seq[i].kind, n = g_seq[i].node;
        if (k == SQ_START_BEGIN) { ok_start_order &= (n == nstart); nstart++; }
        if (k == SQ_START_DONE) started[n] = true;
        if (k == SQ_EVAL) ok_eval_window &= started[n] && !stopped[n];
        if (k == SQ_STOP) { ok_stop_order &= (n < last_stop) && started[n]; last_stop = n; stopped[n] = true; }
    }
    bool ok_once_final = true, ok_once_return = true, ok_not_started_not_stopped = true;
    for (int i = 0; i < NN; i++) {
        std::int64_t want = started[i] ? 1 : 0;
        ok_once_final &= (g_count[i][PH_STOP] == want);
        if (cleanup) ok_once_return &= (g_stops_at_return[i] == want);
        ok_not_started_not_stopped &= started[i] || g_count[i][PH_STOP] == 0;
        verif_assert(g_count[i][PH_START] <= 1, "C14.started_at_most_once");
    }
    verif_assert(ok_start_order, "C14.start_in_evaluation_order");
    verif_assert(ok_stop_order, "C14.stop_in_reverse_order");
    verif_assert(ok_eval_window, "C14.no_eval_before_start_or_after_stop");
    verif_assert(ok_not_started_not_stopped, "C14.failed_start_not_stopped");

    // observer view: per (depth, node index) after-start and after-stop notifications balance
    bool ok_obs = true;
    for (int d = 0; d < 2; d++)
        for (int n = 0; n < 4; n++) {
            int a = 0, b = 0;
            for (int i = 0; i < g_log.n; i++) {
                if (g_log.ev[i].depth != d || g_log.ev[i].node != n) continue;
                if (g_log.ev[i].kind == EV_START_NODE) a++;
                if (g_log.ev[i].kind == EV_STOP_NODE) b++;
            }
            ok_obs &= (a == b) && (a <= 1);
        }
    // A start fault followed by a throwing stop inside the start rollback is reported under its own id (the
    // three checks are the same ones; only the id differs so the scenario can be told apart in reports).
    if (g_first_phase == PH_START && g_throws >= 2) {
        verif_assert(ok_once_final && ok_once_return && ok_obs, "C14.start_rollback_stops_remaining_nodes_after_failing_stop");
    } else {
        verif_assert(ok_once_final, "C14.every_started_node_stopped_exactly_once");
        verif_assert(ok_once_return, "C14.stopped_by_run_return_when_cleanup_on");
        verif_assert(ok_obs, "C14.observer_start_stop_balance");
    }

    // the caller sees the first exception, with its text, the owning root node's label and the phase
    verif_assert(threw == (g_throws > 0), "C14.error_reaches_caller_iff_thrown");
    if (threw && g_throws > 0) {
        std::string want = std::string("boom_") + LABEL[g_first_node] + "_" + PHASE_WORD[g_first_phase];
        verif_assert(msg.find(want) != std::string::npos, "C14.caller_gets_first_error");
        verif_assert(msg.find(ROOT_LABEL[g_first_node]) != std::string::npos, "C14.error_names_failing_node");
        verif_assert(msg.find(std::string(PHASE_WORD[g_first_phase]) + " failed") != std::string::npos, "C14.error_names_phase");
    }

    // ---- reach labels
    if (g_throws == 0) verif_reach("clean_run");
    if (g_first_phase == PH_START) verif_reach("start_fault");
    if (g_first_phase == PH_EVAL) verif_reach("eval_fault");
    if (g_first_phase == PH_STOP) verif_reach("stop_fault_only");
    if (g_throws >= 2) verif_reach("two_faults_thrown");
    if (g_throws >= 2 && g_first_phase == PH_EVAL) verif_reach("eval_fault_then_stop_fault");
    if (g_throws >= 2 && g_first_phase == PH_START) verif_reach("start_fault_then_stop_fault");
    if (g_first_node == 2 || g_first_node == 3) verif_reach("fault_in_nested_child");
    if (!cleanup && g_first_phase == PH_EVAL) verif_reach("eval_fault_cleanup_off");
    if (g_stop_cycle >= 0 && g_count[1][PH_EVAL] < NCYC && g_throws == 0) verif_reach("stop_request_cut_run");
    verif_log("throws", g_throws);
    verif_log("evals", g_count[4][PH_EVAL]);
    verif_reach("end");
    return 0;
}

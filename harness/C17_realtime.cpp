// C17: the real-time run loop never runs early, never drops a wake-up, always stops.
//   Real GraphExecutor in RealTime mode over scripted scheduler nodes; the wall clock is the engine's
//   virtual clock: every reading advances by a symbolic amount, every timed wait that runs into its
//   deadline may overshoot by a symbolic lateness; while the loop waits (mutex released) the
//   environment may request a stop (verif_wait_hook).
//   symbolic : requested deltas, start lag behind the wall clock (made concrete by solver-driven enumeration where
//              they determine a wait deadline)
//   enumerated: lateness of every timed wait, time taken by evaluations, at which wait the stop request is injected
//   oracle   : evaluation time strictly increases; a node scheduled for logical T runs at exactly T and the
//              wall clock read inside that cycle is >= T; every wake-up due before end is delivered (late when
//              lagging) unless a stop came first; after a stop request no further cycle starts and run() returns.
#include "hk.h"

#ifndef KNODES
#define KNODES 2
#endif
#ifndef JEVALS
#define JEVALS 2
#endif
#ifndef DMAX
#define DMAX 3
#endif
#ifndef WIN
#define WIN 8
#endif
#ifndef BUSY_MAX_US
#define BUSY_MAX_US 2
#endif
#ifndef LATE_MAX_US
#define LATE_MAX_US 2
#endif
#ifndef MAX_WAITS
#define MAX_WAITS 6
#endif
#ifndef ALARMS
#define ALARMS 0   // 1: node 1 asks for WALL-CLOCK alarms at (wall now + d), d in [-2, DMAX]: already-due alarms included
#endif

using namespace hk;

namespace {
std::int64_t g_delta[KNODES][JEVALS];
constexpr int MAXREQ = KNODES * (JEVALS + 1);
struct Req { DateTime t; int node; };
Req g_req[MAXREQ];
int g_nreq = 0;
Req g_alarm_wall[MAXREQ];  // (requested host time W, index of the request it belongs to)
int g_nalarm = 0;
struct Run { DateTime t; int node; DateTime wall; };
Run g_runs[MAXREQ + 8];
int g_nruns = 0;
DateTime g_start, g_end;
GraphExecutorValue *g_exec = nullptr;
int g_wait_no = 0, g_stop_at_wait = -1;
bool g_stop_requested = false;
int g_runs_at_stop = -1;
bool g_evaluating = false;
bool g_stop_in_start = false;

DateTime wall_now_us() { return DateTime{std::chrono::duration_cast<TimeDelta>(std::chrono::nanoseconds{verif_clock_ns()})}; }

struct Sched {
    static constexpr auto name = "sched";
    static constexpr bool schedule_on_start = true;
    // a node may ask for the stop from its own start hook: the request is latched before the loop's first cycle
    static void start() {
        if (g_stop_at_wait == -2 && !g_stop_requested && g_exec != nullptr) {
            g_exec->view().request_stop();
            g_stop_requested = true;
            g_stop_in_start = true;
            g_runs_at_stop = 0;
            verif_reach("stop_requested_during_start");
        }
    }
    static void eval(NodeScheduler s, State<Int> n, Scalar<"id", Int> id, DateTime now, Out<TS<Int>> out) {
        int k = (int)id.value();
        Int j = n.get();
        if (g_nruns < MAXREQ + 8) g_runs[g_nruns++] = Run{now, k, wall_now_us()};
        if (ALARMS && k == 1 && j < JEVALS) {
            // a wall-clock alarm for absolute host time W.  Due in the future: a cycle at exactly W.  Already due (the clock
            // passed W, or the graph lags): delivered by the next evaluatable cycle, never dropped.
            std::int64_t d = g_delta[k][j];
            DateTime wall = wall_now_us();
            DateTime ref = wall > now ? wall : now;
            DateTime W = wall + TimeDelta{d};
            s.schedule(W, std::nullopt, true);
            DateTime expect = W > ref ? W : (now + MIN_TD > ref ? now + MIN_TD : ref);
            if (g_nreq < MAXREQ) g_req[g_nreq++] = Req{expect, k};
            if (!(W > ref)) verif_reach("already_due_alarm_requested");
            g_alarm_wall[g_nalarm < MAXREQ ? g_nalarm++ : 0] = Req{W, (int)g_nreq - 1};
        } else if (j < JEVALS) {
            std::int64_t d = g_delta[k][j];
            if (d > 0) {
                s.schedule(TimeDelta{d});
                if (g_nreq < MAXREQ) g_req[g_nreq++] = Req{now + TimeDelta{d}, k};
            }
        }
        out.set(j);
        n.set(j + 1);
        if (k == 0) verif_clock_set_ns(verif_clock_ns() + 1000 * (std::int64_t)verif_choice("busy_us", BUSY_MAX_US + 1));  // evaluation takes time
    }
};
struct Top {
    static constexpr auto name = "top";
    static void compose(Wiring &w) {
        for (int k = 0; k < KNODES; k++) wire<Sched>(w, Int{k});
    }
};
EventLog<96> g_log;
}  // namespace

// the environment acts while the loop is waiting with its mutex released
extern "C" void verif_wait_hook(void) {
    int w = g_wait_no++;
    if (w == g_stop_at_wait && g_exec != nullptr) {
        g_exec->view().request_stop();
        g_stop_requested = true;
        g_runs_at_stop = g_nruns;
        verif_reach("stop_requested_during_wait");
    }
}

extern "C" int harness_main() {
    for (int k = 0; k < KNODES; k++)
        for (int j = 0; j < JEVALS; j++) g_delta[k][j] = verif_range("delta", (ALARMS && k == 1) ? -2 : 0, DMAX);
    // the run starts at the wall clock or up to 3 us in the past (a lagging start), never in the future
    std::int64_t lag = verif_range("lag", 0, 3);
    g_stop_at_wait = verif_choice("stop_at_wait", MAX_WAITS + 2) - 2;  // -1: never, -2: from a start hook
    // clock reads do not advance time by themselves; time passes while waiting (deadline + enumerated lateness)
    // and while evaluating (a node 'takes' an enumerated number of microseconds)
    verif_clock_config(0, 0, LATE_MAX_US);
    DateTime wall0 = wall_now_us();
    g_start = wall0 - TimeDelta{lag};
    g_end = g_start + TimeDelta{WIN};
    for (int k = 0; k < KNODES; k++) g_req[g_nreq++] = Req{g_start, k};

    RecordingObserver<96> obs{&g_log};
    GraphExecutorBuilder eb;
    eb.graph_builder(build_graph<Top>()).mode(GraphExecutorMode::RealTime).start_time(g_start).end_time(g_end).add_lifecycle_observer(&obs);
    GraphExecutorValue ex = eb.make_executor();
    g_exec = &ex;
    ex.view().run();
    g_exec = nullptr;
    verif_reach("run_returned");

    // ---- oracle
    verif_assert(!g_log.overflow, "C17.log_overflow");
    DateTime prev = MIN_DT;
    int cycles = 0;
    bool ok_increasing = true, ok_requested = true, ok_not_early = true, ok_honoured = true, ok_asked = true;
    for (int i = 0; i < g_log.n; i++) {
        if (g_log.ev[i].kind != EV_GRAPH_BEGIN || g_log.ev[i].depth != 0) continue;
        DateTime t = g_log.ev[i].t;
        cycles++;
        ok_increasing &= (t > prev) & (t >= g_start) & (t < g_end);
        prev = t;
    }
    for (int i = 0; i < g_nruns; i++) {
        bool asked = false;
        for (int r = 0; r < g_nreq; r++) asked |= (g_req[r].t == g_runs[i].t) & (g_req[r].node == g_runs[i].node);
        ok_asked &= asked;                              // evaluated at exactly a requested logical time
        ok_not_early &= (g_runs[i].wall >= g_runs[i].t);  // never before the wall clock reached it
    }
    if (!g_stop_requested) {
        for (int r = 0; r < g_nreq; r++) {
            bool ran = false;
            for (int i = 0; i < g_nruns; i++) ran |= (g_runs[i].t == g_req[r].t) & (g_runs[i].node == g_req[r].node);
            ok_honoured &= ran | (g_req[r].t >= g_end);
        }
        verif_reach("ran_to_end_time");
    } else {
        // a stop request ends the run after the current cycle: the loop was waiting, so no further cycle starts
        if (g_stop_in_start) verif_assert(cycles <= 1, "C17.stop_requested_during_start_not_lost");  // at most the start cycle
        else verif_assert(g_nruns == g_runs_at_stop, "C17.no_cycle_after_stop_request");
    }
    // a delivered alarm is never delivered before the host clock reached the time it was set for
    bool ok_alarm_wall = true;
    for (int a = 0; a < g_nalarm; a++)
        for (int i = 0; i < g_nruns; i++)
            ok_alarm_wall &= !((g_runs[i].t == g_req[g_alarm_wall[a].node].t) & (g_runs[i].node == 1)) | (g_runs[i].wall >= g_alarm_wall[a].t);
    if (ALARMS) verif_assert(ok_alarm_wall, "C17.alarm_not_delivered_before_its_wall_time");
    verif_assert(ok_increasing, "C17.time_strictly_increases_within_window");
    verif_assert(ok_asked, "C17.evaluated_at_exactly_requested_time");
    verif_assert(ok_not_early, "C17.never_before_wall_clock");
    verif_assert(ok_honoured, "C17.due_wakeup_delivered");
    if (cycles >= 3) verif_reach("three_cycles");
    verif_log("cycles", cycles);
    verif_reach("end");
    return 0;
}

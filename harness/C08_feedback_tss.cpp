// C08 (collection shape): stdlib::feedback<TSS<Int>> delivers each set delta exactly one smallest time step later.
//   producer == reader: on every script tick it applies an ENUMERATED operation to its TSS output
//       op 0 add 0 | 1 add 1 | 2 remove 0 | 3 add 0 and 1 | 4 remove 0, add 2      (keys concrete: hashed containers)
//   the feedback sink captures the per-cycle delta (capture_delta / TSS delta copy), the source re-applies it
//   (apply_delta) one step later.  symbolic: script times (first offset >= 0, gaps >= 1 us), start, window.
//   oracle: at every evaluation of the reader the feedback port's contents == the producer's set after its last write
//           in an EARLIER cycle, added()/removed() == that write's net delta iff it happened exactly MIN_TD ago (else
//           empty / not modified); reader-port recorder stream = producer's effective writes shifted by MIN_TD;
//           cycles = {start} u ticks u deliveries (the loop goes quiet: the reader never writes on delivery).
#include "hk.h"

#include <hgraph/lib/std/operators/control.h>

#ifndef NEMIT
#define NEMIT 2
#endif
#ifndef DMAX
#define DMAX 3
#endif
#ifndef WMAX
#define WMAX 5
#endif
#ifndef NOPS
#define NOPS 5
#endif
#ifdef C08_DEBUG
#include <cstdio>
#endif

using namespace hk;

namespace {
constexpr int MAXC = WMAX + 3;
DateTime g_T[NEMIT];
int g_op[NEMIT];
DateTime g_start, g_end;

struct EvalRec { DateTime t; bool src_mod, fb_valid, fb_mod, wrote; int fb_set, fb_added, fb_removed; int out_set, out_added, out_removed; };
struct Tick { DateTime t; int set, added, removed; };
EvalRec g_ev[MAXC]; int g_nev = 0;
Tick g_rd[MAXC]; int g_nrd = 0;
Tick g_pr[MAXC]; int g_npr = 0;  // what an ordinary consumer of the producer output sees
bool g_overflow = false;
int g_model_set = 0;  // harness mirror of the producer's output set (bit k = key k)

template <class V> int mask_of(const V &v) { int m = 0; for (Int k : v) m |= 1 << (int)k; return m; }

struct Src {
    static constexpr auto name = "c08s_src";
    static constexpr bool schedule_on_start = true;
    static void eval(NodeScheduler s, State<Int> k, DateTime now, Out<TS<Int>> out) {
        Int i = k.get();
        if (i < NEMIT && now == g_T[i]) { out.set(Int{g_op[i]}); i++; k.set(i); }
        if (i < NEMIT) s.schedule(g_T[i]);
    }
};
struct Prod {
    static constexpr auto name = "c08s_prod";
    static void eval(In<"src", TS<Int>, InputValidity::Unchecked> src, In<"fb", TSS<Int>, InputValidity::Unchecked> fb, Out<TSS<Int>> out, DateTime now) {
        EvalRec r{};
        r.t = now;
        r.src_mod = src.modified();
        r.fb_valid = fb.valid();
        r.fb_mod = fb.modified();
        r.fb_set = r.fb_valid ? mask_of(fb.values()) : 0;
        r.fb_added = r.fb_mod ? mask_of(fb.added()) : 0;
        r.fb_removed = r.fb_mod ? mask_of(fb.removed()) : 0;
        if (r.src_mod) {
            int before = g_model_set;
            switch ((int)src.value()) {
                case 0: out.add(Int{0}); g_model_set |= 1; break;
                case 1: out.add(Int{1}); g_model_set |= 2; break;
                case 2: out.remove(Int{0}); g_model_set &= ~1; break;
                case 3: out.add(Int{0}); out.add(Int{1}); g_model_set |= 3; break;
                default: out.remove(Int{0}); out.add(Int{2}); g_model_set = (g_model_set & ~1) | 4; break;
            }
            r.out_set = g_model_set;
            r.out_added = g_model_set & ~before;
            r.out_removed = before & ~g_model_set;
            r.wrote = (r.out_added | r.out_removed) != 0;  // an operation without net effect is not a tick
        }
        if (g_nev < MAXC) g_ev[g_nev++] = r; else g_overflow = true;
    }
};
struct ReadRec {
    static constexpr auto name = "c08s_read_rec";
    static void eval(In<"a", TSS<Int>> a, DateTime now) {
        if (g_nrd < MAXC) g_rd[g_nrd++] = Tick{now, mask_of(a.values()), mask_of(a.added()), mask_of(a.removed())}; else g_overflow = true;
    }
};
struct ProdRec {
    static constexpr auto name = "c08s_prod_rec";
    static void eval(In<"a", TSS<Int>> a, DateTime now) {
        if (g_npr < MAXC) g_pr[g_npr++] = Tick{now, mask_of(a.values()), mask_of(a.added()), mask_of(a.removed())}; else g_overflow = true;
    }
};
struct Top {
    static constexpr auto name = "c08s_top";
    static void compose(Wiring &w) {
        auto s = wire<Src>(w);
        auto fb = stdlib::feedback<TSS<Int>>(w);
        auto p = wire<Prod>(w, s, fb());
        fb(p);
        wire<ReadRec>(w, fb());
        wire<ProdRec>(w, p);
    }
};
EventLog<8 * MAXC + 32> g_log;
}  // namespace

extern "C" int harness_main() {
    for (int j = 0; j < NEMIT; j++) g_op[j] = verif_choice("op", NOPS);
    std::int64_t s0 = verif_range("start", 0, 1000);
    std::int64_t win = verif_range("window", 1, WMAX);
    g_start = at_us(s0);
    g_end = g_start + TimeDelta{win};
    DateTime t = g_start;
    for (int j = 0; j < NEMIT; j++) {
        t = t + TimeDelta{verif_range("gap", j == 0 ? 0 : 1, DMAX)};
        g_T[j] = t;
    }
    RecordingObserver<8 * MAXC + 32> obs{&g_log};
    run_sim(build_graph<Top>(), g_start, g_end, &obs);

#ifdef C08_DEBUG
    for (int e = 0; e < g_nev; e++) { const EvalRec &r = g_ev[e]; std::fprintf(stderr, "eval t=%ld src=%d fbv=%d fbm=%d set=%d +%d -%d | wrote=%d out=%d +%d -%d\n", (long)us(r.t), r.src_mod, r.fb_valid, r.fb_mod, r.fb_set, r.fb_added, r.fb_removed, r.wrote, r.out_set, r.out_added, r.out_removed); }
    for (int e = 0; e < g_npr; e++) std::fprintf(stderr, "pr t=%ld set=%d +%d -%d\n", (long)us(g_pr[e].t), g_pr[e].set, g_pr[e].added, g_pr[e].removed);
    for (int e = 0; e < g_nrd; e++) std::fprintf(stderr, "rd t=%ld set=%d +%d -%d\n", (long)us(g_rd[e].t), g_rd[e].set, g_rd[e].added, g_rd[e].removed);
#endif

    verif_assert(!g_overflow && !g_log.overflow, "C08.log_overflow");
    // What was written = what an ordinary consumer of the producer output saw (g_pr).  A tick is EFFECTIVE when it
    // changes the set or makes the output valid for the first time; a tick with an empty delta on an already valid
    // output (e.g. add of a present key) is tracked under its own id (see notes/C08.md, finding F1).
    bool eff[MAXC];
    bool ok_model = true;
    {
        int q = 0;
        for (int e = 0; e < g_nev; e++) {  // the consumer-visible stream agrees with the harness mirror of the operations
            if (!g_ev[e].src_mod) continue;
            ok_model &= q < g_npr;
            if (q < g_npr) ok_model &= (g_pr[q].t == g_ev[e].t) & (g_pr[q].set == g_ev[e].out_set) & (g_pr[q].added == g_ev[e].out_added) & (g_pr[q].removed == g_ev[e].out_removed);
            q++;
        }
        ok_model &= q == g_npr;
    }
    bool any_empty = false;
    for (int i = 0; i < g_npr; i++) {
        eff[i] = (g_pr[i].added | g_pr[i].removed) != 0 || i == 0;
        if (!eff[i]) any_empty = true;
    }
    bool ok_reads = true, ok_stream = true, ok_count = true, ok_evals = true, ok_cycles = true, ok_empty = true;
    bool back_to_back = false, removal_delivered = false;
    for (int e = 0; e < g_nev; e++) {
        const EvalRec &r = g_ev[e];
        bool have = false, exp_mod = false;
        int exp_set = 0, exp_added = 0, exp_removed = 0;
        for (int k = 0; k < g_npr; k++) {
            if (!eff[k]) continue;
            bool earlier = g_pr[k].t < r.t;
            bool just = g_pr[k].t + MIN_TD == r.t;
            have |= earlier;
            exp_set = earlier ? g_pr[k].set : exp_set;
            exp_mod = earlier ? just : exp_mod;
            exp_added = earlier ? (just ? g_pr[k].added : 0) : exp_added;
            exp_removed = earlier ? (just ? g_pr[k].removed : 0) : exp_removed;
        }
        ok_reads &= (r.fb_valid == have) & (r.fb_mod == exp_mod) & (r.fb_set == exp_set) & (r.fb_added == exp_added) & (r.fb_removed == exp_removed);
        ok_evals &= r.src_mod | r.fb_mod;
    }
    int k = 0;
    Int expected_deliveries = 0;
    for (int i = 0; i < g_npr; i++) {
        if (!eff[i]) {
            // an empty-delta tick: is it delivered as a tick one step later?
            bool found = false;
            for (int e = 0; e < g_nrd; e++) found |= (g_rd[e].t == g_pr[i].t + MIN_TD);
            ok_empty &= found | (g_pr[i].t + MIN_TD >= g_end);
            continue;
        }
        expected_deliveries += (g_pr[i].t + MIN_TD < g_end) ? 1 : 0;
        if (k < g_nrd) {
            ok_stream &= (g_rd[k].t == g_pr[i].t + MIN_TD) & (g_rd[k].set == g_pr[i].set) & (g_rd[k].added == g_pr[i].added) & (g_rd[k].removed == g_pr[i].removed);
            if (g_pr[i].removed) removal_delivered = true;
            k++;
        }
        bool found = false;
        for (int e = 0; e < g_nev; e++) found |= (g_ev[e].t == g_pr[i].t + MIN_TD) & g_ev[e].fb_mod;
        ok_evals &= found | (g_pr[i].t + MIN_TD >= g_end);
    }
    ok_count &= (Int{k} == expected_deliveries) & (any_empty | (k == g_nrd));
    for (int i = 0; i + 1 < g_npr; i++)
        if (g_pr[i + 1].t == g_pr[i].t + MIN_TD) back_to_back = true;
    {
        DateTime cand[1 + NEMIT + MAXC];
        int nc = 0;
        cand[nc++] = g_start;
        for (int j = 0; j < NEMIT; j++) cand[nc++] = g_T[j];
        for (int i = 0; i < g_npr; i++) cand[nc++] = g_pr[i].t + MIN_TD;  // the sink re-arms the source on every tick
        Int expected = 0;
        for (int i = 0; i < nc; i++) {
            bool dup = false;
            for (int k2 = 0; k2 < i; k2++) dup |= (cand[k2] == cand[i]);
            expected += ((cand[i] < g_end) & !dup) ? 1 : 0;
        }
        int cycles = 0;
        for (int i = 0; i < g_log.n; i++) {
            if (g_log.ev[i].kind != EV_GRAPH_BEGIN || g_log.ev[i].depth != 0) continue;
            bool in = false;
            for (int c = 0; c < nc; c++) in |= (cand[c] == g_log.ev[i].t);
            ok_cycles &= in;
            cycles++;
        }
        ok_cycles &= (Int{cycles} == expected);
        verif_log("cycles", cycles);
    }
    if (any_empty) verif_reach("tss_empty_delta_tick_written");
    verif_assert(ok_model, "C08.tss_producer_stream_matches_operations");
    verif_assert(ok_reads, "C08.tss_reader_sees_previous_cycle_set_and_delta");
    verif_assert(ok_stream, "C08.tss_reader_stream_is_producer_stream_shifted_by_one_step");
    verif_assert(ok_count, "C08.tss_no_loss_no_duplication");
    verif_assert(ok_evals, "C08.tss_reader_evaluated_exactly_on_ticks_and_deliveries");
    verif_assert(ok_cycles, "C08.tss_cycles_exactly_ticks_and_deliveries");
    verif_assert(ok_empty, "C08.tss_empty_delta_tick_delivered");  // fails on the unchanged tree: known finding F1
    if (back_to_back) verif_reach("tss_back_to_back_writes");
    if (removal_delivered) verif_reach("tss_removal_delivered");
    if (g_nrd >= 2) verif_reach("tss_two_deliveries");
    verif_reach("end");
    return 0;
}

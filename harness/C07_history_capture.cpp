// C07 (process-history independence of error capture): what a node's captured NodeError contains is decided by the
//   ErrorCaptureOptions of ITS OWN graph, whichever other graphs were built or run earlier in the process.
//   Two graphs with the same nodes and topology   src -> mid -> thrower -> sink,  exception_time_series(thrower, options) -> err sink
//   differ only in the options:  A = default (back-trace depth 1, no captured values),  B = depth 2 + captured input values.
//   The process-wide node-type registry (node.cpp NodeRuntimeRegistry::find_canonical / schema_equivalent) interns the
//   error-capturing variants of `thrower`; if two variants that differ only in their options were treated as one type, the
//   graph built second would silently get the options of the graph built first.
//   The registry is process-wide, so "B alone" cannot be a second run inside one path; every graph is instead compared
//   with what its own options demand.
//   enumerated: the history {A then B, B then A, B only}, whether graph 1 is run before graph 2 is built, the (concrete,
//               because a capturing node formats them) payload base value
//   symbolic  : in which evaluation each graph's thrower throws
//   oracle    : each graph produces exactly one error tick, in the throwing cycle, with the thrown message; its
//               activation back trace has 1 + depth node frames and shows input values iff capture_values - of its OWN options.
#include "hk.h"

#include <hgraph/runtime/node_error.h>
#include <hgraph/types/subgraph_wiring.h>

#include <string>

#ifndef NCYC
#define NCYC 3
#endif
#ifndef NVAL
#define NVAL 2          // enumerated payload base values
#endif

using namespace hk;

namespace {
constexpr std::size_t DEPTH[2] = {1, 2};
constexpr bool VALUES[2] = {false, true};

struct Rec { int ticks = 0; DateTime t{}; int frames = -1; bool has_values = false; bool msg_ok = false; DateTime thrown_at{}; bool threw = false; };
Rec g_rec[2];
int g_cur = 0;                        // which graph (0 = A, 1 = B) is running
std::int64_t g_throw_at[2];           // symbolic: evaluation number in which the thrower throws
Int g_base = 0;

struct Src {
    static constexpr auto name = "src";
    static constexpr bool schedule_on_start = true;
    static void eval(NodeScheduler s, State<Int> n, Out<TS<Int>> out) {
        Int c = n.get();
        n.set(c + 1);
        if (c + 1 < NCYC) s.schedule(MIN_TD);
        out.set(g_base + c);
    }
};
struct Mid {
    static constexpr auto name = "mid";
    static void eval(In<"a", TS<Int>> a, Out<TS<Int>> out) { out.set(a.value() + 10); }
};
struct Thrower {
    static constexpr auto name = "thrower";
    static void eval(In<"a", TS<Int>> a, Out<TS<Int>> out, State<Int> n, DateTime now) {
        Int k = n.get();
        n.set(k + 1);
        if (k == g_throw_at[g_cur]) {
            g_rec[g_cur].threw = true;
            g_rec[g_cur].thrown_at = now;
            throw std::runtime_error("boom");
        }
        out.set(a.value() * 2);
    }
};
struct Sink {
    static constexpr auto name = "sink";
    static void eval(In<"a", TS<Int>> a, State<Int> acc) { acc.set(acc.get() + a.value()); }
};
struct ErrSink {
    static constexpr auto name = "errsink";
    static void eval(In<"e", TS<NodeError>> e, DateTime now) {
        auto b = e.base().value().as_bundle();
        std::string msg = b.at("error_msg").checked_as<Str>();
        std::string tr = b.at("activation_back_trace").checked_as<Str>();
        Rec &r = g_rec[g_cur];
        r.ticks++;
        r.t = now;
        r.msg_ok = (msg == "boom");
        int frames = 0;
        for (char ch : tr) frames += (ch == '[') ? 1 : 0;          // one "<name>[<index>]" line per node frame
        r.frames = frames;
        r.has_values = tr.find("value=") != std::string::npos;
    }
};
template <int G> struct Top {
    static constexpr auto name = "top";
    static void compose(Wiring &w) {
        auto s = wire<Src>(w);
        auto m = wire<Mid>(w, s);
        auto t = wire<Thrower>(w, m);
        auto err = exception_time_series(t, ErrorCaptureOptions{.trace_back_depth = DEPTH[G], .capture_values = VALUES[G]});
        wire<ErrSink>(w, err);
        wire<Sink>(w, t);
    }
};

GraphBuilder build(int g) { return g == 0 ? build_graph<Top<0>>() : build_graph<Top<1>>(); }
bool run(int g, GraphBuilder gb) {
    g_cur = g;
    try {
        run_sim(std::move(gb), MIN_ST, MIN_ST + TimeDelta{1000});
    } catch (const std::exception &) {
        return false;
    }
    return true;
}
}  // namespace

extern "C" int harness_main() {
    int history = verif_choice("history", 3);            // 0: A then B, 1: B then A, 2: B only
    bool interleave = history == 2 ? false : verif_bool("run_first_before_building_second");
    g_base = verif_choice("base", NVAL);
    g_throw_at[0] = verif_range("throw_at", 0, NCYC - 1);
    g_throw_at[1] = verif_range("throw_at", 0, NCYC - 1);

    int first = history == 0 ? 0 : 1, second = history == 0 ? 1 : 0;
    bool ran[2] = {false, false}, completed[2] = {true, true};
    if (history == 2) {
        completed[1] = run(1, build(1));
        ran[1] = true;
    } else if (interleave) {
        completed[first] = run(first, build(first));
        completed[second] = run(second, build(second));
        ran[0] = ran[1] = true;
    } else {
        GraphBuilder g1 = build(first);
        GraphBuilder g2 = build(second);
        completed[first] = run(first, std::move(g1));
        completed[second] = run(second, std::move(g2));
        ran[0] = ran[1] = true;
    }

    // ---- oracle: every graph that ran is judged by its own options
    bool ok_run = true, ok_tick = true, ok_depth = true, ok_values = true;
    for (int g = 0; g < 2; g++) {
        if (!ran[g]) continue;
        const Rec &r = g_rec[g];
        ok_run &= completed[g] && r.threw;
        ok_tick &= (r.ticks == 1) && r.msg_ok && (r.t == r.thrown_at);
        ok_depth &= (r.frames == 1 + (int)DEPTH[g]);
        ok_values &= (r.has_values == VALUES[g]);
        verif_log(g == 0 ? "frames_a" : "frames_b", r.frames);
        verif_log(g == 0 ? "values_a" : "values_b", r.has_values ? 1 : 0);
    }
    verif_assert(ok_run, "C07.capturing_graph_runs_to_completion");
    verif_assert(ok_tick, "C07.one_error_tick_with_message_in_throwing_cycle");
    verif_assert(ok_depth, "C07.error_back_trace_depth_follows_own_options_whatever_was_built_before");
    verif_assert(ok_values, "C07.error_captured_values_follow_own_options_whatever_was_built_before");

    if (history == 0) verif_reach("a_before_b");
    if (history == 1) verif_reach("b_before_a");
    if (history == 2) verif_reach("b_only");
    if (interleave) verif_reach("first_graph_run_before_second_built");
    verif_reach("end");
    return 0;
}

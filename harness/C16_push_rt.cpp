// C16 (single evaluation thread, environment acting at wait points): a real queue push-source node in a real
// real-time executor.  The environment (verif_wait_hook, called while the run loop waits with its mutex
// released; plus the start callback; plus a sink that pushes during evaluation) performs an enumerated script
// of try_send / request_stop actions with symbolic payloads.
//   oracle: delivered values are, in order, a prefix of the accepted values; each delivered once, in its own
//           engine cycle, with strictly increasing times; with no stop request every accepted value is
//           delivered before run() returns; accepted-but-undelivered never exceeds the capacity; a try_send
//           is refused exactly when the queue is full or the source is not accepting; nothing is accepted after stop.
#include "hk.h"

#include <hgraph/runtime/push_source_node.h>

#ifndef NWAITS
#define NWAITS 3
#endif
#ifndef MAXSEND
#define MAXSEND 5
#endif
#ifndef WIN_US
#define WIN_US 40
#endif

using namespace hk;

namespace {
PushSourceSender g_sender;
GraphExecutorValue *g_exec = nullptr;
std::int64_t g_cap = 0;

Int g_accepted[MAXSEND + 2];
int g_nacc = 0;
struct Deliv { Int v; DateTime t; };
Deliv g_deliv[MAXSEND + 2];
int g_ndel = 0;
int g_wait_no = 0;
int g_script[NWAITS];
bool g_stop_requested = false, g_stopped_node = false;
bool ok_refusal = true, ok_capacity = true, ok_after_stop = true;
int g_sends = 0;
bool g_push_in_eval = false;

// one send attempt with the oracle for the admission decision
void attempt_send(bool expect_accepting) {
    if (g_sends >= MAXSEND) return;
    g_sends++;
    Int v = verif_range("payload", -1000, 1000);
    int pending_before = g_nacc - g_ndel;
    bool full = g_cap != 0 && pending_before >= g_cap;
    bool ok = g_sender.try_send(v);
    if (ok) { if (g_nacc < MAXSEND + 2) g_accepted[g_nacc++] = v; }
    ok_refusal &= (ok == (expect_accepting && !full));
    ok_after_stop &= !(ok && !expect_accepting);
    ok_capacity &= (g_cap == 0) | (g_nacc - g_ndel <= g_cap);
    if (!ok && full) verif_reach("refused_when_full");
}

void sink_eval(const NodeView &view, DateTime evaluation_time) {
    auto root = view.input(evaluation_time);
    auto bundle = root.as_bundle();
    const auto input = bundle[0];
    if (g_ndel < MAXSEND + 2) g_deliv[g_ndel++] = Deliv{input.value().checked_as<Int>(), evaluation_time};
    if (g_push_in_eval && g_ndel == 1) { attempt_send(true); verif_reach("pushed_during_evaluation"); }
}
}  // namespace

extern "C" void verif_wait_hook(void) {
    int w = g_wait_no++;
    if (w >= NWAITS || g_exec == nullptr) return;
    switch (g_script[w]) {
        case 1: attempt_send(!g_stop_requested); break;
        case 2: attempt_send(!g_stop_requested); attempt_send(!g_stop_requested); verif_reach("two_pushes_in_one_wait"); break;
        case 3:
            if (!g_stop_requested) { g_exec->view().request_stop(); g_stop_requested = true; verif_reach("stop_requested_during_wait"); }
            break;
        default: break;
    }
}

extern "C" int harness_main() {
    auto &registry = TypeRegistry::instance();
    const auto *int_meta = registry.register_scalar<Int>("int");
    const auto *ts_int = registry.ts(int_meta);
    const auto *input_schema = registry.un_named_tsb({{std::string{"in"}, ts_int}});

    g_cap = verif_choice("capacity", 3);  // 0 = unbounded, 1, 2
    int at_start = verif_choice("sends_at_start", 3);
    g_push_in_eval = verif_bool("push_in_eval");
    for (int w = 0; w < NWAITS; w++) g_script[w] = verif_choice("act", 4);

    GraphBuilder gb;
    gb.add_node(make_push_source_node(*ts_int, make_push_source_queue_policy(*ts_int, (std::size_t)g_cap),
                                      [at_start](PushSourceSender s) {
                                          g_sender = std::move(s);
                                          for (int i = 0; i < at_start; i++) attempt_send(true);
                                      }));
    NodeTypeMetaData sink_schema;
    sink_schema.display_name = "verif_sink";
    sink_schema.input_schema = input_schema;
    sink_schema.node_kind = NodeKind::Sink;
    NodeCallbacks cb;
    cb.evaluate = [](const NodeView &view, DateTime t) { sink_eval(view, t); };
    gb.add_node(NodeBuilder::native(std::move(sink_schema), std::move(cb),
                                    TSEndpointSchema::non_peered(input_schema, {TSEndpointSchema::peered(ts_int)})));
    gb.add_edge(GraphEdge{.source_node = make_graph_edge_source(0), .source_path = {}, .target_node = 1, .target_path = {0}});

    verif_clock_config(0, 0, 1);
    DateTime start = DateTime{std::chrono::duration_cast<TimeDelta>(std::chrono::nanoseconds{verif_clock_ns()})};
    GraphExecutorBuilder eb;
    eb.graph_builder(std::move(gb)).mode(GraphExecutorMode::RealTime).start_time(start).end_time(start + TimeDelta{WIN_US});
    {
        GraphExecutorValue ex = eb.make_executor();
        g_exec = &ex;
        ex.view().run();
        verif_reach("run_returned");
        // the source has stopped: nothing is accepted any more
        attempt_send(false);
        g_exec = nullptr;
    }

    // ---- oracle
    bool ok_prefix = g_ndel <= g_nacc, ok_times = true;
    DateTime prev = MIN_DT;
    for (int i = 0; i < g_ndel; i++) {
        if (i < g_nacc) ok_prefix &= (g_deliv[i].v == g_accepted[i]);
        ok_times &= (g_deliv[i].t > prev);
        prev = g_deliv[i].t;
    }
    verif_assert(ok_prefix, "C16.delivered_is_prefix_of_accepted_in_order");
    verif_assert(ok_times, "C16.each_delivery_in_its_own_cycle_increasing_time");
    verif_assert(ok_refusal, "C16.try_send_refused_iff_full_or_not_accepting");
    verif_assert(ok_capacity, "C16.pending_never_exceeds_capacity");
    verif_assert(ok_after_stop, "C16.nothing_accepted_after_stop");
    if (!g_stop_requested) {
        verif_assert(g_ndel == g_nacc, "C16.every_accepted_value_delivered_when_run_continues");
        if (g_nacc >= 3) verif_reach("three_values_delivered");
    }
    verif_log("accepted", g_nacc);
    verif_log("delivered", g_ndel);
    verif_reach("end");
    return 0;
}

// C10 (several multiplexed dictionaries with differing key sets): map_(add, A, B, __keys__ = K)
//   real wire_map with an explicit keys port -> compile_map_child -> map_node: the lifecycle follows the key set K alone, the
//   two multiplexed dictionaries A and B only feed elements; a child whose key leaves ONE dictionary while K keeps the key must
//   lose that input (membership_changed_keys -> re-bind in map_node.cpp) and stay silent until the element returns.
//   enumerated: per cycle, key 0: A {nothing, set, erase} x B {nothing, set, erase} x K {nothing, toggle membership};
//               keys 1..: {nothing, all-in (A,B set + K add) / all-out (A,B erase + K remove), update A}
//   symbolic  : every element value (unconstrained int64)
//   model     : one instance per key of K, created fresh when the key joins K; add(a,b) writes a+b whenever a or b ticks (or
//               the instance was just created) and both are present and valid; nothing otherwise
//   oracle    : as C10_map, after every engine cycle (+1 trailing): valid output element => instance exists; instance produced
//               => element present; validity, value and tick pattern equal the isolated instance's; no foreign valid elements;
//               consumer notified.
//   mapped function (FMASK bit): 0 add(a,b) = a+b; 1 count(a,b) = a + b + acc, acc += 1000*[a.modified()] + 10^6*[b.modified()]
//               per evaluation - it looks at WHICH input ticked.  A fresh instance (key joins K) sees every element that already
//               exists in A / B ticking once at creation (map_node.cpp create_entry_at_slot binds the child inputs "sampled"),
//               an element that pre-exists never ticks again by itself; count dominates add (same evaluation pattern, output =
//               add's output + the tick history), so the quick tier explores count only.
#include "hk_ho.h"

#ifndef NKEYS
#define NKEYS 2
#endif
#ifndef NCYC
#define NCYC 3
#endif
#ifndef FMASK
#define FMASK 2
#endif

using namespace hk;

namespace {
using U = std::uint64_t;
using Dict = TSD<Int, TS<Int>>;
constexpr int MAXC = 8;
// ---- plan of the current cycle (decided once per cycle by whichever source runs first) ----
Int g_plan_cycle = -1;
int p_a[NKEYS], p_b[NKEYS], p_k[NKEYS];   // 0 nothing, 1 set / add, 2 erase / remove
Int p_va[NKEYS], p_vb[NKEYS];
// ---- source-side state ----
bool sA[NKEYS], sB[NKEYS], sK[NKEYS];
// ---- model ----
struct Inst {
    bool exists = false, out_valid = false;
    Int out = 0;
    U acc = 0;   // count: tick history seen by the instance
};
int g_func = 0;   // 0 add, 1 count
constexpr U W_A = 1000, W_B = 1000000;
Inst m_inst[NKEYS];
bool mA[NKEYS], mB[NKEYS];
Int vA[NKEYS], vB[NKEYS];
// ---- observations ----
Int g_obs_cycle = -1;
int g_obs_runs = 0, g_checks = 0;
bool ok_keys = true, ok_valid = true, ok_value = true, ok_ticks = true, ok_foreign = true, ok_notified = true;
bool r_left_one = false, r_tick_after_left = false, r_returned = false, r_joined_with_held = false, r_key_left = false, r_rejoined = false,
     r_only_one_dict = false;
bool r_joined_held_inspecting = false, r_held_untouched_other_ticks = false, r_late_element_after_join = false;
bool ever_left[NKEYS], lost_input[NKEYS];

inline Int cyc(DateTime now) { return (now - MIN_ST).count(); }

void decide(Int c) {
    if (g_plan_cycle == c) return;
    g_plan_cycle = c;
    for (int k = 0; k < NKEYS; k++) { p_a[k] = p_b[k] = p_k[k] = 0; }
    if (c >= NCYC) return;
    // key 0: full script
    p_a[0] = verif_choice("a", sA[0] ? 3 : 2);
    p_b[0] = verif_choice("b", sB[0] ? 3 : 2);
    if (verif_choice("k", 2) == 1) p_k[0] = sK[0] ? 2 : 1;
    // further keys: reduced script
    for (int k = 1; k < NKEYS; k++) {
        int t = verif_choice("t", sK[k] ? 3 : 2);
        if (t == 1) {
            if (!sK[k]) { p_a[k] = 1; p_b[k] = 1; p_k[k] = 1; }
            else { p_a[k] = 2; p_b[k] = 2; p_k[k] = 2; }
        } else if (t == 2) p_a[k] = 1;
    }
    for (int k = 0; k < NKEYS; k++) {
        if (p_a[k] == 1) p_va[k] = verif_i64("va");
        if (p_b[k] == 1) p_vb[k] = verif_i64("vb");
    }
}

template <int WHICH> struct DictSrc {
    static constexpr auto name = WHICH == 0 ? "dict_a" : "dict_b";
    static constexpr bool schedule_on_start = true;
    static void eval(NodeScheduler s, State<Int> n, Out<Dict> out) {
        Int c = n.get();
        decide(c);
        for (int k = 0; k < NKEYS; k++) {
            int a = WHICH == 0 ? p_a[k] : p_b[k];
            bool *present = WHICH == 0 ? sA : sB;
            if (a == 1) { out[Int{k}].set(WHICH == 0 ? p_va[k] : p_vb[k]); present[k] = true; }
            if (a == 2) { (void)out.erase(Int{k}); present[k] = false; }
        }
        n.set(c + 1);
        if (c + 1 < NCYC) s.schedule(MIN_TD);
    }
};
struct KeySrc {
    static constexpr auto name = "keys_src";
    static constexpr bool schedule_on_start = true;
    static void eval(NodeScheduler s, State<Int> n, Out<TSS<Int>> out) {
        Int c = n.get();
        decide(c);
        for (int k = 0; k < NKEYS; k++) {
            if (p_k[k] == 1) { (void)out.add(Int{k}); sK[k] = true; }
            if (p_k[k] == 2) { (void)out.remove(Int{k}); sK[k] = false; }
        }
        n.set(c + 1);
        if (c + 1 < NCYC) s.schedule(MIN_TD);
    }
};
struct Clock {
    static constexpr auto name = "clock";
    static constexpr bool schedule_on_start = true;
    static void eval(NodeScheduler s, State<Int> n, Out<TS<Int>> out) {
        Int c = n.get();
        out.set(c);
        n.set(c + 1);
        if (c < NCYC) s.schedule(MIN_TD);
    }
};
struct FAdd {
    static constexpr auto name = "f_add";
    static void eval(In<"a", TS<Int>> a, In<"b", TS<Int>> b, Out<TS<Int>> out) { out.set((Int)((U)a.value() + (U)b.value())); }
};
struct FCount2 {
    static constexpr auto name = "f_count2";
    static void eval(In<"a", TS<Int>> a, In<"b", TS<Int>> b, State<Int> acc, Out<TS<Int>> out) {
        U n = (U)acc.get() + (a.modified() ? W_A : 0) + (b.modified() ? W_B : 0);
        acc.set((Int)n);
        out.set((Int)((U)a.value() + (U)b.value() + n));
    }
};
struct Obs {
    static constexpr auto name = "obs";
    static void eval(In<"m", Dict> m, DateTime now, Out<TS<Int>> out) {
        (void)m;
        g_obs_cycle = cyc(now);
        g_obs_runs++;
        out.set(Int{g_obs_runs});
    }
};

struct Checker {
    static constexpr auto name = "checker";
    static void eval(In<"clk", TS<Int>> clk, In<"m", Dict, InputValidity::Unchecked, InputActivity::Passive> m,
                     In<"dep", TS<Int>, InputValidity::Unchecked, InputActivity::Passive> dep, DateTime now) {
        (void)clk; (void)dep;
        Int c = cyc(now);
        decide(c);   // trailing cycle: empty plan
        g_checks++;
        bool k_ticked = false;
        for (int k = 0; k < NKEYS; k++) k_ticked |= (p_k[k] != 0);
        int n_valid = 0;
        bool any_event = false;
        const bool bound = m.valid() || m.bound();
        for (int k = 0; k < NKEYS; k++) {
            Inst &i = m_inst[k];
            bool a_tick = false, b_tick = false, created = false;
            bool removed_valid = false;
            if (p_a[k] == 1) { mA[k] = true; vA[k] = p_va[k]; a_tick = true; }
            if (p_b[k] == 1) { mB[k] = true; vB[k] = p_vb[k]; b_tick = true; }
            if (p_a[k] == 2) mA[k] = false;
            if (p_b[k] == 2) mB[k] = false;
            if (p_k[k] == 1) {
                if (ever_left[k]) r_rejoined = true;
                i = Inst{}; i.exists = true; created = true;
                if ((mA[k] && !a_tick) || (mB[k] && !b_tick)) r_joined_with_held = true;
            }
            if (p_k[k] == 2) { removed_valid = i.out_valid; i = Inst{}; ever_left[k] = true; lost_input[k] = false; r_key_left = true; }
            if (i.exists && !created && (p_a[k] == 2 || p_b[k] == 2)) {
                lost_input[k] = true;
                if (!k_ticked) r_left_one = true;   // the key left ONE dictionary, the key set did not tick at all
            }
            bool wrote = false;
            if (i.exists) {
                bool both = mA[k] && mB[k];
                if (both && (created || a_tick || b_tick)) {
                    if (lost_input[k]) { r_returned = true; lost_input[k] = false; }
                    // what the isolated instance sees ticking: a real tick, or - in the cycle it is created - every element
                    // that already exists (sampled initial value)
                    const bool a_seen = a_tick || created, b_seen = b_tick || created;
                    if (g_func == 1) {
                        i.acc += (a_seen ? W_A : 0) + (b_seen ? W_B : 0);
                        if (created && (!a_tick || !b_tick)) r_joined_held_inspecting = true;
                        if (!created && (a_tick != b_tick)) r_held_untouched_other_ticks = true;
                        if (!created && !i.out_valid) r_late_element_after_join = true;   // the element held since creation is NOT seen ticking now
                    }
                    i.out = (Int)((U)vA[k] + (U)vB[k] + i.acc); i.out_valid = true; wrote = true;
                } else if (!both && (a_tick || b_tick)) {
                    if (lost_input[k]) r_tick_after_left = true;   // the remaining input ticks: the isolated add produces nothing
                    else r_only_one_dict = true;
                }
            }
            any_event |= wrote | removed_valid;
            if (i.out_valid) n_valid++;
            bool has = bound && m.contains(Int{k});
            bool v = false;
            if (has) {
                auto e = m.at(Int{k});
                v = e.valid();
                if (v && i.out_valid) ok_value &= (e.value() == i.out);
                ok_ticks &= (e.modified() == wrote);
            }
            ok_keys &= (!v || i.exists) && (!i.out_valid || has);
            ok_valid &= (v == i.out_valid);
        }
        int vsz = 0;
        if (bound) for (auto key : m.valid_keys()) { (void)key; vsz++; }
        ok_foreign &= (vsz == n_valid);
        if (any_event) ok_notified &= (g_obs_cycle == c);
    }
};

struct Top {
    static constexpr auto name = "top";
    static void compose(Wiring &w) {
        auto a = wire<DictSrc<0>>(w);
        auto b = wire<DictSrc<1>>(w);
        auto k = wire<KeySrc>(w);
        auto clk = wire<Clock>(w);
        WiringPortRef m = ho::wire_map(w, Scalar<"func", WiredFn>{g_func == 1 ? FnN<FCount2, 2>::make() : FnN<FAdd, 2>::make()}, "",
                                       {a.erased(), b.erased()}, std::optional<WiringPortRef>{k.erased()}, true);
        Port<Dict> mp{w, m};
        auto o = wire<Obs>(w, mp);
        wire<Checker>(w, clk, mp, o);
    }
};
}  // namespace

extern "C" int harness_main() {
    register_ho_scalars();
    static_assert(NCYC <= MAXC, "NCYC too large");
    static_assert((FMASK & 3) != 0, "FMASK selects no function");
    g_func = (FMASK & 3) == 3 ? verif_choice("func", 2) : ((FMASK & 2) ? 1 : 0);
    run_sim(build_graph<Top>(), MIN_ST, MIN_ST + TimeDelta{NCYC + 3});

    verif_assert(g_checks == NCYC + 1, "C10.checker_ran_every_cycle");
    verif_assert(ok_keys, "C10.output_keys_mirror_source_keys");
    verif_assert(ok_foreign, "C10.no_foreign_output_keys");
    verif_assert(ok_valid, "C10.element_valid_iff_instance_produced");
    verif_assert(ok_value, "C10.element_value_equals_isolated_instance");
    verif_assert(ok_ticks, "C10.element_ticks_iff_instance_wrote");
    verif_assert(ok_notified, "C10.consumer_notified");
    if (r_left_one) verif_reach("key_left_one_dictionary_keyset_unchanged");
    if (r_tick_after_left) verif_reach("remaining_input_ticks_after_element_left");
    if (r_returned) verif_reach("element_returned_to_dictionary");
    if (r_joined_with_held) verif_reach("key_joined_keyset_with_held_elements");
    if (r_only_one_dict) verif_reach("key_in_only_one_dictionary");
    if (r_key_left) verif_reach("key_left_keyset");
    if (r_rejoined) verif_reach("key_rejoined_keyset");
    if (r_joined_held_inspecting) verif_reach("tick_inspecting_instance_created_over_held_element");
    if (r_held_untouched_other_ticks) verif_reach("tick_inspecting_instance_one_input_ticks_other_held");
    if (r_late_element_after_join) verif_reach("tick_inspecting_first_evaluation_after_join_cycle");
    verif_log("obs_runs", g_obs_runs);
    verif_reach("end");
    return 0;
}

// C20 (graph level, SPARSE absolute-time form): record -> replay through the REAL sparse_record_impl and the
// sparse branch of replay_impl (record_replay_memory_impl.h; recordings are lists of (time, delta) entries under
// ':memory:<fq_recordable_id>.<key>'), including a replaying run that STARTS AFTER the beginning of the recording.
//   1. a bounded tick history is produced on a stand-alone real output A (same drivers as C20_delta / C20_graph);
//      every observable tick becomes one entry (t_i, capture_delta) of a sparse recording; the entry times are
//      SYMBOLIC absolute times MIN_ST + t0, + gap, ... (gaps in [1, GMAX]: adjacent cycles and arbitrary holes);
//   2. run 1 (the recording run, from MIN_ST, graph trait recordable_id = "comp"):
//        replay_impl<S>("in", recordable_id "src") -> sparse_record_impl("out", recordable_id "rec")
//      the seed sits under ':memory:comp.src.in', the real recorder writes ':memory:comp.rec.out';
//   3. run 2 (the replaying run, a fresh graph WITHOUT the trait; its GlobalState is a copy of run 1's final state -
//      a cross-run read): start = MIN_ST + k with SYMBOLIC k in [0, KMAX] (before the first entry, exactly on an
//      entry, between two entries, beyond the last entry):
//        replay_impl<S>("out", recordable_id "comp.rec") -> sparse_record_impl("out2", "chk")
//                                                         -> dense_record_impl("el", sparse = true)   (the __elide__ form)
//      two decoy recordings under neighbouring keys hold an entry at the start time (they must not be read).
//   symbolic  : entry times, start time of run 2, all payloads;  enumerated: shape, tick history.
//   oracle    : run 1 - the recording written by sparse_record_impl equals the seed: same number of entries, same
//               times, same deltas (record o replay = id in the sparse form, from the recording's start);
//               run 2 - the replayed output ticks exactly at the recorded times of the entries whose time is >= start,
//               nothing else (no tick in the first cycle unless an entry lies exactly on the start; no stale entry);
//               each tick carries the delta that applying exactly these entries, in order, to a fresh output yields
//               (reference: stand-alone output + apply_delta, the per-entry work of replay_impl); where that is
//               independent of the skipped prefix (TS<int> always; any shape when nothing was skipped) the tick must
//               exist and carry the RECORDED delta itself.
//   The input class R1 of C20_delta (empty set/dict delta on an already valid collection) goes to its own id
//   C20.sparse_empty_tick_reproduced.
#include "hk_c20.h"

#include <hgraph/lib/std/operators/impl/record_replay_memory_impl.h>
#include <hgraph/lib/testing/record_replay.h>
#include <hgraph/types/record_replay.h>

#include <cstdio>

#ifndef NCYC
#define NCYC 3  // history cycles (each ticks or not); every ticking cycle is one entry of the recording
#endif
#ifndef SHAPES
#define SHAPES 0x7  // bit i enables shape i of hk_c20.h (default TS<int>, TSS<int>, TSD<int,TS<int>>)
#endif
#ifndef GMAX
#define GMAX 1000  // largest symbolic distance (in MIN_TD) between MIN_ST / consecutive history cycles
#endif
#ifndef APPEND
#define APPEND 0  // 1: the recording is written by TWO recording runs (the second one appends to the first one's list)
#endif

using namespace hk;

namespace {
using namespace hk::c20;

constexpr Int KMAX = (Int)GMAX * NCYC + 2;  // the last entry is at most at GMAX*NCYC: k can lie beyond it
constexpr Int TEND = KMAX + 3;

template <class S> struct RecTop {  // the recording run: inside a recordable scope "comp"
    static constexpr auto name = "c20_sparse_record";
    static void compose(Wiring &w) {
        w.set_trait(std::string{record_replay::RECORDABLE_ID_TRAIT}, Value{Str{"comp"}});
        auto rp = wire<stdlib::replay_impl, S>(w, Str{"in"}, Str{"src"});
        wire<stdlib::sparse_record_impl>(w, rp, Str{"out"}, Str{"rec"});
    }
};
template <class S> struct RepTop {  // the replaying run: no scope, the fully qualified id is spelled out
    static constexpr auto name = "c20_sparse_replay";
    static void compose(Wiring &w) {
        auto rp = wire<stdlib::replay_impl, S>(w, Str{"out"}, Str{"comp.rec"});
        wire<stdlib::sparse_record_impl>(w, rp, Str{"out2"}, Str{"chk"});
        wire<stdlib::dense_record_impl>(w, rp, Str{"el"}, Bool{true});
    }
};

template <template <class> class T> GraphBuilder build_for(int shape) {
    switch (shape) {
        case 0: return build_graph<T<TS<Int>>>();
        case 1: return build_graph<T<TSS<Int>>>();
        case 2: return build_graph<T<TSD<Int, TS<Int>>>>();
        case 3: return build_graph<T<TSL<TS<Int>, 2>>>();
        case 4: return build_graph<T<BundleSet>>();
        case 5: return build_graph<T<TSD<Int, TSS<Int>>>>();
        case 6: return build_graph<T<BundleDict>>();
        case 7: return build_graph<T<TSW<Int, 2, 1>>>();
        case 8: return build_graph<T<TSL<TS<Int>>>>();
        default: return build_graph<T<TSW<Int, 3, 2>>>();
    }
}

struct Entry {
    Value d;        // the recorded delta
    Int t;          // SYMBOLIC offset of the recorded time from MIN_ST
    bool dedup;     // R1 class relative to the full history (classified while the history is produced)
};

// Reference: what applying exactly entries [from, n) in order to a fresh output yields (concrete surrogate times:
// the delta semantics depend on the order of the ticks only).
struct Ref {
    std::vector<char> ticked, observable;
    std::vector<std::optional<Value>> recap;
};
Ref reference(const TSValueTypeMetaData *schema, const std::vector<Entry> &es, std::size_t from) {
    Ref r;
    r.ticked.assign(es.size(), 0);
    r.observable.assign(es.size(), 0);
    r.recap.resize(es.size());
    TSOutput B{schema};
    TSInput inB{TSInputBuilderFactory::checked_builder_for(*schema, TSEndpointSchema::peered(schema))};
    inB.view(nullptr, MIN_ST).bind_output(B.view(MIN_ST));
    for (std::size_t i = from; i < es.size(); i++) {
        DateTime t = MIN_ST + TimeDelta{(Int)i + 1};
        {
            auto bv = B.view(t);
            apply_delta(bv, es[i].d.view());
        }
        auto ib = inB.view(nullptr, t);
        if (!ib.modified()) continue;
        r.ticked[i] = 1;
        r.recap[i].emplace(capture_delta(ib));
        r.observable[i] = delta_is_observable(ib, r.recap[i]->view()) ? 1 : 0;
    }
    return r;
}

struct Cmp { bool times = true, delta = true; };
// lst: a sparse recording (list of (time, delta)); expected: entries i in [from, n) with want[i], at time es[i].t,
// carrying exp[i]
void compare_list(const ValueView &buffer, const std::vector<Entry> &es, std::size_t from, const std::vector<char> &want,
                  const std::vector<std::optional<Value>> *exp, Cmp &c, const char *what) {
    std::size_t m = 0;
    std::optional<ListView> lst;
    if (buffer.valid()) { lst.emplace(buffer.as_list()); m = lst->size(); }
    std::size_t j = 0;
    for (std::size_t i = from; i < es.size(); i++) {
        if (!want[i]) continue;
        if (j < m) {
            const auto e = lst->at(j).as_indexed_view();
            const DateTime when = e.at(0).checked_as<DateTime>();
            c.times &= (when == at_us(es[i].t));
            const ValueView want_d = exp ? (*exp)[i]->view() : es[i].d.view();
            c.delta &= views_equal(e.at(1), want_d);
#ifdef C20_DEBUG
            std::fprintf(stderr, "  %s[%zu] t=%lld d=%s  want entry %zu t=%lld d=%s\n", what, j, (long long)us(when),
                         e.at(1).to_string().c_str(), i, (long long)es[i].t, want_d.to_string().c_str());
#endif
        }
        j++;
    }
#ifdef C20_DEBUG
    std::fprintf(stderr, "  %s: %zu entries, %zu wanted\n", what, m, j);
    for (std::size_t x = j; x < m; x++) {
        const auto e = lst->at(x).as_indexed_view();
        std::fprintf(stderr, "  %s[%zu] EXTRA t=%lld d=%s\n", what, x, (long long)us(e.at(0).checked_as<DateTime>()), e.at(1).to_string().c_str());
    }
#endif
    (void)what;
    c.times &= (j == m);
}
}  // namespace

extern "C" int harness_main() {
    (void)TypeRegistry::instance().register_scalar<Int>("int");
    int shape = verif_choice("shape", NSHAPES);
    if (!((SHAPES >> shape) & 1)) { verif_end_path(); return 0; }
    const auto *schema = shape_schema(shape);
    // wiring + graph compilation do not depend on the history
    GraphBuilder gb1 = build_for<RecTop>(shape);
    GraphBuilder gb2 = build_for<RepTop>(shape);
#if APPEND
    GraphBuilder gb1b = build_for<RecTop>(shape);
#endif

    // ---- 1. the original history (concrete surrogate times) and its deltas
    std::vector<Entry> es;
    int cyc_of[NCYC + 1] = {};
    int gaps = 0;
    bool gap_then_tick = false, unrecorded_tick = false, saw_dedup = false;
    {
        TSOutput A{schema}, B{schema};  // B: shadow copy, only used to classify the known input class R1
        TSInput inA{TSInputBuilderFactory::checked_builder_for(*schema, TSEndpointSchema::peered(schema))};
        inA.view(nullptr, MIN_ST).bind_output(A.view(MIN_ST));
        for (int c = 0; c < NCYC; c++) {
            DateTime t = MIN_ST + TimeDelta{c};
            {
                auto av = A.view(t);
                drive(av, t, false);
            }
            auto ia = inA.view(nullptr, t);
            bool recorded = false;
            if (ia.modified()) {
                Value d = capture_delta(ia);
                if (delta_is_observable(ia, d.view())) {
                    CycleClass cc;
                    auto bv = B.view(t);
                    classify(schema, d.view(), ia, bv, cc);
                    apply_delta(bv, d.view());
                    cyc_of[es.size()] = c;
                    es.push_back(Entry{std::move(d), 0, cc.dedup});
                    saw_dedup |= cc.dedup;
                    recorded = true;
                } else {
                    unrecorded_tick = true;
                }
            }
            if (recorded) { if (gaps > 0) gap_then_tick = true; }
            else gaps++;
        }
    }
    const std::size_t n = es.size();

    // ---- symbolic absolute times: cycle c at MIN_ST + tc[c], strictly increasing
    Int tc[NCYC];
    tc[0] = verif_range("t0", 0, GMAX);
    for (int c = 1; c < NCYC; c++) tc[c] = tc[c - 1] + 1 + verif_range("gap", 0, GMAX - 1);
    for (std::size_t i = 0; i < n; i++) es[i].t = tc[cyc_of[i]];
    const Int k = verif_range("k", 0, KMAX);  // run 2 starts at MIN_ST + k

    // ---- 2. run 1: replay the seed into the real sparse recorder, from MIN_ST
    const auto binding = testing::recording_binding_for(schema->delta_value_schema);
    auto seed_into = [&](const GlobalStateView &gs, std::string_view key, std::size_t lo, std::size_t hi) {
        Value buffer = testing::make_sparse_buffer(binding);
        {
            auto mutation = buffer.as_list().begin_mutation();
            for (std::size_t i = lo; i < hi; i++)
                mutation.push_back(testing::make_sparse_entry(binding, at_us(es[i].t), Value{es[i].d.view()}).view());
        }
        gs.set(key, std::move(buffer));
    };
    GlobalState after1;
#if APPEND
    // the recording is made by two recording runs over one GlobalState: the first sees entries [0, split) and ends
    // right after the last of them, the second starts there and sees the rest - sparse_record_impl appends
    const std::size_t split = (std::size_t)verif_choice("split", (int)n + 1);
    {
        seed_into(gb1.global_state(), ":memory:comp.src.in", 0, split);
        GraphExecutorBuilder eb;
        const DateTime end_a = split > 0 ? at_us(es[split - 1].t + 1) : at_us(0) + TimeDelta{1};
        eb.graph_builder(std::move(gb1)).start_time(MIN_ST).end_time(end_a);
        GraphExecutorValue ex = eb.make_executor();
        ex.view().run();
        gb1b.global_state().copy_from(ex.view().graph().global_state());
    }
    {
        seed_into(gb1b.global_state(), ":memory:comp.src.in", split, n);
        GraphExecutorBuilder eb;
        const DateTime start_b = split > 0 ? at_us(es[split - 1].t + 1) : MIN_ST;
        eb.graph_builder(std::move(gb1b)).start_time(start_b).end_time(at_us(TEND));
        GraphExecutorValue ex = eb.make_executor();
        ex.view().run();
        after1.view().copy_from(ex.view().graph().global_state());
    }
#else
    {
        seed_into(gb1.global_state(), ":memory:comp.src.in", 0, n);
        GraphExecutorBuilder eb;
        eb.graph_builder(std::move(gb1)).start_time(MIN_ST).end_time(at_us(TEND));
        GraphExecutorValue ex = eb.make_executor();
        ex.view().run();
        after1.view().copy_from(ex.view().graph().global_state());
    }
#endif

    // ---- oracle of run 1: the recording equals the seed (R1 entries under their own id)
    bool ok_known = true;
    {
        Ref r0 = reference(schema, es, 0);
        std::vector<char> want(n, 0);
        bool every_entry_ticks = true;
        for (std::size_t i = 0; i < n; i++) {
            const bool same = r0.ticked[i] && views_equal(r0.recap[i]->view(), es[i].d.view());
            if (es[i].dedup) ok_known &= same;
            else every_entry_ticks &= (bool)r0.ticked[i];
            want[i] = r0.ticked[i];
        }
        // a non-R1 entry is a real tick: it must come out of the replay (also makes `want` the full recording)
        verif_assert(every_entry_ticks, "C20.sparse_rt_every_entry_replayed");
        Cmp c, cd;
        const ValueView rec = after1.view().get(":memory:comp.rec.out");
#ifdef C20_DEBUG
        std::fprintf(stderr, "run 1: n=%zu\n", n);
#endif
        if (!saw_dedup) {
            compare_list(rec, es, 0, want, nullptr, c, "rec");
        } else {
            // R1 histories: cycles / deltas of the non-R1 part are still compared through the reference
            compare_list(rec, es, 0, want, &r0.recap, cd, "rec");
            ok_known &= cd.times & cd.delta;
        }
        verif_assert(c.times, "C20.sparse_rt_same_times");
        verif_assert(c.delta, "C20.sparse_rt_same_delta");
    }

    // ---- 3. run 2: a fresh graph reads the recording from MIN_ST + k
    gb2.global_state().copy_from(after1.view());
    if (n > 0) {  // decoys under neighbouring keys: one entry exactly at the start time
        Value buffer = testing::make_sparse_buffer(binding);
        buffer.as_list().begin_mutation().push_back(testing::make_sparse_entry(binding, at_us(k), Value{es[0].d.view()}).view());
        gb2.global_state().set(":memory:rec.out", buffer);
        gb2.global_state().set(":memory:comp.rec.out.x", buffer);
        gb2.global_state().set("out", buffer);
    }
    GraphExecutorBuilder eb2;
    eb2.graph_builder(std::move(gb2)).start_time(at_us(k)).end_time(at_us(TEND));
    GraphExecutorValue ex2 = eb2.make_executor();
    ex2.view().run();
    const GlobalStateView gs2 = ex2.view().graph().global_state();

    // where does the start lie?  (decided by the path condition when replay_impl compared the entry times with `now`)
    // (counted branch-free, then made concrete: the compiler would otherwise turn the loop into symbolic selects)
    Int from_s = 0, on_s = 0;
    for (std::size_t i = 0; i < n; i++) {
        from_s += (Int)(es[i].t < k);
        on_s += (Int)(es[i].t == k);
    }
    const std::size_t from = (std::size_t)verif_concretize(from_s);
    const bool on_entry = verif_concretize(on_s) != 0;
    {
        Ref r2 = reference(schema, es, from);
        Cmp c, ce, ca;
        bool abs_ok = true;
#ifdef C20_DEBUG
        std::fprintf(stderr, "run 2: k=%lld from=%zu on_entry=%d\n", (long long)k, from, (int)on_entry);
#endif
        compare_list(gs2.get(":memory:chk.out2"), es, from, r2.ticked, &r2.recap, c, "out2");
        std::vector<char> want_el(n, 0);
        for (std::size_t i = from; i < n; i++) want_el[i] = r2.ticked[i] && r2.observable[i];
        compare_list(gs2.get("el"), es, from, want_el, &r2.recap, ce, "el");
        // state-independent part: the tick exists and carries the recorded delta itself
        const bool independent = schema->kind == TSTypeKind::TS || from == 0;
        bool differs = false;
        for (std::size_t i = from; i < n; i++) {
            const bool same = r2.ticked[i] && views_equal(r2.recap[i]->view(), es[i].d.view());
            if (independent && !es[i].dedup) abs_ok &= same;
            if (!independent) differs |= !same;
        }
        // a history with an R1 entry: run 1's recorder did not re-record that entry (known finding), so the list run 2
        // reads is not the seed any more - everything that follows from it goes to the R1 id
        const bool r1 = saw_dedup;
        ok_known &= !r1 | (c.times & c.delta & abs_ok & ce.times & ce.delta);
        verif_assert(r1 | c.times, "C20.sparse_mid_ticks_are_the_later_entries");
        verif_assert(r1 | c.delta, "C20.sparse_mid_same_delta");
        verif_assert(r1 | abs_ok, "C20.sparse_mid_equals_recording");
        verif_assert(r1 | (ce.times & ce.delta), "C20.sparse_elide_same_entries");
        if (differs) verif_reach("mid_start_delta_depends_on_skipped_prefix");
    }
    verif_assert(!unrecorded_tick, "C20.sparse_every_tick_is_recorded");
    verif_assert(ok_known, "C20.sparse_empty_tick_reproduced");

    if (n >= 2) verif_reach("two_entries");
    if (gap_then_tick) verif_reach("gap_then_tick");
    if (g_removed) verif_reach("key_removed");
    if (g_child_only) verif_reach("child_only_tick");
    if (saw_dedup) verif_reach("class_empty_delta_on_valid_collection");
    if (n == 0) verif_reach("empty_recording");
    if (n > 0 && from == 0 && !on_entry) verif_reach("start_before_first_entry");
    if (n > 0 && from == 0 && on_entry) verif_reach("start_on_first_entry");
    if (from > 0 && from < n && on_entry) verif_reach("start_on_later_entry");
    if (from > 0 && from < n && !on_entry) verif_reach("start_between_entries");
    if (from > 0 && from < n) verif_reach("mid_start_skips_and_replays");
    if (n > 0 && from == n) verif_reach("start_beyond_last_entry");
    if (from > 0 && from + 2 <= n) verif_reach("mid_start_two_entries_replayed");
    if (from >= 2) verif_reach("two_entries_skipped");
#if APPEND
    if (split > 0 && split < n) verif_reach("recording_appended_across_runs");
    if (split > 0 && split < n && from > 0 && from < n) verif_reach("appended_recording_read_from_the_middle");
#endif
    verif_log("shape", shape);
    verif_log("entries", (Int)n);
    verif_log("from", (Int)from);
    verif_reach("end");
    return 0;
}

// C13: reading through a reference equals reading its current target - TICK-ONLY (SIGNAL) consumers and the other
// consumer schema kinds (TSD, whole TSB, TSW) below a REF output, next to a value consumer on the same reference.
//   selector / a / b (/ c) scripted sources -> sel = if_then_else_impl(cond, a, b) | if_cmp_impl(cmp, a, b, c)
//   (both structs extracted verbatim from the CURRENT control_impl.h by lib/hreg/C13.py pre_build)
//   below sel (a REF<...> output), all on the SAME reference:
//     consumer 0      value-shaped control (In<TS<int>> / In<TSS<int>> / In<TSD<int,TS<int>>> / In<TSB{p,q}> / In<TSW<int,3,1>>)
//     consumer 1      In<"x", SIGNAL> at top level (target_link.cpp bind_impl: signal_from_reference -> output.binding_for(SIGNAL)
//                     -> the from-reference alternative with a SIGNAL-schema link)
//     consumer 2..6   (modes 0, 7) inside nested graphs: 2 In<SIGNAL> + 4 In<TS<int>> (control) behind a REF<TS<int>> boundary
//                     argument; 3 In<SIGNAL> behind a SIGNAL boundary argument (what nested_<G> with a Port<SIGNAL> parameter
//                     builds); 5 In<SIGNAL> + 6 In<TS<int>> behind a REF<TS<int>> boundary argument of a nested graph that has a
//                     second boundary argument ticking in every cycle
//     probe           evaluated EVERY cycle by a clock; reads the reference through PASSIVE, validity-unchecked inputs
//                     (In<SIGNAL, Passive, Unchecked>, modes over TS<int> also In<TS<int>, Passive, Unchecked>): per-cycle
//                     valid / modified (/ value) of the dereferenced input
//   modes (enumerated first):
//     0 if_then_else over TS<int>                      4 if_then_else over two whole TSB{p,q} outputs
//     1 if_cmp over TS<int> (three targets)            5 if_then_else over TSW<int,3,1>
//     2 if_then_else over TSS<int>                     6 if_then_else between the two ELEMENTS of one TSL<TS<int>,2> output
//     3 if_then_else over TSD<int,TS<int>>             7 as 0, but a harness node RE-PUBLISHES the (unchanged) reference in
//                                                        every cycle between if_then_else and the consumers
//   symbolic  : every payload value (TS value, TSD element, TSB fields, TSW pushed value)
//   enumerated: per cycle whether the selector ticks and what it selects, which targets tick and how
//   oracle    : (every consumer, whatever its schema kind) evaluated in cycle k  <=>  the selected target ticked in k, or the
//               reference was retargeted in k to a target that already has a value; valid and modified at every evaluation;
//               value consumers read the selected target's current value (sets / dictionaries: delta at a retarget = new-only
//               added, old-only removed; bundle: every valid field of the new target reads as modified); the probe reads in
//               every cycle valid == the selected target has a value, modified == (target ticked or retargeted to valid) -
//               i.e. valid / modified follow the TARGET, not the reference token; republishing the unchanged reference
//               (mode 7: in every cycle) and ticks of unselected targets evaluate nobody.
#include "hk.h"

#include "c13_extracted_control_impl.h"
#include "hk_nested.h"

#include <cstdio>

#ifndef MODES
#define MODES 0xff  // bit m enables mode m
#endif
#ifndef NCYC0
#define NCYC0 4
#endif
#ifndef NCYC1
#define NCYC1 2
#endif
#ifndef NCYC2
#define NCYC2 3
#endif
#ifndef NCYC3
#define NCYC3 3
#endif
#ifndef NCYC4
#define NCYC4 3
#endif
#ifndef NCYC5
#define NCYC5 3
#endif
#ifndef NCYC6
#define NCYC6 3
#endif
#ifndef NCYC7
#define NCYC7 3
#endif
#ifndef VMAX
#define VMAX 1000
#endif

using namespace hk;
using hgraph::stdlib::CmpResult;

namespace {
constexpr int NMODES = 8;
constexpr int MAXT = 3;   // targets (if_cmp has three)
constexpr int MAXC = 6;   // cycles
constexpr int MAXCONS = 7;
static_assert(NCYC0 <= MAXC && NCYC1 <= MAXC && NCYC2 <= MAXC && NCYC3 <= MAXC && NCYC4 <= MAXC && NCYC5 <= MAXC && NCYC6 <= MAXC && NCYC7 <= MAXC, "raise MAXC");

// ---- script (filled lazily by the source nodes in the cycle that uses it) -------------------------
int g_ncyc = 0;
int g_sel[MAXC];          // 0: selector does not tick; 1..nt: selector ticks and selects target (value-1)
bool g_tick[MAXT][MAXC];  // target i ticks in cycle c
int g_op[MAXT][MAXC];     // structured targets: what the tick does (see the source nodes)
Int g_val[MAXT][MAXC];    // payload written by the tick
DateTime g_t0;

inline int cycle_of(DateTime now) { return (int)((now - g_t0).count()); }

// ---- observation log -----------------------------------------------------------------------------
struct Obs {
    int cycle; bool valid; bool modified;
    Int value;                            // TS value / TSD element of key 1 / TSW newest element
    bool has1, added1, removed1, mod1;    // TSS element 1 / TSD key 1
    bool fvalid[2], fmod[2]; Int fval[2]; // TSB fields p, q
    Int wsize;                            // TSW size
};
Obs g_obs[MAXCONS][MAXC + 2];
int g_nobs[MAXCONS];
bool g_obs_overflow = false;
Obs *next_obs(int k) {
    if (g_nobs[k] >= MAXC + 2) { g_obs_overflow = true; return nullptr; }
    Obs *o = &g_obs[k][g_nobs[k]++];
    *o = Obs{};
    return o;
}
struct Probe { bool seen; bool valid; bool modified; Int value; };
Probe g_psig[MAXC], g_pval[MAXC];
int g_ref_evals[MAXC];  // mode 7: evaluations of a consumer of the re-published reference TOKEN (In<REF<TS<int>>>)

// ---- sources -------------------------------------------------------------------------------------
struct SelBool {
    static constexpr auto name = "c13s_sel_bool";
    static constexpr bool schedule_on_start = true;
    static void eval(NodeScheduler s, DateTime now, Out<TS<Bool>> out) {
        int c = cycle_of(now);
        if (c < 0 || c >= g_ncyc) return;
        g_sel[c] = verif_choice("sel", 3);
        if (g_sel[c] == 1) out.set(true);   // selects target 0 (true_value)
        if (g_sel[c] == 2) out.set(false);  // selects target 1 (false_value)
        if (c + 1 < g_ncyc) s.schedule(MIN_TD);
    }
};
struct SelCmp {
    static constexpr auto name = "c13s_sel_cmp";
    static constexpr bool schedule_on_start = true;
    static void eval(NodeScheduler s, DateTime now, Out<TS<CmpResult>> out) {
        int c = cycle_of(now);
        if (c < 0 || c >= g_ncyc) return;
        g_sel[c] = verif_choice("sel", 4);
        if (g_sel[c] == 1) out.set(CmpResult::LT);
        if (g_sel[c] == 2) out.set(CmpResult::EQ);
        if (g_sel[c] == 3) out.set(CmpResult::GT);
        if (c + 1 < g_ncyc) s.schedule(MIN_TD);
    }
};
struct Clk {
    static constexpr auto name = "c13s_clk";
    static constexpr bool schedule_on_start = true;
    static void eval(NodeScheduler s, DateTime now, Out<TS<Bool>> out) {
        int c = cycle_of(now);
        if (c < 0 || c >= g_ncyc) return;
        out.set(true);
        if (c + 1 < g_ncyc) s.schedule(MIN_TD);
    }
};
struct SrcI {
    static constexpr auto name = "c13s_src_int";
    static constexpr bool schedule_on_start = true;
    static void eval(NodeScheduler s, Scalar<"id", Int> id, DateTime now, Out<TS<Int>> out) {
        int c = cycle_of(now), i = (int)id.value();
        if (c < 0 || c >= g_ncyc) return;
        g_tick[i][c] = verif_bool("tick");
        g_val[i][c] = g_tick[i][c] ? verif_range("v", -VMAX, VMAX) : Int{0};
        if (g_tick[i][c]) out.set(g_val[i][c]);
        if (c + 1 < g_ncyc) s.schedule(MIN_TD);
    }
};
struct SrcS {  // op: 0 no tick, 1 add 1, 2 remove 1 (a no-op add / remove ticks the set with an empty delta)
    static constexpr auto name = "c13s_src_set";
    static constexpr bool schedule_on_start = true;
    static void eval(NodeScheduler s, Scalar<"id", Int> id, DateTime now, Out<TSS<Int>> out) {
        int c = cycle_of(now), i = (int)id.value();
        if (c < 0 || c >= g_ncyc) return;
        g_op[i][c] = verif_choice("sop", 3);
        g_tick[i][c] = g_op[i][c] != 0;
        if (g_op[i][c] == 1) out.add(Int{1});
        if (g_op[i][c] == 2) out.remove(Int{1});
        if (c + 1 < g_ncyc) s.schedule(MIN_TD);
    }
};
using DictT = TSD<Int, TS<Int>>;
struct SrcD {  // op: 0 no tick, 1 set key 1 := v (symbolic), 2 erase key 1
    static constexpr auto name = "c13s_src_dict";
    static constexpr bool schedule_on_start = true;
    static void eval(NodeScheduler s, Scalar<"id", Int> id, DateTime now, Out<DictT> out) {
        int c = cycle_of(now), i = (int)id.value();
        if (c < 0 || c >= g_ncyc) return;
        g_op[i][c] = verif_choice("dop", 3);
        g_tick[i][c] = g_op[i][c] != 0;
        g_val[i][c] = g_op[i][c] == 1 ? verif_range("v", -VMAX, VMAX) : Int{0};
        if (g_op[i][c] == 1) out.set(Int{1}, g_val[i][c]);
        if (g_op[i][c] == 2) (void)out.erase(Int{1});
        if (c + 1 < g_ncyc) s.schedule(MIN_TD);
    }
};
using PairBundle = TSB<"C13SigPair", Field<"p", TS<Int>>, Field<"q", TS<Int>>>;
struct SrcB {  // op: 0 no tick, 1 p := v, 2 q := v
    static constexpr auto name = "c13s_src_bundle";
    static constexpr bool schedule_on_start = true;
    static void eval(NodeScheduler s, Scalar<"id", Int> id, DateTime now, Out<PairBundle> out) {
        int c = cycle_of(now), i = (int)id.value();
        if (c < 0 || c >= g_ncyc) return;
        g_op[i][c] = verif_choice("bop", 3);
        g_tick[i][c] = g_op[i][c] != 0;
        g_val[i][c] = g_tick[i][c] ? verif_range("v", -VMAX, VMAX) : Int{0};
        if (g_op[i][c] == 1) out.field<"p">().set(g_val[i][c]);
        if (g_op[i][c] == 2) out.field<"q">().set(g_val[i][c]);
        if (c + 1 < g_ncyc) s.schedule(MIN_TD);
    }
};
using WinT = TSW<Int, 3, 1>;
struct SrcW {
    static constexpr auto name = "c13s_src_window";
    static constexpr bool schedule_on_start = true;
    static void eval(NodeScheduler s, Scalar<"id", Int> id, DateTime now, Out<WinT> out) {
        int c = cycle_of(now), i = (int)id.value();
        if (c < 0 || c >= g_ncyc) return;
        g_tick[i][c] = verif_bool("tick");
        g_val[i][c] = g_tick[i][c] ? verif_range("v", -VMAX, VMAX) : Int{0};
        if (g_tick[i][c]) out.push(g_val[i][c]);
        if (c + 1 < g_ncyc) s.schedule(MIN_TD);
    }
};
struct SrcPairList {  // one node output holding both candidate targets
    static constexpr auto name = "c13s_src_pair_list";
    static constexpr bool schedule_on_start = true;
    static void eval(NodeScheduler s, DateTime now, Out<TSL<TS<Int>, 2>> out) {
        int c = cycle_of(now);
        if (c < 0 || c >= g_ncyc) return;
        for (int i = 0; i < 2; i++) {
            g_tick[i][c] = verif_bool("tick");
            g_val[i][c] = g_tick[i][c] ? verif_range("v", -VMAX, VMAX) : Int{0};
            if (g_tick[i][c]) out[(std::size_t)i].set(g_val[i][c]);
        }
        if (c + 1 < g_ncyc) s.schedule(MIN_TD);
    }
};
// mode 7: writes the reference it reads to its own REF output in EVERY cycle (no same-reference de-duplication, unlike
// if_then_else_impl): downstream the reference TOKEN ticks every cycle although its target does not change
struct Repub {
    static constexpr auto name = "c13s_republish";
    static void eval(In<"r", REF<TS<Int>>, InputValidity::Unchecked> r, In<"clk", TS<Bool>> clk, Out<REF<TS<Int>>> out) {
        (void)clk;
        if (!r.valid()) return;
        auto reference = r.base().value();
        const auto &erased = static_cast<const TSOutputView &>(out);
        auto mutation = erased.begin_mutation(erased.evaluation_time());
        static_cast<void>(mutation.copy_value_from(reference));
    }
};

// ---- consumers -----------------------------------------------------------------------------------
struct ConsI {
    static constexpr auto name = "c13s_cons_int";
    static void eval(In<"x", TS<Int>> x, Scalar<"id", Int> id, DateTime now) {
        Obs *o = next_obs((int)id.value());
        if (!o) return;
        o->cycle = cycle_of(now);
        o->valid = x.valid();
        o->modified = x.modified();
        o->value = o->valid ? x.value() : Int{0};
    }
};
struct ConsSig {
    static constexpr auto name = "c13s_cons_signal";
    static void eval(In<"x", SIGNAL> x, Scalar<"id", Int> id, DateTime now) {
        Obs *o = next_obs((int)id.value());
        if (!o) return;
        o->cycle = cycle_of(now);
        o->valid = x.valid();
        o->modified = x.ticked();
    }
};
struct ConsS {
    static constexpr auto name = "c13s_cons_set";
    static void eval(In<"x", TSS<Int>> x, Scalar<"id", Int> id, DateTime now) {
        Obs *o = next_obs((int)id.value());
        if (!o) return;
        o->cycle = cycle_of(now);
        o->valid = x.valid();
        o->modified = x.modified();
        o->has1 = x.contains(Int{1});
        for (Int v : x.added()) if (v == 1) o->added1 = true;
        for (Int v : x.removed()) if (v == 1) o->removed1 = true;
    }
};
struct ConsD {
    static constexpr auto name = "c13s_cons_dict";
    static void eval(In<"x", DictT> x, Scalar<"id", Int> id, DateTime now) {
        Obs *o = next_obs((int)id.value());
        if (!o) return;
        o->cycle = cycle_of(now);
        o->valid = x.valid();
        o->modified = x.modified();
        o->has1 = x.contains(Int{1});
        if (o->has1) {
            auto e = x.at(Int{1});
            o->value = e.valid() ? e.value() : Int{-7777};
        }
        const TSDInputView &d = x;
        for (const auto k : d.added_keys()) if (k.template checked_as<Int>() == 1) o->added1 = true;
        for (const auto k : d.removed_keys()) if (k.template checked_as<Int>() == 1) o->removed1 = true;
        for (const auto k : d.modified_keys()) if (k.template checked_as<Int>() == 1) o->mod1 = true;
    }
};
struct ConsB {
    static constexpr auto name = "c13s_cons_bundle";
    static void eval(In<"x", PairBundle> x, Scalar<"id", Int> id, DateTime now) {
        Obs *o = next_obs((int)id.value());
        if (!o) return;
        o->cycle = cycle_of(now);
        o->valid = x.valid();
        o->modified = x.modified();
        auto p = x.field<"p">();
        auto q = x.field<"q">();
        o->fvalid[0] = p.valid(); o->fmod[0] = p.modified(); o->fval[0] = o->fvalid[0] ? p.value() : Int{0};
        o->fvalid[1] = q.valid(); o->fmod[1] = q.modified(); o->fval[1] = o->fvalid[1] ? q.value() : Int{0};
    }
};
struct ConsW {
    static constexpr auto name = "c13s_cons_window";
    static void eval(In<"x", WinT> x, Scalar<"id", Int> id, DateTime now) {
        Obs *o = next_obs((int)id.value());
        if (!o) return;
        o->cycle = cycle_of(now);
        o->valid = x.valid();
        o->modified = x.modified();
        o->wsize = (Int)x.size();
        o->value = o->wsize > 0 ? x.back() : Int{0};
    }
};
struct ConsRef {  // consumer of the reference TOKEN (not dereferenced): only proves that mode 7 really re-publishes
    static constexpr auto name = "c13s_cons_ref";
    static void eval(In<"x", REF<TS<Int>>> x, DateTime now) {
        (void)x;
        int c = cycle_of(now);
        if (c >= 0 && c < MAXC) g_ref_evals[c]++;
    }
};
struct ProbeSig {
    static constexpr auto name = "c13s_probe_signal";
    static void eval(In<"clk", TS<Bool>> clk, In<"s", SIGNAL, InputActivity::Passive, InputValidity::Unchecked> s, DateTime now) {
        (void)clk;
        int c = cycle_of(now);
        if (c < 0 || c >= MAXC) return;
        g_psig[c] = Probe{true, s.valid(), s.ticked(), 0};
    }
};
struct ProbeI {
    static constexpr auto name = "c13s_probe_int";
    static void eval(In<"clk", TS<Bool>> clk, In<"v", TS<Int>, InputActivity::Passive, InputValidity::Unchecked> v, DateTime now) {
        (void)clk;
        int c = cycle_of(now);
        if (c < 0 || c >= MAXC) return;
        const bool valid = v.valid();
        g_pval[c] = Probe{true, valid, v.modified(), valid ? v.value() : Int{0}};
    }
};

// ---- nesting with an explicit boundary schema (what nested_<G> does for a `Port<SIGNAL>` parameter: the boundary
// argument schema is SIGNAL, the shape the child compiles against still carries the outer source's schema)
template <class F>
inline void nested_call_as(Wiring &w, const char *name, std::type_index id, WiringPortRef src, const TSValueTypeMetaData *expected, F &&compose) {
    namespace gd = hgraph::graph_wiring_detail;
    namespace sw = hgraph::subgraph_wiring_detail;
    std::vector<WiringPortRef> inputs, shapes;
    WiringPortRef ref = gd::adapt_source_for_input(w, expected, std::move(src));
    shapes.push_back(sw::boundary_shape(ref, 0, {}));
    inputs.push_back(std::move(ref));
    Wiring cw = w.child_wiring();
    compose(cw, std::span<const WiringPortRef>{shapes.data(), shapes.size()});
    CompiledSubGraph compiled = std::move(cw).finish_subgraph(std::nullopt, std::vector<const TSValueTypeMetaData *>{expected});
    compiled.graph_builder.label(std::string{name});
    for (WiringPortRef &captured : compiled.captured_inputs) inputs.push_back(std::move(captured));
    compiled.captured_inputs.clear();
    std::vector<std::pair<std::string, const TSValueTypeMetaData *>> fields;
    for (std::size_t i = 0; i < compiled.input_schemas.size(); ++i) fields.emplace_back(std::to_string(i), compiled.input_schemas[i]);
    const TSValueTypeMetaData *input_schema = TypeRegistry::instance().un_named_tsb(fields);
    WiringNodeSchema node_schema;
    node_schema.input = input_schema;
    node_schema.output = nullptr;
    (void)w.add_node(id, node_schema, std::span<const WiringPortRef>{inputs.data(), inputs.size()}, Value{}, [&]() {
        NodeTypeMetaData meta;
        meta.display_name = name;
        meta.input_schema = input_schema;
        meta.output_schema = nullptr;
        SingleNestedGraphNodeSpec spec;
        spec.graph_builder = std::move(compiled.graph_builder);
        spec.input_bindings = std::move(compiled.input_bindings);
        spec.output_binding = compiled.output_binding;
        NodeBuilder builder = single_nested_graph_node(std::move(meta), std::move(spec));
        builder.input_endpoint(gd::input_endpoint_for_sources(input_schema, std::span<const WiringPortRef>{inputs.data(), inputs.size()}));
        return builder;
    });
}
struct ChildRefTag {};
struct ChildSigTag {};
struct ChildRef2Tag {};
struct SinkB {
    static constexpr auto name = "c13s_sink_bool";
    static void eval(In<"x", TS<Bool>> x) { (void)x; }
};
template <class R, class C> void wire_nested_signal_consumers(Wiring &w, R r, C clk) {
    // consumers 2 (SIGNAL) and 4 (value-shaped control): the REF output is the only boundary argument; the inputs are wired
    // inside the child
    (void)hk::nested_call(w, "c13s_child_ref", std::type_index(typeid(ChildRefTag)), {r.erased()},
                          [](Wiring &cw, std::span<const WiringPortRef> in) -> std::optional<WiringPortRef> {
                              wire<ConsSig>(cw, Port<REF<TS<Int>>>{cw, in[0]}, Int{2});
                              wire<ConsI>(cw, Port<REF<TS<Int>>>{cw, in[0]}, Int{4});
                              return std::nullopt;
                          });
    // consumer 3: the boundary argument itself is SIGNAL-typed
    nested_call_as(w, "c13s_child_sig", std::type_index(typeid(ChildSigTag)), r.erased(), schema_descriptor<SIGNAL>::ts_meta(),
                   [](Wiring &cw, std::span<const WiringPortRef> in) { wire<ConsSig>(cw, Port<SIGNAL>{cw, in[0]}, Int{3}); });
    // consumers 5 (SIGNAL) and 6 (value-shaped control): as 2 / 4, but the nested graph has a SECOND boundary argument that ticks in
    // every cycle (the nested node is evaluated in cycles in which the reference and its target are silent)
    (void)hk::nested_call(w, "c13s_child_ref2", std::type_index(typeid(ChildRef2Tag)), {r.erased(), clk.erased()},
                          [](Wiring &cw, std::span<const WiringPortRef> in) -> std::optional<WiringPortRef> {
                              wire<ConsSig>(cw, Port<REF<TS<Int>>>{cw, in[0]}, Int{5});
                              wire<ConsI>(cw, Port<REF<TS<Int>>>{cw, in[0]}, Int{6});
                              wire<SinkB>(cw, Port<TS<Bool>>{cw, in[1]});
                              return std::nullopt;
                          });
}

// ---- graphs --------------------------------------------------------------------------------------
struct TopIte {
    static constexpr auto name = "c13s_ite";
    static void compose(Wiring &w) {
        auto sel = wire<SelBool>(w);
        auto a = wire<SrcI>(w, Int{0});
        auto b = wire<SrcI>(w, Int{1});
        auto r = wire<stdlib::if_then_else_impl>(w, sel, a, b);
        wire<ConsI>(w, r, Int{0});
        wire<ConsSig>(w, r, Int{1});
        auto clk = wire<Clk>(w);
        wire_nested_signal_consumers(w, r, clk);
        wire<ProbeSig>(w, clk, r);
        wire<ProbeI>(w, clk, r);
    }
};
struct TopCmp {
    static constexpr auto name = "c13s_cmp";
    static void compose(Wiring &w) {
        auto sel = wire<SelCmp>(w);
        auto a = wire<SrcI>(w, Int{0});
        auto b = wire<SrcI>(w, Int{1});
        auto c = wire<SrcI>(w, Int{2});
        auto r = wire<stdlib::if_cmp_impl>(w, sel, a, b, c);
        wire<ConsI>(w, r, Int{0});
        wire<ConsSig>(w, r, Int{1});
        auto clk = wire<Clk>(w);
        wire<ProbeSig>(w, clk, r);
        wire<ProbeI>(w, clk, r);
    }
};
template <class Src, class Cons> struct TopKind {
    static constexpr auto name = "c13s_ite_kind";
    static void compose(Wiring &w) {
        auto sel = wire<SelBool>(w);
        auto a = wire<Src>(w, Int{0});
        auto b = wire<Src>(w, Int{1});
        auto r = wire<stdlib::if_then_else_impl>(w, sel, a, b);
        wire<Cons>(w, r, Int{0});
        wire<ConsSig>(w, r, Int{1});
        auto clk = wire<Clk>(w);
        wire<ProbeSig>(w, clk, r);
    }
};
struct TopPairList {
    static constexpr auto name = "c13s_ite_pair_list";
    static void compose(Wiring &w) {
        auto sel = wire<SelBool>(w);
        auto pair = wire<SrcPairList>(w);
        Port<TS<Int>> a{w, pair.node(), {0}};
        Port<TS<Int>> b{w, pair.node(), {1}};
        auto r = wire<stdlib::if_then_else_impl>(w, sel, a, b);
        wire<ConsI>(w, r, Int{0});
        wire<ConsSig>(w, r, Int{1});
        auto clk = wire<Clk>(w);
        wire<ProbeSig>(w, clk, r);
        wire<ProbeI>(w, clk, r);
    }
};
struct TopRepub {
    static constexpr auto name = "c13s_ite_republished";
    static void compose(Wiring &w) {
        auto sel = wire<SelBool>(w);
        auto a = wire<SrcI>(w, Int{0});
        auto b = wire<SrcI>(w, Int{1});
        auto r0 = wire<stdlib::if_then_else_impl>(w, sel, a, b);
        auto clk = wire<Clk>(w);
        auto r = wire<Repub>(w, r0, clk);
        wire<ConsI>(w, r, Int{0});
        wire<ConsSig>(w, r, Int{1});
        wire_nested_signal_consumers(w, r, clk);
        wire<ConsRef>(w, r);
        wire<ProbeSig>(w, clk, r);
        wire<ProbeI>(w, clk, r);
    }
};
}  // namespace

extern "C" int harness_main() {
    // ---- mode first; the script (enumerated timing, symbolic payloads) is drawn lazily by the source nodes in the cycle
    // that uses it, so that all histories share the graph build and their common prefix of cycles
    const int mode = verif_choice("mode", NMODES);
    if (!((MODES >> mode) & 1)) { verif_end_path(); return 0; }
    static const int ncyc_of[NMODES] = {NCYC0, NCYC1, NCYC2, NCYC3, NCYC4, NCYC5, NCYC6, NCYC7};
    const int nt = mode == 1 ? 3 : 2;
    const bool ts_mode = mode == 0 || mode == 1 || mode == 6 || mode == 7;  // targets are TS<int>
    const int ncons = (mode == 0 || mode == 7) ? 7 : 2;
    g_ncyc = ncyc_of[mode];
    g_t0 = MIN_ST;
    {
        GraphBuilder gb = mode == 0   ? build_graph<TopIte>()
                          : mode == 1 ? build_graph<TopCmp>()
                          : mode == 2 ? build_graph<TopKind<SrcS, ConsS>>()
                          : mode == 3 ? build_graph<TopKind<SrcD, ConsD>>()
                          : mode == 4 ? build_graph<TopKind<SrcB, ConsB>>()
                          : mode == 5 ? build_graph<TopKind<SrcW, ConsW>>()
                          : mode == 6 ? build_graph<TopPairList>()
                                      : build_graph<TopRepub>();
        run_sim(std::move(gb), g_t0, g_t0 + TimeDelta{g_ncyc + 2});
    }

    // ---- model of what the statement promises
    bool t_valid[MAXT] = {};
    Int t_val[MAXT] = {};        // TS value / TSD element 1 / newest window element
    bool t_has1[MAXT] = {};      // TSS element 1 / TSD key 1
    bool t_fvalid[MAXT][2] = {}; // TSB fields
    Int t_fval[MAXT][2] = {};
    Int t_wsize[MAXT] = {};
    int cur = -1;  // currently referenced target
    bool exp_eval[MAXC], exp_valid[MAXC], exp_retarget[MAXC], exp_has1[MAXC], exp_added1[MAXC], exp_removed1[MAXC], exp_mod1_known[MAXC], exp_mod1[MAXC];
    bool exp_fvalid[MAXC][2], exp_fmod[MAXC][2];
    // input class "stale stamp" (own assertion ids, see notes/C13.md F2): the reference is retargeted in cycle c to a target (bundle:
    // field) that has no value while the PREVIOUSLY selected target (field) ticked in c
    bool cls_stale[MAXC], cls_fstale[MAXC][2];
    Int exp_val[MAXC], exp_fval[MAXC][2], exp_wsize[MAXC];
    bool any_retarget_valid = false, any_retarget_invalid = false, any_reselect = false, any_unselected = false, any_back = false, any_same_cycle = false,
         any_target_tick_only = false, any_struct_diff = false, any_within = false, any_partial_bundle = false, any_republish_silent = false, any_stale = false;
    int first_target = -1;
    for (int c = 0; c < g_ncyc; c++) {
        const bool before_has1 = cur >= 0 && t_has1[cur];
        const int prev = cur;
        bool ticked[MAXT] = {};
        bool fticked[MAXT][2] = {};
        for (int i = 0; i < nt; i++) {
            if (!g_tick[i][c]) continue;
            ticked[i] = true;
            t_valid[i] = true;
            const int op = g_op[i][c];
            if (mode == 2) {
                if (op == 1) t_has1[i] = true;
                if (op == 2) t_has1[i] = false;
            } else if (mode == 3) {
                if (op == 1) { t_has1[i] = true; t_val[i] = g_val[i][c]; }
                if (op == 2) t_has1[i] = false;
            } else if (mode == 4) {
                t_fvalid[i][op - 1] = true;
                t_fval[i][op - 1] = g_val[i][c];
                fticked[i][op - 1] = true;
            } else if (mode == 5) {
                t_val[i] = g_val[i][c];
                if (t_wsize[i] < 3) t_wsize[i]++;
            } else {
                t_val[i] = g_val[i][c];
            }
        }
        bool retarget = false;
        if (g_sel[c] != 0) {
            int want = g_sel[c] - 1;
            if (want != cur) {
                retarget = true;
                if (cur >= 0 && first_target == want) any_back = true;
                if (first_target < 0) first_target = want;
                if (t_valid[want]) { any_retarget_valid = true; if (ticked[want]) any_same_cycle = true; } else any_retarget_invalid = true;
                if (mode == 6 && cur >= 0 && t_valid[want] && t_valid[cur]) any_within = true;  // both positions of ONE output hold a value
            } else {
                any_reselect = true;
            }
            cur = want;
        }
        for (int i = 0; i < nt; i++) if (ticked[i] && i != cur) any_unselected = true;
        exp_retarget[c] = retarget;
        exp_valid[c] = cur >= 0 && t_valid[cur];
        exp_eval[c] = exp_valid[c] && (ticked[cur] || retarget);
        cls_stale[c] = retarget && !exp_valid[c] && prev >= 0 && ticked[prev];
        if (cls_stale[c]) any_stale = true;
        if (exp_eval[c] && !retarget && g_sel[c] == 0) any_target_tick_only = true;  // evaluated although the reference was not touched
        if (mode == 7 && exp_valid[c] && !exp_eval[c]) any_republish_silent = true;  // reference re-published, nobody may be evaluated
        exp_val[c] = cur >= 0 ? t_val[cur] : Int{0};
        exp_wsize[c] = cur >= 0 ? t_wsize[cur] : Int{0};
        const bool now_has1 = cur >= 0 && t_has1[cur];
        exp_has1[c] = now_has1;
        exp_added1[c] = now_has1 && !before_has1;
        exp_removed1[c] = !now_has1 && before_has1;
        // dictionary: at a plain target tick the modified keys are the target's own (key 1 written); at a retarget the statement
        // fixes added / removed only (a key present in both targets may or may not count as modified)
        exp_mod1_known[c] = !retarget;
        exp_mod1[c] = cur >= 0 && ticked[cur] && g_op[cur][c] == 1;
        if (retarget && exp_eval[c] && (exp_added1[c] || exp_removed1[c])) any_struct_diff = true;
        for (int f = 0; f < 2; f++) {
            exp_fvalid[c][f] = cur >= 0 && t_fvalid[cur][f];
            exp_fval[c][f] = cur >= 0 ? t_fval[cur][f] : Int{0};
            // at a retarget the whole current value of the new target reads as modified; otherwise the field that ticked
            exp_fmod[c][f] = cur >= 0 && (retarget ? t_fvalid[cur][f] : fticked[cur][f]);
            cls_fstale[c][f] = retarget && !exp_fvalid[c][f] && prev >= 0 && fticked[prev][f];
            if (cls_fstale[c][f] && exp_eval[c]) any_stale = true;
        }
        if (mode == 4 && retarget && exp_eval[c] && (exp_fvalid[c][0] != exp_fvalid[c][1])) any_partial_bundle = true;
    }

    // ---- oracle (branch-free over symbolic payloads)
    verif_assert(!g_obs_overflow, "C13.log_overflow");
    bool ok_when_value = true, ok_when_signal = true, ok_value = true, ok_flags_value = true, ok_flags_signal = true, ok_delta = true, ok_spurious = true, saw_spurious = false,
         ok_bundle_fields = true, ok_probe_sig_valid = true, ok_probe_sig_mod = true, ok_probe_val = true, ok_probe_seen = true, ok_stale = true, saw_stale = false,
         ok_nested_republish = true, saw_nested_republish = false, saw_nested_value = false, saw_nested_signal = false;
    int evals_value = 0, evals_signal = 0, evals_nested_signal = 0;
    for (int k = 0; k < ncons; k++) {
        const bool is_signal = k == 1 || k == 2 || k == 3 || k == 5;
        // inside a nested graph whose boundary argument is the REF itself, and the nested node is evaluated in cycles without a
        // retarget: by the re-published reference (mode 7) or by its second boundary argument (consumers 5, 6)
        const bool nested_woken = (k == 5 || k == 6) || (mode == 7 && (k == 2 || k == 4));
        bool &ok_when = is_signal ? ok_when_signal : ok_when_value;
        bool &ok_flags = is_signal ? ok_flags_signal : ok_flags_value;
        bool seen[MAXC] = {};
        for (int n = 0; n < g_nobs[k]; n++) {
            const Obs &o = g_obs[k][n];
            if (o.cycle < 0 || o.cycle >= g_ncyc) { ok_when = false; continue; }
            if (seen[o.cycle]) ok_when = false;  // at most one evaluation per cycle
            const int c = o.cycle;
            // input class "nested rebind" (own assertion id, see notes/C13.md F3): a consumer inside a nested graph behind a REF
            // boundary argument is evaluated (reading valid, NOT modified) whenever the nested node is evaluated
            if (nested_woken && exp_valid[c] && !exp_eval[c] && o.valid && !o.modified) {
                ok_nested_republish = false;
                saw_nested_republish = true;
                if (is_signal) saw_nested_signal = true; else saw_nested_value = true;
                if (!is_signal) ok_value &= (o.value == exp_val[c]);
                continue;
            }
            seen[c] = true;
            if (is_signal) {
                evals_signal++;
                if (k >= 2) evals_nested_signal++;
                ok_flags &= o.valid & o.modified;
                continue;
            }
            evals_value++;
            ok_flags &= o.valid & o.modified;
            if (ts_mode) {
                ok_value &= (o.value == exp_val[c]);
            } else if (mode == 2 || mode == 3) {
                ok_value &= (o.has1 == exp_has1[c]);
                if (mode == 3) ok_value &= !exp_has1[c] | (o.value == exp_val[c]);
                // reported under its own id: at a retarget, a removal of a key that is in neither the old nor the new visible
                // contents (known finding S1 of C13_ref, see notes/C13.md)
                const bool spurious = exp_retarget[c] && o.removed1 && !exp_removed1[c] && !exp_has1[c];
                if (spurious) { ok_spurious = false; saw_spurious = true; }
                ok_delta &= (o.added1 == exp_added1[c]) & ((o.removed1 == exp_removed1[c]) | spurious);
                if (mode == 3) ok_delta &= !exp_mod1_known[c] | (o.mod1 == exp_mod1[c]);
            } else if (mode == 4) {
                for (int f = 0; f < 2; f++) {
                    ok_value &= (o.fvalid[f] == exp_fvalid[c][f]) & (!exp_fvalid[c][f] | (o.fval[f] == exp_fval[c][f]));
                    const bool good = o.fmod[f] == exp_fmod[c][f];
                    if (cls_fstale[c][f]) { if (!good) { ok_stale = false; saw_stale = true; } }
                    else ok_bundle_fields &= good;
                }
            } else if (mode == 5) {
                ok_value &= (o.wsize == exp_wsize[c]) & (o.value == exp_val[c]);
            }
        }
        for (int c = 0; c < g_ncyc; c++) ok_when &= (seen[c] == exp_eval[c]);
    }
    for (int c = 0; c < g_ncyc; c++) {
        ok_probe_seen &= g_psig[c].seen;
        ok_probe_sig_valid &= (g_psig[c].valid == exp_valid[c]);
        const bool good_sig = g_psig[c].modified == exp_eval[c];
        if (cls_stale[c]) { if (!good_sig) { ok_stale = false; saw_stale = true; } }
        else ok_probe_sig_mod &= good_sig;
        if (ts_mode) {
            ok_probe_seen &= g_pval[c].seen;
            ok_probe_val &= (g_pval[c].valid == exp_valid[c]) & (!exp_valid[c] | (g_pval[c].value == exp_val[c]));
            const bool good_val = g_pval[c].modified == exp_eval[c];
            if (cls_stale[c]) { if (!good_val) { ok_stale = false; saw_stale = true; } }
            else ok_probe_val &= good_val;
        }
    }
    bool republished = false;
    for (int c = 0; c < g_ncyc; c++) if (mode == 7 && g_ref_evals[c] > 0 && !exp_retarget[c]) republished = true;
#ifdef C13_DEBUG
    for (int k = 0; k < ncons; k++)
        for (int n = 0; n < g_nobs[k]; n++) {
            const Obs &o = g_obs[k][n];
            std::fprintf(stderr, "cons%d cycle=%d valid=%d mod=%d value=%ld has1=%d added1=%d removed1=%d mod1=%d p=(%d,%d,%ld) q=(%d,%d,%ld) wsize=%ld\n", k, o.cycle, (int)o.valid,
                         (int)o.modified, (long)o.value, (int)o.has1, (int)o.added1, (int)o.removed1, (int)o.mod1, (int)o.fvalid[0], (int)o.fmod[0], (long)o.fval[0], (int)o.fvalid[1],
                         (int)o.fmod[1], (long)o.fval[1], (long)o.wsize);
        }
    for (int c = 0; c < g_ncyc; c++)
        std::fprintf(stderr, "cycle %d sel=%d ticks=%d%d%d op=%d%d%d exp_eval=%d exp_valid=%d exp_val=%ld has1=%d add1=%d rem1=%d stale=%d | probe sig seen=%d valid=%d mod=%d | val valid=%d mod=%d v=%ld | ref_evals=%d\n", c,
                     g_sel[c], (int)g_tick[0][c], (int)g_tick[1][c], (int)g_tick[2][c], g_op[0][c], g_op[1][c], g_op[2][c], (int)exp_eval[c], (int)exp_valid[c], (long)exp_val[c],
                     (int)exp_has1[c], (int)exp_added1[c], (int)exp_removed1[c], (int)cls_stale[c], (int)g_psig[c].seen, (int)g_psig[c].valid, (int)g_psig[c].modified, (int)g_pval[c].valid,
                     (int)g_pval[c].modified, (long)g_pval[c].value, g_ref_evals[c]);
#endif
    verif_assert(ok_when_signal, "C13.signal_evaluated_iff_target_ticked_or_retargeted_to_valid");
    verif_assert(ok_flags_signal, "C13.signal_valid_and_modified_at_every_evaluation");
    verif_assert(ok_when_value, "C13.evaluated_iff_target_ticked_or_retargeted_to_valid");
    verif_assert(ok_value, "C13.reads_current_target_value");
    verif_assert(ok_flags_value, "C13.valid_and_modified_at_every_evaluation");
    verif_assert(ok_delta, "C13.keyed_delta_is_difference_at_retarget");
    verif_assert(ok_spurious, "C13.keyed_retarget_reports_no_removal_of_unseen_key");
    verif_assert(ok_bundle_fields, "C13.bundle_fields_modified_follow_target");
    verif_assert(ok_probe_seen, "C13.probe_ran_every_cycle");
    verif_assert(ok_probe_sig_valid, "C13.signal_valid_follows_target_not_reference");
    verif_assert(ok_probe_sig_mod, "C13.signal_modified_follows_target_not_reference");
    verif_assert(ok_probe_val, "C13.passive_value_read_follows_target");
    verif_assert(ok_stale, "C13.no_modified_from_previous_target_after_retarget_to_valueless_target");
    verif_assert(ok_nested_republish, "C13.nested_ref_boundary_consumer_not_evaluated_without_target_tick");

    if (any_retarget_valid) verif_reach("retarget_to_valid_target");
    if (any_retarget_invalid) verif_reach("retarget_to_target_without_value");
    if (any_same_cycle) verif_reach("retarget_and_target_tick_same_cycle");
    if (any_reselect) verif_reach("same_target_reselected");
    if (any_unselected) verif_reach("unselected_target_ticked");
    if (any_back) verif_reach("retarget_back");
    if (any_target_tick_only && evals_signal > 0) verif_reach("signal_evaluated_by_target_tick_without_reference_tick");
    if (any_retarget_valid && evals_signal > 0) verif_reach("signal_evaluated_by_retarget");
    if (evals_nested_signal > 0) verif_reach("nested_signal_consumer_evaluated");
    if (any_struct_diff) verif_reach(mode == 2 ? "set_retarget_with_difference" : "dict_retarget_with_difference");
    if (saw_spurious) verif_reach("class_keyed_retarget_spurious_removal");
    if (any_partial_bundle) verif_reach("bundle_retarget_to_partially_valid_target");
    if (any_within) verif_reach("signal_retarget_within_same_output");
    if (republished) verif_reach("unchanged_reference_republished");
    if (any_republish_silent && republished) verif_reach("republished_reference_evaluates_nobody");
    if (any_stale) verif_reach("class_retarget_to_valueless_target_while_previous_target_ticks");
    if (saw_stale) verif_reach("class_stale_modified_observed");
    if (saw_nested_signal) verif_reach("class_nested_ref_boundary_signal_consumer_evaluated_without_tick");
    if (saw_nested_value) verif_reach("class_nested_ref_boundary_value_consumer_evaluated_without_tick");
    if (saw_nested_republish) verif_reach(mode == 7 ? "class_nested_ref_boundary_evaluated_by_republish" : "class_nested_ref_boundary_evaluated_by_other_argument");
    if (evals_signal > 0) {
        static const char *const lab[NMODES] = {"signal_evaluated_if_then_else", "signal_evaluated_if_cmp", "signal_evaluated_set", "signal_evaluated_dict", "signal_evaluated_bundle",
                                                "signal_evaluated_window", "signal_evaluated_same_output", "signal_evaluated_republished"};
        verif_reach(lab[mode]);
    }
    if (evals_value > 0 && mode >= 3 && mode <= 5) verif_reach(mode == 3 ? "dict_consumer_evaluated" : mode == 4 ? "bundle_consumer_evaluated" : "window_consumer_evaluated");
    verif_log("mode", mode);
    verif_log("evals_value", evals_value);
    verif_log("evals_signal", evals_signal);
    verif_reach("end");
    return 0;
}

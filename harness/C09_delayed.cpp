// C09 (delayed start): a sub-graph whose EARLIEST internal wake-up is requested during START and lies strictly in the
//   future behaves the same inlined or nested.  The delayed source `Delayed` has NO schedule_on_start: its start hook calls
//   scheduler.schedule(delta > 0), so the child graph has nothing to do in the start cycle and (when the parent is idle as
//   well) the only thing that can ever wake the parent is the hand-over of the child's earliest pending time to the owning
//   nested node on the START path (nested_graph_node.cpp single_nested_graph_start -> single_nested_graph_propagate_schedule,
//   graph.cpp start_impl<NestedGraphRuntimeStorage> cache rebuild, nested_schedule_node_impl while the child is `starting`;
//   try_except_node.cpp try_except_start uses the same hand-over).
//   Every mode is built and run on its own on the SAME symbolic script, in one path:
//     mode 0 inlined, mode k (1..DEPTH) nested k levels deep (hk::c09 mirror of nested_<G>), mode DEPTH+1 wrapped by the
//     real wire_try_except -> try_except_node (one level).
//   enumerated: definition (def) x variant (var)
//     def 0  no input: map(Delayed); parent otherwise idle
//     for the no-input definitions 0, 2, 4 additionally
//            var 0 plain | var 1 an UNRELATED root-level ticker runs at start and periodically (parent busy, child idle
//            in the start cycle) | var 2 the start hook files TWO requests (the second, tagged, may be earlier or later)
//     def 1  boundary input x: merge(map(x), Delayed) - emits on every tick of either; x first ticks before / exactly at /
//            after the start-requested wake-up (or at start itself)
//     def 2  no input: merge(Once, Delayed) - a start-cycle source (schedule_on_start, runs once at start) next to the
//            delayed source in the same child
//     def 3  boundary input x consumed BY the delayed node itself (active input + start-requested timer on one node)
//     def 4  two-level definition: M = merge(Once, D) where D = map(Delayed) is itself a sub-graph call inside M: the
//            MIDDLE graph is busy in the start cycle while the innermost child is idle with a pending start-requested
//            wake-up (mode 1: M nested, D inlined in it; mode >= 2: M nested, D nested inside M (the outermost levels
//            beyond 2 are plain wrappers); try_except mode: M wrapped, D nested inside the wrapped graph)
//   symbolic  : the start-requested delta(s) in [1,DMAX] us (1 = MIN_TD), the later chain of NT-1 re-scheduling deltas,
//               the input script (first offset >= 0, gaps >= 1) and values, the ticker period, start, window (so the
//               wake-up can fall before, on or after the end of the run)
//   oracle    : (exactly the statement) output stream (time, value) of every nested / wrapped mode == the inlined stream;
//               every wake-up the delayed node requested inside the window was honoured by an evaluation at exactly that
//               time in every mode (for def 3: provided its input is valid by then); no nested graph evaluation carries a
//               time earlier than the enclosing root cycle's time; the unrelated parent ticker is unaffected.
#include "hk_ho.h"
#ifdef C09_DEBUG
#include <cstdio>
#endif
#include "hk_c09.h"

#include <hgraph/runtime/node_error.h>
#include <string>

#ifndef NX
#define NX 2
#endif
#ifndef NT      // wake-ups of the delayed node: 1 requested in start + NT-1 chained
#define NT 2
#endif
#ifndef DMAX
#define DMAX 3
#endif
#ifndef WMAX
#define WMAX 5
#endif
#ifndef DEPTH
#define DEPTH 2
#endif
#ifndef PMAX
#define PMAX 2
#endif
#ifndef WITH_TE  // include the try_except-wrapped mode
#define WITH_TE 1
#endif
#ifndef DEF_MASK
#define DEF_MASK 0x1f
#endif

using namespace hk;

namespace {
constexpr int NDEF = 5;
constexpr int NMODE = DEPTH + 1 + (WITH_TE ? 1 : 0);
constexpr int TE_MODE = DEPTH + 1;
constexpr int MAXO = 2 * (NX + NT + 4);
constexpr int MAXR = NT + NX + 4;

DateTime g_T[NX];
Int g_V[NX];
Int g_td[NT];        // g_td[0]: requested in start; g_td[1..]: chain
Int g_td2 = 1;       // second start request (var 2)
bool g_two = false;
DateTime g_start, g_end;
int g_mode = 0;

struct Tick { DateTime t; Int v; };
struct ModeLog {
    Tick out[MAXO]; int nout = 0;
    DateTime trun[MAXR]; int ntrun = 0;   // evaluations of the delayed node
    DateTime treq[MAXR]; int ntreq = 0;   // its requested wake-ups (the first one(s) from the start hook)
    int nchain = 0;
    int nstart = 0;                        // start-hook invocations
    DateTime prun[WMAX + 3]; int nprun = 0;
    Tick pout[WMAX + 3]; int npout = 0;
    bool overflow = false;
};
ModeLog g_m[NMODE];

inline void note_req(ModeLog &L, DateTime t) { if (L.ntreq < MAXR) L.treq[L.ntreq++] = t; else L.overflow = true; }
inline void note_run(ModeLog &L, DateTime t) { if (L.ntrun < MAXR) L.trun[L.ntrun++] = t; else L.overflow = true; }

struct Src {
    static constexpr auto name = "c09d_src";
    static constexpr bool schedule_on_start = true;
    static void eval(NodeScheduler s, State<Int> k, DateTime now, Out<TS<Int>> out) {
        Int i = k.get();
        if (i < NX && now == g_T[i]) { out.set(g_V[i]); i++; k.set(i); }
        if (i < NX) s.schedule(g_T[i]);
    }
};
// The delayed / timer source: NOT scheduled at start; the first wake-up is requested from the start hook.
struct Delayed {
    static constexpr auto name = "c09d_delayed";
    static void start(NodeScheduler s) {
        ModeLog &L = g_m[g_mode];
        L.nstart++;
        s.schedule(TimeDelta{g_td[0]});
        note_req(L, s.now() + TimeDelta{g_td[0]});
        if (g_two) {
            s.schedule(TimeDelta{g_td2}, std::string{"b"});
            note_req(L, s.now() + TimeDelta{g_td2});
        }
    }
    static void eval(NodeScheduler s, State<Int> k, DateTime now, Out<TS<Int>> out) {
        ModeLog &L = g_m[g_mode];
        Int i = k.get();
        note_run(L, now);
        out.set(100 + i);
        if (L.nchain < NT - 1) {
            const Int d = g_td[1 + L.nchain];
            L.nchain++;
            s.schedule(TimeDelta{d});
            note_req(L, now + TimeDelta{d});
        }
        k.set(i + 1);
    }
};
// Delayed node that ALSO consumes the boundary input (active, validity-checked): woken by the input or by its timer.
struct DelayedOnX {
    static constexpr auto name = "c09d_delayed_on_x";
    static void start(NodeScheduler s) {
        ModeLog &L = g_m[g_mode];
        L.nstart++;
        s.schedule(TimeDelta{g_td[0]});
        note_req(L, s.now() + TimeDelta{g_td[0]});
    }
    static void eval(In<"a", TS<Int>> a, NodeScheduler s, State<Int> k, DateTime now, Out<TS<Int>> out) {
        ModeLog &L = g_m[g_mode];
        Int i = k.get();
        note_run(L, now);
        const bool timer = s.is_scheduled_now();
        out.set(1000000000 * (i + 1) + (timer ? Int{500000000} : Int{0}) + (a.modified() ? a.value() : Int{7777777}));
        if (timer && L.nchain < NT - 1) {
            const Int d = g_td[1 + L.nchain];
            L.nchain++;
            s.schedule(TimeDelta{d});
            note_req(L, now + TimeDelta{d});
        }
        k.set(i + 1);
    }
};
struct Once {  // start-cycle source: evaluated once, at start
    static constexpr auto name = "c09d_once";
    static constexpr bool schedule_on_start = true;
    static void eval(Out<TS<Int>> out) { out.set(7); }
};
struct MapN {
    static constexpr auto name = "c09d_map";
    static void eval(In<"a", TS<Int>> a, Out<TS<Int>> out) { out.set(2 * a.value() + 1); }
};
struct Merge {  // internal inputs only (never bound to a boundary): emits whenever either side ticks
    static constexpr auto name = "c09d_merge";
    static void eval(In<"a", TS<Int>, InputValidity::Unchecked> a, In<"b", TS<Int>, InputValidity::Unchecked> b, Out<TS<Int>> out) {
        Int v = 0;
        if (a.valid() && a.modified()) v += 5000000 + a.value();
        if (b.valid() && b.modified()) v += 1000000000 * b.value();
        out.set(v);
    }
};
struct Rec {
    static constexpr auto name = "c09d_rec";
    static void eval(In<"a", TS<Int>> a, DateTime now) {
        ModeLog &L = g_m[g_mode];
        if (L.nout < MAXO) L.out[L.nout++] = Tick{now, a.value()}; else L.overflow = true;
    }
};
using TryIntResult = UnNamedTSB<Field<"exception", TS<NodeError>>, Field<"out", TS<Int>>>;
struct TryRec {  // recorder behind try_except: the "out" field of the result bundle
    static constexpr auto name = "c09d_try_rec";
    static void eval(In<"r", TryIntResult, InputValidity::Unchecked> r, DateTime now) {
        ModeLog &L = g_m[g_mode];
        auto field = r.template field<"out">();
        if (field.valid() && field.modified()) {
            if (L.nout < MAXO) L.out[L.nout++] = Tick{now, field.value()}; else L.overflow = true;
        }
    }
};
Int g_pp = 1;
bool g_with_ticker = false;
struct Ticker {  // unrelated parent-level source: runs at start and then every g_pp us
    static constexpr auto name = "c09d_parent_ticker";
    static constexpr bool schedule_on_start = true;
    static void eval(NodeScheduler s, State<Int> k, DateTime now, Out<TS<Int>> out) {
        ModeLog &L = g_m[g_mode];
        if (L.nprun < WMAX + 3) L.prun[L.nprun++] = now; else L.overflow = true;
        out.set(k.get());
        k.set(k.get() + 1);
        s.schedule(TimeDelta{g_pp});
    }
};
struct TickRec {
    static constexpr auto name = "c09d_parent_ticker_rec";
    static void eval(In<"a", TS<Int>> a, DateTime now) {
        ModeLog &L = g_m[g_mode];
        if (L.npout < WMAX + 3) L.pout[L.npout++] = Tick{now, a.value()}; else L.overflow = true;
    }
};
inline void wire_parent_ticker(Wiring &w) { if (g_with_ticker) wire<TickRec>(w, wire<Ticker>(w)); }

// ---- the sub-graph definitions
struct G0 { static constexpr auto name = "c09d_g_delayed";       static Port<TS<Int>> compose(Wiring &w) { return wire<MapN>(w, wire<Delayed>(w)); } };
struct G1 { static constexpr auto name = "c09d_g_delayed_input"; static Port<TS<Int>> compose(Wiring &w, Port<TS<Int>> x) { return wire<Merge>(w, wire<MapN>(w, x), wire<Delayed>(w)); } };
struct G2 { static constexpr auto name = "c09d_g_once_delayed";  static Port<TS<Int>> compose(Wiring &w) { return wire<Merge>(w, wire<Once>(w), wire<Delayed>(w)); } };
struct G3 { static constexpr auto name = "c09d_g_delayed_on_x";  static Port<TS<Int>> compose(Wiring &w, Port<TS<Int>> x) { return wire<DelayedOnX>(w, x); } };

template <bool INNER_NESTED> struct GM {  // def 4: the middle definition, its inner call inlined or nested
    static constexpr auto name = "c09d_g_middle";
    static Port<TS<Int>> compose(Wiring &w) {
        Port<TS<Int>> d = INNER_NESTED ? c09::nested0<G0>(w) : G0::compose(w);
        return wire<Merge>(w, wire<Once>(w), d);
    }
};
template <int K> struct NestM {  // K = 0: everything inlined; 1: M nested, D inlined; 2: M nested, D nested; > 2: wrappers around K = 2
    static constexpr auto name = "c09d_nest_m";
    static Port<TS<Int>> compose(Wiring &w) {
        if constexpr (K == 0) return GM<false>::compose(w);
        else if constexpr (K == 1) return c09::nested0<GM<false>>(w);
        else if constexpr (K == 2) return c09::nested0<GM<true>>(w);
        else return c09::nested0<NestM<K - 1>>(w);
    }
};
template <int K> struct TopM {
    static constexpr auto name = "c09d_top_m";
    static void compose(Wiring &w) { wire_parent_ticker(w); wire<Rec>(w, NestM<K>::compose(w)); }
};
template <class G, int K> struct Nest1 {
    static constexpr auto name = "c09d_nest";
    static Port<TS<Int>> compose(Wiring &w, Port<TS<Int>> x) {
        if constexpr (K == 0) return G::compose(w, x);
        else if constexpr (K == 1) return c09::nested1<G>(w, x);
        else return c09::nested1<Nest1<G, K - 1>>(w, x);
    }
};
template <class G, int K> struct Nest0 {
    static constexpr auto name = "c09d_nest0";
    static Port<TS<Int>> compose(Wiring &w) {
        if constexpr (K == 0) return G::compose(w);
        else if constexpr (K == 1) return c09::nested0<G>(w);
        else return c09::nested0<Nest0<G, K - 1>>(w);
    }
};
template <class G, int K> struct Top1 {
    static constexpr auto name = "c09d_top";
    static void compose(Wiring &w) {
        wire_parent_ticker(w);
        auto x = wire<Src>(w);
        wire<Rec>(w, Nest1<G, K>::compose(w, x));
    }
};
template <class G, int K> struct Top0 {
    static constexpr auto name = "c09d_top0";
    static void compose(Wiring &w) { wire_parent_ticker(w); wire<Rec>(w, Nest0<G, K>::compose(w)); }
};
// ---- the same definitions behind the real try_except wiring
template <class G> struct W1 { static WiringPortRef wire(Wiring &w, std::span<const WiringPortRef> a) { return G::compose(w, Port<TS<Int>>{w, a[0]}).erased(); } };
template <class G> struct W0 { static WiringPortRef wire(Wiring &w, std::span<const WiringPortRef>) { return G::compose(w).erased(); } };
template <class G> struct TopTE1 {
    static constexpr auto name = "c09d_top_te";
    static void compose(Wiring &w) {
        wire_parent_ticker(w);
        auto x = wire<Src>(w);
        WiringPortRef r = ho::wire_try_except(w, FnW<W1<G>, 1>::make(), {x.erased()}, {}, ErrorCaptureOptions{});
        wire<TryRec>(w, Port<TryIntResult>{w, r});
    }
};
template <class G> struct TopTE0 {
    static constexpr auto name = "c09d_top_te0";
    static void compose(Wiring &w) {
        wire_parent_ticker(w);
        WiringPortRef r = ho::wire_try_except(w, FnW<W0<G>, 0>::make(), {}, {}, ErrorCaptureOptions{});
        wire<TryRec>(w, Port<TryIntResult>{w, r});
    }
};

template <int K> GraphBuilder build_def(int def) {
    switch (def) {
        case 0: return build_graph<Top0<G0, K>>();
        case 1: return build_graph<Top1<G1, K>>();
        case 2: return build_graph<Top0<G2, K>>();
        case 3: return build_graph<Top1<G3, K>>();
        default: return build_graph<TopM<K>>();
    }
}
GraphBuilder build_te(int def) {
    switch (def) {
        case 0: return build_graph<TopTE0<G0>>();
        case 1: return build_graph<TopTE1<G1>>();
        case 2: return build_graph<TopTE0<G2>>();
        case 3: return build_graph<TopTE1<G3>>();
        default: return build_graph<TopTE0<GM<true>>>();
    }
}
template <int K> struct Builders {
    static GraphBuilder build(int def, int mode) { return mode == K ? build_def<K>(def) : Builders<K - 1>::build(def, mode); }
};
template <> struct Builders<0> {
    static GraphBuilder build(int def, int) { return build_def<0>(def); }
};
GraphBuilder build_mode(int def, int mode) {
    if (WITH_TE && mode == TE_MODE) return build_te(def);
    return Builders<DEPTH>::build(def, mode);
}

constexpr int LOGCAP = 160 * (DEPTH + 1) + 128;
EventLog<LOGCAP> g_log[NMODE];
}  // namespace

extern "C" int harness_main() {
    register_ho_scalars();
    int def = verif_choice("def", NDEF);
    if (!((DEF_MASK >> def) & 1)) { verif_end_path(); return 0; }
    int var = (def == 0 || def == 2 || def == 4) ? verif_choice("var", 3) : 0;
    g_with_ticker = var == 1;
    g_two = var == 2;
    const bool has_x = def == 1 || def == 3;

    std::int64_t s0 = verif_range("start", 0, 1000);
    std::int64_t win = verif_range("window", 1, WMAX);
    g_start = at_us(s0);
    g_end = g_start + TimeDelta{win};
    {
        DateTime t = g_start;
        for (int j = 0; j < NX; j++) {
            t = t + TimeDelta{has_x ? verif_range("xgap", j == 0 ? 0 : 1, DMAX) : (j == 0 ? 0 : 1)};
            g_T[j] = t;
            g_V[j] = has_x ? verif_range("xval", -1000000, 1000000) : 0;
        }
    }
    for (int i = 0; i < NT; i++) g_td[i] = verif_range("tdelta", 1, DMAX);
    g_td2 = g_two ? verif_range("tdelta2", 1, DMAX) : 1;
    g_pp = g_with_ticker ? verif_range("pperiod", 1, PMAX) : 1;

    for (g_mode = 0; g_mode < NMODE; g_mode++) {
        RecordingObserver<LOGCAP> obs{&g_log[g_mode]};
        run_sim(build_mode(def, g_mode), g_start, g_end, &obs);
    }

#ifdef C09_DEBUG
    for (int m = 0; m < NMODE; m++) {
        for (int i = 0; i < g_m[m].nout; i++) std::fprintf(stderr, "mode %d out t=%ld v=%ld\n", m, (long)us(g_m[m].out[i].t), (long)g_m[m].out[i].v);
        for (int i = 0; i < g_m[m].ntreq; i++) std::fprintf(stderr, "mode %d delayed req t=%ld\n", m, (long)us(g_m[m].treq[i]));
        for (int i = 0; i < g_m[m].ntrun; i++) std::fprintf(stderr, "mode %d delayed run t=%ld\n", m, (long)us(g_m[m].trun[i]));
        for (int i = 0; i < g_log[m].n; i++)
            if (g_log[m].ev[i].kind == EV_GRAPH_BEGIN) std::fprintf(stderr, "mode %d cycle depth=%d t=%ld\n", m, g_log[m].ev[i].depth, (long)us(g_log[m].ev[i].t));
    }
#endif
    // ---- oracle (branch-free over symbolic times / values; counts are concrete per path)
    bool ok_same[NMODE], ok_count[NMODE];
    bool ok_wake = true, ok_clock = true, ok_log = true, ok_ticker = true, ok_started = true;
    for (int m = 0; m < NMODE; m++) {
        const ModeLog &L = g_m[m];
        ok_log &= !L.overflow & !g_log[m].overflow;
        ok_started &= (L.nstart == 1);
        ok_same[m] = true;
        ok_count[m] = L.nout == g_m[0].nout;
        int n = L.nout < g_m[0].nout ? L.nout : g_m[0].nout;
        for (int i = 0; i < n; i++) ok_same[m] &= (L.out[i].t == g_m[0].out[i].t) & (L.out[i].v == g_m[0].out[i].v);
        ok_ticker &= (L.npout == g_m[0].npout) & (L.nprun == g_m[0].nprun);
        {
            int np = L.npout < g_m[0].npout ? L.npout : g_m[0].npout;
            for (int i = 0; i < np; i++) ok_ticker &= (L.pout[i].t == g_m[0].pout[i].t) & (L.pout[i].v == g_m[0].pout[i].v);
        }
        // every requested wake-up inside the window produced an evaluation at exactly that time
        // (def 3: the node has a validity-checked input, so only once that input has ticked)
        for (int r = 0; r < L.ntreq; r++) {
            bool ran = false;
            for (int i = 0; i < L.ntrun; i++) ran |= (L.trun[i] == L.treq[r]);
            bool excused = (L.treq[r] >= g_end);
            if (def == 3) excused |= (g_T[0] > L.treq[r]);
            ok_wake &= ran | excused;
        }
        DateTime root_t = MIN_DT;
        for (int i = 0; i < g_log[m].n; i++) {
            const Event &e = g_log[m].ev[i];
            if (e.kind != EV_GRAPH_BEGIN) continue;
            if (e.depth == 0) root_t = e.t;
            else ok_clock &= (e.t >= root_t);
        }
    }
    verif_assert(ok_log, "C09.delayed_log_overflow");
    verif_assert(ok_started, "C09.delayed_start_hook_ran_once_per_mode");
    for (int m = 1; m < NMODE; m++) {
        const bool te = WITH_TE && m == TE_MODE;
        verif_assert(ok_count[m], te ? "C09.delayed_try_except_same_number_of_output_ticks"
                                     : m == 1 ? "C09.delayed_depth1_same_number_of_output_ticks" : "C09.delayed_deeper_same_number_of_output_ticks");
        verif_assert(ok_same[m], te ? "C09.delayed_try_except_stream_equals_inlined"
                                    : m == 1 ? "C09.delayed_depth1_stream_equals_inlined" : "C09.delayed_deeper_stream_equals_inlined");
    }
    verif_assert(ok_wake, "C09.delayed_start_requested_wakeup_honoured_at_exact_time");
    verif_assert(ok_ticker, "C09.delayed_parent_ticker_unaffected_by_nesting");
    verif_assert(ok_clock, "C09.delayed_child_not_evaluated_before_parent_time");

    // ---- situations (decided on the inlined run I and on the logs of the nested runs)
    const ModeLog &I = g_m[0];
    const DateTime w0 = I.treq[0];  // the wake-up requested in start
    const bool w0_in_window = w0 < g_end;
    // first root cycle / first nested cycle of a mode
    auto first_cycle = [](int m, int depth_min, DateTime &t) {
        for (int i = 0; i < g_log[m].n; i++)
            if (g_log[m].ev[i].kind == EV_GRAPH_BEGIN && (depth_min == 0 ? g_log[m].ev[i].depth == 0 : g_log[m].ev[i].depth > 0)) { t = g_log[m].ev[i].t; return true; }
        return false;
    };
    auto nested_cycles = [](int m) {
        int k = 0;
        for (int i = 0; i < g_log[m].n; i++) k += (g_log[m].ev[i].kind == EV_GRAPH_BEGIN && g_log[m].ev[i].depth > 0);
        return k;
    };
    if (!w0_in_window) verif_reach("start_wakeup_on_or_after_end_of_window");
    if (w0_in_window) {
        DateTime r1, c1;
        const bool hr = first_cycle(1, 0, r1), hc = first_cycle(1, 1, c1);
        // depth 1: the root's very first cycle is the start-requested wake-up (nothing ran in the start cycle), and
        // the child's first cycle is that one too
        if (hr && hc && r1 == w0 && c1 == w0 && r1 > g_start) {
            verif_reach("start_wakeup_woke_idle_parent");
            if (g_td[0] == 1) verif_reach("start_wakeup_at_min_td");
            if (I.ntrun >= 2) verif_reach("later_chain_wakeup_after_start_wakeup");
            DateTime rd, cd;
            if (first_cycle(DEPTH, 0, rd) && first_cycle(DEPTH, 1, cd) && rd == w0 && cd == w0 && nested_cycles(DEPTH) >= DEPTH) verif_reach("start_wakeup_woke_idle_parent_deepest_mode");
            if (WITH_TE) {
                DateTime rt, ct;
                if (first_cycle(TE_MODE, 0, rt) && first_cycle(TE_MODE, 1, ct) && rt == w0 && ct == w0) verif_reach("start_wakeup_woke_idle_parent_try_except");
            }
        }
        if (g_with_ticker) {
            // parent busy in the start cycle, child idle: the child's first cycle is still the start-requested wake-up
            if (hr && hc && r1 == g_start && c1 == w0) verif_reach("parent_busy_child_idle_in_start_cycle");
        }
        if (has_x) {
            if (g_T[0] > g_start && g_T[0] < w0) verif_reach("outer_first_tick_before_start_wakeup");
            if (g_T[0] == w0) verif_reach("outer_first_tick_exactly_at_start_wakeup");
            if (g_T[0] > w0 && g_T[0] < g_end) verif_reach("outer_first_tick_after_start_wakeup");
            if (g_T[0] == g_start) verif_reach("outer_first_tick_in_start_cycle");
        }
        if (def == 2 && I.nout >= 2) verif_reach("start_cycle_source_then_delayed_source");
        if (def == 4 && DEPTH >= 2 && I.nout >= 2) {
            // mode 2: root and middle graph cycle at start (Once), the innermost child's first cycle is the wake-up
            int at_start = 0, at_w0 = 0;
            for (int i = 0; i < g_log[2].n; i++) {
                const Event &e = g_log[2].ev[i];
                if (e.kind != EV_GRAPH_BEGIN || e.depth == 0) continue;
                at_start += (e.t == g_start);
                at_w0 += (e.t == w0);
            }
            if (at_start == 1 && at_w0 == 2) verif_reach("middle_graph_busy_innermost_idle_in_start_cycle");
        }
        if (def == 3 && I.ntrun >= 1 && g_T[0] > w0) verif_reach("delayed_consumer_timer_before_input_valid");
        if (def == 3 && I.ntrun >= 2 && g_T[0] < w0) verif_reach("delayed_consumer_input_then_timer");
        if (g_two) {
            if (g_td2 < g_td[0]) verif_reach("second_start_request_earlier_than_first");
            if (g_td2 > g_td[0] && I.treq[1] < g_end) verif_reach("second_start_request_later_than_first");
        }
    }
    verif_log("out_ticks", I.nout);
    verif_reach("end");
    return 0;
}

// C03 for a NATIVE-callback node (NodeBuilder::native, readiness decided by node.cpp ready_to_evaluate from
// NodeTypeMetaData::valid_inputs; hk/hk_native.h): inputs a (active, required) and b (passive or active, required),
// a NodeScheduler wake-up requested in start() and another one in the first run.
//   symbolic  : every emission time of a and b (first offset, gaps), both wake-up deltas, payloads
//   enumerated: how many values each source emits (0..NEMIT), whether b is active
//   oracle    : at every time T at which anything could cause an evaluation (an emission, a requested wake-up):
//               user code ran at T  <=>  (an active input ticked at T or an own wake-up is due at T) and a, b both valid;
//               in particular a wake-up requested earlier is not lost by notifications that arrive while the node is
//               not ready, and an evaluation that did not run user code leaves the run intact (no exception later);
//               each run read the latest values.
#include "hk_native.h"

using namespace hkn;

extern "C" int harness_main() {
    const DateTime start = run_scenario();
    const DateTime end = start + TimeDelta{WIN};

    verif_assert(!g_overflow, "C03.log_overflow");
    verif_assert(!g_threw, "C03.native_run_threw");

    // candidate times: every emission and every requested wake-up time
    DateTime cand[2 * NEMIT + MAXREQ];
    int nc = 0;
    for (int k = 0; k < 2; k++) for (int j = 0; j < g_nemit[k]; j++) cand[nc++] = g_emit[k][j].t;
    for (int i = 0; i < g_nreq; i++) cand[nc++] = g_req[i].when;

    bool ok_if = true, ok_only_cause = true, ok_only_ready = true, ok_vals = true, ok_once = true, ok_passive = true;
    bool r_notified_unready_then_wake = false, r_wake_unready = false, r_wake_unready_then_run = false, r_ran_on_wake = false, r_passive_only = false;
    for (int c = 0; c < nc; c++) {
        DateTime T = cand[c];
        bool in_window = T < end;
        bool active_tick = emitted_at(0, T) | (g_b_active & emitted_at(1, T));
        bool due = wake_due_at(T);
        bool ready = valid_at(0, T) & valid_at(1, T);
        bool ran = ran_at(T);
        ok_if &= !(in_window & (active_tick | due) & ready) | ran;
        bool passive_only = !g_b_active & emitted_at(1, T) & !emitted_at(0, T) & !due;
        ok_passive &= !(passive_only & ran);
        r_passive_only |= passive_only & ready & in_window;
        r_ran_on_wake |= due & !active_tick & ran;
        r_wake_unready |= due & !ready & in_window;
        // scenario 1: before a wake-up time the node was notified (a ticked) while not ready, and at the wake-up time it is ready
        bool notified_unready_before = false, unready_wake_before = false;
        for (int j = 0; j < g_nemit[0]; j++) {
            DateTime ta = g_emit[0][j].t;
            notified_unready_before |= (ta < T) & !(valid_at(0, ta) & valid_at(1, ta));
        }
        for (int i = 0; i < g_nreq; i++) unready_wake_before |= (g_req[i].when < T) & (g_req[i].issued < g_req[i].when) & !(valid_at(0, g_req[i].when) & valid_at(1, g_req[i].when));
        r_notified_unready_then_wake |= due & ready & in_window & notified_unready_before & !active_tick;
        r_wake_unready_then_run |= ran & unready_wake_before;
    }
    for (int i = 0; i < g_nrun && i < MAXRUN; i++) {
        DateTime t = g_run[i].t;
        bool active_tick = emitted_at(0, t) | (g_b_active & emitted_at(1, t));
        ok_only_cause &= active_tick | wake_due_at(t);
        ok_only_ready &= valid_at(0, t) & valid_at(1, t);
        ok_vals &= (g_run[i].a == latest_at(0, t)) & (g_run[i].b == latest_at(1, t));
        for (int j = i + 1; j < g_nrun && j < MAXRUN; j++) ok_once &= !(g_run[j].t == t);
    }
    verif_assert(ok_if, "C03.native_did_not_run_when_due_and_ready");
    verif_assert(ok_only_cause, "C03.native_ran_without_cause");
    verif_assert(ok_only_ready, "C03.native_ran_with_invalid_required_input");
    verif_assert(ok_passive, "C03.native_passive_tick_alone_ran_node");
    verif_assert(ok_vals, "C03.native_read_value_is_not_latest_written");
    verif_assert(ok_once, "C03.native_ran_twice_in_cycle");
    if (r_notified_unready_then_wake) verif_reach("notified_while_not_ready_then_wakeup_honoured");
    if (r_wake_unready) verif_reach("wakeup_due_while_not_ready");
    if (r_wake_unready_then_run) verif_reach("ran_after_wakeup_fired_unready");
    if (r_ran_on_wake) verif_reach("ran_on_own_wakeup");
    if (r_passive_only) verif_reach("passive_only_tick_while_ready");
    if (g_nreq == 2) verif_reach("second_request_from_run");
    verif_log("runs", g_nrun);
    verif_reach("end");
    return 0;
}

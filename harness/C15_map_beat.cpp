// C15 (map_ per-key capture, self-scheduling child): a keyed map_ with error capture whose per-key child graph is
//        (key, x) -> Beat (SELF-SCHEDULING: re-arms its NodeScheduler in every evaluation, symbolic delta) -> TK -> out
//   The keyed source ticks ONLY in cycle 0 (adds key 0, or keys 0 and 1); afterwards the ONLY wake-ups of the map node are
//   the children's own re-armed timers.  The child of key k throws in a symbolic subset of its evaluations - i.e. in a
//   cycle in which Beat has JUST re-armed its next wake-up - and, with one key (or with the other key's next beat later
//   than the re-armed time), nothing else wakes the map before that time: the pending wake-up has to survive the captured
//   failure on its own (map_node.cpp: pull of child.next_scheduled_time() after a captured child failure, graph.cpp nested
//   evaluate after failure, node.cpp scheduler tail).
//   enumerated: number of keys (1, 2); WHO throws: TK (the node next to / downstream of Beat) or Beat itself (after re-arming)
//   symbolic  : every re-arm delta of key 0 and the period of key 1 ([1,PMAX], so the keys have different / equal periods), payloads,
//               the SET of evaluations in which key k's child throws, the second tick time of the independent source
//   oracle    : run 0 (faults armed) vs run 1 (fault-free twin) inside one path: no exception escapes; one error tick per
//               throw under the failing key only, in that cycle, with the message; every key's Beat is evaluated at exactly
//               the twin's times (keeps beating); TK likewise (when Beat is not the thrower); per-key output equals the
//               twin's in evaluations that did not throw; independent stream identical.
#include "hk.h"

#include <hgraph/runtime/node_error.h>
#include <hgraph/types/subgraph_wiring.h>
#include <hgraph/lib/std/operators/impl/higher_order_impl.h>

#include <string>

#ifndef NBEAT
#define NBEAT 3         // evaluations of Beat per key (re-arms in the first NBEAT-1)
#endif
#ifndef PMAX
#define PMAX 2          // re-arm deltas symbolic in [1,PMAX]
#endif

using namespace hk;

namespace {
constexpr int CAP = NBEAT + 2;
struct Rec { DateTime t; Int v; };
struct Stream {
    Rec r[CAP];
    int n = 0;
    bool overflow = false;
    void add(DateTime t, Int v) { if (n < CAP) r[n++] = Rec{t, v}; else overflow = true; }
};
enum StreamId : int { ST_IND = 0, ST_BEAT0, ST_BEAT1, ST_KEVAL0, ST_KEVAL1, ST_KTHROWN0, ST_KTHROWN1, ST_KERR0, ST_KERR1, ST_KDEP0, ST_KDEP1, NSTREAM };
Stream g_s[2][NSTREAM];
int g_run = 0;
int g_nk = 1;                  // enumerated: number of keys
bool g_beat_throws = false;    // enumerated: the self-scheduling node itself throws (after re-arming) instead of TK
std::int64_t g_kval[2], g_pd[2][NBEAT], g_throwK[2][NBEAT], g_sval[2], g_sdelta;
bool g_thrownK[2][NBEAT];

struct Src {   // independent source: t0 and t0 + sdelta
    static constexpr auto name = "src";
    static constexpr bool schedule_on_start = true;
    static void eval(NodeScheduler s, State<Int> n, Out<TS<Int>> out) {
        Int c = n.get();
        n.set(c + 1);
        if (c == 0) s.schedule(TimeDelta{g_sdelta});
        out.set(g_sval[c & 1]);
    }
};
struct Indep {
    static constexpr auto name = "indep";
    static void eval(In<"a", TS<Int>> a, Out<TS<Int>> out) { out.set(a.value() * 2 + 1); }
};
template <int STREAM> struct RecSink {
    static constexpr auto name = "recsink";
    static void eval(In<"a", TS<Int>> a, DateTime now) { g_s[g_run][STREAM].add(now, a.value()); }
};
Int decode(const std::string &m, char tag) {
    if (m.size() == 6 && m.compare(0, 4, "boom") == 0 && m[4] == tag && m[5] >= '0' && m[5] <= '9') return m[5] - '0';
    return -1;
}
namespace ho = hgraph::stdlib::higher_order_impl_detail;

struct KeySrc {   // ticks in cycle 0 only
    static constexpr auto name = "keysrc";
    static constexpr bool schedule_on_start = true;
    static void eval(Out<TSD<Int, TS<Int>>> out) {
        out[Int{0}].set(g_kval[0]);
        if (g_nk == 2) out[Int{1}].set(g_kval[1]);
    }
};
void maybe_throw(int k, Int j, DateTime now) {
    if (g_run == 0 && j < NBEAT && g_throwK[k][j] != 0) {
        g_thrownK[k][j] = true;
        g_s[0][ST_KTHROWN0 + k].add(now, j);
        throw std::runtime_error(std::string("boom") + char('a' + k) + char('0' + (int)j));
    }
}
// The self-scheduling node of the per-key child: re-arms FIRST, then (variant) throws.
struct Beat {
    static constexpr auto name = "beat";
    static void eval(In<"key", TS<Int>> key, In<"a", TS<Int>> a, Out<TS<Int>> out, NodeScheduler s, State<Int> n, DateTime now) {
        int k = (int)key.value();
        Int j = n.get();
        n.set(j + 1);
        g_s[g_run][ST_BEAT0 + k].add(now, j);
        if (j + 1 < NBEAT) s.schedule(TimeDelta{g_pd[k][j]});
        if (g_beat_throws) maybe_throw(k, j, now);
        out.set(a.value() + j);
    }
};
struct TK {
    static constexpr auto name = "keyed_thrower";
    static void eval(In<"key", TS<Int>> key, In<"a", TS<Int>> a, Out<TS<Int>> out, DateTime now) {
        int k = (int)key.value();
        Int j = g_s[g_run][ST_BEAT0 + k].n - 1;   // evaluation number of this key's Beat in this cycle
        g_s[g_run][ST_KEVAL0 + k].add(now, a.value());
        if (!g_beat_throws) maybe_throw(k, j, now);
        out.set(a.value() * 3 + 1);
    }
};
struct KDepSink {
    static constexpr auto name = "kdepsink";
    static void eval(In<"a", TSD<Int, TS<Int>>> a, DateTime now) {
        const TSDInputView &d = a;
        for (const auto [k, v] : d.modified_items()) {
            int kk = (int)k.template checked_as<Int>();
            g_s[g_run][ST_KDEP0 + kk].add(now, v.value().template checked_as<Int>());
        }
    }
};
struct KErrSink {
    static constexpr auto name = "kerrsink";
    static void eval(In<"e", TSD<Int, TS<NodeError>>> e, DateTime now) {
        const TSDInputView &d = e;
        for (const auto [k, v] : d.modified_items()) {
            int kk = (int)k.template checked_as<Int>();
            std::string m = v.value().as_bundle().at("error_msg").template checked_as<Str>();
            g_s[g_run][ST_KERR0 + kk].add(now, decode(m, char('a' + kk)));
        }
    }
};
struct KeyFn {   // WiredFn for  (key, x) -> Beat -> TK
    static WiringPortRef body(Wiring &w, Port<TS<Int>> key, Port<TS<Int>> x) {
        auto b = wire<Beat>(w, key, x);
        return wire<TK>(w, key, b).erased();
    }
    static CompiledSubGraph compile(const void *, Wiring *parent, std::span<const TSValueTypeMetaData *const> s) {
        Wiring cw = parent ? parent->child_wiring() : Wiring{WiringKind::SubGraph};
        Port<TS<Int>> key{cw, WiringPortRef::boundary_source(0, {}, s[0])};
        Port<TS<Int>> x{cw, WiringPortRef::boundary_source(1, {}, s[1])};
        WiringPortRef out = body(cw, key, x);
        return std::move(cw).finish_subgraph(out, {s[0], s[1]});
    }
    static WiringPortRef wire_(const void *, Wiring &w, std::span<const WiringPortRef> a) {
        return body(w, Port<TS<Int>>{w, a[0]}, Port<TS<Int>>{w, a[1]});
    }
    static const TSValueTypeMetaData *out(const void *) { return schema_descriptor<TS<Int>>::ts_meta(); }
    static WiredFn make() {
        static WiredFnOps ops{.wire = &wire_, .compile = &compile, .output_schema = &out};
        WiredFn f; f.ops = &ops; f.arity = 2; f.has_output = true; f.identity = &typeid(KeyFn);
        return f;
    }
};

struct Top {
    static constexpr auto name = "top";
    static void compose(Wiring &w) {
        auto s = wire<Src>(w);
        auto d = wire<KeySrc>(w);
        WiringPortRef m = ho::wire_map(w, Scalar<"func", WiredFn>{KeyFn::make()}, "", {d.erased()}, std::nullopt, true);
        Port<TSD<Int, TS<Int>>> mp{w, m};
        auto errs = exception_time_series(mp);
        wire<KErrSink>(w, errs);
        wire<KDepSink>(w, mp);
        auto i = wire<Indep>(w, s);
        wire<RecSink<ST_IND>>(w, i);
    }
};

bool same_stream(const Stream &a, const Stream &b) {
    bool ok = (a.n == b.n);
    int n = a.n < b.n ? a.n : b.n;
    for (int i = 0; i < n; i++) ok &= (a.r[i].t == b.r[i].t) & (a.r[i].v == b.r[i].v);
    return ok;
}
// see C15_capture.cpp: twin ticks of non-throwing evaluations appear identically in run 0; run-0 ticks are twin ticks
// unless that evaluation threw.  ev = twin evaluation stream of the key's Beat, thrown[j] = evaluation j threw in run 0.
bool dependent_ok(const Stream &d0, const Stream &d1, const Stream &ev, const bool *thrown, int nthrown) {
    bool ok = true;
    for (int i = 0; i < d1.n; i++) {
        bool threw_then = false, found = false;
        for (int k = 0; k < ev.n && k < nthrown; k++) threw_then |= thrown[k] & (ev.r[k].t == d1.r[i].t);
        for (int j = 0; j < d0.n; j++) found |= (d0.r[j].t == d1.r[i].t) & (d0.r[j].v == d1.r[i].v);
        ok &= found | threw_then;
    }
    for (int j = 0; j < d0.n; j++) {
        bool threw_then = false, match = false;
        for (int k = 0; k < ev.n && k < nthrown; k++) threw_then |= thrown[k] & (ev.r[k].t == d0.r[j].t);
        for (int i = 0; i < d1.n; i++) match |= (d0.r[j].t == d1.r[i].t) & (d0.r[j].v == d1.r[i].v);
        ok &= match | threw_then;
    }
    return ok;
}
}  // namespace

extern "C" int harness_main() {
    auto &reg = TypeRegistry::instance();
    reg.register_scalar<WiredFn>("fn");
    reg.register_scalar<stdlib::SwitchCases>("switch_cases");
    GraphBuilder gb0 = build_graph<Top>();
    GraphBuilder gb1 = build_graph<Top>();

    g_nk = 1 + verif_choice("nkeys", 2);
    g_beat_throws = verif_bool("beat_throws");
    g_sdelta = verif_range("sdelta", 1, PMAX);
    for (int c = 0; c < 2; c++) g_sval[c] = verif_range("sval", -1000, 1000);
    for (int k = 0; k < 2; k++) {
        g_kval[k] = verif_range("kval", -1000, 1000);
        for (int j = 0; j < NBEAT; j++) {
            // key 0: one symbolic delta per re-arm; key 1: ONE symbolic period (keeps the number of time orderings small)
            g_pd[k][j] = (k == 0 || j == 0) ? verif_range("period", 1, PMAX) : g_pd[1][0];
            // key 1's last beat never throws (bound; key 0: every subset)
            g_throwK[k][j] = (k == 0 || j + 1 < NBEAT) ? verif_range("throwK", 0, 1) : 0;
        }
    }

    bool escaped[2] = {false, false};
    for (int run = 0; run < 2; run++) {
        g_run = run;
        try {
            run_sim(run == 0 ? std::move(gb0) : std::move(gb1), MIN_ST, MIN_ST + TimeDelta{1000});
        } catch (const std::exception &) {
            escaped[run] = true;
        }
    }

    // ---- oracle
    bool overflow = false;
    for (int r = 0; r < 2; r++)
        for (int s = 0; s < NSTREAM; s++) overflow |= g_s[r][s].overflow;
    verif_assert(!overflow, "C15.log_overflow");
    verif_assert(!escaped[0], "C15.run_continues_no_exception_escapes");
    verif_assert(!escaped[1], "C15.twin_run_completes");
    verif_assert(g_s[1][ST_KERR0].n == 0 && g_s[1][ST_KERR1].n == 0, "C15.no_error_tick_without_throw");
    // the twin really beats: every key's child is evaluated NBEAT times, driven (after cycle 0) by its own timer only
    verif_assert(g_s[1][ST_BEAT0].n == NBEAT && g_s[1][ST_BEAT1].n == (g_nk == 2 ? NBEAT : 0), "C15.twin_children_beat_complete");
    verif_assert(same_stream(g_s[0][ST_IND], g_s[1][ST_IND]), "C15.independent_stream_identical_to_twin");
    verif_assert(g_s[1][ST_IND].n == 2, "C15.twin_independent_stream_complete");
    verif_assert(same_stream(g_s[0][ST_KERR0], g_s[0][ST_KTHROWN0]) & same_stream(g_s[0][ST_KERR1], g_s[0][ST_KTHROWN1]),
                 "C15.map_error_under_failing_key_only_once_per_throw");
    // the failing key's child keeps beating at its own times (and the other key's child too)
    bool same_beats = same_stream(g_s[0][ST_BEAT0], g_s[1][ST_BEAT0]) & same_stream(g_s[0][ST_BEAT1], g_s[1][ST_BEAT1]);
    verif_assert(same_beats, "C15.map_child_rearmed_wakeup_survives_captured_failure");
    bool same_kevals = same_stream(g_s[0][ST_KEVAL0], g_s[1][ST_KEVAL0]) & same_stream(g_s[0][ST_KEVAL1], g_s[1][ST_KEVAL1]);
    // (when Beat itself throws, TK depends on the failing node in that cycle: left open)
    verif_assert(same_kevals | g_beat_throws, "C15.map_children_evaluated_at_same_times_as_twin");
    verif_assert(!same_beats | (dependent_ok(g_s[0][ST_KDEP0], g_s[1][ST_KDEP0], g_s[1][ST_BEAT0], g_thrownK[0], NBEAT) &
                                dependent_ok(g_s[0][ST_KDEP1], g_s[1][ST_KDEP1], g_s[1][ST_BEAT1], g_thrownK[1], NBEAT)),
                 "C15.map_key_output_equals_twin_when_not_throwing");

    // ---- reach
    int n0 = g_s[0][ST_KTHROWN0].n, n1 = g_s[0][ST_KTHROWN1].n;
    if (n0 + n1 == 0) verif_reach("no_throw");
    if (n0 + n1 >= 1) verif_reach("key_child_throws");
    if (n0 >= 1 && n1 >= 1) verif_reach("both_keys_throw");
    if (n0 + n1 >= 1 && g_beat_throws) verif_reach("self_scheduling_node_itself_throws_after_rearming");
    // a throw of key k in evaluation j < NBEAT-1 (Beat has just re-armed t[j+1]) such that no beat of the other key lies
    // in (t[j], t[j+1]) - times taken from the twin; the keyed source never ticks again, so nothing else wakes the map.
    bool lonely = false, lonely_other_later = false, recovered = false, consecutive = false;
    for (int k = 0; k < g_nk; k++) {
        const Stream &me = g_s[1][ST_BEAT0 + k], &ot = g_s[1][ST_BEAT0 + (1 - k)];
        for (int j = 0; j + 1 < NBEAT && j + 1 < me.n; j++) {
            bool none_between = true, other_later = false;
            for (int i = 0; i < ot.n; i++) {
                none_between &= !((ot.r[i].t > me.r[j].t) & (ot.r[i].t < me.r[j + 1].t));
                other_later |= (ot.r[i].t > me.r[j + 1].t);
            }
            lonely |= g_thrownK[k][j] & none_between;
            lonely_other_later |= g_thrownK[k][j] & none_between & other_later & (g_pd[0][0] != g_pd[1][0]);
            recovered |= g_thrownK[k][j] && !g_thrownK[k][j + 1];
            consecutive |= g_thrownK[k][j] && g_thrownK[k][j + 1];
        }
    }
    if (g_nk == 1 && lonely) verif_reach("one_key_throw_with_rearmed_wakeup_and_no_other_map_wakeup_before_it");
    if (g_nk == 2 && lonely) verif_reach("two_keys_throw_with_rearmed_wakeup_and_no_other_map_wakeup_before_it");
    if (g_nk == 2 && lonely_other_later) verif_reach("two_keys_different_periods_other_key_beats_only_after_the_rearmed_time");
    if (recovered) verif_reach("key_child_normal_evaluation_after_throw");
    if (consecutive) verif_reach("throw_in_consecutive_beats");
    if (g_thrownK[0][0] || g_thrownK[1][0]) verif_reach("throw_in_first_cycle");
    verif_log("throws0", n0);
    verif_log("throws1", n1);
    verif_reach("end");
    return 0;
}

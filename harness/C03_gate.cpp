// C03: user code runs exactly when an active input ticked (or an own wake-up is due) and the
// required inputs are valid; passive ticks alone never run it; it reads the latest values.
//   One observed compute node ("gate") fed by scripted sources a, b, c (each ticks or not in
//   every cycle, decided by an enumerated bit, with a symbolic payload), followed by a sink.
//   Gate variants (enumerated):
//     0 policy   : a active+required, b InputActivity::Passive+required, c active+InputValidity::Unchecked
//                  (static_node.h invoke_gated + node.cpp activate_input_slots)
//     1 marker   : same contract, but b is declared active and made passive by the wiring-time
//                  passive(port) marker (graph_wiring Wiring::add_node -> NodeBuilder::with_passive_inputs)
//     2 allvalid : p = TSB{x<-a, y<-b} active + InputValidity::AllValid, c active+Unchecked
//     3 schema   : contract of 0 built as a native-callback node whose readiness is decided by
//                  node.cpp ready_to_evaluate from NodeTypeMetaData::valid_inputs (input_validity_in_evaluate=false)
//     4 wake     : a active+required, b passive+required, plus a NodeScheduler driven from start() and
//                  from the first NSOPS runs: schedule(d) / schedule(d,"a") / un_schedule("a"), d symbolic
//     5 nested   : variant 0 placed behind a nested-graph boundary (child graph owned by a single_nested_graph_node)
//     6 sos      : schedule_on_start node (node.cpp start_impl asks for the start cycle itself), no required input:
//                  a active, b passive, c active, all InputValidity::Unchecked
//     7 combo    : a active+required, b InputActivity::Passive+required, c Unchecked and made passive by passive(port):
//                  both passive mechanisms on one node (with_passive_inputs must start from the existing active_inputs selector)
//   symbolic : every payload, every requested wake-up delta
//   oracle   : per cycle t   ran(t) <=> (active tick at t or own wake-up due at t) and required inputs valid;
//              every value read == latest value written up to t; sink saw f(values) exactly when the gate ran.
#include "hk.h"
#include "hk_nested.h"

#ifndef NCYC
#define NCYC 3
#endif
#ifndef NSOPS
#define NSOPS 2
#endif
#ifndef DMAX
#define DMAX 2
#endif
#ifndef VARIANT_MASK
#define VARIANT_MASK 0xff
#endif
#ifndef VMAX
#define VMAX 1000
#endif

using namespace hk;

namespace {
constexpr int NT = NCYC + DMAX + 1;  // modelled cycles: source cycles plus trailing wake-up-only cycles
constexpr Int SENT = -7777777;
constexpr std::int64_t START_US = 1000;

int g_variant = 0;
bool g_tick[3][NT];
Int g_val[3][NT];

struct RunRec { DateTime t; Int a, b, c; bool cvalid; Int cnt; };
RunRec g_runs[NT + 4];
int g_nruns = 0;
bool g_runs_overflow = false;
struct SinkRec { DateTime t; Int v; };
SinkRec g_sink[NT + 4];
int g_nsink = 0;

// ---- own wake-up requests of the wake variant (mirror of what the node asked its scheduler).
// A request is "cancelled" when un_schedule(tag) removed it, or a later request under the same tag replaced
// it, at a time strictly before the requested time (cancelling the event that is firing right now is not a
// cancellation: the wake-up was due in that cycle).
constexpr int MAXREQ = 2 * (NSOPS + 1);
struct Req { DateTime when; bool tagged; bool cancelled; DateTime cancel_t; };
Req g_req[MAXREQ];
int g_nreq = 0;
int g_tag_slot = -1;  // index of the latest request registered under tag "a", or -1

void model_cancel_tag(DateTime now) {
    if (g_tag_slot >= 0 && !g_req[g_tag_slot].cancelled) {
        g_req[g_tag_slot].cancelled = true;
        g_req[g_tag_slot].cancel_t = now;
    }
    g_tag_slot = -1;
}
void model_schedule(DateTime now, DateTime when, bool tagged) {
    if (tagged) model_cancel_tag(now);  // a tagged request replaces the previous one under that tag
    g_req[g_nreq] = Req{when, tagged, false, MIN_DT};
    if (tagged) g_tag_slot = g_nreq;
    g_nreq++;
}

Int f_out(Int a, Int b, Int c, bool cvalid, Int cnt) { return a + 2 * b + (cvalid ? 4 * c : Int{0}) + 100000 * (cnt + 1); }

void record_run(DateTime now, Int a, Int b, Int c, bool cvalid, Int cnt) {
    if (g_nruns < NT + 4) g_runs[g_nruns++] = RunRec{now, a, b, c, cvalid, cnt}; else g_runs_overflow = true;
}

struct Src {
    static constexpr auto name = "src";
    static constexpr bool schedule_on_start = true;
    static void eval(NodeScheduler s, State<Int> n, Scalar<"id", Int> id, Out<TS<Int>> out) {
        int k = (int)id.value();
        Int j = n.get();
        if (j < NCYC) {
            bool tick = verif_bool("tick");
            g_tick[k][j] = tick;
            if (tick) {
                Int v = verif_range("val", -VMAX, VMAX);
                g_val[k][j] = v;
                out.set(v);
            }
        }
        if (j + 1 < NCYC) s.schedule(TimeDelta{1});
        n.set(j + 1);
    }
};

template <class A, class B, class C> void gate_body(A &a, B &b, C &c, State<Int> &n, Out<TS<Int>> &out, DateTime now) {
    Int cnt = n.get();
    Int av = a.valid() ? a.value() : SENT;
    Int bv = b.valid() ? b.value() : SENT;
    bool cvalid = c.valid();
    Int cv = cvalid ? c.value() : SENT;
    record_run(now, av, bv, cv, cvalid, cnt);
    out.set(f_out(av, bv, cv, cvalid, cnt));
    n.set(cnt + 1);
}

struct GatePolicy {
    static constexpr auto name = "gate_policy";
    static void eval(In<"a", TS<Int>> a, In<"b", TS<Int>, InputActivity::Passive> b, In<"c", TS<Int>, InputValidity::Unchecked> c,
                     State<Int> n, Out<TS<Int>> out, DateTime now) { gate_body(a, b, c, n, out, now); }
};
struct GateSos {
    static constexpr auto name = "gate_sos";
    static constexpr bool schedule_on_start = true;
    static void eval(In<"a", TS<Int>, InputValidity::Unchecked> a, In<"b", TS<Int>, InputActivity::Passive, InputValidity::Unchecked> b,
                     In<"c", TS<Int>, InputValidity::Unchecked> c,
                     State<Int> n, Out<TS<Int>> out, DateTime now) { gate_body(a, b, c, n, out, now); }
};
struct GateCombo {
    static constexpr auto name = "gate_combo";
    static void eval(In<"a", TS<Int>> a, In<"b", TS<Int>, InputActivity::Passive> b, In<"c", TS<Int>, InputValidity::Unchecked> c,
                     State<Int> n, Out<TS<Int>> out, DateTime now) { gate_body(a, b, c, n, out, now); }
};
struct GateMarker {
    static constexpr auto name = "gate_marker";
    static void eval(In<"a", TS<Int>> a, In<"b", TS<Int>> b, In<"c", TS<Int>, InputValidity::Unchecked> c,
                     State<Int> n, Out<TS<Int>> out, DateTime now) { gate_body(a, b, c, n, out, now); }
};
using GateBundle = TSB<"C03GateBundle", Field<"x", TS<Int>>, Field<"y", TS<Int>>>;
struct GateAllValid {
    static constexpr auto name = "gate_allvalid";
    static void eval(In<"p", GateBundle, InputValidity::AllValid> p, In<"c", TS<Int>, InputValidity::Unchecked> c,
                     State<Int> n, Out<TS<Int>> out, DateTime now) {
        auto x = p.field<"x">();
        auto y = p.field<"y">();
        gate_body(x, y, c, n, out, now);
    }
};
struct GateSchema {  // same contract as GatePolicy; built below with the schema-driven readiness gate
    static constexpr auto name = "gate_schema";
    static void eval(In<"a", TS<Int>> a, In<"b", TS<Int>, InputActivity::Passive> b, In<"c", TS<Int>, InputValidity::Unchecked> c,
                     State<Int> n, Out<TS<Int>> out, DateTime now) { gate_body(a, b, c, n, out, now); }
};
struct NoIn { bool valid() const { return false; } Int value() const { return 0; } };
void sched_op(const NodeScheduler &s, DateTime now, int op, const char *dname) {
    // 1 schedule(d)   2 schedule(d,"a")   3 un_schedule("a")
    // 4 schedule(d,"a") then un_schedule("a")            (request cancelled within the same evaluation)
    // 5 schedule(d,"a") then schedule(d2,"a")            (request replaced within the same evaluation)
    if (op == 1 || op == 2 || op == 4 || op == 5) {
        Int d = verif_range(dname, 1, DMAX);
        if (op == 1) s.schedule(TimeDelta{d}); else s.schedule(TimeDelta{d}, std::string{"a"});
        model_schedule(now, now + TimeDelta{d}, op != 1);
    }
    if (op == 3 || op == 4) {
        s.un_schedule(std::string{"a"});
        model_cancel_tag(now);
    }
    if (op == 5) {
        Int d2 = verif_range(dname, 1, DMAX);
        s.schedule(TimeDelta{d2}, std::string{"a"});
        model_schedule(now, now + TimeDelta{d2}, true);
    }
}
struct GateWake {
    static constexpr auto name = "gate_wake";
    static void start(NodeScheduler s) {
        static const int ops[4] = {0, 1, 2, 4};
        sched_op(s, s.now(), ops[verif_choice("sop", 4)], "sd");
    }
    static void eval(In<"a", TS<Int>> a, In<"b", TS<Int>, InputActivity::Passive> b, NodeScheduler s,
                     State<Int> n, Out<TS<Int>> out, DateTime now) {
        Int r = n.get();
        NoIn c;
        gate_body(a, b, c, n, out, now);
        if (r < NSOPS) sched_op(s, now, verif_choice("gop", 6), "gd");
    }
};
struct Sink {
    static constexpr auto name = "sink";
    static void eval(In<"x", TS<Int>> x, DateTime now) {
        if (g_nsink < NT + 4) g_sink[g_nsink++] = SinkRec{now, x.value()}; else g_runs_overflow = true;
    }
};

// Variant 3: the static node's schema and typed eval, but registered the way a native-callback node is:
// evaluate does not gate itself, so node.cpp ready_to_evaluate (valid_inputs / all_valid_inputs) decides.
NodeBuilder schema_gated_builder() {
    namespace sd = hgraph::static_node_detail;
    using X = GateSchema;
    using sig = StaticNodeSignature<X>;
    using signature_args = typename sig::canonical_args;
    auto parts = sd::static_node_builder_parts<X>();
    NodeTypeDescriptor d;
    d.schema = std::move(parts.schema);
    d.implementation_label = parts.implementation_label;
    constexpr std::size_t slot_count = sig::input_count();
    const std::array fields{prepared_routes_storage_field<slot_count>()};
    d.storage_plan = &node_storage_plan_for(d.schema, fields);
    d.callbacks = sd::static_node_callbacks<X>();
    d.callbacks.input_validity_in_evaluate = false;
    d.callbacks.evaluate = [](const NodeView &view, DateTime t) {
        sd::invoke<&X::eval, signature_args>(view, t, prepared_input_routes_for(view));
    };
    return NodeBuilder::from_descriptor(std::move(d), std::move(parts.input_endpoint));
}
Port<TS<Int>> wire_schema_gate(Wiring &w, Port<TS<Int>> a, Port<TS<Int>> b, Port<TS<Int>> c) {
    namespace gd = hgraph::graph_wiring_detail;
    const auto *ts_int = schema_descriptor<TS<Int>>::ts_meta();
    std::vector<WiringPortRef> inputs;
    inputs.push_back(gd::adapt_source_for_input(w, ts_int, a.erased()));
    inputs.push_back(gd::adapt_source_for_input(w, ts_int, b.erased()));
    inputs.push_back(gd::adapt_source_for_input(w, ts_int, c.erased()));
    NodeBuilder nb = schema_gated_builder();
    nb.input_endpoint(gd::input_endpoint_for_sources(nb.type().schema()->input_schema, std::span<const WiringPortRef>{inputs.data(), inputs.size()}));
    WiringPortRef out = w.add_node(std::type_index(typeid(GateSchema)), std::move(nb), inputs, Value{});
    return Port<TS<Int>>{w, std::move(out)};
}

template <int V> struct Top {
    static constexpr auto name = "top";
    static void compose(Wiring &w) {
        auto a = wire<Src>(w, Int{0});
        auto b = wire<Src>(w, Int{1});
        if constexpr (V == 4) {
            wire<Sink>(w, wire<GateWake>(w, a, b));
        } else {
            auto c = wire<Src>(w, Int{2});
            if constexpr (V == 0) wire<Sink>(w, wire<GatePolicy>(w, a, b, c));
            if constexpr (V == 1) wire<Sink>(w, wire<GateMarker>(w, a, passive(b), c));
            if constexpr (V == 2) wire<Sink>(w, wire<GateAllValid>(w, {a, b}, c));
            if constexpr (V == 3) wire<Sink>(w, wire_schema_gate(w, a, b, c));
            if constexpr (V == 6) wire<Sink>(w, wire<GateSos>(w, a, b, c));
            if constexpr (V == 7) wire<Sink>(w, wire<GateCombo>(w, a, b, passive(c)));
            if constexpr (V == 5) {
                auto out = nested_call(w, "c03_nested", std::type_index(typeid(Top<5>)), {a.erased(), b.erased(), c.erased()},
                                       [](Wiring &cw, std::span<const WiringPortRef> in) -> std::optional<WiringPortRef> {
                                           return wire<GatePolicy>(cw, Port<TS<Int>>{cw, in[0]}, Port<TS<Int>>{cw, in[1]}, Port<TS<Int>>{cw, in[2]}).erased();
                                       });
                wire<Sink>(w, Port<TS<Int>>{w, std::move(*out)});
            }
        }
    }
};

GraphBuilder build_variant(int v) {
    switch (v) {
        case 0: return build_graph<Top<0>>();
        case 1: return build_graph<Top<1>>();
        case 2: return build_graph<Top<2>>();
        case 3: return build_graph<Top<3>>();
        case 4: return build_graph<Top<4>>();
        case 5: return build_graph<Top<5>>();
        case 6: return build_graph<Top<6>>();
        default: return build_graph<Top<7>>();
    }
}
}  // namespace

extern "C" int harness_main() {
    int nvar = 0, vars[8];
    for (int v = 0; v < 8; v++) if (VARIANT_MASK & (1 << v)) vars[nvar++] = v;
    g_variant = vars[verif_choice("variant", nvar)];
    const int V = g_variant;
    const bool wake = V == 4;
    const int nsrc = wake ? 2 : 3;
    const DateTime start = at_us(START_US);

    run_sim(build_variant(V), start, start + TimeDelta{NT}, nullptr);

    // ---- oracle (branch-free over symbolic data: times of wake-ups, payloads)
    verif_assert(!g_runs_overflow, "C03.log_overflow");
    bool valid[3] = {false, false, false};
    Int lv[3] = {SENT, SENT, SENT};
    bool ok_if = true, ok_valid = true, ok_cause = true, ok_cancel = true, ok_passive = true, ok_once = true;
    bool ok_vals = true, ok_out = true, ok_sink_iff = true, ok_state = true;
    bool r_passive_only = false, r_active_invalid = false, r_both_active = false, r_wake_only = false, r_wake_invalid = false,
         r_cancel_due = false, r_unchecked_invalid = false, r_b_late = false, r_ran_on_wake = false, r_start_wake = false, r_combo_b = false, r_combo_c = false;
    Int cnt = 0;
    for (int j = 0; j < NT; j++) {
        DateTime t = start + TimeDelta{j};
        for (int k = 0; k < nsrc; k++)
            if (j < NCYC && g_tick[k][j]) { valid[k] = true; lv[k] = g_val[k][j]; }
        const bool req_valid_prev = valid[0] & valid[1];  // required inputs already valid before this cycle's ticks
        bool ta = j < NCYC && g_tick[0][j], tb = j < NCYC && g_tick[1][j], tc = !wake && j < NCYC && g_tick[2][j];
        bool active_tick = V == 2 ? (ta | tb | tc) : V == 7 ? ta : (ta | tc);
        bool passive_tick = V == 2 ? false : V == 7 ? (tb | tc) : tb;
        r_combo_b |= V == 7 && tb && !tc && !ta && req_valid_prev;
        r_combo_c |= V == 7 && tc && !tb && !ta && req_valid_prev;
        bool req_valid = V == 6 ? true : (valid[0] & valid[1]);
        bool wake_due = false, cancel_due = false;
        for (int r = 0; r < g_nreq; r++) {
            bool cancelled_before = g_req[r].cancelled & (g_req[r].cancel_t < g_req[r].when);
            wake_due |= !cancelled_before & (g_req[r].when == t);
            cancel_due |= cancelled_before & (g_req[r].when == t);
        }
        cancel_due &= !wake_due;
        int nran = 0;
        bool ran = false, sink_ran = false;
        for (int i = 0; i < g_nruns; i++) {
            bool here = g_runs[i].t == t;
            ran |= here;
            nran += here ? 1 : 0;
            bool vals = (!valid[0] | (g_runs[i].a == lv[0])) & (!valid[1] | (g_runs[i].b == lv[1])) &
                        (g_runs[i].cvalid == (wake ? false : valid[2])) & (!g_runs[i].cvalid | (g_runs[i].c == lv[2]));
            ok_vals &= !here | vals;
            ok_state &= !here | (g_runs[i].cnt == cnt);
            for (int s = 0; s < g_nsink; s++)
                ok_out &= !(here & (g_sink[s].t == t)) | (g_sink[s].v == f_out(g_runs[i].a, g_runs[i].b, g_runs[i].c, g_runs[i].cvalid, g_runs[i].cnt));
        }
        for (int s = 0; s < g_nsink; s++) sink_ran |= g_sink[s].t == t;
        bool start_wake = V == 6 && j == 0;  // schedule_on_start: the node asked for the start cycle
        bool cause = active_tick | wake_due | start_wake;
        r_start_wake |= start_wake & !active_tick & ran;
        ok_if &= !(cause & req_valid) | ran;
        ok_valid &= !ran | req_valid;
        ok_cause &= !ran | cause | cancel_due;
        ok_cancel &= !ran | cause | !cancel_due;
        ok_passive &= !(ran & passive_tick & !cause & !cancel_due);
        ok_once &= nran <= 1;
        ok_sink_iff &= sink_ran == ran;
        cnt += ran ? 1 : 0;
        r_passive_only |= passive_tick & !cause & req_valid;
        r_active_invalid |= active_tick & !req_valid;
        r_both_active |= ta & tc & req_valid;
        r_wake_only |= wake_due & !active_tick & req_valid;
        r_ran_on_wake |= wake_due & !active_tick & ran;
        r_wake_invalid |= wake_due & !req_valid;
        r_cancel_due |= cancel_due & !active_tick;
        r_unchecked_invalid |= !wake & ran & !valid[2];
        r_b_late |= ran & valid[1] & !tb & (j > 0);
    }
    bool ok_in_cycle = true;
    for (int i = 0; i < g_nruns; i++) {
        bool some = false;
        for (int j = 0; j < NT; j++) some |= g_runs[i].t == start + TimeDelta{j};
        ok_in_cycle &= some;
    }
    verif_assert(ok_in_cycle, "C03.ran_outside_modelled_cycles");
    verif_assert(ok_if, "C03.did_not_run_when_due_and_ready");
    verif_assert(ok_valid, "C03.ran_with_invalid_required_input");
    verif_assert(ok_cause, "C03.ran_without_cause");
    verif_assert(ok_cancel, "C03.ran_without_cause_after_cancel");
    verif_assert(ok_passive, "C03.passive_tick_alone_ran_node");
    verif_assert(ok_once, "C03.ran_twice_in_cycle");
    verif_assert(ok_vals, "C03.read_value_is_not_latest_written");
    verif_assert(ok_state, "C03.state_not_carried_between_runs");
    verif_assert(ok_out, "C03.output_is_not_function_of_inputs");
    verif_assert(ok_sink_iff, "C03.sink_ran_iff_gate_output_ticked");
    if (r_passive_only) verif_reach("passive_only_tick_while_ready");
    if (r_active_invalid) verif_reach("active_tick_while_required_invalid");
    if (r_both_active) verif_reach("two_active_inputs_tick_together");
    if (r_wake_only) verif_reach("wake_only_cycle");
    if (r_ran_on_wake) verif_reach("ran_on_own_wakeup");
    if (r_wake_invalid) verif_reach("wake_due_while_required_invalid");
    if (r_cancel_due) verif_reach("cancelled_time_reached");
    if (r_unchecked_invalid) verif_reach("ran_with_unchecked_input_invalid");
    if (r_b_late) verif_reach("ran_reading_older_passive_value");
    if (V == 1) verif_reach("variant_marker");
    if (V == 2) verif_reach("variant_allvalid");
    if (V == 3) verif_reach("variant_schema_gate");
    if (V == 4) verif_reach("variant_wake");
    if (V == 5) verif_reach("variant_nested");
    if (r_combo_b && r_combo_c) verif_reach("policy_passive_and_wired_passive_combined");
    if (r_start_wake) verif_reach("ran_on_schedule_on_start_only");
    verif_log("runs", g_nruns);
    verif_reach("end");
    return 0;
}

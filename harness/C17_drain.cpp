// C17 (drain cut): a real-time run that LAGS (its whole window lies in the past of the wall clock) must still deliver
// every scheduled wake-up at its logical time; only a run that advances by exactly MIN_TD for 1024 CONSECUTIVE cycles
// after the wall clock passed the end time may be cut short.  A source alternates one longer step (symbolic gap) with
// FOLLOW smallest-step follow-ups, GROUPS times, so that more than 1024 smallest-step cycles happen in total but never
// more than FOLLOW in a row.  Oracle: all 1 + GROUPS*(FOLLOW+1) evaluations happen, each at exactly its requested time.
#include "hk.h"

#ifndef GROUPS
#define GROUPS 350
#endif
#ifndef FOLLOW
#define FOLLOW 3
#endif

using namespace hk;

namespace {
std::int64_t g_gap;
int g_evals = 0;
bool ok_times = true;
DateTime g_expect;

struct Src {
    static constexpr auto name = "src";
    static constexpr bool schedule_on_start = true;
    static void eval(NodeScheduler s, State<Int> n, DateTime now, Out<TS<Int>> out) {
        Int k = n.get();
        ok_times &= (now == g_expect);
        g_evals++;
        out.set(k);
        n.set(k + 1);
        if (k < (Int)GROUPS * (FOLLOW + 1)) {
            // positions 0, F+1, 2(F+1), ... are followed by a long step; the others by MIN_TD
            TimeDelta d = (k % (FOLLOW + 1) == FOLLOW) ? TimeDelta{g_gap} : MIN_TD;
            s.schedule(d);
            g_expect = now + d;
        }
    }
};
struct Top { static constexpr auto name = "top"; static void compose(Wiring &w) { wire<Src>(w); } };
}  // namespace

extern "C" int harness_main() {
    // enumerated (concrete on each path): 1400 cycles of symbolic time arithmetic would make every query quadratic
    g_gap = 2 + verif_choice("gap", 4);
    std::int64_t lag_s = 30 + 30 * verif_choice("lag", 3);
    verif_clock_config(0, 0, 0);
    DateTime wall0 = DateTime{std::chrono::duration_cast<TimeDelta>(std::chrono::nanoseconds{verif_clock_ns()})};
    DateTime start = wall0 - TimeDelta{lag_s * 1000000};
    DateTime end = start + TimeDelta{1000000};  // one second of logical time, far behind the wall clock
    g_expect = start;
    GraphExecutorBuilder eb;
    eb.graph_builder(build_graph<Top>()).mode(GraphExecutorMode::RealTime).start_time(start).end_time(end);
    GraphExecutorValue ex = eb.make_executor();
    ex.view().run();
    verif_reach("run_returned");
    verif_assert(g_evals == 1 + GROUPS * (FOLLOW + 1), "C17.lagging_run_delivers_every_wakeup");
    verif_assert(ok_times, "C17.lagging_run_evaluates_at_exact_logical_times");
    if (GROUPS * FOLLOW > 1024) verif_reach("more_than_1024_smallest_steps_in_total");
    verif_log("evals", g_evals);
    verif_reach("end");
    return 0;
}

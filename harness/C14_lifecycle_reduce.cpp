// C14 (dynamic children, reduce): every started combiner graph of a reduce node is stopped exactly once, whatever fails.
//   Root graph:  keysrc(R0) -> reduce( combiner graph: one node comb(lhs, rhs) )  -> sink(R1)
//   keysrc is a scripted TSD<Int,TS<Int>> source: per cycle one enumerated key operation (nothing / add the next unused
//   key / erase the lowest live key / erase the highest live key), so the reduce node grows and shrinks its tree of
//   combiner graphs while the run goes on.  Each start of a combiner graph is one INSTANCE (numbered in creation order).
//   enumerated: key operation per cycle, fault descriptors (instance or root node, phase), cleanup_on_error
//   symbolic  : the occurrence (evaluation count) of an evaluate fault, payload values
//   oracle    : per instance: started => exactly one stop (by run() return when clean-up is on, by executor release
//               otherwise); not started => no stop; no evaluation before start / after stop; the root sink stops before,
//               the root source after, every combiner stop of the shutdown; the first exception reaches the caller with
//               its text, naming the reduce node.
#include "hk.h"

#include <hgraph/lib/std/operators/impl/higher_order_impl.h>

#include <string>

#ifndef NCYC
#define NCYC 4
#endif
#ifndef MAXINST
#define MAXINST 6        // combiner instances that may be created in one run (overflow is asserted)
#endif
#ifndef FAULTINST
#define FAULTINST 3      // faults target instances 0..FAULTINST-1 (or a root node)
#endif
#ifndef NFAULT
#define NFAULT 1
#endif

using namespace hk;
namespace ho = hgraph::stdlib::higher_order_impl_detail;

namespace {
constexpr int NROOT = 2;                   // R0 keysrc, R1 sink
constexpr int NN = MAXINST + NROOT;        // scripted node slots: instances, then roots
constexpr int R0 = MAXINST, R1 = MAXINST + 1;
constexpr int NKEYS = NCYC;
enum Phase : int { PH_START = 0, PH_EVAL = 1, PH_STOP = 2 };
const char *const PHASE_WORD[3] = {"start", "evaluate", "stop"};

struct Fault { int node; int phase; std::int64_t occ; };   // node == NN: none
Fault g_fault[NFAULT];

enum SeqKind : int { SQ_START_BEGIN = 1, SQ_START_DONE, SQ_EVAL, SQ_STOP, SQ_RUN_RETURN, SQ_RELEASED };
struct Seq { int kind; int node; bool in_root_eval; };
constexpr int SEQCAP = 16 + NN * (4 + NCYC);
Seq g_seq[SEQCAP];
int g_nseq = 0;
bool g_seq_overflow = false;
bool g_in_root_eval = false;                // set by the observer while a root node (i.e. the reduce node, for combiner events) evaluates
void seq(int kind, int node) { if (g_nseq < SEQCAP) g_seq[g_nseq++] = Seq{kind, node, g_in_root_eval}; else g_seq_overflow = true; }

std::int64_t g_count[NN][3];
int g_first_node = -1, g_first_phase = -1, g_throws = 0;
bool g_first_in_root_eval = false;
int g_next_inst = 0;
bool g_inst_overflow = false;
int g_op[NCYC];                            // 0 nothing, 1 add next unused key, 2 erase lowest live key, 3 erase highest live key
int g_key[NCYC];                           // the key the operation acts on (concrete)
std::int64_t g_val[NCYC];
std::int64_t g_stops_at_return[NN];

void hook(int id, int phase) {
    std::int64_t k = g_count[id][phase]++;
    seq(phase == PH_START ? SQ_START_BEGIN : phase == PH_EVAL ? SQ_EVAL : SQ_STOP, id);
    for (int f = 0; f < NFAULT; f++) {
        if (g_fault[f].node == id && g_fault[f].phase == phase && g_fault[f].occ == k) {
            if (g_throws++ == 0) { g_first_node = id; g_first_phase = phase; g_first_in_root_eval = g_in_root_eval; }
            throw std::runtime_error(std::string("boom_") + char('a' + id) + "_" + PHASE_WORD[phase]);
        }
    }
    if (phase == PH_START) seq(SQ_START_DONE, id);
}

struct KeySrc {
    static constexpr auto name = "keysrc";
    static constexpr bool schedule_on_start = true;
    static void start() { hook(R0, PH_START); }
    static void stop() { hook(R0, PH_STOP); }
    static void eval(NodeScheduler s, State<Int> n, Out<TSD<Int, TS<Int>>> out) {
        Int c = n.get();
        n.set(c + 1);
        if (c + 1 < NCYC) s.schedule(MIN_TD);
        hook(R0, PH_EVAL);
        int op = g_op[c];
        if (op == 1) out[Int{g_key[c]}].set(g_val[c]);
        if (op == 2 || op == 3) out.erase(Int{g_key[c]});
    }
};
// The combiner node.  The instance number is taken at its start and kept in its State.
struct Comb {
    static constexpr auto name = "comb";
    static void start(State<Int> inst) {
        int i = g_next_inst < MAXINST ? g_next_inst : MAXINST - 1;
        if (g_next_inst >= MAXINST) g_inst_overflow = true;
        g_next_inst++;
        inst.set(Int{i});
        hook(i, PH_START);
    }
    static void stop(State<Int> inst) { hook((int)inst.get(), PH_STOP); }
    static void eval(In<"lhs", TS<Int>> lhs, In<"rhs", TS<Int>> rhs, Out<TS<Int>> out, State<Int> inst) {
        hook((int)inst.get(), PH_EVAL);
        out.set(lhs.value() + rhs.value());
    }
};
struct Sink {
    static constexpr auto name = "sink";
    static void start() { hook(R1, PH_START); }
    static void stop() { hook(R1, PH_STOP); }
    static void eval(In<"a", TS<Int>> a, State<Int> acc) {
        hook(R1, PH_EVAL);
        acc.set(acc.get() + 1);
    }
};

struct CombFn {   // WiredFn for the combiner graph  (lhs, rhs) -> comb
    static CompiledSubGraph compile(const void *, Wiring *parent, std::span<const TSValueTypeMetaData *const> s) {
        Wiring cw = parent ? parent->child_wiring() : Wiring{WiringKind::SubGraph};
        Port<TS<Int>> x{cw, WiringPortRef::boundary_source(0, {}, s[0])};
        Port<TS<Int>> y{cw, WiringPortRef::boundary_source(1, {}, s[1])};
        auto out = wire<Comb>(cw, x, y);
        return std::move(cw).finish_subgraph(out.erased(), {s[0], s[1]});
    }
    static WiringPortRef wire_(const void *, Wiring &w, std::span<const WiringPortRef> a) {
        return wire<Comb>(w, Port<TS<Int>>{w, a[0]}, Port<TS<Int>>{w, a[1]}).erased();
    }
    static const TSValueTypeMetaData *out(const void *) { return schema_descriptor<TS<Int>>::ts_meta(); }
    static WiredFn make() {
        static WiredFnOps ops{.wire = &wire_, .compile = &compile, .output_schema = &out};
        WiredFn f; f.ops = &ops; f.arity = 2; f.has_output = true; f.identity = &typeid(CombFn);
        return f;
    }
};

struct Top {
    static constexpr auto name = "top";
    static void compose(Wiring &w) {
        auto d = wire<KeySrc>(w);
        WiringPortRef r = ho::wire_reduce_tsd(w, Scalar<"func", WiredFn>{CombFn::make()}, d.erased(), std::nullopt);
        wire<Sink>(w, Port<TS<Int>>{w, r});
    }
};

constexpr int LOGCAP = 64 + 32 * NCYC;
EventLog<LOGCAP> g_log;
struct Obs : RecordingObserver<LOGCAP> {
    using RecordingObserver<LOGCAP>::RecordingObserver;
    void on_before_node_evaluation(const NodeView &n) override {
        RecordingObserver<LOGCAP>::on_before_node_evaluation(n);
        if (n.graph().is_root()) g_in_root_eval = true;
    }
    void on_after_node_evaluation(const NodeView &n) override {
        RecordingObserver<LOGCAP>::on_after_node_evaluation(n);
        if (n.graph().is_root()) g_in_root_eval = false;
    }
};
}  // namespace

extern "C" int harness_main() {
    auto &reg = TypeRegistry::instance();
    reg.register_scalar<WiredFn>("fn");
    reg.register_scalar<stdlib::SwitchCases>("switch_cases");
    GraphBuilder gb = build_graph<Top>();

    // ---- key script: add the next unused key / erase the lowest or highest live key (only effective operations)
    bool live[NKEYS] = {};
    int next_key = 0, nlive = 0;
    for (int c = 0; c < NCYC; c++) {
        int op = c == 0 ? 1 : verif_choice("op", 4);
        int key = 0;
        if (op == 1) { key = next_key++; live[key] = true; nlive++; }
        if (op == 2 || op == 3) {
            verif_assume(nlive > 0);
            if (op == 3 && nlive == 1) verif_assume(false);            // same as op 2
            key = -1;
            for (int k = 0; k < NKEYS; k++) if (live[k] && (op == 3 || key < 0)) key = k;
            live[key] = false; nlive--;
        }
        g_op[c] = op;
        g_key[c] = key;
        g_val[c] = verif_range("val", 0, 1000);
    }
    // ---- faults: an early combiner instance or a root node
    for (int f = 0; f < NFAULT; f++) {
        int sel = verif_choice("fault_node", FAULTINST + NROOT + 1);       // last: none
        int node = sel < FAULTINST ? sel : sel - FAULTINST + R0;           // roots, then NN (= R1 + 1) for none
        int phase = node == NN ? 0 : verif_choice("fault_phase", 3);
        std::int64_t occ = 0;
        if (node != NN && phase == PH_EVAL) occ = verif_range("fault_occ", 0, NCYC - 1);
        g_fault[f] = Fault{node, phase, occ};
        if (f > 0) verif_assume(g_fault[f - 1].node * 3 + g_fault[f - 1].phase <= node * 3 + phase);
    }
    bool cleanup = verif_bool("cleanup_on_error");

    Obs obs{&g_log};
    bool threw = false;
    std::string msg;
    {
        GraphExecutorBuilder eb;
        eb.graph_builder(std::move(gb)).start_time(MIN_ST).end_time(MIN_ST + TimeDelta{1000}).cleanup_on_error(cleanup);
        eb.add_lifecycle_observer(&obs);
        GraphExecutorValue ex = eb.make_executor();
        try {
            ex.view().run();
        } catch (const std::exception &e) {
            threw = true;
            msg = e.what();
        }
        seq(SQ_RUN_RETURN, -1);
        for (int i = 0; i < NN; i++) g_stops_at_return[i] = g_count[i][PH_STOP];
    }   // executor released here
    seq(SQ_RELEASED, -1);

    // ---- oracle
    verif_assert(!g_seq_overflow && !g_log.overflow && !g_inst_overflow, "C14.log_overflow");
    bool ok_eval_window = true, ok_root_order = true;
    bool started[NN] = {}, stopped[NN] = {};
    bool sink_stopped = false, src_stopped = false;
    for (int i = 0; i < g_nseq; i++) {
        int k = g_seq[i].kind, n = g_seq[i].node;
        if (k == SQ_START_BEGIN && n < R0) ok_root_order &= g_seq[i].in_root_eval;                     // children are created by the evaluating reduce node
        if (k == SQ_START_DONE) started[n] = true;
        if (k == SQ_EVAL) ok_eval_window &= started[n] && !stopped[n];
        if (k == SQ_STOP) {
            // a combiner stop outside the reduce node's own evaluation (tree shrink, failed combiner start) belongs to the
            // shutdown: after the sink (started last), before the source (started first)
            if (n < R0 && !g_seq[i].in_root_eval) ok_root_order &= !src_stopped && (sink_stopped || !started[R1]);
            if (n == R0) ok_root_order &= sink_stopped || !started[R1];
            if (n == R1) sink_stopped = true;
            if (n == R0) src_stopped = true;
            stopped[n] = true;
        }
    }
    bool ok_once_final = true, ok_once_return = true, ok_not_started_not_stopped = true;
    for (int i = 0; i < NN; i++) {
        std::int64_t want = started[i] ? 1 : 0;
        ok_once_final &= (g_count[i][PH_STOP] == want);
        if (cleanup) ok_once_return &= (g_stops_at_return[i] == want);
        ok_not_started_not_stopped &= started[i] || g_count[i][PH_STOP] == 0;
        verif_assert(g_count[i][PH_START] <= 1, "C14.started_at_most_once");
    }
    verif_assert(ok_eval_window, "C14.no_eval_before_start_or_after_stop");
    verif_assert(ok_not_started_not_stopped, "C14.failed_start_not_stopped");
    verif_assert(ok_once_final, "C14.every_started_node_stopped_exactly_once");
    // A child whose stop throws while the reduce node itself is being stopped (graph shutdown, other combiners possibly still
    // alive) is reported under its own id; the checks are the same (order of the shutdown, deadline of the stops).
    if (g_first_phase == PH_STOP && g_first_node < R0 && !g_first_in_root_eval) {
        verif_assert(ok_root_order && ok_once_return, "C14.reduce_stop_stops_remaining_combiners_after_failing_combiner_stop");
    } else {
        verif_assert(ok_root_order, "C14.shutdown_stops_sink_then_children_then_source");
        verif_assert(ok_once_return, "C14.stopped_by_run_return_when_cleanup_on");
    }

    // A combiner retired while the reduce node evaluates (tree shrink / re-shape) is stopped through a noexcept helper;
    // whether its stop error (when it is the first error of the run) reaches the caller is asserted under its own id.
    bool first_is_retired_stop = g_first_phase == PH_STOP && g_first_node < R0 && g_first_in_root_eval;
    bool ok_reaches = threw == (g_throws > 0), ok_first = true, ok_names = true;
    if (threw && g_throws > 0) {
        std::string want = std::string("boom_") + char('a' + g_first_node) + "_" + PHASE_WORD[g_first_phase];
        ok_first = msg.find(want) != std::string::npos;
        const char *label = g_first_node == R0 ? "keysrc" : g_first_node == R1 ? "sink" : "reduce";
        ok_names = msg.find(label) != std::string::npos;
    }
    if (first_is_retired_stop) {
        verif_assert(ok_reaches && ok_first && ok_names, "C14.reduce_retired_combiner_stop_error_reaches_caller");
    } else {
        verif_assert(ok_reaches, "C14.error_reaches_caller_iff_thrown");
        verif_assert(ok_first, "C14.caller_gets_first_error");
        verif_assert(ok_names, "C14.error_names_failing_node");
    }

    int removed_in_run = 0, live_at_shutdown = 0;
    {
        bool shutdown = false;
        for (int i = 0; i < g_nseq; i++) {
            if (g_seq[i].kind == SQ_STOP && g_seq[i].node == R1) shutdown = true;
            if (g_seq[i].kind == SQ_STOP && g_seq[i].node < R0) { if (shutdown) live_at_shutdown++; else removed_in_run++; }
        }
    }
    if (g_throws == 0) verif_reach("clean_run");
    if (g_throws == 0 && removed_in_run > 0) verif_reach("combiner_retired_during_run");
    if (g_throws == 0 && g_next_inst >= 3) verif_reach("three_instances");
    if (g_throws == 0 && live_at_shutdown >= 2) verif_reach("two_combiners_live_at_shutdown");
    if (g_first_phase == PH_START && g_first_node < R0) verif_reach("child_start_fault");
    if (g_first_phase == PH_EVAL && g_first_node < R0) verif_reach("child_eval_fault");
    if (g_first_phase == PH_STOP && g_first_node < R0) verif_reach("child_stop_fault");
    if (g_first_phase == PH_STOP && g_first_node < R0 && g_first_in_root_eval) verif_reach("child_stop_fault_at_key_removal");
    if (g_first_phase == PH_STOP && g_first_node < R0 && !g_first_in_root_eval) verif_reach("child_stop_fault_at_shutdown");
    if (g_first_node >= R0 && g_first_node < NN) verif_reach("root_fault_with_live_children");
    verif_log("throws", g_throws);
    verif_log("instances", g_next_inst);
    verif_reach("end");
    return 0;
}

// C03 for node types WITHOUT any active input: every input is passive, so the node type's active-input
// selector is present but EMPTY (static API: every In<> carries InputActivity::Passive; native API:
// NodeTypeMetaData::active_inputs = {}), and the node is driven only by wake-ups it asks for itself
// (start() + NodeScheduler period, SingleShotScheduler, schedule_on_start) - a timer-driven sampler / poller
// (the shape of stdlib resample_impl).
//   Scripted sources a, b tick or not in each of NCYC consecutive cycles (bits enumerated, payloads symbolic);
//   the sampler asks for its first wake-up d0 after start and then, from every run, for the next one p later
//   (d0, p symbolic), so its wake-ups fall between, on and after the ticks of its passive inputs.
//   Sampler variants (enumerated):
//     0 ab        : a Passive+required, b Passive+Unchecked, NodeScheduler from start() and eval()
//     1 sos       : a, b Passive+Unchecked, schedule_on_start (node.cpp start_impl) + NodeScheduler period
//     2 single    : as 0 but the stateless SingleShotScheduler injectable in start() and eval()
//     3 never     : a, b Passive, no scheduler, no schedule_on_start: can never run
//     4 tsb       : ONE non-peered TSB input {x<-a, y<-b} Passive + AllValid (structural input, children passive)
//     5 tsl       : ONE non-peered TSL<TS,2> input {a, b} Passive + Unchecked
//     6 native    : native-callback node (NodeBuilder::native), active_inputs = {} explicitly, valid_inputs = {a};
//                   readiness decided by node.cpp ready_to_evaluate
//     7 nested    : variant 0 inside a nested child graph (the boundary node itself wakes on a/b, the sampler must not)
//     8 peered    : ONE peered TSB input (a single producer with a TSB output) Passive, default validity
//     9 one       : a single Passive+Unchecked input (resample_impl's signature)
//    10 sos_only  : a, b Passive+Unchecked, schedule_on_start and nothing else: runs in the start cycle only
//    11 mixed_tsb : p = non-peered TSB {x<-a, y<-b} Passive+Unchecked next to ONE active input c (control: the
//                   selector is {1}, the structural passive slot 0 must stay silent, c's ticks must run the node)
//    12 dynamic   : a, b declared Passive+Unchecked; user code switches the activity of a at run time (the stdlib
//                   make_active()/make_passive() idiom, stream_impl.h): a.make_active() in run ACT, a.make_passive()
//                   in run DEACT (enumerated), first wake-up d0 in [0,DYN_DMAX] - the deactivate path reachable inside a run (restart of a stopped
//                   node is out of contract: docs architecture.rst "Restart is not supported by design")
//    13 dyn_child : the same on child x of a non-peered TSB input declared Passive
//   oracle (per modelled cycle t, branch-free):
//     ran(t) <=> (own wake-up due at t [or an input that is active at t ticked at t, variants 11-13]) and required inputs valid;
//     passive ticks alone / together never run it; each run read the latest values; sink saw f(values, state).
#include "hk.h"
#include "hk_nested.h"

#ifndef NCYC
#define NCYC 3
#endif
#ifndef TRAIL
#define TRAIL 3
#endif
#ifndef DMAX
#define DMAX 3
#endif
#ifndef PMAX
#define PMAX 3
#endif
#ifndef DYN_DMAX
#define DYN_DMAX 2
#endif
#ifndef VARIANT_MASK
#define VARIANT_MASK 0x3fff
#endif
#ifndef VMAX
#define VMAX 1000
#endif

using namespace hk;

namespace {
constexpr int NVAR = 14;
constexpr int NT = NCYC + TRAIL;  // modelled cycles: source cycles plus trailing wake-up-only cycles
constexpr Int SENT = -7777777;
constexpr std::int64_t START_US = 1000;

int g_variant = 0;
bool g_tick[3][NT];
Int g_val[3][NT];
Int g_d0 = 1, g_p = 1;  // first wake-up delta after start, period (symbolic)

struct RunRec { DateTime t; Int a, b; bool avalid, bvalid; Int cnt; int act; };  // act: activity of a as commanded by this run (1 active, 0 passive, -1 untouched)
RunRec g_runs[NT + 4];
int g_nruns = 0;
bool g_overflow = false;
struct SinkRec { DateTime t; Int v; };
SinkRec g_sink[NT + 4];
int g_nsink = 0;
struct Req { DateTime issued, when; bool in_start; };  // in_start: asked for in start() (may name the start cycle itself)
Req g_req[NT + 4];
int g_nreq = 0;
bool g_stopped = false;
bool g_run_after_stop = false;

void note_req(DateTime issued, DateTime when, bool in_start = false) {
    if (g_nreq < NT + 4) g_req[g_nreq++] = Req{issued, when, in_start}; else g_overflow = true;
}

Int f_out(Int a, Int b, bool avalid, bool bvalid, Int cnt) { return (avalid ? a : Int{0}) + (bvalid ? 2 * b : Int{0}) + 100000 * (cnt + 1); }

void record_run(DateTime now, Int a, bool avalid, Int b, bool bvalid, Int cnt) {
    if (g_stopped) g_run_after_stop = true;
    if (g_nruns < NT + 4) g_runs[g_nruns++] = RunRec{now, a, b, avalid, bvalid, cnt, -1}; else g_overflow = true;
}

// one emission decision of source k in cycle j
template <class F> void src_emit(int k, Int j, F &&set) {
    if (j < NCYC) {
        bool tick = verif_bool("tick");
        g_tick[k][j] = tick;
        if (tick) {
            Int v = verif_range("val", -VMAX, VMAX);
            g_val[k][j] = v;
            set(v);
        }
    }
}
struct Src {
    static constexpr auto name = "src";
    static constexpr bool schedule_on_start = true;
    static void eval(NodeScheduler s, State<Int> n, Scalar<"id", Int> id, Out<TS<Int>> out) {
        Int j = n.get();
        src_emit((int)id.value(), j, [&](Int v) { out.set(v); });
        if (j + 1 < NCYC) s.schedule(TimeDelta{1});
        n.set(j + 1);
    }
};
using PairBundle = TSB<"C03SamplerPair", Field<"x", TS<Int>>, Field<"y", TS<Int>>>;
struct SrcPair {  // ONE producer with a TSB output: its consumers bind peered
    static constexpr auto name = "src_pair";
    static constexpr bool schedule_on_start = true;
    static void eval(NodeScheduler s, State<Int> n, Out<PairBundle> out) {
        Int j = n.get();
        src_emit(0, j, [&](Int v) { out.field<"x">().set(v); });
        src_emit(1, j, [&](Int v) { out.field<"y">().set(v); });
        if (j + 1 < NCYC) s.schedule(TimeDelta{1});
        n.set(j + 1);
    }
};

struct NoIn { bool valid() const { return false; } Int value() const { return 0; } };
template <class A, class B> void sample_body(A &&a, B &&b, State<Int> &n, Out<TS<Int>> &out, DateTime now) {
    Int cnt = n.get();
    bool avalid = a.valid(), bvalid = b.valid();
    Int av = avalid ? Int{a.value()} : SENT;
    Int bv = bvalid ? Int{b.value()} : SENT;
    record_run(now, av, avalid, bv, bvalid, cnt);
    out.set(f_out(av, bv, avalid, bvalid, cnt));
    n.set(cnt + 1);
}
template <class S> void first_wake(const S &s) {
    s.schedule(TimeDelta{g_d0});
    note_req(s.now(), s.now() + TimeDelta{g_d0}, true);
}
template <class S> void next_wake(const S &s, DateTime now) {
    s.schedule(TimeDelta{g_p});
    note_req(now, now + TimeDelta{g_p});
}

constexpr auto P = InputActivity::Passive;
constexpr auto U = InputValidity::Unchecked;

struct PollAB {
    static constexpr auto name = "poll_ab";
    static void start(NodeScheduler s) { first_wake(s); }
    static void stop() { g_stopped = true; }
    static void eval(In<"a", TS<Int>, P> a, In<"b", TS<Int>, P, U> b, NodeScheduler s, State<Int> n, Out<TS<Int>> out, DateTime now) {
        sample_body(a, b, n, out, now);
        next_wake(s, now);
    }
};
struct PollSos {
    static constexpr auto name = "poll_sos";
    static constexpr bool schedule_on_start = true;
    static void eval(In<"a", TS<Int>, P, U> a, In<"b", TS<Int>, P, U> b, NodeScheduler s, State<Int> n, Out<TS<Int>> out, DateTime now) {
        sample_body(a, b, n, out, now);
        next_wake(s, now);
    }
};
struct PollSingle {
    static constexpr auto name = "poll_single";
    static void start(SingleShotScheduler s) { first_wake(s); }
    static void eval(In<"a", TS<Int>, P> a, In<"b", TS<Int>, P, U> b, SingleShotScheduler s, State<Int> n, Out<TS<Int>> out, DateTime now) {
        sample_body(a, b, n, out, now);
        next_wake(s, now);
    }
};
struct PollNever {
    static constexpr auto name = "poll_never";
    static void eval(In<"a", TS<Int>, P> a, In<"b", TS<Int>, P, U> b, State<Int> n, Out<TS<Int>> out, DateTime now) { sample_body(a, b, n, out, now); }
};
struct PollTsb {
    static constexpr auto name = "poll_tsb";
    static void start(NodeScheduler s) { first_wake(s); }
    static void eval(In<"p", PairBundle, P, InputValidity::AllValid> p, NodeScheduler s, State<Int> n, Out<TS<Int>> out, DateTime now) {
        sample_body(p.field<"x">(), p.field<"y">(), n, out, now);
        next_wake(s, now);
    }
};
struct PollTsl {
    static constexpr auto name = "poll_tsl";
    static void start(NodeScheduler s) { first_wake(s); }
    static void eval(In<"l", TSL<TS<Int>, 2>, P, U> l, NodeScheduler s, State<Int> n, Out<TS<Int>> out, DateTime now) {
        sample_body(l[0], l[1], n, out, now);
        next_wake(s, now);
    }
};
struct PollPeered {
    static constexpr auto name = "poll_peered";
    static void start(NodeScheduler s) { first_wake(s); }
    static void eval(In<"p", PairBundle, P> p, NodeScheduler s, State<Int> n, Out<TS<Int>> out, DateTime now) {
        sample_body(p.field<"x">(), p.field<"y">(), n, out, now);
        next_wake(s, now);
    }
};
struct PollOne {
    static constexpr auto name = "poll_one";
    static void start(NodeScheduler s) { first_wake(s); }
    static void eval(In<"a", TS<Int>, P, U> a, NodeScheduler s, State<Int> n, Out<TS<Int>> out, DateTime now) {
        sample_body(a, NoIn{}, n, out, now);
        next_wake(s, now);
    }
};
struct PollSosOnly {
    static constexpr auto name = "poll_sos_only";
    static constexpr bool schedule_on_start = true;
    static void eval(In<"a", TS<Int>, P, U> a, In<"b", TS<Int>, P, U> b, State<Int> n, Out<TS<Int>> out, DateTime now) { sample_body(a, b, n, out, now); }
};
struct MixedTsb {
    static constexpr auto name = "mixed_tsb";
    static void eval(In<"p", PairBundle, P, U> p, In<"c", TS<Int>> c, State<Int> n, Out<TS<Int>> out, DateTime now) {
        (void)c;
        sample_body(p.field<"x">(), p.field<"y">(), n, out, now);
    }
};
int g_act_run = -1, g_deact_run = -1;  // run index in which user code calls make_active() / make_passive() on a
template <class A> void dyn_ops(A &&a, Int r) {
    int act = -1;
    if (r == g_act_run) { a.make_active(); act = 1; }
    if (r == g_deact_run) { a.make_passive(); act = 0; }
    if (g_nruns > 0 && g_nruns <= NT + 4) g_runs[g_nruns - 1].act = act;
}
struct PollDyn {
    static constexpr auto name = "poll_dyn";
    static void start(NodeScheduler s) { first_wake(s); }
    static void eval(In<"a", TS<Int>, P, U> a, In<"b", TS<Int>, P, U> b, NodeScheduler s, State<Int> n, Out<TS<Int>> out, DateTime now) {
        Int r = n.get();
        sample_body(a, b, n, out, now);
        dyn_ops(a, r);
        next_wake(s, now);
    }
};
struct PollDynChild {
    static constexpr auto name = "poll_dyn_child";
    static void start(NodeScheduler s) { first_wake(s); }
    static void eval(In<"p", PairBundle, P, U> p, NodeScheduler s, State<Int> n, Out<TS<Int>> out, DateTime now) {
        Int r = n.get();
        sample_body(p.field<"x">(), p.field<"y">(), n, out, now);
        dyn_ops(p.field<"x">(), r);
        next_wake(s, now);
    }
};
struct Sink {
    static constexpr auto name = "sink";
    static void eval(In<"x", TS<Int>> x, DateTime now) {
        if (g_nsink < NT + 4) g_sink[g_nsink++] = SinkRec{now, x.value()}; else g_overflow = true;
    }
};

// Variant 6: a native-callback node with an explicitly EMPTY active-input selector.
struct native_poll_tag {};
Int g_native_runs = 0;
NodeScheduler scheduler_of(const NodeView &view, DateTime t) {
    return NodeScheduler{view.scheduler_state(), view.graph_value(), view.node_index(), t, view.started()};
}
NodeBuilder native_poll_builder() {
    const auto *ts_int = schema_descriptor<TS<Int>>::ts_meta();
    NodeTypeMetaData schema;
    schema.display_name = "native_poll";
    schema.input_schema = TypeRegistry::instance().un_named_tsb({{"a", ts_int}, {"b", ts_int}});
    schema.output_schema = ts_int;
    schema.node_kind = NodeKind::Compute;
    schema.uses_scheduler = true;
    schema.active_inputs = std::vector<std::size_t>{};  // present, empty
    schema.valid_inputs = std::vector<std::size_t>{0};
    NodeCallbacks cb;
    cb.start = [](const NodeView &view, DateTime t) { first_wake(scheduler_of(view, t)); };
    cb.evaluate = [](const NodeView &view, DateTime t) {
        auto root = view.input(t);
        auto bundle = root.as_bundle();
        auto a = bundle[0];
        auto b = bundle[1];
        bool avalid = a.valid(), bvalid = b.valid();
        Int av = avalid ? a.value().checked_as<Int>() : SENT;
        Int bv = bvalid ? b.value().checked_as<Int>() : SENT;
        Int cnt = g_native_runs++;
        record_run(t, av, avalid, bv, bvalid, cnt);
        auto mutation = view.output(t).begin_mutation(t);
        (void)mutation.move_value_from(Value{Int{f_out(av, bv, avalid, bvalid, cnt)}});
        next_wake(scheduler_of(view, t), t);
    };
    cb.stop = [](const NodeView &, DateTime) { g_stopped = true; };
    return NodeBuilder::native(std::move(schema), std::move(cb));
}
Port<TS<Int>> wire_native_poll(Wiring &w, Port<TS<Int>> a, Port<TS<Int>> b) {
    namespace gd = hgraph::graph_wiring_detail;
    const auto *ts_int = schema_descriptor<TS<Int>>::ts_meta();
    std::vector<WiringPortRef> inputs;
    inputs.push_back(gd::adapt_source_for_input(w, ts_int, a.erased()));
    inputs.push_back(gd::adapt_source_for_input(w, ts_int, b.erased()));
    NodeBuilder nb = native_poll_builder();
    nb.input_endpoint(gd::input_endpoint_for_sources(nb.type().schema()->input_schema, std::span<const WiringPortRef>{inputs.data(), inputs.size()}));
    WiringPortRef out = w.add_node(std::type_index(typeid(native_poll_tag)), std::move(nb), inputs, Value{});
    return Port<TS<Int>>{w, std::move(out)};
}

template <int V> struct Top {
    static constexpr auto name = "top";
    static void compose(Wiring &w) {
        if constexpr (V == 8) {
            auto ab = wire<SrcPair>(w);
            wire<Sink>(w, wire<PollPeered>(w, ab));
        } else if constexpr (V == 9) {
            auto a = wire<Src>(w, Int{0});
            wire<Sink>(w, wire<PollOne>(w, a));
        } else {
            auto a = wire<Src>(w, Int{0});
            auto b = wire<Src>(w, Int{1});
            if constexpr (V == 0) wire<Sink>(w, wire<PollAB>(w, a, b));
            if constexpr (V == 1) wire<Sink>(w, wire<PollSos>(w, a, b));
            if constexpr (V == 2) wire<Sink>(w, wire<PollSingle>(w, a, b));
            if constexpr (V == 3) wire<Sink>(w, wire<PollNever>(w, a, b));
            if constexpr (V == 4) wire<Sink>(w, wire<PollTsb>(w, {a, b}));
            if constexpr (V == 5) wire<Sink>(w, wire<PollTsl>(w, {a, b}));
            if constexpr (V == 6) wire<Sink>(w, wire_native_poll(w, a, b));
            if constexpr (V == 7) {
                auto out = nested_call(w, "c03_sampler_nested", std::type_index(typeid(Top<7>)), {a.erased(), b.erased()},
                                       [](Wiring &cw, std::span<const WiringPortRef> in) -> std::optional<WiringPortRef> {
                                           return wire<PollAB>(cw, Port<TS<Int>>{cw, in[0]}, Port<TS<Int>>{cw, in[1]}).erased();
                                       });
                wire<Sink>(w, Port<TS<Int>>{w, std::move(*out)});
            }
            if constexpr (V == 10) wire<Sink>(w, wire<PollSosOnly>(w, a, b));
            if constexpr (V == 12) wire<Sink>(w, wire<PollDyn>(w, a, b));
            if constexpr (V == 13) wire<Sink>(w, wire<PollDynChild>(w, {a, b}));
            if constexpr (V == 11) {
                auto c = wire<Src>(w, Int{2});
                wire<Sink>(w, wire<MixedTsb>(w, {a, b}, c));
            }
        }
    }
};

template <int V> GraphBuilder build_one(int v) {
    if constexpr (V + 1 < NVAR) { if (v != V) return build_one<V + 1>(v); }
    return build_graph<Top<V>>();
}
}  // namespace

extern "C" int harness_main() {
    int nvar = 0, vars[NVAR];
    for (int v = 0; v < NVAR; v++) if (VARIANT_MASK & (1 << v)) vars[nvar++] = v;
    g_variant = vars[verif_choice("variant", nvar)];
    const int V = g_variant;
    const DateTime start = at_us(START_US);
    const bool has_b = V != 9, has_c = V == 11;
    const bool dyn = V == 12 || V == 13;
    const bool uses_d0 = V == 0 || V == 2 || V == 4 || V == 5 || V == 6 || V == 7 || V == 8 || V == 9 || dyn;
    const bool uses_p = uses_d0 || V == 1;
    const bool sos = V == 1 || V == 10;

    GraphBuilder gb = build_one<0>(V);
    if (dyn) {
        static const int acts[4][2] = {{0, -1}, {0, 1}, {0, 2}, {1, 2}};
        int c = verif_choice("dyn", 4);
        g_act_run = acts[c][0];
        g_deact_run = acts[c][1];
    }
    if (uses_d0) g_d0 = verif_range("d0", dyn ? 0 : 1, dyn ? DYN_DMAX : DMAX);  // dyn: 0 = first wake-up in the start cycle itself
    if (uses_p) g_p = verif_range("p", dyn ? 2 : 1, PMAX);
    run_sim(std::move(gb), start, start + TimeDelta{NT}, nullptr);

    // ---- oracle (branch-free over symbolic data: wake-up times, payloads)
    verif_assert(!g_overflow, "C03.sampler_log_overflow");
    bool valid[3] = {false, false, false};
    Int lv[3] = {SENT, SENT, SENT};
    bool ok_if = true, ok_valid = true, ok_cause = true, ok_passive = true, ok_once = true, ok_vals = true, ok_out = true, ok_sink_iff = true, ok_state = true;
    bool r_passive_alone = false, r_both_passive = false, r_wake_no_tick = false, r_wake_with_tick = false, r_wake_invalid = false, r_older = false,
         r_after_sources = false, r_tick_between = false, r_start_only = false, r_active_c = false, r_struct_passive = false;
    Int cnt = 0;
    bool ran_before = false, passive_since_run = false;
    bool a_active = false, was_deactivated = false;  // variants 12/13: activity of a as commanded by the runs so far
    bool r_dyn_tick_ran = false, r_dyn_after_deact = false, r_dyn_b_alone = false, r_dyn_act_cycle_tick = false;
    for (int j = 0; j < NT; j++) {
        DateTime t = start + TimeDelta{j};
        bool ta = j < NCYC && g_tick[0][j], tb = has_b && j < NCYC && g_tick[1][j], tc = has_c && j < NCYC && g_tick[2][j];
        if (ta) { valid[0] = true; lv[0] = g_val[0][j]; }
        if (tb) { valid[1] = true; lv[1] = g_val[1][j]; }
        bool req_valid = true;
        if (V == 0 || V == 2 || V == 3 || V == 6 || V == 7) req_valid = valid[0];
        if (V == 4) req_valid = valid[0] & valid[1];
        if (V == 8) req_valid = valid[0] | valid[1];  // a TSB holds a value as soon as one of its fields does
        if (V == 11) { if (tc) valid[2] = true; req_valid = valid[2]; }
        bool wake_due = sos && j == 0;
        for (int r = 0; r < g_nreq; r++) wake_due |= (g_req[r].when == t) & ((g_req[r].issued < t) | g_req[r].in_start);
        bool cause = wake_due | tc | (a_active & ta);
        bool passive_tick = (ta & !a_active) | tb;
        int nran = 0;
        bool ran = false, sink_ran = false;
        bool a_active_next = a_active;
        const bool deact_before = was_deactivated;
        for (int i = 0; i < g_nruns; i++) {
            bool here = g_runs[i].t == t;
            ran |= here;
            nran += here ? 1 : 0;
            bool vals = (g_runs[i].avalid == valid[0]) & (!valid[0] | (g_runs[i].a == lv[0])) &
                        (g_runs[i].bvalid == (has_b && valid[1])) & (!(has_b && valid[1]) | (g_runs[i].b == lv[1]));
            ok_vals &= !here | vals;
            ok_state &= !here | (g_runs[i].cnt == cnt);
            r_dyn_act_cycle_tick |= here & (g_runs[i].act == 1) & ta;
            bool act_next = (g_runs[i].act == 1) | ((g_runs[i].act == -1) & a_active);
            was_deactivated |= here & (g_runs[i].act == 0);
            a_active_next = (here & act_next) | (!here & a_active_next);
            for (int s = 0; s < g_nsink; s++)
                ok_out &= !(here & (g_sink[s].t == t)) | (g_sink[s].v == f_out(g_runs[i].a, g_runs[i].b, g_runs[i].avalid, g_runs[i].bvalid, g_runs[i].cnt));
        }
        for (int s = 0; s < g_nsink; s++) sink_ran |= g_sink[s].t == t;
        ok_if &= !(cause & req_valid) | ran;
        ok_valid &= !ran | req_valid;
        ok_cause &= !ran | cause;
        ok_passive &= !(ran & passive_tick & !cause);
        ok_once &= nran <= 1;
        ok_sink_iff &= sink_ran == ran;
        cnt += ran ? 1 : 0;
        r_dyn_tick_ran |= a_active & ta & !wake_due & ran;
        r_dyn_after_deact |= deact_before & !a_active & ta & !cause;
        r_dyn_b_alone |= a_active & tb & !ta & !cause;
        r_passive_alone |= passive_tick & !(ta & tb) & !cause & req_valid;
        r_both_passive |= ta & tb & !cause & req_valid;
        r_wake_no_tick |= wake_due & !passive_tick & ran;
        r_wake_with_tick |= wake_due & passive_tick & ran;
        r_wake_invalid |= wake_due & !req_valid;
        r_older |= ran & ((valid[0] & !ta) | (valid[1] & !tb)) & (j > 0);
        r_after_sources |= ran & (j >= NCYC);
        r_tick_between |= ran & ran_before & passive_since_run;
        r_start_only |= (V == 10) & ran & (j == 0);
        r_active_c |= tc & !passive_tick & ran;
        r_struct_passive |= (V == 11) & passive_tick & !tc & req_valid;
        a_active = a_active_next;
        passive_since_run = ran ? false : (passive_since_run | (passive_tick & ran_before));
        ran_before |= ran;
    }
    bool ok_in_cycle = true;
    for (int i = 0; i < g_nruns; i++) {
        bool some = false;
        for (int j = 0; j < NT; j++) some |= g_runs[i].t == start + TimeDelta{j};
        ok_in_cycle &= some;
    }
    verif_assert(ok_in_cycle, "C03.sampler_ran_outside_modelled_cycles");
    verif_assert(ok_if, "C03.sampler_did_not_run_at_own_wakeup");
    verif_assert(ok_valid, "C03.sampler_ran_with_invalid_required_input");
    verif_assert(ok_cause, "C03.sampler_ran_without_own_wakeup");
    verif_assert(ok_passive, "C03.sampler_passive_tick_ran_node");
    verif_assert(ok_once, "C03.sampler_ran_twice_in_cycle");
    verif_assert(ok_vals, "C03.sampler_read_value_is_not_latest_written");
    verif_assert(ok_state, "C03.sampler_state_not_carried_between_runs");
    verif_assert(ok_out, "C03.sampler_output_is_not_function_of_inputs");
    verif_assert(ok_sink_iff, "C03.sampler_sink_ran_iff_output_ticked");
    verif_assert(!g_run_after_stop, "C03.sampler_ran_after_stop");
    if (V == 3) verif_assert(g_nruns == 0, "C03.sampler_without_wakeup_ran");
    if (r_passive_alone) verif_reach("one_passive_tick_alone_while_ready");
    if (r_both_passive) verif_reach("both_passive_inputs_tick_together_without_wakeup");
    if (r_wake_no_tick) verif_reach("ran_on_own_wakeup_without_any_tick");
    if (r_wake_with_tick) verif_reach("own_wakeup_and_passive_tick_in_one_cycle");
    if (r_wake_invalid) verif_reach("own_wakeup_due_while_required_invalid");
    if (r_older) verif_reach("ran_reading_older_passive_value");
    if (r_after_sources) verif_reach("ran_after_sources_stopped_ticking");
    if (r_tick_between) verif_reach("passive_tick_between_two_own_wakeups");
    if (r_start_only) verif_reach("ran_on_schedule_on_start_only");
    if (r_active_c) verif_reach("active_input_next_to_passive_structural_ran_node");
    if (r_struct_passive) verif_reach("passive_structural_child_tick_next_to_active_input");
    if (r_dyn_tick_ran) verif_reach("tick_of_input_activated_at_run_time_ran_node");
    if (r_dyn_after_deact) verif_reach("tick_after_make_passive_without_wakeup");
    if (r_dyn_b_alone) verif_reach("other_passive_tick_alone_while_one_input_dynamically_active");
    if (r_dyn_act_cycle_tick) verif_reach("make_active_in_cycle_where_input_already_ticked");
    static const char *const vlabel[NVAR] = {"variant_static_all_passive", "variant_schedule_on_start_period", "variant_single_shot_scheduler",
        "variant_no_wakeup_at_all", "variant_non_peered_tsb_all_children_passive", "variant_non_peered_tsl_all_children_passive",
        "variant_native_empty_active_inputs", "variant_nested_all_passive", "variant_peered_tsb_passive", "variant_single_passive_input",
        "variant_schedule_on_start_only", "variant_mixed_structural_passive", "variant_dynamic_activity", "variant_dynamic_activity_tsb_child"};
    if (V != 3 || g_nruns == 0) verif_reach(vlabel[V]);
    verif_log("runs", g_nruns);
    verif_reach("end");
    return 0;
}

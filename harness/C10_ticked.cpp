// C10 (mapped functions that look at WHICH input ticked): map_(f, D, b) with a broadcast (non-multiplexed) argument b
//   real wire_map -> compile_map_child -> map_node; create_entry_at_slot binds every boundary input of a fresh child
//   "sampled" (mapped_child_bindings.h bind_mapped_child_inputs(..., sampled = true) -> TSInputView::bind_output_sampled ->
//   TSInputTargetLinkStorage::bind_sampled): the fresh instance reads modified() == true (and, for a collection, the whole
//   current value as its delta) for every already-valid input in the cycle its key appears, whether or not the source ticked.
//   The isolated-instance model of the property demands exactly this: "run alone on that key's inputs from the moment the key
//   appeared" = every valid input is seen ticking once at creation time, and never again unless its source really ticks.
//   mapped function enumerated (FMASK bit):
//     0 latch      latch := b when b.modified(); out = x + latch                     (records the broadcast only when it ticks)
//     1 count      acc += 1000*[x.modified()] + 10^6*[b.modified()]; out = x + b + acc   (tick counter per input)
//     2 count_p    as 1, b is a PASSIVE input (evaluated by x only; reads b.modified() when it runs)
//     3 count_key  leading key parameter: as 1 plus 10^9*[key.modified()]; out = 7*key + x + b + acc
//     4 count_wake as 1, re-schedules itself one cycle after every x tick and counts evaluations in which NO input ticked
//     5 count_u    as 1, b is InputValidity::Unchecked: the child runs while the broadcast has never ticked
//     6 set_delta  b is a broadcast TSS<int>: acc += 1000*[x.modified()] + 10^6*[s.modified()] + 10^9 * sum 2^e over s.added()
//                  (+ 16*10^9 * sum 2^e over s.removed() from its second evaluation on); out = x + acc + 10^12 * |s|
//   enumerated: the function, per cycle and key {nothing, set, remove, erase+set}, a BULK group of keys as a unit (burst),
//               per cycle whether the broadcast source ticks (function 6: {nothing, add next element, remove lowest})
//   symbolic  : every element value and broadcast value (unconstrained int64)
//   oracle    : as C10_map, after every engine cycle (+1 trailing): per key validity / value / tick pattern of the output element
//               equal the isolated instance's; no foreign valid elements; consumer notified.
#include "hk_ho.h"

// {NKEYS, BULK, NCYC, FMASK}
#ifndef CONFIGS
#define CONFIGS {2, 0, 3, 127}, {1, 3, 3, 67}
#endif

using namespace hk;

namespace {
using U = std::uint64_t;
struct Cfg { int nkeys, bulk, ncyc, fmask; };
constexpr Cfg CFGS[] = {CONFIGS};
constexpr int NCFG = sizeof(CFGS) / sizeof(CFGS[0]);
constexpr int MAXK = 16;
constexpr int NFUNC = 7;
Cfg G{};
int NKEYS = 0, BULK = 0, NK = 0, NCYC = 0;
using Dict = TSD<Int, TS<Int>>;
enum { A_NONE = 0, A_SET, A_REMOVE, A_READD };
enum { F_LATCH = 0, F_COUNT, F_COUNT_P, F_COUNT_KEY, F_COUNT_WAKE, F_COUNT_U, F_SET_DELTA };
constexpr U W_X = 1000, W_B = 1000000, W_K = 1000000000, W_ADD = 1000000000, W_REM = 16000000000ULL, W_SIZE = 1000000000000ULL;

int g_func = 0;
// ---- script of the current cycle (filled by the sources, consumed by the checker) ----
int g_act[MAXK];
Int g_v[MAXK];
bool g_btick = false;
Int g_bv = 0;
int g_sop = 0, g_selem = 0;   // function 6: 0 nothing, 1 added g_selem, 2 removed g_selem
// ---- source-side bookkeeping ----
bool s_present[MAXK];
int s_next = 0;               // function 6: next element to add
bool s_member[8];
// ---- model ----
struct Inst {
    bool exists = false;
    Int x = 0;
    Int latch = 0;
    U acc = 0;
    Int evals = 0;
    Int pending = -1;
    bool out_valid = false;
    Int out = 0;
};
Inst m_inst[MAXK];
bool m_b_valid = false;   // the broadcast source has ticked (function 6: the set is valid)
Int m_b = 0;
bool m_member[8];         // function 6: current members
// ---- observations ----
Int g_obs_cycle = -1;
int g_obs_runs = 0, g_checks = 0;
bool ok_keys = true, ok_valid = true, ok_value = true, ok_ticks = true, ok_foreign = true, ok_notified = true;
bool r_add_held = false, r_readd_held = false, r_burst_held = false, r_add_unset = false, r_late_bcast = false, r_sibling = false,
     r_wake_quiet = false, r_bcast_alone = false, r_passive_missed = false, r_add_with_tick = false, r_removed = false,
     r_set_sampled = false, r_set_removed_at_creation = false, r_set_removed_seen = false, r_update_held = false, r_fresh = false;
bool ever_removed[MAXK];

inline Int cyc(DateTime now) { return (now - MIN_ST).count(); }

// ---- the mapped functions ----
struct FLatch {
    static constexpr auto name = "f_latch";
    static void eval(In<"x", TS<Int>> x, In<"b", TS<Int>> b, State<Int> latch, Out<TS<Int>> out) {
        if (b.modified()) latch.set(b.value());
        out.set((Int)((U)x.value() + (U)latch.get()));
    }
};
struct FCount {
    static constexpr auto name = "f_count";
    static void eval(In<"x", TS<Int>> x, In<"b", TS<Int>> b, State<Int> acc, Out<TS<Int>> out) {
        U a = (U)acc.get() + (x.modified() ? W_X : 0) + (b.modified() ? W_B : 0);
        acc.set((Int)a);
        out.set((Int)((U)x.value() + (U)b.value() + a));
    }
};
struct FCountP {
    static constexpr auto name = "f_count_p";
    static void eval(In<"x", TS<Int>> x, In<"b", TS<Int>, InputActivity::Passive> b, State<Int> acc, Out<TS<Int>> out) {
        U a = (U)acc.get() + (x.modified() ? W_X : 0) + (b.modified() ? W_B : 0);
        acc.set((Int)a);
        out.set((Int)((U)x.value() + (U)b.value() + a));
    }
};
struct FCountKey {
    static constexpr auto name = "f_count_key";
    static void eval(In<"key", TS<Int>> key, In<"x", TS<Int>> x, In<"b", TS<Int>> b, State<Int> acc, Out<TS<Int>> out) {
        U a = (U)acc.get() + (x.modified() ? W_X : 0) + (b.modified() ? W_B : 0) + (key.modified() ? W_K : 0);
        acc.set((Int)a);
        out.set((Int)(7 * (U)key.value() + (U)x.value() + (U)b.value() + a));
    }
};
struct FCountWake {
    static constexpr auto name = "f_count_wake";
    static void eval(In<"x", TS<Int>> x, In<"b", TS<Int>> b, State<Int> acc, NodeScheduler s, Out<TS<Int>> out) {
        const bool xm = x.modified(), bm = b.modified();
        if (xm) s.schedule(MIN_TD);
        U a = (U)acc.get() + (xm ? W_X : 0) + (bm ? W_B : 0) + ((!xm && !bm) ? W_K : 0);
        acc.set((Int)a);
        out.set((Int)((U)x.value() + (U)b.value() + a));
    }
};
struct FCountU {
    static constexpr auto name = "f_count_u";
    static void eval(In<"x", TS<Int>> x, In<"b", TS<Int>, InputValidity::Unchecked> b, State<Int> acc, Out<TS<Int>> out) {
        U a = (U)acc.get() + (x.modified() ? W_X : 0) + (b.modified() ? W_B : 0);
        acc.set((Int)a);
        out.set((Int)((U)x.value() + (b.valid() ? (U)b.value() : 0) + a));
    }
};
// (one State per node: the evaluation count is folded into the low three digits of acc)
struct FSetDelta1 {
    static constexpr auto name = "f_set_delta";
    static void eval(In<"x", TS<Int>> x, In<"s", TSS<Int>> s, State<Int> acc, Out<TS<Int>> out) {
        U a = (U)acc.get();
        const bool first = (a % 1000) == 0;   // low three digits: number of evaluations so far
        a += 1;
        if (x.modified()) a += W_X;
        if (s.modified()) a += W_B;
        for (Int e : s.added()) a += W_ADD * ((U)1 << e);
        if (!first) for (Int e : s.removed()) a += W_REM * ((U)1 << e);
        acc.set((Int)a);
        out.set((Int)((U)x.value() + a + W_SIZE * (U)s.size()));
    }
};

// ---- scripted sources ----
struct DictSrc {
    static constexpr auto name = "dict_src";
    static constexpr bool schedule_on_start = true;
    using OutT = Out<Dict>;
    static void do_set(int k, const OutT &out) {
        Int v = verif_i64("val");
        out[Int{k}].set(v);
        g_v[k] = v;
        s_present[k] = true;
    }
    static void apply_key(int k, const OutT &out) {
        bool present = s_present[k];
        int a = verif_choice("act", present ? 4 : 2);
        if (a == 0) return;
        if (a == 1) { do_set(k, out); g_act[k] = A_SET; }
        else if (a == 2) { (void)out.erase(Int{k}); s_present[k] = false; g_act[k] = A_REMOVE; }
        else { (void)out.erase(Int{k}); do_set(k, out); g_act[k] = A_READD; }
    }
    static void apply_bulk(const OutT &out) {
        if (BULK == 0) return;
        bool present = s_present[NKEYS];
        int a = verif_choice("bulk", present ? 3 : 2);
        if (a == 1) for (int k = NKEYS; k < NK; k++) { do_set(k, out); g_act[k] = A_SET; }
        if (a == 2) for (int k = NK - 1; k >= NKEYS; k--) { (void)out.erase(Int{k}); s_present[k] = false; g_act[k] = A_REMOVE; }
    }
    static void eval(NodeScheduler s, State<Int> n, OutT out) {
        Int c = n.get();
        for (int k = 0; k < NKEYS; k++) apply_key(k, out);
        apply_bulk(out);
        n.set(c + 1);
        if (c + 1 < NCYC) s.schedule(MIN_TD);
    }
};
struct BSrc {
    static constexpr auto name = "b_src";
    static constexpr bool schedule_on_start = true;
    static void eval(NodeScheduler s, State<Int> n, Out<TS<Int>> out) {
        Int c = n.get();
        if (verif_choice("btick", 2) == 1) {
            Int b = verif_i64("bval");
            out.set(b);
            g_btick = true; g_bv = b;
        }
        n.set(c + 1);
        if (c + 1 < NCYC) s.schedule(MIN_TD);
    }
};
// broadcast set: per cycle {nothing, add the next element, remove the lowest member}
struct SSrc {
    static constexpr auto name = "s_src";
    static constexpr bool schedule_on_start = true;
    static void eval(NodeScheduler s, State<Int> n, Out<TSS<Int>> out) {
        Int c = n.get();
        int low = -1;
        for (int e = 7; e >= 0; e--) if (s_member[e]) low = e;
        int op = verif_choice("sop", low >= 0 ? 3 : 2);
        if (op == 1) { (void)out.add(Int{s_next}); s_member[s_next] = true; g_sop = 1; g_selem = s_next; s_next++; g_btick = true; }
        if (op == 2) { (void)out.remove(Int{low}); s_member[low] = false; g_sop = 2; g_selem = low; g_btick = true; }
        n.set(c + 1);
        if (c + 1 < NCYC) s.schedule(MIN_TD);
    }
};
struct Clock {
    static constexpr auto name = "clock";
    static constexpr bool schedule_on_start = true;
    static void eval(NodeScheduler s, State<Int> n, Out<TS<Int>> out) {
        Int c = n.get();
        out.set(c);
        n.set(c + 1);
        if (c < NCYC) s.schedule(MIN_TD);   // one cycle more than the sources: pending wake-ups
    }
};
struct Obs {
    static constexpr auto name = "obs";
    static void eval(In<"m", Dict> m, DateTime now, Out<TS<Int>> out) {
        (void)m;
        g_obs_cycle = cyc(now);
        g_obs_runs++;
        out.set(Int{g_obs_runs});
    }
};

// model transition of one isolated instance for one cycle; returns whether the instance wrote its output.
// `others_created`: another key's instance was created in this cycle (sibling situation).
bool step_instance(int k, Int c, bool others_created) {
    Inst &i = m_inst[k];
    const int a = g_act[k];
    if (a == A_REMOVE) {
        i = Inst{};
        r_removed = true; ever_removed[k] = true;
        return false;
    }
    bool created = false;
    if (a == A_SET && !i.exists) {
        i = Inst{}; i.exists = true; created = true;
    }
    if (!i.exists) return false;
    const bool x_tick = (a == A_SET || a == A_READD);   // erase+set within one cycle is netted: an update of a key that never left
    if (x_tick) i.x = g_v[k];
    // what the isolated instance sees ticking: a real tick of the source, or - in the cycle it is created - every input that
    // already holds a value (sampled initial value)
    const bool b_seen = g_btick || (created && m_b_valid);
    const bool wake = (i.pending == c);
    if (wake) i.pending = -1;
    const bool b_active = (g_func != F_COUNT_P);
    const bool b_needed = (g_func != F_COUNT_U);
    if (created) {
        if (m_b_valid && !g_btick) {
            if (k >= NKEYS) r_burst_held = true;
            else if (ever_removed[k]) r_readd_held = true;
            else r_add_held = true;
        }
        if (m_b_valid && g_btick) r_add_with_tick = true;
        if (!m_b_valid) r_add_unset = true;
        if (ever_removed[k]) r_fresh = true;
    }
    if (!b_active && g_btick && !x_tick) r_passive_missed = true;
    const bool trigger = x_tick || (b_active && b_seen) || wake;
    if (!trigger) return false;
    if (b_needed && !m_b_valid) return false;   // a required input has no value yet: the function is not evaluated
    // ---- the function is evaluated ----
    const bool x_mod = x_tick, b_mod = b_seen;
    if (!created && !x_tick && b_seen && i.evals == 0) r_late_bcast = true;   // first evaluation only when the broadcast arrives
    if (!created && x_tick && !g_btick && m_b_valid) { r_update_held = true; if (others_created) r_sibling = true; }
    if (g_btick && !x_tick && !created) r_bcast_alone = true;
    if (!x_mod && !b_mod) r_wake_quiet = true;
    U acc = i.acc;
    switch (g_func) {
        case F_LATCH:
            if (b_mod) i.latch = m_b;
            i.out = (Int)((U)i.x + (U)i.latch);
            break;
        case F_COUNT: case F_COUNT_P:
            acc += (x_mod ? W_X : 0) + (b_mod ? W_B : 0);
            i.out = (Int)((U)i.x + (U)m_b + acc);
            break;
        case F_COUNT_KEY:
            acc += (x_mod ? W_X : 0) + (b_mod ? W_B : 0) + (created ? W_K : 0);
            i.out = (Int)(7 * (U)k + (U)i.x + (U)m_b + acc);
            break;
        case F_COUNT_WAKE:
            if (x_mod) i.pending = c + 1;
            acc += (x_mod ? W_X : 0) + (b_mod ? W_B : 0) + ((!x_mod && !b_mod) ? W_K : 0);
            i.out = (Int)((U)i.x + (U)m_b + acc);
            break;
        case F_COUNT_U:
            acc += (x_mod ? W_X : 0) + (b_mod ? W_B : 0);
            i.out = (Int)((U)i.x + (m_b_valid ? (U)m_b : 0) + acc);
            break;
        default: {   // F_SET_DELTA
            const bool first = (i.evals == 0);
            acc += 1;
            if (x_mod) acc += W_X;
            if (b_mod) acc += W_B;
            int size = 0;
            for (int e = 0; e < 8; e++) if (m_member[e]) size++;
            if (created) {
                // sampled initial value: the whole current set is the delta, nothing was ever removed from this instance's view
                for (int e = 0; e < 8; e++) if (m_member[e]) acc += W_ADD * ((U)1 << e);
                if (size > 0 && !g_btick) r_set_sampled = true;
                if (g_sop == 2) r_set_removed_at_creation = true;
            } else {
                if (g_sop == 1) acc += W_ADD * ((U)1 << g_selem);
                if (g_sop == 2 && !first) { acc += W_REM * ((U)1 << g_selem); r_set_removed_seen = true; }
            }
            i.out = (Int)((U)i.x + acc + W_SIZE * (U)size);
            break;
        }
    }
    i.acc = acc;
    i.evals++;
    i.out_valid = true;
    return true;
}

struct Checker {
    static constexpr auto name = "checker";
    static void eval(In<"clk", TS<Int>> clk, In<"m", Dict, InputValidity::Unchecked, InputActivity::Passive> m,
                     In<"dep", TS<Int>, InputValidity::Unchecked, InputActivity::Passive> dep, DateTime now) {
        (void)clk; (void)dep;
        Int c = cyc(now);
        g_checks++;
        if (g_func == F_SET_DELTA) {
            if (g_sop == 1) { m_member[g_selem] = true; m_b_valid = true; }
            if (g_sop == 2) m_member[g_selem] = false;
        } else if (g_btick) { m_b = g_bv; m_b_valid = true; }
        int n_valid = 0, n_created = 0;
        for (int k = 0; k < NK; k++) if (g_act[k] == A_SET && !m_inst[k].exists) n_created++;
        bool any_event = false;
        const bool bound = m.valid() || m.bound();
        for (int k = 0; k < NK; k++) {
            const bool creating = (g_act[k] == A_SET && !m_inst[k].exists);
            bool removed_now = (g_act[k] == A_REMOVE) && m_inst[k].out_valid;   // a valid element disappears
            bool wrote = step_instance(k, c, n_created - (creating ? 1 : 0) > 0);
            const Inst &i = m_inst[k];
            bool has = bound && m.contains(Int{k});   // concrete: shape only
            bool v = false;
            any_event |= wrote | removed_now;
            if (i.out_valid) n_valid++;
            if (has) {
                auto e = m.at(Int{k});
                v = e.valid();
                if (v && i.out_valid) ok_value &= (e.value() == i.out);
                ok_ticks &= (e.modified() == wrote);
            }
            // the statement restricts the mirrored key set to children whose output is valid
            ok_keys &= (!v || i.exists) && (!i.out_valid || has);
            ok_valid &= (v == i.out_valid);
        }
        int vsz = 0;
        if (bound) for (auto key : m.valid_keys()) { (void)key; vsz++; }
        ok_foreign &= (vsz == n_valid);
        if (any_event) ok_notified &= (g_obs_cycle == c);
        for (int k = 0; k < NK; k++) g_act[k] = A_NONE;
        g_btick = false;
        g_sop = 0;
    }
};

template <class F, std::size_t ARITY> WiringPortRef map_over(Wiring &w, std::vector<WiringPortRef> args) {
    return ho::wire_map(w, Scalar<"func", WiredFn>{FnN<F, ARITY>::make()}, "", std::move(args), std::nullopt, true);
}

struct Top {
    static constexpr auto name = "top";
    static void compose(Wiring &w) {
        auto d = wire<DictSrc>(w);
        auto clk = wire<Clock>(w);
        WiringPortRef b = (g_func == F_SET_DELTA) ? wire<SSrc>(w).erased() : wire<BSrc>(w).erased();
        WiringPortRef m;
        switch (g_func) {
            case F_LATCH: m = map_over<FLatch, 2>(w, {d.erased(), b}); break;
            case F_COUNT: m = map_over<FCount, 2>(w, {d.erased(), b}); break;
            case F_COUNT_P: m = map_over<FCountP, 2>(w, {d.erased(), b}); break;
            case F_COUNT_KEY: m = map_over<FCountKey, 3>(w, {d.erased(), b}); break;   // arity = args + 1: leading key parameter
            case F_COUNT_WAKE: m = map_over<FCountWake, 2>(w, {d.erased(), b}); break;
            case F_COUNT_U: m = map_over<FCountU, 2>(w, {d.erased(), b}); break;
            default: m = map_over<FSetDelta1, 2>(w, {d.erased(), b}); break;
        }
        Port<Dict> mp{w, m};
        auto o = wire<Obs>(w, mp);
        wire<Checker>(w, clk, mp, o);
    }
};
}  // namespace

extern "C" int harness_main() {
    register_ho_scalars();
    G = CFGS[NCFG > 1 ? verif_choice("cfg", NCFG) : 0];
    NKEYS = G.nkeys; BULK = G.bulk; NK = NKEYS + BULK; NCYC = G.ncyc;
    if (NK > MAXK || NCYC > 7) { verif_fail("C10.harness_configuration"); return 0; }
    {
        int funcs[NFUNC], nf = 0;
        for (int f = 0; f < NFUNC; f++) if (G.fmask & (1 << f)) funcs[nf++] = f;
        if (nf == 0) { verif_fail("C10.harness_configuration"); return 0; }
        g_func = funcs[nf > 1 ? verif_choice("func", nf) : 0];
    }
    run_sim(build_graph<Top>(), MIN_ST, MIN_ST + TimeDelta{NCYC + 3});

    verif_assert(g_checks == NCYC + 1, "C10.checker_ran_every_cycle");
    verif_assert(ok_keys, "C10.output_keys_mirror_source_keys");
    verif_assert(ok_foreign, "C10.no_foreign_output_keys");
    verif_assert(ok_valid, "C10.element_valid_iff_instance_produced");
    verif_assert(ok_value, "C10.element_value_equals_isolated_instance");
    verif_assert(ok_ticks, "C10.element_ticks_iff_instance_wrote");
    verif_assert(ok_notified, "C10.consumer_notified");
    if (r_add_held) verif_reach("key_added_while_broadcast_held_not_ticking");
    if (r_readd_held) verif_reach("key_readded_after_removal_while_broadcast_held");
    if (r_burst_held) verif_reach("burst_of_keys_added_while_broadcast_held");
    if (r_add_with_tick) verif_reach("key_added_in_cycle_broadcast_ticks");
    if (r_add_unset) verif_reach("key_added_before_broadcast_ever_ticked");
    if (r_late_bcast) verif_reach("first_evaluation_when_late_broadcast_arrives_element_not_ticking");
    if (r_update_held) verif_reach("element_update_alone_broadcast_held");
    if (r_sibling) verif_reach("sibling_updated_in_cycle_another_key_was_created");
    if (r_wake_quiet) verif_reach("evaluation_with_no_input_ticking");
    if (r_bcast_alone) verif_reach("broadcast_tick_alone");
    if (r_passive_missed) verif_reach("passive_broadcast_ticked_without_evaluation");
    if (r_removed) verif_reach("key_removed");
    if (r_fresh) verif_reach("key_removed_and_added_later");
    if (r_set_sampled) verif_reach("fresh_child_sees_whole_held_set_as_delta");
    if (r_set_removed_at_creation) verif_reach("key_added_in_cycle_set_lost_an_element");
    if (r_set_removed_seen) verif_reach("live_child_sees_set_removal");
    verif_log("obs_runs", g_obs_runs);
    verif_reach("end");
    return 0;
}

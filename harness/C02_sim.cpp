// C02: simulation honours every scheduled wake-up at exactly its time, in order.
//   K scripted scheduler nodes (sources that re-schedule themselves by symbolic deltas),
//   real wiring -> build_ranked_graph -> GraphBuilder -> simulation executor.
//   symbolic : every requested delta, start offset, window length
//   oracle   : cycle times strictly increase, >= start, < end; every cycle time was requested;
//              every requested time inside the window got a cycle in which the requester ran.
#include "hk.h"
#include "hk_c09.h"

#ifndef KNODES
#define KNODES 2
#endif
#ifndef JEVALS
#define JEVALS 3
#endif
#ifndef DMAX
#define DMAX 4
#endif
#ifndef WMAX
#define WMAX 8
#endif
#ifndef NDD
#define NDD 2
#endif
#ifndef NNS
#define NNS 2   // self-scheduling steps of the nested sampler (0 = no nested child)
#endif

using namespace hk;

namespace {
std::int64_t g_delta[KNODES][JEVALS];     // delta requested by node k at its j-th evaluation (0: none)
constexpr int MAXREQ = (KNODES + 2) * (JEVALS + 3);
DateTime g_input_ticks[JEVALS + 2];
int g_ninput = 0;
struct Req { DateTime t; int node; };
Req g_req[MAXREQ];
int g_nreq = 0;
struct Run { DateTime t; int node; };
Run g_runs[MAXREQ + 8];
int g_nruns = 0;
DateTime g_start, g_end;

struct Sched {
    static constexpr auto name = "sched";
    static constexpr bool schedule_on_start = true;
    static void eval(NodeScheduler s, State<Int> n, Scalar<"id", Int> id, DateTime now, Out<TS<Int>> out) {
        int k = (int)id.value();
        Int j = n.get();
        if (g_nruns < MAXREQ + 8) g_runs[g_nruns++] = Run{now, k};
        if (j < JEVALS) {
            std::int64_t d = g_delta[k][j];
            if (d > 0) {
                s.schedule(TimeDelta{d});
                if (g_nreq < MAXREQ) g_req[g_nreq++] = Req{now + TimeDelta{d}, k};
            }
        }
        out.set(j);
        n.set(j + 1);
    }
};
// An input-driven node that ALSO uses its scheduler: each tick of its input asks for a wake-up DD[j] later.  An input tick
// that arrives while an earlier request is still pending exercises the re-arm branch of node.cpp evaluate_impl (the graph
// slot was overwritten by the input notification and must be restored to the pending time).
std::int64_t g_dd[JEVALS + 2];
constexpr int DELAY_ID = KNODES;
struct Delay {
    static constexpr auto name = "delay";
    static void eval(In<"a", TS<Int>> a, NodeScheduler s, State<Int> n, DateTime now, Out<TS<Int>> out) {
        if (g_nruns < MAXREQ + 8) g_runs[g_nruns++] = Run{now, DELAY_ID};
        if (a.modified()) {
            Int j = n.get();
            g_input_ticks[g_ninput++ % (JEVALS + 2)] = now;
            if (j < NDD) {
                std::int64_t d = g_dd[j];
                if (d > 0) {
                    s.schedule(TimeDelta{d});
                    if (g_nreq < MAXREQ) g_req[g_nreq++] = Req{now + TimeDelta{d}, DELAY_ID};
                }
            }
            n.set(j + 1);
        }
        out.set(n.get());
    }
};
// Work inside a NESTED child graph: a sampler that reads the outer port passively and wakes itself by NS_D[j].  The outer
// port (node 0) ticks on its own, so the nested node is woken by ticks that nothing in the child consumes while the
// child has a wake-up pending - the parent's slot for the nested node must be restored to the child's wake-up each time.
std::int64_t g_ns[JEVALS + 2];
constexpr int NESTED_ID = KNODES + 1;
struct NSampler {
    static constexpr auto name = "nsampler";
    static constexpr bool schedule_on_start = true;
    static void eval(In<"a", TS<Int>, InputActivity::Passive, InputValidity::Unchecked> a, NodeScheduler s, State<Int> n, DateTime now, Out<TS<Int>> out) {
        Int j = n.get();
        if (g_nruns < MAXREQ + 8) g_runs[g_nruns++] = Run{now, NESTED_ID};
        if (j < NNS) {
            std::int64_t d = g_ns[j];
            if (d > 0) {
                s.schedule(TimeDelta{d});
                if (g_nreq < MAXREQ) g_req[g_nreq++] = Req{now + TimeDelta{d}, NESTED_ID};
            }
        }
        out.set(j);
        n.set(j + 1);
    }
};
struct GNested { static constexpr auto name = "c02_nested"; static Port<TS<Int>> compose(Wiring &w, Port<TS<Int>> x) { return wire<NSampler>(w, x); } };
struct Sink {
    static constexpr auto name = "sink";
    static void eval(In<"a", TS<Int>> a, State<Int> acc) { acc.set(acc.get() + a.value()); }
};
struct Top {
    static constexpr auto name = "top";
    static void compose(Wiring &w) {
        for (int k = 0; k < KNODES; k++) {
            auto p = wire<Sched>(w, Int{k});
            wire<Sink>(w, p);
            if (k == 0) { auto dl = wire<Delay>(w, p); wire<Sink>(w, dl); if (NNS > 0) { auto ns = hk::c09::nested1<GNested>(w, p); wire<Sink>(w, ns); } }
        }
    }
};
EventLog<256> g_log;
}  // namespace

extern "C" int harness_main() {
    for (int k = 0; k < KNODES; k++)
        for (int j = 0; j < JEVALS; j++) g_delta[k][j] = verif_range("delta", 0, DMAX);
    for (int j = 0; j < NDD; j++) g_dd[j] = verif_range("ddelta", 0, DMAX);
    for (int j = 0; j < NNS; j++) g_ns[j] = verif_range("nsdelta", 0, DMAX);
    std::int64_t s0 = verif_range("start", 0, 1000);
    std::int64_t win = verif_range("window", 1, WMAX);
    g_start = at_us(s0);
    g_end = g_start + TimeDelta{win};
    // schedule_on_start: every node asks for the start time
    for (int k = 0; k < KNODES; k++) g_req[g_nreq++] = Req{g_start, k};
    if (NNS > 0) g_req[g_nreq++] = Req{g_start, NESTED_ID};  // schedule_on_start inside the nested child

    RecordingObserver<256> obs{&g_log};
    run_sim(build_graph<Top>(), g_start, g_end, &obs);

    // ---- oracle.  Branch-free accumulation: comparisons of symbolic times become solver terms, not
    // forks, and each assertion id is discharged by one query per path.
    verif_assert(!g_log.overflow, "C02.log_overflow");
    DateTime prev = MIN_DT;
    int cycles = 0;
    bool ok_window = true, ok_requested = true, ok_honoured = true, ok_asked = true, beyond = false;
    for (int i = 0; i < g_log.n; i++) {
        if (g_log.ev[i].kind != EV_GRAPH_BEGIN || g_log.ev[i].depth != 0) continue;
        DateTime t = g_log.ev[i].t;
        cycles++;
        bool requested = false;
        for (int r = 0; r < g_nreq; r++) requested |= (g_req[r].t == t);
        ok_window &= (t > prev) & (t >= g_start) & (t < g_end);
        ok_requested &= requested;
        prev = t;
    }
    for (int r = 0; r < g_nreq; r++) {
        bool ran = false;
        for (int i = 0; i < g_nruns; i++) ran |= (g_runs[i].t == g_req[r].t) & (g_runs[i].node == g_req[r].node);
        beyond |= (g_req[r].t >= g_end);
        ok_honoured &= ran | (g_req[r].t >= g_end);
    }
    bool rearm_case = false;
    for (int i = 0; i < g_nruns; i++) {
        bool asked = false;
        for (int r = 0; r < g_nreq; r++) asked |= (g_req[r].t == g_runs[i].t) & (g_req[r].node == g_runs[i].node);
        if (g_runs[i].node == DELAY_ID) {  // the input-driven node also runs when its input (node 0's output) ticked
            for (int q = 0; q < g_nruns; q++) asked |= (g_runs[q].node == 0) & (g_runs[q].t == g_runs[i].t);
        }
        ok_asked &= asked;
    }
    // an input tick strictly between a request and its due time (the re-arm situation)
    for (int r = 0; r < g_nreq; r++)
        if (g_req[r].node == DELAY_ID)
            for (int q = 0; q < g_nruns; q++) rearm_case |= (g_runs[q].node == 0) & (g_runs[q].t < g_req[r].t) & (g_runs[q].t > g_req[r].t - TimeDelta{DMAX + 1}) & (g_req[r].t < g_end);
    verif_assert(ok_window, "C02.time_strictly_increases_within_window");
    verif_assert(ok_requested, "C02.no_spurious_cycle");
    verif_assert(ok_honoured, "C02.wakeup_honoured_at_exact_time");
    verif_assert(ok_asked, "C02.node_ran_only_when_requested");
    if (beyond) verif_reach("request_beyond_end");
    if (rearm_case) verif_reach("input_tick_while_own_wakeup_pending");
    bool nested_case = false;
    for (int r = 0; r < g_nreq; r++)
        if (g_req[r].node == NESTED_ID)
            for (int q = 0; q < g_nruns; q++) nested_case |= (g_runs[q].node == 0) & (g_runs[q].t < g_req[r].t) & (g_runs[q].t > g_req[r].t - TimeDelta{DMAX + 1}) & (g_req[r].t < g_end) & (g_req[r].t > g_start);
    if (nested_case) verif_reach("outer_tick_while_nested_wakeup_pending");
    if (cycles >= 3) verif_reach("three_cycles");
    verif_log("cycles", cycles);
    verif_reach("end");
    return 0;
}

// C12: a SELF-SCHEDULING running branch keeps its pending wake-ups across cycles that wake the switch node while the
//      branch has nothing due (same-key tick without reload, tick of an input the branch does not consume).
//   real wire_switch -> switch_node; both branches (key 0, key 1) are periodic: the first evaluation of an instance
//   (sampled x at selection) arms a wake-up p later, every wake-up re-arms p later (MAXW wake-ups), a tick of x while a
//   wake-up is pending only republishes.  value = x + 100*wake-ups + 1000*key.  y is a switch input no branch consumes.
//   enumerated: reload_on_ticked on/off; NEV events after the initial {key 0 + x}: {key 0, key 1, x tick, y tick}
//   symbolic  : period p in [1,PMAX], gap before every event in [1,DMAX] (engine times), every x value (int64)
//   oracle    : the stream of (time, value) ticks of the switch output and the stream of (time, branch) evaluations
//               equal those of the selected instance run alone (post-hoc model over the same event script).
#include "hk_ho.h"

#ifndef NEV
#define NEV 3
#endif
#ifndef PMAX
#define PMAX 4
#endif
#ifndef DMAX
#define DMAX 3
#endif
#ifndef MAXW
#define MAXW 2
#endif
#ifndef RELOADS
#define RELOADS 2
#endif

using namespace hk;

namespace {
using U = std::uint64_t;
constexpr int CAP = 32;
bool g_reload = false;
Int g_p = 1;
// script
int g_i = 0;
int g_act[NEV + 1];
Int g_t[NEV + 1];
Int g_x[NEV + 1];
// observations
int n_ev = 0, n_ob = 0;
Int ev_t[CAP], ev_b[CAP], ob_t[CAP], ob_v[CAP];

template <int K> struct BPer {
    static constexpr auto name = K == 0 ? "b_per0" : "b_per1";
    static void eval(In<"x", TS<Int>> x, State<Int> st, NodeScheduler s, DateTime now, Out<TS<Int>> out) {
        Int wakes = st.get();
        if (s.is_scheduled_now()) {
            wakes++;
            if (wakes < MAXW) s.schedule(TimeDelta{g_p});
        } else if (!s.is_scheduled()) {
            s.schedule(TimeDelta{g_p});
        }
        st.set(wakes);
        if (n_ev < CAP) { ev_t[n_ev] = us(now); ev_b[n_ev] = K; }
        n_ev++;
        out.set((Int)((U)x.value() + 100 * (U)wakes + 1000 * (U)K));
    }
};
template <int K> struct BPerW {   // arity 2 (x, y); y is not consumed
    static WiringPortRef wire(Wiring &w, std::span<const WiringPortRef> a) {
        return hgraph::wire<BPer<K>>(w, Port<void>{w, a[0]}).erased();
    }
};

struct Src {
    static constexpr auto name = "src";
    static constexpr bool schedule_on_start = true;
    static void eval(NodeScheduler s, State<Int> n, DateTime now, Out<TS<Int>> out) {
        int i = (int)n.get();
        g_i = i;
        int a = i == 0 ? 4 : verif_choice("act", 4);   // 0 key 0, 1 key 1, 2 x, 3 y, 4 key 0 + x
        g_act[i] = a;
        g_t[i] = us(now);
        out.set(Int{a});
        n.set(Int{i + 1});
        if (i < NEV) s.schedule(TimeDelta{verif_range("d", 1, DMAX)});
    }
};
struct KeyF {
    static constexpr auto name = "key_f";
    static void eval(In<"c", TS<Int>> c, Out<TS<Int>> out) {
        Int a = c.value();
        if (a == 0 || a == 4) out.set(Int{0});
        if (a == 1) out.set(Int{1});
    }
};
struct XF {
    static constexpr auto name = "x_f";
    static void eval(In<"c", TS<Int>> c, Out<TS<Int>> out) {
        Int a = c.value();
        if (a == 2 || a == 4) { Int v = verif_i64("x"); g_x[g_i] = v; out.set(v); }
    }
};
struct YF {
    static constexpr auto name = "y_f";
    static void eval(In<"c", TS<Int>> c, Out<TS<Int>> out) {
        if (c.value() == 3) out.set(Int{g_i});
    }
};
struct Obs {
    static constexpr auto name = "obs";
    static void eval(In<"r", TS<Int>> r, DateTime now, Out<TS<Int>> out) {
        if (n_ob < CAP) { ob_t[n_ob] = us(now); ob_v[n_ob] = r.value(); }
        n_ob++;
        out.set(Int{n_ob});
    }
};
struct Top {
    static constexpr auto name = "top";
    static void compose(Wiring &w) {
        auto c = wire<Src>(w);
        auto k = wire<KeyF>(w, c);
        auto x = wire<XF>(w, c);
        auto y = wire<YF>(w, c);
        stdlib::SwitchCases cases;
        cases.cases.push_back(stdlib::SwitchCase{Value{Int{0}}, FnW<BPerW<0>, 2>::make()});
        cases.cases.push_back(stdlib::SwitchCase{Value{Int{1}}, FnW<BPerW<1>, 2>::make()});
        cases.reload_on_ticked = g_reload;
        WiringPortRef s = ho::wire_switch(w, k.erased(), cases, {x.erased(), y.erased()}, {}, true);
        (void)wire<Obs>(w, Port<TS<Int>>{w, s});
    }
};
}  // namespace

extern "C" int harness_main() {
    register_ho_scalars();
    g_reload = RELOADS > 1 ? verif_choice("reload", 2) == 1 : false;
    g_p = verif_range("p", 1, PMAX);
    const Int END = (Int)NEV * DMAX + (Int)(MAXW + 2) * PMAX + 2;
    run_sim(build_graph<Top>(), MIN_ST, MIN_ST + TimeDelta{END});

    // ---- model: the selected instance run alone ----
    int n_m = 0;
    Int m_t[CAP], m_b[CAP], m_v[CAP];
    Int sel = -1, pending = -1, wakes = 0, x = 0;
    int n_sel = 0;
    bool idle_since_eval = false, prev_was_switch = false;
    bool r_same_between = false, r_unrel_between = false, r_wake_after_idle = false, r_flip_retick = false, r_x_between = false,
         r_switch_pending = false, r_reload_pending = false, r_wake_and_tick_same_cycle = false;
    int i = 0;
    for (int step = 0; step < CAP; step++) {
        Int t; int a = -1;
        if (pending >= 0 && (i > NEV || pending < g_t[i])) t = pending;
        else if (i <= NEV) { t = g_t[i]; a = g_act[i]; i++; }
        else break;
        bool wake = (pending == t);
        if (wake) pending = -1;
        if (wake && a >= 0) r_wake_and_tick_same_cycle = true;
        bool selected_now = false, xtick = (a == 2 || a == 4);
        bool was_switch = false;
        if (a == 0 || a == 1 || a == 4) {
            Int k = (a == 1) ? 1 : 0;
            if (sel < 0 || g_reload || k != sel) {
                if (sel >= 0) {
                    was_switch = true;
                    if (pending > t) { if (k == sel) r_reload_pending = true; else r_switch_pending = true; }
                }
                sel = k; wakes = 0; pending = -1; wake = false; selected_now = true; n_sel++;
            } else if (pending > t && !wake) {
                r_same_between = true; idle_since_eval = true;
                if (prev_was_switch) r_flip_retick = true;
            }
        }
        if (a == 3 && pending > t && !wake) { r_unrel_between = true; idle_since_eval = true; }
        if (a >= 0) prev_was_switch = was_switch;
        if (xtick) x = g_x[i - 1];
        if (selected_now || xtick || wake) {
            if (wake) {
                wakes++;
                if (wakes < MAXW) pending = t + g_p;
                if (idle_since_eval) r_wake_after_idle = true;
            } else if (pending < 0) pending = t + g_p;
            else r_x_between = true;
            idle_since_eval = false;
            if (n_m < CAP) { m_t[n_m] = t; m_b[n_m] = sel; m_v[n_m] = (Int)((U)x + 100 * (U)wakes + 1000 * (U)sel); }
            n_m++;
        }
    }
    verif_assert(n_m <= CAP, "C12.harness_capacity");
    bool ok_t = true, ok_v = true, ok_et = true, ok_eb = true;
    int n = n_m < CAP ? n_m : CAP;
    for (int j = 0; j < n && j < n_ob; j++) { ok_t &= (ob_t[j] == m_t[j]); ok_v &= (ob_v[j] == m_v[j]); }
    for (int j = 0; j < n && j < n_ev; j++) { ok_et &= (ev_t[j] == m_t[j]); ok_eb &= (ev_b[j] == m_b[j]); }
    verif_assert(n_ev == n_m, "C12.wake.selected_instance_evaluations_as_alone");
    verif_assert(ok_et, "C12.wake.pending_wakeup_honoured_at_exact_time");
    verif_assert(ok_eb, "C12.wake.only_selected_instance_evaluates");
    verif_assert(n_ob == n_m, "C12.wake.output_ticks_iff_selected_instance_wrote");
    verif_assert(ok_t, "C12.wake.output_tick_times");
    verif_assert(ok_v, "C12.wake.output_equals_selected_instance");
    if (r_same_between) verif_reach("same_key_tick_between_wakeups");
    if (r_unrel_between) verif_reach("unconsumed_input_tick_between_wakeups");
    if (r_wake_after_idle) verif_reach("wakeup_fired_after_idle_switch_cycle");
    if (r_flip_retick) verif_reach("flip_then_same_key_retick_between_wakeups");
    if (r_x_between) verif_reach("consumed_input_tick_between_wakeups");
    if (r_switch_pending) verif_reach("switched_away_with_pending_wakeup");
    if (r_reload_pending) verif_reach("reload_with_pending_wakeup");
    if (r_wake_and_tick_same_cycle) verif_reach("wakeup_and_tick_same_cycle");
    if (n_sel >= 3) verif_reach("three_selections");
    verif_log("n_model", n_m);
    verif_reach("end");
    return 0;
}

// C16 (threads): real queue push-source node in a real real-time executor on the main interpreter thread,
// P producer threads (each sending M symbolic payloads with try_send or send_blocking) and an optional stopper
// thread, interleaved by symx at every synchronisation operation (mutex lock/unlock, condition wait/notify,
// atomic RMW, thread exit) within a preemption budget.
//   oracle: per producer, the delivered values are a subsequence-prefix of its accepted values in send order;
//           each delivered once, in its own cycle, times strictly increasing; accepted-undelivered <= capacity at
//           every send; a blocking send fails only if the source stopped; without a stop request every accepted
//           value is delivered before run() returns (no lost wake-up); no deadlock.
#include "hk.h"

#include <hgraph/runtime/push_source_node.h>

#ifndef NPROD
#define NPROD 2
#endif
#ifndef MSGS
#define MSGS 2
#endif
#ifndef WIN_US
#define WIN_US 30
#endif
#ifndef WITH_STOPPER
#define WITH_STOPPER 1
#endif
#ifndef PREFILL
#define PREFILL 0   // values sent from the start callback before the producers exist (fills a bounded queue)
#endif

using namespace hk;

namespace {
PushSourceSender g_sender;
GraphExecutorValue *g_exec = nullptr;
std::int64_t g_cap = 0;
bool g_blocking = false;
Int g_payload[NPROD][MSGS];
bool g_acc[NPROD][MSGS];
int g_sent[NPROD];
struct Deliv { Int v; DateTime t; };
Deliv g_deliv[NPROD * MSGS + PREFILL + 2];
int g_ndel = 0;
volatile int g_accepted_total = 0;  // only touched by harness threads between synchronisation points
bool g_stop_requested = false;
bool ok_capacity = true, ok_blocking = true, ok_refusal = true;
int g_prefill_acc = 0;
int g_tids[NPROD + 1];
int g_ntids = 0;

void producer(void *arg) {
    int p = (int)(std::intptr_t)arg;
    for (int i = 0; i < MSGS; i++) {
        bool ok = g_blocking ? g_sender.send_blocking(g_payload[p][i]) : g_sender.try_send(g_payload[p][i]);
        g_acc[p][i] = ok;
        g_sent[p] = i + 1;
        if (ok) g_accepted_total = g_accepted_total + 1;
        // a blocking send fails only if the source stopped first
        if (g_blocking && !ok && !g_stop_requested) ok_blocking = false;
        // a non-blocking send is refused only when the queue is full or the source has stopped: an unbounded queue never
        // refuses, a bounded one only after at least `capacity` values have been accepted (the counter is monotone, so
        // reading it after the send is sound whatever the consumer did in between)
        if (!g_blocking && !ok && !g_stop_requested) ok_refusal &= (g_cap > 0) & (g_accepted_total >= g_cap);
        ok_capacity &= (g_cap == 0) | (g_accepted_total - g_ndel <= g_cap + 1);  // +1: the consumer may have popped but not yet recorded
    }
}
void stopper(void *) {
    if (g_exec) { g_stop_requested = true; g_exec->view().request_stop(); }
}
void sink_eval(const NodeView &view, DateTime evaluation_time) {
    auto root = view.input(evaluation_time);
    auto bundle = root.as_bundle();
    const auto input = bundle[0];
    if (g_ndel < NPROD * MSGS + PREFILL + 2) g_deliv[g_ndel++] = Deliv{input.value().checked_as<Int>(), evaluation_time};
}
}  // namespace

extern "C" int harness_main() {
    auto &registry = TypeRegistry::instance();
    const auto *int_meta = registry.register_scalar<Int>("int");
    const auto *ts_int = registry.ts(int_meta);
    const auto *input_schema = registry.un_named_tsb({{std::string{"in"}, ts_int}});

#ifdef FIX_SCENARIO   // one fixed configuration: bounded queue of 1, blocking senders, a stopper thread
    g_cap = 1;
    g_blocking = true;
    bool with_stopper = true;
#else
    g_cap = verif_choice("capacity", 3);  // 0 unbounded, 1, 2
    g_blocking = verif_bool("blocking");
    bool with_stopper = WITH_STOPPER && verif_bool("stopper");
#endif
    // distinct payloads per producer so that delivery order can be attributed: producer p sends 100*p + symbolic digit
    for (int p = 0; p < NPROD; p++)
        for (int i = 0; i < MSGS; i++) g_payload[p][i] = 100 * (p + 1) + verif_range("digit", 0, 9);

    GraphBuilder gb;
    gb.add_node(make_push_source_node(*ts_int, make_push_source_queue_policy(*ts_int, (std::size_t)g_cap),
                                      [with_stopper](PushSourceSender s) {
                                          g_sender = std::move(s);
                                          for (int i = 0; i < PREFILL; i++) { if (g_sender.try_send(Int{900 + i})) { g_prefill_acc++; g_accepted_total = g_accepted_total + 1; } }
                                          for (int p = 0; p < NPROD; p++) g_tids[g_ntids++] = verif_spawn(producer, (void *)(std::intptr_t)p);
                                          if (with_stopper) g_tids[g_ntids++] = verif_spawn(stopper, nullptr);
                                      }));
    NodeTypeMetaData sink_schema;
    sink_schema.display_name = "verif_sink";
    sink_schema.input_schema = input_schema;
    sink_schema.node_kind = NodeKind::Sink;
    NodeCallbacks cb;
    cb.evaluate = [](const NodeView &view, DateTime t) { sink_eval(view, t); };
    gb.add_node(NodeBuilder::native(std::move(sink_schema), std::move(cb),
                                    TSEndpointSchema::non_peered(input_schema, {TSEndpointSchema::peered(ts_int)})));
    gb.add_edge(GraphEdge{.source_node = make_graph_edge_source(0), .source_path = {}, .target_node = 1, .target_path = {0}});

    verif_clock_config(0, 0, 0);
    DateTime start = DateTime{std::chrono::duration_cast<TimeDelta>(std::chrono::nanoseconds{verif_clock_ns()})};
    GraphExecutorBuilder eb;
    eb.graph_builder(std::move(gb)).mode(GraphExecutorMode::RealTime).start_time(start).end_time(start + TimeDelta{WIN_US});
    {
        GraphExecutorValue ex = eb.make_executor();
        g_exec = &ex;
        ex.view().run();
        verif_reach("run_returned");
        for (int i = 0; i < g_ntids; i++) verif_join(g_tids[i]);  // producers end: blocked senders were released by stop
        g_exec = nullptr;
    }

    // ---- oracle
    bool ok_order = true, ok_times = true;
    DateTime prev = MIN_DT;
    int prefill_seen = 0;
    int next_idx[NPROD];
    for (int p = 0; p < NPROD; p++) next_idx[p] = 0;
    for (int i = 0; i < g_ndel; i++) {
        Int v = g_deliv[i].v;
        if (v >= 900) { ok_order &= (v == 900 + prefill_seen) & (prefill_seen < g_prefill_acc); prefill_seen++; ok_times &= (g_deliv[i].t > prev); prev = g_deliv[i].t; continue; }
        int p = (int)(v / 100) - 1;
        bool matched = false;
        if (p >= 0 && p < NPROD) {
            // the next accepted, not yet delivered value of producer p
            int k = next_idx[p];
            while (k < MSGS && !g_acc[p][k]) k++;
            if (k < MSGS && g_payload[p][k] == v) { matched = true; next_idx[p] = k + 1; }
        }
        ok_order &= matched;
        ok_times &= (g_deliv[i].t > prev);
        prev = g_deliv[i].t;
    }
    int accepted = g_prefill_acc;
    for (int p = 0; p < NPROD; p++) for (int i = 0; i < MSGS; i++) accepted += g_acc[p][i] ? 1 : 0;
    verif_assert(ok_order, "C16.per_producer_order_preserved_each_delivered_once");
    verif_assert(ok_times, "C16.each_delivery_in_its_own_cycle_increasing_time");
    verif_assert(ok_capacity, "C16.pending_never_exceeds_capacity");
    verif_assert(ok_blocking, "C16.blocking_send_fails_only_after_stop");
    verif_assert(ok_refusal, "C16.try_send_refused_only_when_full_or_stopped");
    verif_assert(g_ndel <= accepted, "C16.nothing_delivered_that_was_not_accepted");
    if (!with_stopper) {
        verif_assert(g_ndel == accepted, "C16.every_accepted_value_delivered_no_lost_wakeup");
        if (g_blocking) verif_assert(accepted == NPROD * MSGS + g_prefill_acc, "C16.blocking_sends_all_accepted_without_stop");
        if (accepted == NPROD * MSGS + g_prefill_acc) verif_reach("all_values_accepted_and_delivered");
    } else verif_reach("stopper_present");
    verif_log("accepted", accepted);
    verif_log("delivered", g_ndel);
    verif_reach("end");
    return 0;
}

// C13: reading through a reference equals reading its current target.
//   cond / a / b (/ c) scripted sources -> sel = if_then_else_impl(cond, a, b)  (MODE 0, 2, 3)
//                                          sel = if_cmp_impl(cmp, a, b, c)      (MODE 1)
//   (both structs extracted verbatim from the CURRENT control_impl.h by lib/hreg/C13.py pre_build)
//   two recording consumers below sel (In<TS<int>> / In<TSS<int>>: the REF output is dereferenced by the
//   runtime's from-reference alternative), MODE 3: the second consumer sits inside a nested graph node and
//   receives the reference across the graph boundary.
//   symbolic  : every payload value of the targets
//   enumerated: per cycle which of cond / a / b (/ c) tick and what cond selects (relative timing of retargets
//               and target ticks, re-selection of the same target, retarget back)
//   oracle    : a consumer is evaluated in cycle k  <=>  the selected target ticked in k, or the reference was
//               retargeted in k to a target that already has a value; at every evaluation it reads the selected
//               target's current value, valid and modified; republishing the same selection and ticks of
//               unselected targets never evaluate it; (sets) the delta at a retarget is new-only added /
//               old-only removed, at a target tick the target's own delta.
#include "hk.h"

#include "c13_extracted_control_impl.h"

#include <hgraph/runtime/nested_graph_node.h>

#include <cstdio>

#ifndef MODE
#define MODE 0  // 0 if_then_else TS<int>; 1 if_cmp TS<int>; 2 if_then_else TSS<int>; 3 if_then_else TS<int>, consumer 1 nested
#endif
#ifndef NCYC
#define NCYC 4
#endif
#ifndef VMAX
#define VMAX 1000
#endif

using namespace hk;
using hgraph::stdlib::CmpResult;

namespace {
constexpr int NT = (MODE == 1) ? 3 : 2;  // number of targets
constexpr int NCONS = 2;

// ---- script (filled before the run) --------------------------------------------------------------
int g_sel[NCYC];            // 0: selector does not tick; 1..NT: selector ticks and selects target (value-1)
bool g_tick[NT][NCYC];      // target i ticks in cycle c
Int g_val[NT][NCYC];        // payload (TS: the value; TSS: element added is concrete, see below)
int g_sop[NT][NCYC];        // TSS mode: 1 add 1, 2 add 2, 3 remove 1, 4 remove 2
DateTime g_t0;

inline int cycle_of(DateTime now) { return (int)((now - g_t0).count()); }

// ---- observation log -----------------------------------------------------------------------------
struct Obs { int cycle; bool valid; bool modified; Int value; bool has[3]; bool added[3]; bool removed[3]; };
Obs g_obs[NCONS][NCYC + 2];
int g_nobs[NCONS];
bool g_obs_overflow = false;

// ---- nodes ---------------------------------------------------------------------------------------
struct Selector {  // TS<Bool> for if_then_else, TS<CmpResult> for if_cmp
    static constexpr auto name = "selector";
    static constexpr bool schedule_on_start = true;
#if MODE == 1
    static void eval(NodeScheduler s, DateTime now, Out<TS<CmpResult>> out) {
        int c = cycle_of(now);
        if (c < 0 || c >= NCYC) return;
        if (g_sel[c] == 1) out.set(CmpResult::LT);
        if (g_sel[c] == 2) out.set(CmpResult::EQ);
        if (g_sel[c] == 3) out.set(CmpResult::GT);
        if (c + 1 < NCYC) s.schedule(MIN_TD);
    }
#else
    static void eval(NodeScheduler s, DateTime now, Out<TS<Bool>> out) {
        int c = cycle_of(now);
        if (c < 0 || c >= NCYC) return;
        if (g_sel[c] == 1) out.set(true);   // selects target 0 (true_value)
        if (g_sel[c] == 2) out.set(false);  // selects target 1 (false_value)
        if (c + 1 < NCYC) s.schedule(MIN_TD);
    }
#endif
};

#if MODE == 2
using Target = TSS<Int>;
struct Src {
    static constexpr auto name = "src";
    static constexpr bool schedule_on_start = true;
    static void eval(NodeScheduler s, Scalar<"id", Int> id, DateTime now, Out<TSS<Int>> out) {
        int c = cycle_of(now), i = (int)id.value();
        if (c < 0 || c >= NCYC) return;
        if (g_tick[i][c]) {
            int op = g_sop[i][c];
            if (op == 1) out.add(Int{1});
            if (op == 2) out.add(Int{2});
            if (op == 3) out.remove(Int{1});
            if (op == 4) out.remove(Int{2});
        }
        if (c + 1 < NCYC) s.schedule(MIN_TD);
    }
};
struct Cons {
    static constexpr auto name = "cons";
    static void eval(In<"x", TSS<Int>> x, Scalar<"id", Int> id, DateTime now) {
        int k = (int)id.value();
        if (g_nobs[k] >= NCYC + 2) { g_obs_overflow = true; return; }
        Obs &o = g_obs[k][g_nobs[k]++];
        o.cycle = cycle_of(now);
        o.valid = x.valid();
        o.modified = x.modified();
        o.value = 0;
        for (int e = 1; e <= 2; e++) {
            o.has[e] = x.contains(Int{e});
            o.added[e] = false;
            o.removed[e] = false;
        }
        for (const auto &e : x.added()) { Int v = e; if (v >= 1 && v <= 2) o.added[v] = true; }
        for (const auto &e : x.removed()) { Int v = e; if (v >= 1 && v <= 2) o.removed[v] = true; }
    }
};
#else
using Target = TS<Int>;
struct Src {
    static constexpr auto name = "src";
    static constexpr bool schedule_on_start = true;
    static void eval(NodeScheduler s, Scalar<"id", Int> id, DateTime now, Out<TS<Int>> out) {
        int c = cycle_of(now), i = (int)id.value();
        if (c < 0 || c >= NCYC) return;
        if (g_tick[i][c]) out.set(g_val[i][c]);
        if (c + 1 < NCYC) s.schedule(MIN_TD);
    }
};
struct Cons {
    static constexpr auto name = "cons";
    static void eval(In<"x", TS<Int>> x, Scalar<"id", Int> id, DateTime now) {
        int k = (int)id.value();
        if (g_nobs[k] >= NCYC + 2) { g_obs_overflow = true; return; }
        Obs &o = g_obs[k][g_nobs[k]++];
        o.cycle = cycle_of(now);
        o.valid = x.valid();
        o.modified = x.modified();
        o.value = o.valid ? x.value() : Int{0};
    }
};
#endif

#if MODE == 3
// the second consumer lives in a nested graph; the reference crosses the boundary as a REF-typed argument
CompiledSubGraph compile_child(const TSValueTypeMetaData *arg_schema) {
    Wiring cw{WiringKind::SubGraph};
    Port<TS<Int>> x{cw, WiringPortRef::boundary_source(0, {}, arg_schema)};
    wire<Cons>(cw, x, Int{1});
    return std::move(cw).finish_subgraph(WiringPortRef{}, {arg_schema});
}
#endif

struct Top {
    static constexpr auto name = "top";
    static void compose(Wiring &w) {
        auto sel = wire<Selector>(w);
        auto a = wire<Src>(w, Int{0});
        auto b = wire<Src>(w, Int{1});
#if MODE == 1
        auto c = wire<Src>(w, Int{2});
        auto r = wire<stdlib::if_cmp_impl>(w, sel, a, b, c);
#else
        auto r = wire<stdlib::if_then_else_impl>(w, sel, a, b);
#endif
        wire<Cons>(w, r, Int{0});
#if MODE == 3
        wire_nested_consumer(w, r);
#else
        wire<Cons>(w, r, Int{1});
#endif
    }
#if MODE == 3
    template <class P> static void wire_nested_consumer(Wiring &w, const P &r);
#endif
};
}  // namespace

#if MODE == 3
#include "c13_nested.inc"
#endif

extern "C" int harness_main() {
    // ---- script: enumerated timing, symbolic payloads
    for (int c = 0; c < NCYC; c++) {
        g_sel[c] = verif_choice("sel", NT + 1);
        for (int i = 0; i < NT; i++) {
            g_tick[i][c] = verif_bool("tick");
#if MODE == 2
            g_sop[i][c] = g_tick[i][c] ? 1 + verif_choice("sop", 4) : 0;
            g_val[i][c] = 0;
#else
            g_val[i][c] = g_tick[i][c] ? verif_range("v", -VMAX, VMAX) : Int{0};
#endif
        }
    }
    g_t0 = MIN_ST;
    run_sim(build_graph<Top>(), g_t0, g_t0 + TimeDelta{NCYC + 2});

    // ---- model of what the statement promises
    bool t_valid[NT] = {};
    Int t_val[NT] = {};
    bool t_has[NT][3] = {};
    int cur = -1;  // currently referenced target
    bool exp_eval[NCYC];
    Int exp_val[NCYC];
    bool exp_has[NCYC][3], exp_added[NCYC][3], exp_removed[NCYC][3];
    bool any_retarget_valid = false, any_retarget_invalid = false, any_reselect = false, any_unselected = false, any_back = false, any_same_cycle = false;
    int first_target = -1;
    for (int c = 0; c < NCYC; c++) {
        bool before[3] = {false, false, false};
        if (cur >= 0) for (int e = 1; e <= 2; e++) before[e] = t_has[cur][e];
        bool ticked[NT];
        for (int i = 0; i < NT; i++) {
            ticked[i] = false;
            if (!g_tick[i][c]) continue;
#if MODE == 2
            int op = g_sop[i][c];
            int e = (op == 1 || op == 3) ? 1 : 2;
            bool add = op <= 2;
            // a TSS output ticks on every add/remove call (a no-op on a valid set is an empty tick)
            ticked[i] = true;
            t_has[i][e] = add;
            t_valid[i] = true;
#else
            ticked[i] = true;
            t_val[i] = g_val[i][c];
            t_valid[i] = true;
#endif
        }
        bool retarget = false;
        if (g_sel[c] != 0) {
            int want = g_sel[c] - 1;
            if (want != cur) {
                retarget = true;
                if (cur >= 0 && first_target == want) any_back = true;
                if (first_target < 0) first_target = want;
                if (t_valid[want]) { any_retarget_valid = true; if (ticked[want]) any_same_cycle = true; } else any_retarget_invalid = true;
            } else {
                any_reselect = true;
            }
            cur = want;
        }
        for (int i = 0; i < NT; i++) if (ticked[i] && i != cur) any_unselected = true;
        exp_eval[c] = cur >= 0 && t_valid[cur] && (ticked[cur] || retarget);
        exp_val[c] = cur >= 0 ? t_val[cur] : Int{0};
        for (int e = 1; e <= 2; e++) {
            bool now_has = cur >= 0 && t_has[cur][e];
            exp_has[c][e] = now_has;
            exp_added[c][e] = now_has && !before[e];
            exp_removed[c][e] = !now_has && before[e];
        }
    }

    // ---- oracle (branch-free over symbolic payloads)
    verif_assert(!g_obs_overflow, "C13.log_overflow");
    bool ok_when = true, ok_value = true, ok_flags = true, ok_delta = true;
    int evals = 0;
    for (int k = 0; k < NCONS; k++) {
        bool seen[NCYC] = {};
        for (int n = 0; n < g_nobs[k]; n++) {
            const Obs &o = g_obs[k][n];
            if (o.cycle < 0 || o.cycle >= NCYC) { ok_when = false; continue; }
            if (seen[o.cycle]) ok_when = false;  // at most one evaluation per cycle
            seen[o.cycle] = true;
            evals++;
            ok_flags &= o.valid & o.modified;
#if MODE == 2
            for (int e = 1; e <= 2; e++) {
                ok_value &= (o.has[e] == exp_has[o.cycle][e]);
                ok_delta &= (o.added[e] == exp_added[o.cycle][e]) & (o.removed[e] == exp_removed[o.cycle][e]);
            }
#else
            ok_value &= (o.value == exp_val[o.cycle]);
#endif
        }
        for (int c = 0; c < NCYC; c++) ok_when &= (seen[c] == exp_eval[c]);
    }
#ifdef C13_DEBUG
    for (int k = 0; k < NCONS; k++)
        for (int n = 0; n < g_nobs[k]; n++) {
            const Obs &o = g_obs[k][n];
            std::fprintf(stderr, "cons%d cycle=%d valid=%d mod=%d value=%ld has={%d,%d} added={%d,%d} removed={%d,%d}\n", k, o.cycle, (int)o.valid, (int)o.modified, (long)o.value,
                         (int)o.has[1], (int)o.has[2], (int)o.added[1], (int)o.added[2], (int)o.removed[1], (int)o.removed[2]);
        }
    for (int c = 0; c < NCYC; c++)
        std::fprintf(stderr, "cycle %d sel=%d ticks=%d%d exp_eval=%d exp_val=%ld exp_has={%d,%d} exp_added={%d,%d} exp_removed={%d,%d}\n", c, g_sel[c], (int)g_tick[0][c], (int)g_tick[1][c],
                     (int)exp_eval[c], (long)exp_val[c], (int)exp_has[c][1], (int)exp_has[c][2], (int)exp_added[c][1], (int)exp_added[c][2], (int)exp_removed[c][1], (int)exp_removed[c][2]);
#endif
    verif_assert(ok_when, "C13.evaluated_iff_target_ticked_or_retargeted_to_valid");
    verif_assert(ok_value, "C13.reads_current_target_value");
    verif_assert(ok_flags, "C13.valid_and_modified_at_every_evaluation");
    verif_assert(ok_delta, "C13.set_delta_is_difference_at_retarget");

    if (any_retarget_valid) verif_reach("retarget_to_valid_target");
    if (any_retarget_invalid) verif_reach("retarget_to_target_without_value");
    if (any_same_cycle) verif_reach("retarget_and_target_tick_same_cycle");
    if (any_reselect) verif_reach("same_target_reselected");
    if (any_unselected) verif_reach("unselected_target_ticked");
    if (any_back) verif_reach("retarget_back");
    if (evals > 0) verif_reach("consumer_evaluated");
    verif_log("evals", evals);
    verif_reach("end");
    return 0;
}

// C13: reading through a reference equals reading its current target.
//   selector / a / b (/ c) scripted sources -> sel = if_then_else_impl(cond, a, b)  (modes 0, 2, 3)
//                                              sel = if_cmp_impl(cmp, a, b, c)      (mode 1)
//   (both structs extracted verbatim from the CURRENT control_impl.h by lib/hreg/C13.py pre_build)
//   two recording consumers below sel (In<TS<int>> / In<TSS<int>>: the REF output is dereferenced by the
//   runtime's from-reference alternative); mode 3: the second consumer sits inside a nested graph node and
//   receives the reference across the graph boundary.
//   modes (enumerated first): 0 if_then_else over TS<int>; 1 if_cmp over TS<int> (three targets);
//                             2 if_then_else over TSS<int>; 3 if_then_else over TS<int>, consumer 1 nested;
//                             4 if_then_else between the two ELEMENTS of one TSL<TS<int>,2> output;
//                             5 if_then_else between the two FIELDS of one TSB{p,q} output (the reference is retargeted
//                               between positions of the same node output: the owning output does not change)
//   symbolic  : every payload value of the TS targets (drawn by the source nodes in the cycle they are used)
//   enumerated: per cycle whether the selector ticks and what it selects, which targets tick (sets: which
//               element is added / removed) - i.e. the relative timing of retargets and target ticks,
//               re-selection of the same target, retarget back
//   oracle    : a consumer is evaluated in cycle k  <=>  the selected target ticked in k, or the reference was
//               retargeted in k to a target that already has a value; at every evaluation it reads the selected
//               target's current value, valid and modified; republishing the same selection and ticks of
//               unselected targets never evaluate it; (sets) the delta at a retarget is new-only added /
//               old-only removed, at a target tick the target's own delta.
#include "hk.h"

#include "c13_extracted_control_impl.h"
#include "hk_nested.h"

#include <cstdio>

#ifndef MODES
#define MODES 0x3f  // bit m enables mode m
#endif
#ifndef NCYC0
#define NCYC0 4
#endif
#ifndef NCYC1
#define NCYC1 3
#endif
#ifndef NCYC2
#define NCYC2 3
#endif
#ifndef NCYC3
#define NCYC3 4
#endif
#ifndef NCYC4
#define NCYC4 4
#endif
#ifndef NCYC5
#define NCYC5 3
#endif
#ifndef VMAX
#define VMAX 1000
#endif

using namespace hk;
using hgraph::stdlib::CmpResult;

namespace {
constexpr int MAXT = 3;  // targets (if_cmp has three)
constexpr int MAXC = 6;  // cycles
constexpr int NCONS = 2;
static_assert(NCYC0 <= MAXC && NCYC1 <= MAXC && NCYC2 <= MAXC && NCYC3 <= MAXC && NCYC4 <= MAXC && NCYC5 <= MAXC, "raise MAXC");

// ---- script (filled before the run) --------------------------------------------------------------
int g_ncyc = 0;
int g_sel[MAXC];          // 0: selector does not tick; 1..nt: selector ticks and selects target (value-1)
bool g_tick[MAXT][MAXC];  // target i ticks in cycle c
Int g_val[MAXT][MAXC];    // TS payload
int g_sop[MAXT][MAXC];    // set targets: 1 add 1, 2 add 2, 3 remove 1
DateTime g_t0;

inline int cycle_of(DateTime now) { return (int)((now - g_t0).count()); }

// ---- observation log -----------------------------------------------------------------------------
struct Obs { int cycle; bool valid; bool modified; Int value; bool has[3]; bool added[3]; bool removed[3]; };
Obs g_obs[NCONS][MAXC + 2];
int g_nobs[NCONS];
bool g_obs_overflow = false;
Obs *next_obs(int k) {
    if (g_nobs[k] >= MAXC + 2) { g_obs_overflow = true; return nullptr; }
    return &g_obs[k][g_nobs[k]++];
}

// ---- nodes ---------------------------------------------------------------------------------------
struct SelBool {
    static constexpr auto name = "c13_sel_bool";
    static constexpr bool schedule_on_start = true;
    static void eval(NodeScheduler s, DateTime now, Out<TS<Bool>> out) {
        int c = cycle_of(now);
        if (c < 0 || c >= g_ncyc) return;
        g_sel[c] = verif_choice("sel", 3);
        if (g_sel[c] == 1) out.set(true);   // selects target 0 (true_value)
        if (g_sel[c] == 2) out.set(false);  // selects target 1 (false_value)
        if (c + 1 < g_ncyc) s.schedule(MIN_TD);
    }
};
struct SelCmp {
    static constexpr auto name = "c13_sel_cmp";
    static constexpr bool schedule_on_start = true;
    static void eval(NodeScheduler s, DateTime now, Out<TS<CmpResult>> out) {
        int c = cycle_of(now);
        if (c < 0 || c >= g_ncyc) return;
        g_sel[c] = verif_choice("sel", 4);
        if (g_sel[c] == 1) out.set(CmpResult::LT);
        if (g_sel[c] == 2) out.set(CmpResult::EQ);
        if (g_sel[c] == 3) out.set(CmpResult::GT);
        if (c + 1 < g_ncyc) s.schedule(MIN_TD);
    }
};
struct SrcI {
    static constexpr auto name = "c13_src_int";
    static constexpr bool schedule_on_start = true;
    static void eval(NodeScheduler s, Scalar<"id", Int> id, DateTime now, Out<TS<Int>> out) {
        int c = cycle_of(now), i = (int)id.value();
        if (c < 0 || c >= g_ncyc) return;
        g_tick[i][c] = verif_bool("tick");
        g_val[i][c] = g_tick[i][c] ? verif_range("v", -VMAX, VMAX) : Int{0};
        if (g_tick[i][c]) out.set(g_val[i][c]);
        if (c + 1 < g_ncyc) s.schedule(MIN_TD);
    }
};
struct SrcS {
    static constexpr auto name = "c13_src_set";
    static constexpr bool schedule_on_start = true;
    static void eval(NodeScheduler s, Scalar<"id", Int> id, DateTime now, Out<TSS<Int>> out) {
        int c = cycle_of(now), i = (int)id.value();
        if (c < 0 || c >= g_ncyc) return;
        g_sop[i][c] = verif_choice("sop", 4);  // 0 no tick
        g_tick[i][c] = g_sop[i][c] != 0;
        if (g_tick[i][c]) {
            int op = g_sop[i][c];
            if (op == 1) out.add(Int{1});
            if (op == 2) out.add(Int{2});
            if (op == 3) out.remove(Int{1});
        }
        if (c + 1 < g_ncyc) s.schedule(MIN_TD);
    }
};
// one node output holding both candidate targets
struct SrcPairList {
    static constexpr auto name = "c13_src_pair_list";
    static constexpr bool schedule_on_start = true;
    static void eval(NodeScheduler s, DateTime now, Out<TSL<TS<Int>, 2>> out) {
        int c = cycle_of(now);
        if (c < 0 || c >= g_ncyc) return;
        for (int i = 0; i < 2; i++) {
            g_tick[i][c] = verif_bool("tick");
            g_val[i][c] = g_tick[i][c] ? verif_range("v", -VMAX, VMAX) : Int{0};
            if (g_tick[i][c]) out[(std::size_t)i].set(g_val[i][c]);
        }
        if (c + 1 < g_ncyc) s.schedule(MIN_TD);
    }
};
using PairBundle = TSB<"C13Pair", Field<"p", TS<Int>>, Field<"q", TS<Int>>>;
struct SrcPairBundle {
    static constexpr auto name = "c13_src_pair_bundle";
    static constexpr bool schedule_on_start = true;
    static void eval(NodeScheduler s, DateTime now, Out<PairBundle> out) {
        int c = cycle_of(now);
        if (c < 0 || c >= g_ncyc) return;
        for (int i = 0; i < 2; i++) {
            g_tick[i][c] = verif_bool("tick");
            g_val[i][c] = g_tick[i][c] ? verif_range("v", -VMAX, VMAX) : Int{0};
        }
        if (g_tick[0][c]) out.field<"p">().set(g_val[0][c]);
        if (g_tick[1][c]) out.field<"q">().set(g_val[1][c]);
        if (c + 1 < g_ncyc) s.schedule(MIN_TD);
    }
};
struct ConsI {
    static constexpr auto name = "c13_cons_int";
    static void eval(In<"x", TS<Int>> x, Scalar<"id", Int> id, DateTime now) {
        Obs *o = next_obs((int)id.value());
        if (!o) return;
        o->cycle = cycle_of(now);
        o->valid = x.valid();
        o->modified = x.modified();
        o->value = o->valid ? x.value() : Int{0};
    }
};
struct ConsS {
    static constexpr auto name = "c13_cons_set";
    static void eval(In<"x", TSS<Int>> x, Scalar<"id", Int> id, DateTime now) {
        Obs *o = next_obs((int)id.value());
        if (!o) return;
        o->cycle = cycle_of(now);
        o->valid = x.valid();
        o->modified = x.modified();
        o->value = 0;
        for (int e = 1; e <= 2; e++) {
            o->has[e] = x.contains(Int{e});
            o->added[e] = false;
            o->removed[e] = false;
        }
        for (Int v : x.added()) if (v >= 1 && v <= 2) o->added[v] = true;
        for (Int v : x.removed()) if (v >= 1 && v <= 2) o->removed[v] = true;
    }
};

struct TopIte {
    static constexpr auto name = "c13_ite";
    static void compose(Wiring &w) {
        auto sel = wire<SelBool>(w);
        auto a = wire<SrcI>(w, Int{0});
        auto b = wire<SrcI>(w, Int{1});
        auto r = wire<stdlib::if_then_else_impl>(w, sel, a, b);
        wire<ConsI>(w, r, Int{0});
        wire<ConsI>(w, r, Int{1});
    }
};
struct TopCmp {
    static constexpr auto name = "c13_cmp";
    static void compose(Wiring &w) {
        auto sel = wire<SelCmp>(w);
        auto a = wire<SrcI>(w, Int{0});
        auto b = wire<SrcI>(w, Int{1});
        auto c = wire<SrcI>(w, Int{2});
        auto r = wire<stdlib::if_cmp_impl>(w, sel, a, b, c);
        wire<ConsI>(w, r, Int{0});
        wire<ConsI>(w, r, Int{1});
    }
};
struct TopSet {
    static constexpr auto name = "c13_ite_set";
    static void compose(Wiring &w) {
        auto sel = wire<SelBool>(w);
        auto a = wire<SrcS>(w, Int{0});
        auto b = wire<SrcS>(w, Int{1});
        auto r = wire<stdlib::if_then_else_impl>(w, sel, a, b);
        wire<ConsS>(w, r, Int{0});
        wire<ConsS>(w, r, Int{1});
    }
};
struct TopPairList {
    static constexpr auto name = "c13_ite_pair_list";
    static void compose(Wiring &w) {
        auto sel = wire<SelBool>(w);
        auto pair = wire<SrcPairList>(w);
        Port<TS<Int>> a{w, pair.node(), {0}};
        Port<TS<Int>> b{w, pair.node(), {1}};
        auto r = wire<stdlib::if_then_else_impl>(w, sel, a, b);
        wire<ConsI>(w, r, Int{0});
        wire<ConsI>(w, r, Int{1});
    }
};
struct TopPairBundle {
    static constexpr auto name = "c13_ite_pair_bundle";
    static void compose(Wiring &w) {
        auto sel = wire<SelBool>(w);
        auto pair = wire<SrcPairBundle>(w);
        Port<TS<Int>> a{w, pair.node(), {0}};
        Port<TS<Int>> b{w, pair.node(), {1}};
        auto r = wire<stdlib::if_then_else_impl>(w, sel, a, b);
        wire<ConsI>(w, r, Int{0});
        wire<ConsI>(w, r, Int{1});
    }
};
struct NestedConsumerTag {};
struct TopNested {
    static constexpr auto name = "c13_ite_nested";
    static void compose(Wiring &w) {
        auto sel = wire<SelBool>(w);
        auto a = wire<SrcI>(w, Int{0});
        auto b = wire<SrcI>(w, Int{1});
        auto r = wire<stdlib::if_then_else_impl>(w, sel, a, b);
        wire<ConsI>(w, r, Int{0});
        // the second consumer lives in a child graph behind a real single_nested_graph_node; the reference output is
        // the boundary argument, dereferenced inside the child
        (void)hk::nested_call(w, "c13_child", std::type_index(typeid(NestedConsumerTag)), {r.erased()},
                              [](Wiring &cw, std::span<const WiringPortRef> in) -> std::optional<WiringPortRef> {
                                  wire<ConsI>(cw, Port<TS<Int>>{cw, in[0]}, Int{1});
                                  return std::nullopt;
                              });
    }
};
}  // namespace

extern "C" int harness_main() {
    // ---- mode first; the script (enumerated timing, symbolic payloads) is drawn lazily by the source nodes in the cycle
    // that uses it, so that all histories share the graph build and their common prefix of cycles
    const int mode = verif_choice("mode", 6);
    if (!((MODES >> mode) & 1)) { verif_end_path(); return 0; }
    const int nt = mode == 1 ? 3 : 2;
    const bool sets = mode == 2;
    g_ncyc = mode == 0 ? NCYC0 : mode == 1 ? NCYC1 : mode == 2 ? NCYC2 : mode == 3 ? NCYC3 : mode == 4 ? NCYC4 : NCYC5;
    g_t0 = MIN_ST;
    {
        GraphBuilder gb = mode == 0 ? build_graph<TopIte>() : mode == 1 ? build_graph<TopCmp>() : mode == 2 ? build_graph<TopSet>() : mode == 3 ? build_graph<TopNested>()
                          : mode == 4 ? build_graph<TopPairList>() : build_graph<TopPairBundle>();
        run_sim(std::move(gb), g_t0, g_t0 + TimeDelta{g_ncyc + 2});
    }

    // ---- model of what the statement promises
    bool t_valid[MAXT] = {};
    Int t_val[MAXT] = {};
    bool t_has[MAXT][3] = {};
    int cur = -1;  // currently referenced target
    bool exp_eval[MAXC];
    Int exp_val[MAXC];
    bool exp_has[MAXC][3], exp_added[MAXC][3], exp_removed[MAXC][3], exp_retarget[MAXC];
    bool any_retarget_valid = false, any_retarget_invalid = false, any_reselect = false, any_unselected = false, any_back = false, any_same_cycle = false,
         any_set_diff = false, any_within = false;
    int first_target = -1;
    for (int c = 0; c < g_ncyc; c++) {
        bool before[3] = {false, false, false};
        if (cur >= 0) for (int e = 1; e <= 2; e++) before[e] = t_has[cur][e];
        bool ticked[MAXT] = {};
        for (int i = 0; i < nt; i++) {
            if (!g_tick[i][c]) continue;
            ticked[i] = true;  // (a set output ticks on every add/remove call: a no-op on a valid set is an empty tick)
            t_valid[i] = true;
            if (sets) {
                int op = g_sop[i][c];
                if (op == 1) t_has[i][1] = true;
                if (op == 2) t_has[i][2] = true;
                if (op == 3) t_has[i][1] = false;
            } else {
                t_val[i] = g_val[i][c];
            }
        }
        bool retarget = false;
        if (g_sel[c] != 0) {
            int want = g_sel[c] - 1;
            if (want != cur) {
                retarget = true;
                if (cur >= 0 && first_target == want) any_back = true;
                if (first_target < 0) first_target = want;
                if (t_valid[want]) { any_retarget_valid = true; if (ticked[want]) any_same_cycle = true; } else any_retarget_invalid = true;
                if (mode >= 4 && cur >= 0 && t_valid[want] && t_valid[cur]) any_within = true;  // both positions of ONE output hold a value
            } else {
                any_reselect = true;
            }
            cur = want;
        }
        for (int i = 0; i < nt; i++) if (ticked[i] && i != cur) any_unselected = true;
        exp_retarget[c] = retarget;
        exp_eval[c] = cur >= 0 && t_valid[cur] && (ticked[cur] || retarget);
        exp_val[c] = cur >= 0 ? t_val[cur] : Int{0};
        for (int e = 1; e <= 2; e++) {
            bool now_has = cur >= 0 && t_has[cur][e];
            exp_has[c][e] = now_has;
            exp_added[c][e] = now_has && !before[e];
            exp_removed[c][e] = !now_has && before[e];
            if (retarget && exp_eval[c] && (exp_added[c][e] || exp_removed[c][e]) && (before[1] || before[2])) any_set_diff = true;
        }
    }

    // ---- oracle (branch-free over symbolic payloads)
    verif_assert(!g_obs_overflow, "C13.log_overflow");
    bool ok_when = true, ok_value = true, ok_flags = true, ok_delta = true, ok_spurious = true, saw_spurious = false;
    int evals = 0;
    for (int k = 0; k < NCONS; k++) {
        bool seen[MAXC] = {};
        for (int n = 0; n < g_nobs[k]; n++) {
            const Obs &o = g_obs[k][n];
            if (o.cycle < 0 || o.cycle >= g_ncyc) { ok_when = false; continue; }
            if (seen[o.cycle]) ok_when = false;  // at most one evaluation per cycle
            seen[o.cycle] = true;
            evals++;
            ok_flags &= o.valid & o.modified;
            if (sets) {
                for (int e = 1; e <= 2; e++) {
                    ok_value &= (o.has[e] == exp_has[o.cycle][e]);
                    // reported under its own id: at a retarget, a removal of an element that is in neither the old nor the
                    // new visible contents (it comes from a removed slot of one of the two targets, see notes/C13.md)
                    const bool spurious = exp_retarget[o.cycle] && o.removed[e] && !exp_removed[o.cycle][e] && !exp_has[o.cycle][e];
                    if (spurious) { ok_spurious = false; saw_spurious = true; }
                    ok_delta &= (o.added[e] == exp_added[o.cycle][e]) & ((o.removed[e] == exp_removed[o.cycle][e]) | spurious);
                }
            } else {
                ok_value &= (o.value == exp_val[o.cycle]);
            }
        }
        for (int c = 0; c < g_ncyc; c++) ok_when &= (seen[c] == exp_eval[c]);
    }
#ifdef C13_DEBUG
    for (int k = 0; k < NCONS; k++)
        for (int n = 0; n < g_nobs[k]; n++) {
            const Obs &o = g_obs[k][n];
            std::fprintf(stderr, "cons%d cycle=%d valid=%d mod=%d value=%ld has={%d,%d} added={%d,%d} removed={%d,%d}\n", k, o.cycle, (int)o.valid, (int)o.modified, (long)o.value,
                         (int)o.has[1], (int)o.has[2], (int)o.added[1], (int)o.added[2], (int)o.removed[1], (int)o.removed[2]);
        }
    for (int c = 0; c < g_ncyc; c++)
        std::fprintf(stderr, "cycle %d sel=%d ticks=%d%d%d sop=%d%d exp_eval=%d exp_val=%ld exp_has={%d,%d} exp_added={%d,%d} exp_removed={%d,%d}\n", c, g_sel[c], (int)g_tick[0][c],
                     (int)g_tick[1][c], (int)g_tick[2][c], g_sop[0][c], g_sop[1][c], (int)exp_eval[c], (long)exp_val[c], (int)exp_has[c][1], (int)exp_has[c][2], (int)exp_added[c][1],
                     (int)exp_added[c][2], (int)exp_removed[c][1], (int)exp_removed[c][2]);
#endif
    verif_assert(ok_when, "C13.evaluated_iff_target_ticked_or_retargeted_to_valid");
    verif_assert(ok_value, "C13.reads_current_target_value");
    verif_assert(ok_flags, "C13.valid_and_modified_at_every_evaluation");
    verif_assert(ok_delta, "C13.set_delta_is_difference_at_retarget");
    verif_assert(ok_spurious, "C13.set_retarget_reports_no_removal_of_unseen_element");

    if (any_retarget_valid) verif_reach("retarget_to_valid_target");
    if (any_retarget_invalid) verif_reach("retarget_to_target_without_value");
    if (any_same_cycle) verif_reach("retarget_and_target_tick_same_cycle");
    if (any_reselect) verif_reach("same_target_reselected");
    if (any_unselected) verif_reach("unselected_target_ticked");
    if (any_back) verif_reach("retarget_back");
    if (any_set_diff) verif_reach("set_retarget_with_difference");
    if (saw_spurious) verif_reach("class_set_retarget_spurious_removal");
    if (any_within) verif_reach("retarget_within_same_output");
    if (any_within && mode == 5) verif_reach("retarget_within_same_bundle_output");
    if (evals > 0) verif_reach(mode == 0 ? "consumer_evaluated_if_then_else" : mode == 1 ? "consumer_evaluated_if_cmp" : mode == 2 ? "consumer_evaluated_set" : mode == 3 ? "consumer_evaluated_nested"
                               : "consumer_evaluated_same_output");
    verif_log("mode", mode);
    verif_log("evals", evals);
    verif_reach("end");
    return 0;
}

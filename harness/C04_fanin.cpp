// C04 (unit level, no graph): fan-in consumers - an older modification time reaching a tracking record never rewinds
// last_modified_time at any level.  A real TSInput whose root is the non-peered bundle TSB{items: X}, X = TSL<TS<int>,2>
// (non-peered list of peered elements) or X = TSB{a,b} (non-peered bundle of peered fields); each element is bound to its
// OWN TSOutput<TS<int>>, possibly late (TSInputView::bind_output from harness code, as nested-graph instantiation does):
// binding replays the source's historical stamp t_old into the link and up the parent chain (list / bundle, root).
//   symbolic  : base time, every gap between cycles (so t_old < T symbolically), payloads
//   enumerated: container kind, per cycle the operations {nothing, write source i, bind element i to source i} in every order
//   oracle    : every element reads modified / valid / last_modified_time / value of its source; the container and the root
//               read the monotone maximum of the stamps that reached them (a replayed older stamp changes nothing once a newer
//               one is recorded); a parent is modified whenever a child is, a fixed-shape parent only then; the active
//               consumer is notified exactly when the root stamp advances, with that (never a stale) time.
#include "hk_ts.h"

#ifndef NCYC
#define NCYC 2  // cycles: NCYC+1, the last one with LAST_OPS operations
#endif
#ifndef NOPS
#define NOPS 2
#endif
#ifndef LAST_OPS
#define LAST_OPS 1
#endif
#ifndef GMAX
#define GMAX 1000
#endif
#ifndef VMAX
#define VMAX 1000000
#endif

using namespace hkts;

namespace {
constexpr int N_CYCLES = NCYC + 1;
ReachLog g_reach;

// cycle-index model: every stamp is the time of some cycle, so stamps are compared as (concrete) cycle indices
DateTime g_tcyc[N_CYCLES + 1];
DateTime at_idx(int idx) { return idx < 0 ? MIN_DT : g_tcyc[idx]; }
int g_o_idx[2] = {-1, -1};  // cycle of the last write of source i
I64 g_o_val[2] = {0, 0};
bool g_bound[2] = {false, false};
int g_cont_idx = -1;        // stamp of the container (and of the root, whose only child it is)
int g_cur = 0;
bool g_child_event_now = false;  // the container legitimately received a stamp of the current cycle

bool ok_elem = true, ok_parent = true, ok_up = true, ok_only = true, ok_notify = true, ok_value = true, ok_listed = true;

struct Note : Notifiable {
    int count = 0;
    bool expected = false;     // a notification is due for the operation in flight
    DateTime expect_time = MIN_DT;
    void notify(DateTime t) override {
        count++;
        ok_notify &= expected & (t == expect_time);
        expected = false;  // at most one per operation
    }
};

TSOutput *g_src[2];
TSInput *g_in = nullptr;
Note *g_note = nullptr;
bool g_bundle = false;  // container kind

TSInputView items_view(DateTime t) {
    auto root = g_in->view(g_note, t);
    auto b = root.as_bundle();
    return b.field("items");
}
TSInputView elem_view(DateTime t, int i) {
    auto items = items_view(t);
    return items.indexed_child_at((std::size_t)i);
}

// a stamp with cycle index idx reaches the container: the monotone record keeps the maximum and notifies on advance only
void stamp_reaches_container(int idx, bool &notify_due) {
    notify_due = idx > g_cont_idx;
    if (idx > g_cont_idx) g_cont_idx = idx;
    if (idx == g_cur) g_child_event_now = true;
}

void apply_op(int op, DateTime t) {
    if (op == 0) return;
    int i = verif_choice("elem", 2);
    bool due = false;
    int before = g_note->count;
    if (op == 1) {
        I64 v = verif_range("val", -VMAX, VMAX);
        if (g_bound[i]) stamp_reaches_container(g_cur, due);
        g_note->expected = due; g_note->expect_time = t;
        write_i64(g_src[i]->view(t), t, v);
        g_o_idx[i] = g_cur; g_o_val[i] = v;
        if (g_bound[i]) g_reach.mark("bound_source_ticks");
    } else {
        if (g_bound[i]) return;
        bool older = g_o_idx[i] >= 0 && g_o_idx[i] < g_cont_idx;
        bool older_same_cycle = older && g_cont_idx == g_cur;
        if (g_o_idx[i] >= 0) stamp_reaches_container(g_o_idx[i], due);
        g_note->expected = due; g_note->expect_time = at_idx(g_o_idx[i]);
        { auto e = elem_view(t, i); e.bind_output(g_src[i]->view(t)); }
        g_bound[i] = true;
        if (g_o_idx[i] < 0) g_reach.mark("late_bind_of_unwritten_source");
        if (older) g_reach.mark("late_bind_replays_older_time");
        if (older_same_cycle) g_reach.mark("late_bind_replays_older_time_after_parent_ticked_this_cycle");
        if (g_o_idx[i] == g_cur) g_reach.mark("late_bind_of_source_written_this_cycle");
    }
    // exactly one notification when the root stamp advances, none otherwise
    ok_notify &= ((g_note->count - before) == (due ? 1 : 0));
    g_note->expected = false;
}

void check_all(DateTime T) {
    bool any_elem_mod = false;
    auto root = g_in->view(g_note, T);
    auto items = items_view(T);
    bool cont_mod = items.modified(), root_mod = root.modified();
    for (int i = 0; i < 2; i++) {
        auto e = elem_view(T, i);
        bool em = e.modified(), ev = e.valid();
        DateTime el = e.last_modified_time();
        if (g_bound[i]) {
            auto ov = g_src[i]->view(T);
            ok_elem &= (em == ov.modified()) & (ev == ov.valid()) & (el == ov.last_modified_time());
            ok_elem &= (ev == (g_o_idx[i] >= 0)) & (el == at_idx(g_o_idx[i])) & (em == (g_o_idx[i] >= 0 && at_idx(g_o_idx[i]) == T));
            if (g_o_idx[i] >= 0) ok_value &= (as_i64(e.value()) == g_o_val[i]);
        } else {
            ok_elem &= (!em) & (!ev) & (el == MIN_DT);
        }
        any_elem_mod |= em;
        ok_up &= (!em) | (cont_mod & root_mod);  // a parent is modified whenever one of its children is
    }
    // the container's own modified / valid ranges name exactly the modified / valid elements (its per-child marks are not
    // rebased by a replayed older time either)
    {
        int n_mod = 0, n_valid = 0, want_mod_n = 0, want_valid_n = 0;
        for (int i = 0; i < 2; i++) {
            want_mod_n += (g_bound[i] && g_o_idx[i] >= 0 && g_o_idx[i] == g_cur && g_tcyc[g_cur] == T) ? 1 : 0;
            want_valid_n += (g_bound[i] && g_o_idx[i] >= 0) ? 1 : 0;
        }
        if (g_bundle) {
            auto b = items.as_bundle();
            for (auto v : b.modified_values()) { (void)v; n_mod++; }
            for (auto v : b.valid_values()) { (void)v; n_valid++; }
        } else {
            auto l = items.as_list();
            for (auto v : l.modified_values()) { (void)v; n_mod++; }
            for (auto v : l.valid_values()) { (void)v; n_valid++; }
        }
        ok_listed &= (n_mod == want_mod_n) & (n_valid == want_valid_n);
    }
    // container and root: the monotone maximum of the stamps that reached them - never rewound by a replayed older time
    DateTime want = at_idx(g_cont_idx);
    bool want_mod = g_cont_idx >= 0 && want == T;
    ok_parent &= (items.last_modified_time() == want) & (cont_mod == want_mod) & (items.valid() == (g_cont_idx >= 0));
    ok_parent &= (root.last_modified_time() == want) & (root_mod == want_mod) & (root.valid() == (g_cont_idx >= 0));
    // a fixed-shape parent is modified only when one of its children is (a bind that replays a stamp of THIS cycle counts)
    ok_only &= (!cont_mod) | any_elem_mod | g_child_event_now;
}
}  // namespace

extern "C" int harness_main() {
    const auto &S = schemas();
    auto &reg = TypeRegistry::instance();
    const auto *root_l = reg.tsb("VerifC04FanInL", {{"items", S.tsl2}});
    const auto *root_b = reg.tsb("VerifC04FanInB", {{"items", S.tsb}});
    g_bundle = verif_bool("bundle_container");
    TSOutput o0{*S.ts}, o1{*S.ts};
    g_src[0] = &o0; g_src[1] = &o1;
    Note note;
    g_note = &note;
    TSInput in = g_bundle
        ? TSInput{TSInputBuilderFactory::checked_builder_for(*root_b, TSEndpointSchema::non_peered(root_b, {TSEndpointSchema::non_peered(S.tsb, {TSEndpointSchema::peered(S.ts), TSEndpointSchema::peered(S.ts)})}))}
        : TSInput{TSInputBuilderFactory::checked_builder_for(*root_l, TSEndpointSchema::non_peered(root_l, {TSEndpointSchema::non_peered_list(S.tsl2, TSEndpointSchema::peered(S.ts))}))};
    g_in = &in;

    std::int64_t base = verif_range("base", 0, 1000000);
    DateTime t = MIN_ST + TimeDelta{base};
    { auto r = in.view(&note, t); r.make_active(); }
    g_tcyc[0] = t;
    check_all(t);
    for (int cyc = 0; cyc < N_CYCLES; cyc++) {
        if (cyc > 0) t = t + TimeDelta{verif_range("gap", 1, GMAX)};
        g_cur = cyc;
        g_tcyc[cyc] = t;
        g_child_event_now = false;
        int nops = cyc == N_CYCLES - 1 ? LAST_OPS : NOPS;
        for (int i = 0; i < nops; i++) apply_op(verif_choice("op", 3), t);
        check_all(t);
        g_child_event_now = false;
        check_all(t + TimeDelta{1});  // idle instant
    }
    verif_assert(ok_elem, "C04.fanin_element_same_flags_as_its_source");
    verif_assert(ok_value, "C04.fanin_element_value");
    verif_assert(ok_parent, "C04.fanin_parent_stamp_is_monotone_maximum");
    verif_assert(ok_listed, "C04.fanin_container_lists_exactly_the_modified_children");
    verif_assert(ok_up, "C04.parent_modified_when_child_is");
    verif_assert(ok_only, "C04.fixed_parent_modified_only_with_child");
    verif_assert(ok_notify, "C04.fanin_consumer_notified_once_per_advance_never_with_stale_time");
    g_reach.mark(g_bundle ? "fanin_bundle" : "fanin_list");
    g_reach.flush();
    verif_reach("end");
    return 0;
}

// C06 (wiring order): the behaviour of a graph depends on its dataflow, not on the order of the wiring statements.
//   A pool of small dataflow programs is given as statement lists with their port dependencies.  One path wires
//   the program twice through the real Wiring API - once in the reference (listed) order, once in an ENUMERATED
//   admissible permutation (every statement after the statements whose ports it consumes) - builds both with the real
//   build_ranked_graph/finish and runs both in the real simulation executor on the same SYMBOLIC input script.
//   programs : 0 diamond           s; b=F(s); c=G(s); d=ADD(b,c); rec0(d); rec1(b)
//              1 fan-in            s0; s1; m=ADD(s0,s1); rec0(m); n=F(s1); rec1(n)
//              2 shared sub-expr   s; b=F(s); c=F(s) [same definition+input: interned]; d=ADD(b,c); rec0(d)
//              3 feedback loop     s; fb=feedback(); acc=ADDU(s,fb()); fb(acc); rec0(acc); rec1(fb())
//              4 structural input  s; sh=F(s); d1=G(s); dp=F(d1); ls=LSUM({sh, dp}) [one TSL<TS<Int>,2> input fed by a structural
//                                  source whose two producers sit at different depths below s]; rec0(ls)
//   symbolic : emission times of both script sources (first offset >= 0, gaps >= 1 us) and their values, start, window
//   oracle   : per recorder identical (time, value) streams; identical node and edge counts; identical number of node
//              evaluations in every engine cycle; identical cycle times; program 2 has exactly one F node in both orders
#include "hk.h"

#include <hgraph/lib/std/operators/control.h>

#ifndef NX
#define NX 2
#endif
#ifndef DMAX
#define DMAX 3
#endif
#ifndef WMAX
#define WMAX 5
#endif
#ifndef NPROG
#define NPROG 5
#endif
#ifndef PROG_MASK
#define PROG_MASK 0x1f
#endif

using namespace hk;

namespace {
constexpr int MAXS = 6;                 // statements per program
constexpr int MAXO = 2 * NX + WMAX + 4; // ticks per recorder
constexpr int NREC = 2;
constexpr int LOGCAP = 16 * (WMAX + 2) + 32;

DateTime g_T[2][NX];
Int g_V[2][NX];
DateTime g_start, g_end;
int g_run = 0;  // 0 reference order, 1 permuted order

struct Tick { DateTime t; Int v; };
struct RunLog { Tick rec[NREC][MAXO]; int n[NREC] = {0, 0}; bool overflow = false; std::size_t nodes = 0, edges = 0; };
RunLog g_r[2];
EventLog<LOGCAP> g_log[2];

template <int ID> struct Src {
    static constexpr auto name = "c06_src";
    static constexpr bool schedule_on_start = true;
    static void eval(NodeScheduler s, State<Int> k, DateTime now, Out<TS<Int>> out) {
        Int i = k.get();
        if (i < NX && now == g_T[ID][i]) { out.set(g_V[ID][i]); i++; k.set(i); }
        if (i < NX) s.schedule(g_T[ID][i]);
    }
};
struct F { static constexpr auto name = "c06_f"; static void eval(In<"a", TS<Int>> a, Out<TS<Int>> out) { out.set(2 * a.value() + 1); } };
struct G { static constexpr auto name = "c06_g"; static void eval(In<"a", TS<Int>> a, Out<TS<Int>> out) { out.set(5 - a.value()); } };
struct Add {
    static constexpr auto name = "c06_add";
    static void eval(In<"a", TS<Int>> a, In<"b", TS<Int>> b, Out<TS<Int>> out) { out.set(a.value() + 3 * b.value()); }
};
struct AddU {  // second input may be invalid (feedback without initial value); writes only when `a` ticks
    static constexpr auto name = "c06_addu";
    static void eval(In<"a", TS<Int>> a, In<"b", TS<Int>, InputValidity::Unchecked> b, Out<TS<Int>> out) {
        if (a.modified()) out.set(a.value() + (b.valid() ? 3 * b.value() : Int{7}));
    }
};
struct LSum {  // ONE structural input with two producers
    static constexpr auto name = "c06_lsum";
    static void eval(In<"v", TSL<TS<Int>, 2>> v, Out<TS<Int>> out) {
        if (v[0].valid() && v[1].valid()) out.set(v[0].value() + 5 * v[1].value());
    }
};
template <int ID> struct Rec {
    static constexpr auto name = "c06_rec";
    static void eval(In<"a", TS<Int>> a, DateTime now) {
        RunLog &L = g_r[g_run];
        if (L.n[ID] < MAXO) L.rec[ID][L.n[ID]++] = Tick{now, a.value()}; else L.overflow = true;
    }
};

enum Op { SRC0, SRC1, OPF, OPG, ADD, ADDU, REC0, REC1, FB_NEW, FB_BIND, FB_READ_REC1, LSUM };
struct Stmt { Op op; int a; int b; };  // a, b: indices of the statements whose port is consumed (-1: none)
struct Program { int n; Stmt s[MAXS]; };
const Program PROGS[5] = {
    {6, {{SRC0, -1, -1}, {OPF, 0, -1}, {OPG, 0, -1}, {ADD, 1, 2}, {REC0, 3, -1}, {REC1, 1, -1}}},
    {6, {{SRC0, -1, -1}, {SRC1, -1, -1}, {ADD, 0, 1}, {REC0, 2, -1}, {OPF, 1, -1}, {REC1, 4, -1}}},
    {5, {{SRC0, -1, -1}, {OPF, 0, -1}, {OPF, 0, -1}, {ADD, 1, 2}, {REC0, 3, -1}}},
    {6, {{SRC0, -1, -1}, {FB_NEW, -1, -1}, {ADDU, 0, 1}, {FB_BIND, 1, 2}, {REC0, 2, -1}, {FB_READ_REC1, 1, -1}}},
    {6, {{SRC0, -1, -1}, {OPF, 0, -1}, {OPG, 0, -1}, {OPF, 2, -1}, {LSUM, 1, 3}, {REC0, 4, -1}}},
};

int g_prog = 0;
int g_order[2][MAXS];  // statement order of each run

struct Top {
    static constexpr auto name = "c06_top";
    static void compose(Wiring &w) {
        const Program &P = PROGS[g_prog];
        Port<TS<Int>> port[MAXS];
        stdlib::FeedbackWiringPort<TS<Int>> fb[MAXS];
        for (int pos = 0; pos < P.n; pos++) {
            int k = g_order[g_run][pos];
            const Stmt &st = P.s[k];
            switch (st.op) {
                case SRC0: port[k] = wire<Src<0>>(w); break;
                case SRC1: port[k] = wire<Src<1>>(w); break;
                case OPF: port[k] = wire<F>(w, port[st.a]); break;
                case OPG: port[k] = wire<G>(w, port[st.a]); break;
                case ADD: port[k] = wire<Add>(w, port[st.a], port[st.b]); break;
                case ADDU: port[k] = wire<AddU>(w, port[st.a], port[st.b]); break;
                case REC0: wire<Rec<0>>(w, port[st.a]); break;
                case REC1: wire<Rec<1>>(w, port[st.a]); break;
                case FB_NEW: fb[k] = stdlib::feedback<TS<Int>>(w); port[k] = fb[k](); break;
                case FB_BIND: fb[st.a](port[st.b]); break;
                case FB_READ_REC1: wire<Rec<1>>(w, fb[st.a]()); break;
                case LSUM: port[k] = wire<LSum>(w, {port[st.a], port[st.b]}); break;
            }
        }
    }
};
}  // namespace

extern "C" int harness_main() {
    g_prog = verif_choice("prog", NPROG);
    if (!((PROG_MASK >> g_prog) & 1)) { verif_end_path(); return 0; }
    const Program &P = PROGS[g_prog];
    // ---- enumerate an admissible permutation: at every position choose among the statements that are ready
    bool placed[MAXS] = {false, false, false, false, false, false};
    bool differs = false;
    for (int pos = 0; pos < P.n; pos++) {
        int ready[MAXS], nr = 0;
        for (int k = 0; k < P.n; k++) {
            if (placed[k]) continue;
            const Stmt &st = P.s[k];
            if ((st.a < 0 || placed[st.a]) && (st.b < 0 || placed[st.b])) ready[nr++] = k;
        }
        int c = nr > 1 ? verif_choice("pick", nr) : 0;
        g_order[0][pos] = pos;
        g_order[1][pos] = ready[c];
        placed[ready[c]] = true;
        if (ready[c] != pos) differs = true;
    }

    std::int64_t s0 = verif_range("start", 0, 1000);
    std::int64_t win = verif_range("window", 1, WMAX);
    g_start = at_us(s0);
    g_end = g_start + TimeDelta{win};
    const int nscripts = g_prog == 1 ? 2 : 1;
    for (int sc = 0; sc < nscripts; sc++) {
        DateTime t = g_start;
        for (int j = 0; j < NX; j++) {
            t = t + TimeDelta{verif_range(sc == 0 ? "gap" : "gapb", j == 0 ? 0 : 1, DMAX)};
            g_T[sc][j] = t;
            g_V[sc][j] = verif_range(sc == 0 ? "val" : "valb", -1000000, 1000000);
        }
    }

    for (g_run = 0; g_run < 2; g_run++) {
        GraphBuilder gb = build_graph<Top>();
        g_r[g_run].nodes = gb.node_count();
        g_r[g_run].edges = gb.edges().size();
        RecordingObserver<LOGCAP> obs{&g_log[g_run]};
        run_sim(std::move(gb), g_start, g_end, &obs);
    }

    // ---- oracle
    verif_assert(!g_r[0].overflow && !g_r[1].overflow && !g_log[0].overflow && !g_log[1].overflow, "C06.log_overflow");
    verif_assert(g_r[0].nodes == g_r[1].nodes, "C06.same_node_count_in_any_wiring_order");
    verif_assert(g_r[0].edges == g_r[1].edges, "C06.same_edge_count_in_any_wiring_order");
    if (g_prog == 2) {
        verif_assert(g_r[0].nodes == 4 && g_r[1].nodes == 4, "C06.duplicate_subexpression_shared_in_any_order");
        verif_reach("shared_subexpression");
    }
    bool ok_stream = true, ok_count = true;
    int total = 0;
    for (int r = 0; r < NREC; r++) {
        ok_count &= g_r[0].n[r] == g_r[1].n[r];
        int n = g_r[0].n[r] < g_r[1].n[r] ? g_r[0].n[r] : g_r[1].n[r];
        for (int i = 0; i < n; i++) ok_stream &= (g_r[0].rec[r][i].t == g_r[1].rec[r][i].t) & (g_r[0].rec[r][i].v == g_r[1].rec[r][i].v);
        total += g_r[0].n[r];
    }
    verif_assert(ok_count, "C06.same_number_of_output_ticks_in_any_wiring_order");
    verif_assert(ok_stream, "C06.same_output_streams_in_any_wiring_order");
    // engine cycles: same times, same number of node evaluations per cycle
    bool ok_cycles = true;
    int cyc[2] = {0, 0};
    {
        DateTime ct[2][WMAX + 2];
        int ne[2][WMAX + 2];
        for (int run = 0; run < 2; run++) {
            for (int i = 0; i < g_log[run].n; i++) {
                const Event &e = g_log[run].ev[i];
                if (e.kind == EV_GRAPH_BEGIN && cyc[run] < WMAX + 2) { ct[run][cyc[run]] = e.t; ne[run][cyc[run]] = 0; cyc[run]++; }
                if (e.kind == EV_NODE_BEGIN && cyc[run] > 0) ne[run][cyc[run] - 1]++;
            }
        }
        ok_cycles &= cyc[0] == cyc[1];
        int n = cyc[0] < cyc[1] ? cyc[0] : cyc[1];
        for (int i = 0; i < n; i++) ok_cycles &= (ct[0][i] == ct[1][i]) & (ne[0][i] == ne[1][i]);
    }
    verif_assert(ok_cycles, "C06.same_cycles_and_evaluation_counts_in_any_wiring_order");

    if (differs) verif_reach("permuted_order"); else verif_reach("identity_permutation");
    if (total >= 2) verif_reach("two_output_ticks");
    if (g_prog == 3 && g_r[0].n[1] >= 1) verif_reach("feedback_delivered");
    if (g_prog == 4 && g_r[0].n[0] >= 1) verif_reach("structural_input_producers_at_different_depths");
    if (g_prog == 1) {
        bool together = false;
        for (int i = 0; i < NX; i++) for (int j = 0; j < NX; j++) if (g_T[0][i] == g_T[1][j] && g_T[0][i] < g_end) together = true;
        if (together) verif_reach("fan_in_sources_tick_together");
    }
    verif_log("cycles", cyc[0]);
    verif_reach("end");
    return 0;
}

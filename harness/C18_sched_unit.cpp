// C18 (unit level): NodeScheduler over a NodeSchedulerState, driven by a bounded symbolic
// operation sequence, compared after every operation with a mirror model of the pending requests.
//   symbolic : every requested time / delta (around `now`: past, now, now+1 .. now+KMAX)
//   enumerated: operation kind and tag per step, started / not-yet-started
//   oracle   : next_scheduled_time / is_scheduled / is_scheduled_now / has_tag / tag_time /
//              tag_is_scheduled_now / pop_tag agree with the model; a tag holds <= 1 pending time;
//              current/past requests after start change nothing; a current-time request before
//              start is kept; advance() consumes exactly the due events.
#include <hgraph/runtime/node_scheduler.h>

#include "verif.h"

#ifndef NOPS
#define NOPS 3
#endif
#ifndef KMAX
#define KMAX 3
#endif

using namespace hgraph;

namespace {
constexpr int MAXU = NOPS + 1;  // untagged pending times (a set)
struct Model {
    bool has[2] = {false, false};
    DateTime tag_t[2];
    int nu = 0;
    DateTime u[MAXU];
    bool any() const { return has[0] || has[1] || nu > 0; }
    int count() const { return (has[0] ? 1 : 0) + (has[1] ? 1 : 0) + nu; }
    DateTime min_time() const {
        DateTime m = MAX_DT;
        for (int i = 0; i < 2; i++) if (has[i] && tag_t[i] < m) m = tag_t[i];
        for (int i = 0; i < nu; i++) if (u[i] < m) m = u[i];
        return m;
    }
    void add_untagged(DateTime t) {
        for (int i = 0; i < nu; i++) if (u[i] == t) return;  // a set: duplicates collapse
        u[nu++] = t;
    }
    void remove_untagged_at(int i) { u[i] = u[nu - 1]; nu--; }
    // earliest event in (time, tag) order; untagged ("") sorts before "a" < "b"
    void remove_earliest() {
        if (!any()) return;
        DateTime m = min_time();
        for (int i = 0; i < nu; i++) if (u[i] == m) { remove_untagged_at(i); return; }
        if (has[0] && tag_t[0] == m) { has[0] = false; return; }
        has[1] = false;
    }
    void consume_due(DateTime now) {
        for (int i = 0; i < 2; i++) if (has[i] && tag_t[i] <= now) has[i] = false;
        for (int i = 0; i < nu;) { if (u[i] <= now) remove_untagged_at(i); else i++; }
    }
};
const char *TAGS[2] = {"a", "b"};

void check_queries(const NodeScheduler &s, const NodeSchedulerState &st, const Model &m, DateTime now) {
    verif_assert(s.is_scheduled() == m.any(), "C18.is_scheduled");
    verif_assert(s.next_scheduled_time() == (m.any() ? m.min_time() : MIN_DT), "C18.next_scheduled_time");
    verif_assert(s.is_scheduled_now() == (m.any() && m.min_time() == now), "C18.is_scheduled_now");
    for (int i = 0; i < 2; i++) {
        verif_assert(s.has_tag(TAGS[i]) == m.has[i], "C18.has_tag");
        verif_assert(s.tag_time(TAGS[i]) == (m.has[i] ? m.tag_t[i] : MIN_DT), "C18.tag_time");
        verif_assert(s.tag_is_scheduled_now(TAGS[i]) == (m.has[i] && m.tag_t[i] == now), "C18.tag_is_scheduled_now");
    }
    // representation: one event per pending request, one index entry per tagged request
    verif_assert((int)st.events.size() == m.count(), "C18.pending_count");
    verif_assert((int)st.tags.size() == (m.has[0] ? 1 : 0) + (m.has[1] ? 1 : 0), "C18.tag_index_count");
}
}  // namespace

extern "C" int harness_main() {
    NodeSchedulerState st;
    Model m;
    std::int64_t base = verif_range("base", 0, 1000000);
    DateTime now = MIN_ST + TimeDelta{base};
    bool started = verif_bool("started");
    for (int step = 0; step < NOPS; step++) {
        NodeScheduler s{st, nullptr, 0, now, started};
        int op = verif_choice("op", 9);
        int tg = (op == 0 || op == 1 || op == 2 || op == 4) ? verif_choice("tag", 3) : 0;  // 0 none, 1 "a", 2 "b"
        std::optional<std::string> tag;
        if (tg) tag = TAGS[tg - 1];
        switch (op) {
            case 0:    // schedule(absolute time[, tag])
            case 1: {  // schedule(delta[, tag])
                std::int64_t d = verif_range("d", -2, KMAX);
                DateTime when = now + TimeDelta{d};
                if (op == 0) s.schedule(when, tag); else s.schedule(TimeDelta{d}, tag);
                bool accepted = started ? when > now : when >= now;
                if (accepted) {
                    verif_reach(d == 0 ? "accepted_now_before_start" : "accepted_future");
                    if (tg) { if (m.has[tg - 1]) verif_reach("tag_replaced"); m.has[tg - 1] = true; m.tag_t[tg - 1] = when; }
                    else m.add_untagged(when);
                } else {
                    verif_reach("ignored_past_or_now");
                }
                break;
            }
            case 2:  // un_schedule(tag) / un_schedule()
                if (tg) { s.un_schedule(std::string{TAGS[tg - 1]}); m.has[tg - 1] = false; }
                else { s.un_schedule(); m.remove_earliest(); }
                break;
            case 3:  // un_schedule() earliest
                s.un_schedule();
                m.remove_earliest();
                break;
            case 4: {  // pop_tag
                int t = tg ? tg - 1 : 0;
                DateTime got = s.pop_tag(TAGS[t]);
                verif_assert(got == (m.has[t] ? m.tag_t[t] : MIN_DT), "C18.pop_tag_result");
                if (m.has[t]) verif_reach("pop_existing_tag");
                m.has[t] = false;
                break;
            }
            case 5:  // reset
                s.reset();
                m = Model{};
                break;
            case 6: {  // the engine moves to the earliest pending time and the node fires: advance()
                if (!m.any()) break;
                DateTime t = m.min_time();
                if (t < now) { verif_fail("C18.pending_in_the_past"); break; }
                now = t;
                started = true;
                NodeScheduler s2{st, nullptr, 0, now, started};
                verif_assert(s2.is_scheduled_now(), "C18.due_event_visible_as_scheduled_now");
                s2.advance();
                m.consume_due(now);
                verif_reach("advance_consumes_due");
                break;
            }
            case 7: {  // time passes beyond some pending times (input-driven evaluation later), then advance()
                std::int64_t d = verif_range("skip", 1, KMAX);
                now = now + TimeDelta{d};
                started = true;
                NodeScheduler s2{st, nullptr, 0, now, started};
                s2.advance();
                m.consume_due(now);
                break;
            }
            case 8:  // no-op evaluation in the same cycle
                break;
        }
        NodeScheduler q{st, nullptr, 0, now, started};
        check_queries(q, st, m, now);
    }
    verif_reach("end");
    return 0;
}

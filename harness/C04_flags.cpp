// C04 (unit level, no graph): modified / valid / last-modified-time tell the truth for producers and
// consumers.  A real TSOutput of each of eight shapes (enumerated) is written by a bounded scripted producer; three real
// TSInput consumers are bound to it (c0 passive, c1 active with a notifier, c2 bound one cycle late).
// After every cycle (at the cycle time T) and at the following idle instant (T+1) the flags of the
// producer view, of every consumer view and of every child position are compared with a mirror model.
//   symbolic  : base time, every gap between cycles, every written payload
//   enumerated: per cycle NOPS operations (shape specific: write / child write / invalidate / add /
//               remove / erase / clear ...), keys (concrete, hash containers)
//   oracle    : producer.modified(T) <=> written at T; producer.last_modified_time = time of the
//               latest write; producer.valid <=> written and not invalidated since; every bound consumer
//               reads the same value / modified / valid / last_modified_time as the producer at the same
//               position; a parent is modified whenever a child is, a fixed-shape parent only then;
//               delta_value is present <=> modified (so never at the idle instant).
#include "hk_ts.h"

#include <hgraph/types/value/value_builder.h>

// shapes: 0 TS<int>  1 TSS<int>  2 TSD<int,TS<int>>  3 TSB{a,b}  4 TSL<TS<int>,2>  5 TSW<int,WN,WMIN>  6 SIGNAL  7 TSD<int,TSB{a,b}>
#ifndef ONLY_SHAPE
#define ONLY_SHAPE -1  // -1: the shape is enumerated (verif_choice); 0..7: only that shape (dev runs)
#endif
#ifndef NCYC
#define NCYC 2  // cycles (TS / SIGNAL / TSW run NCYC+1)
#endif
#ifndef BIG_LAST
#define BIG_LAST NOPS  // operations in the last cycle of the wide shapes (TSD, TSB, TSL, TSW, TSD<int,TSB>)
#endif
#ifndef NOPS
#define NOPS 2
#endif
#ifndef GMAX
#define GMAX 1000
#endif
#ifndef NK
#define NK 2  // concrete key universe {0..NK-1} for TSS / TSD
#endif
#ifndef VMAX
#define VMAX 1000000
#endif

using namespace hkts;

#define SHAPE 0
#define SHAPE_NS shape_ts
#include "C04_flags_shape.inc"
#undef SHAPE
#undef SHAPE_NS
#define SHAPE 1
#define SHAPE_NS shape_tss
#include "C04_flags_shape.inc"
#undef SHAPE
#undef SHAPE_NS
#define SHAPE 2
#define SHAPE_NS shape_tsd
#include "C04_flags_shape.inc"
#undef SHAPE
#undef SHAPE_NS
#define SHAPE 3
#define SHAPE_NS shape_tsb
#include "C04_flags_shape.inc"
#undef SHAPE
#undef SHAPE_NS
#define SHAPE 4
#define SHAPE_NS shape_tsl
#include "C04_flags_shape.inc"
#undef SHAPE
#undef SHAPE_NS
#define SHAPE 5
#define SHAPE_NS shape_tsw
#include "C04_flags_shape.inc"
#undef SHAPE
#undef SHAPE_NS
#define SHAPE 6
#define SHAPE_NS shape_signal
#include "C04_flags_shape.inc"
#undef SHAPE
#undef SHAPE_NS
#define SHAPE 7
#define SHAPE_NS shape_tsd_tsb
#include "C04_flags_shape.inc"
#undef SHAPE
#undef SHAPE_NS

extern "C" int harness_main() {
    (void)schemas();  // concrete set-up shared by all shapes
    int shape = ONLY_SHAPE >= 0 ? ONLY_SHAPE : verif_choice("shape", 8);
    switch (shape) {
        case 0: shape_ts::g_reach.mark("shape_ts"); return shape_ts::run();
        case 1: shape_tss::g_reach.mark("shape_tss"); return shape_tss::run();
        case 2: shape_tsd::g_reach.mark("shape_tsd"); return shape_tsd::run();
        case 3: shape_tsb::g_reach.mark("shape_tsb"); return shape_tsb::run();
        case 4: shape_tsl::g_reach.mark("shape_tsl"); return shape_tsl::run();
        case 5: shape_tsw::g_reach.mark("shape_tsw"); return shape_tsw::run();
        case 6: shape_signal::g_reach.mark("shape_signal"); return shape_signal::run();
        default: shape_tsd_tsb::g_reach.mark("shape_tsd_tsb"); return shape_tsd_tsb::run();
    }
}

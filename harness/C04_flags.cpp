// C04 (unit level, no graph): modified / valid / last-modified-time tell the truth for producers and
// consumers.  A real TSOutput of shape SHAPE is written by a bounded scripted producer; three real
// TSInput consumers are bound to it (c0 passive, c1 active with a notifier, c2 bound one cycle late).
// After every cycle (at the cycle time T) and at the following idle instant (T+1) the flags of the
// producer view, of every consumer view and of every child position are compared with a mirror model.
//   symbolic  : base time, every gap between cycles, every written payload
//   enumerated: per cycle NOPS operations (shape specific: write / child write / invalidate / add /
//               remove / erase / clear ...), keys (concrete, hash containers)
//   oracle    : producer.modified(T) <=> written at T; producer.last_modified_time = time of the
//               latest write; producer.valid <=> written and not invalidated since; every bound consumer
//               reads the same value / modified / valid / last_modified_time as the producer at the same
//               position; a parent is modified whenever a child is, a fixed-shape parent only then;
//               delta_value is present <=> modified (so never at the idle instant).
#include "hk_ts.h"

#include <hgraph/types/value/value_builder.h>

#ifndef SHAPE
#define SHAPE 0  // 0 TS<int>  1 TSS<int>  2 TSD<int,TS<int>>  3 TSB{a,b}  4 TSL<TS<int>,2>  5 TSW<int,2,1>  6 SIGNAL  7 TSD<int,TSB{a,b}>
#endif
#ifndef NCYC
#define NCYC 3
#endif
#ifndef NOPS
#define NOPS 2
#endif
#ifndef GMAX
#define GMAX 1000
#endif
#ifndef NK
#define NK 2  // concrete key universe {0..NK-1} for TSS / TSD
#endif
#ifndef VMAX
#define VMAX 1000000
#endif

using namespace hkts;

namespace {
constexpr int NC = 3;  // consumers
struct NM {            // mirror model of one time-series position
    bool valid = false;
    DateTime lmt = MIN_DT;
    I64 val = 0;
};
struct Flags {
    bool mod, valid, delta;
    DateTime lmt;
};
Flags rd(const TSOutputView &v) { return Flags{v.modified(), v.valid(), v.delta_value().has_value(), v.last_modified_time()}; }
Flags rd(const TSInputView &v) { return Flags{v.modified(), v.valid(), v.delta_value().has_value(), v.last_modified_time()}; }

TSOutput *g_out = nullptr;
Consumer *g_c[NC] = {nullptr, nullptr, nullptr};
bool g_bound[NC] = {false, false, false};
// true while consumer c has seen an invalidation of the bound root position that no write has followed yet
bool g_inv_gap[NC] = {false, false, false};

// branch-free verdict accumulators (one solver query per id per path)
bool ok_prod = true, ok_prod_delta = true, ok_value = true, ok_cons = true, ok_cons_inv = true, ok_cons_delta = true,
     ok_cons_child_delta = true, ok_parent_up = true, ok_parent_only = true, ok_idle = true, ok_struct = true;

void check_prod(const Flags &p, const NM &m, DateTime T) {
    bool em = m.valid & (m.lmt == T);
    ok_prod &= (p.mod == em) & (p.valid == m.valid) & (p.lmt == m.lmt);
    ok_prod_delta &= (p.delta == p.mod);
}
// window: the per-tick delta is the pushed element, so it exists <=> an element was pushed at T
void check_prod_window(const Flags &p, const NM &m, DateTime T, bool pushed_at_T) {
    bool em = m.valid & (m.lmt == T);
    ok_prod &= (p.mod == em) & (p.valid == m.valid) & (p.lmt == m.lmt);
    ok_prod_delta &= (p.delta == pushed_at_T) & ((!p.delta) | p.mod);
}
// consumer c at the same position as the producer flags p
void check_cons(const Flags &p, const Flags &q, int c, bool root_pos) {
    bool same = (q.mod == p.mod) & (q.valid == p.valid) & (q.lmt == p.lmt);
    if (root_pos && g_inv_gap[c]) ok_cons_inv &= same; else ok_cons &= same;
    bool d = (q.delta == p.delta) & ((!q.delta) | q.mod);
    if (root_pos) { if (g_inv_gap[c]) ok_cons_inv &= d; else ok_cons_delta &= d; }
    else ok_cons_child_delta &= d;
}
void root_written() { for (int c = 0; c < NC; c++) g_inv_gap[c] = false; }
void root_invalidated() { for (int c = 0; c < NC; c++) if (g_bound[c]) g_inv_gap[c] = true; }

// ------------------------------------------------------------------------------------------------
#if SHAPE == 0 || SHAPE == 6
NM g_root;
const TSValueTypeMetaData *shape_schema() { return SHAPE == 0 ? schemas().ts : schemas().sig; }
constexpr int N_OPKINDS = 3;  // none, write, invalidate
void apply_op(int op, DateTime t) {
    if (op == 1) {
#if SHAPE == 0
        I64 v = verif_range("val", -VMAX, VMAX);
        write_i64(g_out->view(t), t, v);
        g_root.val = v;
#else
        Value tick{true};
        auto m = g_out->view(t).begin_mutation(t);
        (void)m.copy_value_from(tick.view());
#endif
        if (g_root.valid && g_root.lmt == t) verif_reach("second_write_same_cycle");
        g_root.valid = true; g_root.lmt = t;
        root_written();
    } else if (op == 2) {
        bool r = invalidate(g_out->view(t), t);
        ok_struct &= (r == g_root.valid);
        if (g_root.valid) { verif_reach("invalidated"); g_root.valid = false; g_root.lmt = MIN_DT; root_invalidated(); }
    }
}
void check_all(DateTime T) {
    auto ov = g_out->view(T);
    Flags p = rd(ov);
    check_prod(p, g_root, T);
#if SHAPE == 0
    if (g_root.valid) ok_value &= (as_i64(ov.value()) == g_root.val);
#endif
    for (int c = 0; c < NC; c++) {
        if (!g_bound[c]) continue;
        auto iv = g_c[c]->view(T);
        check_cons(p, rd(iv), c, true);
#if SHAPE == 0
        if (g_root.valid) ok_value &= (as_i64(iv.value()) == g_root.val);
#endif
    }
}
#endif

// ------------------------------------------------------------------------------------------------
#if SHAPE == 1
NM g_root;
bool g_present[NK];
const TSValueTypeMetaData *shape_schema() { return schemas().tss; }
constexpr int N_OPKINDS = 5;  // none, add k, remove k, clear, invalidate
void apply_op(int op, DateTime t) {
    if (op == 0) return;
    if (op == 4) {
        bool r = invalidate(g_out->view(t), t);
        ok_struct &= (r == g_root.valid);
        if (g_root.valid) { verif_reach("invalidated"); g_root.valid = false; g_root.lmt = MIN_DT; root_invalidated(); }
        return;
    }
    auto ov = g_out->view(t);
    auto os = ov.as_set();
    auto m = os.begin_mutation(t);
    if (op == 1 || op == 2) {
        int k = verif_choice("key", NK);
        Value key{Int{k}};
        if (op == 1) { bool r = m.add(key.view()); ok_struct &= (r == !g_present[k]); g_present[k] = true; }
        else { bool r = m.remove(key.view()); ok_struct &= (r == g_present[k]); if (!r) verif_reach("noop_remove_ticks"); g_present[k] = false; }
    } else {
        m.clear();
        for (int k = 0; k < NK; k++) g_present[k] = false;
    }
    g_root.valid = true; g_root.lmt = t;
    root_written();
}
template <class SetView> void check_members(const SetView &s, bool idle) {
    int n = 0;
    for (int k = 0; k < NK; k++) {
        Value key{Int{k}};
        ok_value &= (s.contains(key.view()) == g_present[k]);
        n += g_present[k] ? 1 : 0;
    }
    ok_value &= ((int)s.size() == n);
    if (idle) {  // a per-tick delta is readable only during the cycle that produced it
        int na = 0, nr = 0;
        for (auto v : s.added()) { (void)v; na++; }
        for (auto v : s.removed()) { (void)v; nr++; }
        ok_idle &= (na == 0) & (nr == 0);
    }
}
void check_all(DateTime T, bool idle) {
    auto ov = g_out->view(T);
    Flags p = rd(ov);
    check_prod(p, g_root, T);
    // NB: after invalidate the set keeps its members (only the validity stamp is cleared)
    { auto os = ov.as_set(); check_members(os, idle); }
    for (int c = 0; c < NC; c++) {
        if (!g_bound[c]) continue;
        auto iv = g_c[c]->view(T);
        check_cons(p, rd(iv), c, true);
        auto is = iv.as_set();
        check_members(is, idle);
    }
}
#define CHECK_ALL_HAS_IDLE 1
#endif

// ------------------------------------------------------------------------------------------------
#if SHAPE == 2
NM g_root;
bool g_live[NK];
NM g_child[NK];
const TSValueTypeMetaData *shape_schema() { return schemas().tsd; }
constexpr int N_OPKINDS = 6;  // none, set k v, erase k, clear, child write k v, child invalidate k
void apply_op(int op, DateTime t) {
    if (op == 0) return;
    auto ov = g_out->view(t);
    auto od = ov.as_dict();
    if (op == 3) {
        auto m = od.begin_mutation(t);
        m.clear();
        for (int k = 0; k < NK; k++) { g_live[k] = false; g_child[k] = NM{}; }
        g_root.valid = true; g_root.lmt = t;
        return;
    }
    int k = verif_choice("key", NK);
    Value key{Int{k}};
    if (op == 1) {
        I64 v = verif_range("val", -VMAX, VMAX);
        Value val{Int{v}};
        auto m = od.begin_mutation(t);
        m.set(key.view(), val.view());
        if (!g_live[k]) verif_reach("key_added");
        g_live[k] = true; g_child[k] = NM{true, t, v};
        g_root.valid = true; g_root.lmt = t;
    } else if (op == 2) {
        auto m = od.begin_mutation(t);
        bool r = m.erase(key.view());
        ok_struct &= (r == g_live[k]);
        if (g_live[k]) verif_reach("key_erased");
        g_live[k] = false; g_child[k] = NM{};
        g_root.valid = true; g_root.lmt = t;
    } else if (op == 4) {
        if (!g_live[k]) return;
        I64 v = verif_range("val", -VMAX, VMAX);
        auto child = od.at(key.view());
        write_i64(child, t, v);
        verif_reach("child_only_write");
        g_child[k] = NM{true, t, v};
        g_root.valid = true; g_root.lmt = t;
    } else if (op == 5) {
        if (!g_live[k] || !g_child[k].valid) return;
        auto child = od.at(key.view());
        bool r = invalidate(child, t);
        ok_struct &= r;
        verif_reach("child_invalidated");
        g_child[k].valid = false; g_child[k].lmt = MIN_DT;
        g_root.valid = true; g_root.lmt = t;
    }
}
void check_all(DateTime T, bool idle) {
    auto ov = g_out->view(T);
    Flags p = rd(ov);
    check_prod(p, g_root, T);
    auto od = ov.as_dict();
    Flags pc[NK];
    int n = 0;
    for (int k = 0; k < NK; k++) {
        Value key{Int{k}};
        ok_value &= (od.contains(key.view()) == g_live[k]);
        if (!g_live[k]) continue;
        n++;
        auto child = od.at(key.view());
        pc[k] = rd(child);
        check_prod(pc[k], g_child[k], T);
        if (g_child[k].valid) ok_value &= (as_i64(child.value()) == g_child[k].val);
        ok_parent_up &= (!pc[k].mod) | p.mod;  // a parent is modified whenever one of its children is
    }
    ok_value &= ((int)od.size() == n);
    if (idle) {
        int cnt = 0;
        for (auto v : od.added_keys()) { (void)v; cnt++; }
        for (auto v : od.removed_keys()) { (void)v; cnt++; }
        for (auto v : od.modified_keys()) { (void)v; cnt++; }
        ok_idle &= (cnt == 0);
    }
    for (int c = 0; c < NC; c++) {
        if (!g_bound[c]) continue;
        auto iv = g_c[c]->view(T);
        check_cons(p, rd(iv), c, true);
        auto id = iv.as_dict();
        for (int k = 0; k < NK; k++) {
            Value key{Int{k}};
            ok_value &= (id.contains(key.view()) == g_live[k]);
            if (!g_live[k]) continue;
            auto child = id.at(key.view());
            check_cons(pc[k], rd(child), c, false);
            if (g_child[k].valid) ok_value &= (as_i64(child.value()) == g_child[k].val);
        }
        ok_value &= ((int)id.size() == n);
        if (idle) {
            int cnt = 0;
            for (auto v : id.added_keys()) { (void)v; cnt++; }
            for (auto v : id.removed_keys()) { (void)v; cnt++; }
            for (auto v : id.modified_keys()) { (void)v; cnt++; }
            ok_idle &= (cnt == 0);
        }
    }
}
#define CHECK_ALL_HAS_IDLE 1
#endif

// ------------------------------------------------------------------------------------------------
#if SHAPE == 3 || SHAPE == 4
// fixed-shape parent with two TS<int> children: TSB{a,b} (3) or TSL<TS<int>,2> (4)
NM g_root;
NM g_kid[2];
bool g_inv_event = false;  // a child or the root was (effectively) invalidated in the current cycle
const TSValueTypeMetaData *shape_schema() { return SHAPE == 3 ? schemas().tsb : schemas().tsl2; }
constexpr int N_OPKINDS = SHAPE == 3 ? 5 : 4;  // none, write child i, invalidate child i, invalidate root, [TSB: write the whole value]
TSOutputView out_kid(const TSOutputView &ov, int i) { return ov.indexed_child_at((std::size_t)i); }
TSInputView in_kid(const TSInputView &iv, int i) { return iv.indexed_child_at((std::size_t)i); }
void apply_op(int op, DateTime t) {
    if (op == 0) return;
    auto ov = g_out->view(t);
    if (op == 1) {
        int i = verif_choice("kid", 2);
        I64 v = verif_range("val", -VMAX, VMAX);
        write_i64(out_kid(ov, i), t, v);
        verif_reach("child_only_write");
        g_kid[i] = NM{true, t, v};
        g_root.valid = true; g_root.lmt = t;
        root_written();
    } else if (op == 2) {
        int i = verif_choice("kid", 2);
        bool r = invalidate(out_kid(ov, i), t);
        ok_struct &= (r == g_kid[i].valid);
        if (!g_kid[i].valid) return;
        verif_reach("child_invalidated");
        g_kid[i].valid = false; g_kid[i].lmt = MIN_DT;
        g_root.valid = true; g_root.lmt = t;  // the parent ticks: one of its children changed
        g_inv_event = true;
        root_written();
    } else if (op == 3) {
        bool r = invalidate(ov, t);
        ok_struct &= (r == g_root.valid);
        if (!g_root.valid) return;
        verif_reach("invalidated");
        for (int i = 0; i < 2; i++) { g_kid[i].valid = false; g_kid[i].lmt = MIN_DT; }
        g_root.valid = false; g_root.lmt = MIN_DT;
        g_inv_event = true;
        root_invalidated();
    } else if (op == 4) {
        I64 v0 = verif_range("val", -VMAX, VMAX), v1 = verif_range("val", -VMAX, VMAX);
        Value a{Int{v0}}, b{Int{v1}};
        BundleBuilder bb{ValuePlanFactory::instance().type_for(schemas().tsb->value_schema)};
        bb.set("a", a.view());
        bb.set("b", b.view());
        Value whole = bb.build();
        auto m = ov.begin_mutation(t);
        (void)m.copy_value_from(whole.view());
        verif_reach("whole_value_write");
        g_kid[0] = NM{true, t, v0}; g_kid[1] = NM{true, t, v1};
        g_root.valid = true; g_root.lmt = t;
        root_written();
    }
}
void check_all(DateTime T, bool idle) {
    (void)idle;
    auto ov = g_out->view(T);
    Flags p = rd(ov);
    check_prod(p, g_root, T);
    Flags pk[2];
    bool any_kid_mod = false;
    for (int i = 0; i < 2; i++) {
        auto kid = out_kid(ov, i);
        pk[i] = rd(kid);
        check_prod(pk[i], g_kid[i], T);
        if (g_kid[i].valid) ok_value &= (as_i64(kid.value()) == g_kid[i].val);
        ok_parent_up &= (!pk[i].mod) | p.mod;
        any_kid_mod |= pk[i].mod;
    }
    // a fixed-shape parent is modified only when one of its children is (an invalidation of a child is a change of
    // that child although the invalidated child itself no longer reads modified)
    ok_parent_only &= (!p.mod) | any_kid_mod | g_inv_event;
    ok_value &= (ov.all_valid() == (g_kid[0].valid && g_kid[1].valid));
    for (int c = 0; c < NC; c++) {
        if (!g_bound[c]) continue;
        auto iv = g_c[c]->view(T);
        check_cons(p, rd(iv), c, true);
        ok_value &= (iv.all_valid() == (g_kid[0].valid && g_kid[1].valid));
        for (int i = 0; i < 2; i++) {
            auto kid = in_kid(iv, i);
            check_cons(pk[i], rd(kid), c, false);
            if (g_kid[i].valid) ok_value &= (as_i64(kid.value()) == g_kid[i].val);
        }
    }
}
#define CHECK_ALL_HAS_IDLE 1
#define HAS_CYCLE_RESET 1
void cycle_reset() { g_inv_event = false; }
#endif

// ------------------------------------------------------------------------------------------------
#if SHAPE == 5
// TSW<int, WN, WMIN> tick-count window
#ifndef WN
#define WN 2
#endif
#ifndef WMIN
#define WMIN 2
#endif
NM g_root;
int g_count = 0;
I64 g_win[WN];
bool g_pushed = false;   // an element was pushed in the current cycle (a second push is rejected by the runtime)
DateTime g_push_t = MIN_DT;
const TSValueTypeMetaData *shape_schema() { return TypeRegistry::instance().tsw(schemas().i64, WN, WMIN); }
constexpr int N_OPKINDS = 5;  // none, push v, clear, clear then push v, invalidate
bool g_scope_used = false;  // the runtime accepts one push and one clear per evaluation time: one window mutation per cycle
void apply_op(int op, DateTime t) {
    if (op == 0) return;
    auto ov = g_out->view(t);
    if (op == 4) {
        bool r = invalidate(ov, t);
        ok_struct &= (r == g_root.valid);
        if (!g_root.valid) return;
        verif_reach("invalidated");
        g_root.valid = false; g_root.lmt = MIN_DT;
        root_invalidated();
        return;
    }
    if (g_scope_used) return;
    g_scope_used = true;
    auto ow = ov.as_window();
    auto m = ow.begin_mutation(t);
    if (op == 2 || op == 3) { m.clear(); g_count = 0; verif_reach("window_cleared"); }
    if (op == 1 || op == 3) {
        I64 v = verif_range("val", -VMAX, VMAX);
        Value val{Int{v}};
        m.push(val.view());
        if (g_count == WN) { for (int i = 1; i < WN; i++) g_win[i - 1] = g_win[i]; g_count--; verif_reach("window_rolled"); }
        g_win[g_count++] = v;
        g_pushed = true; g_push_t = t;
    }
    g_root.valid = true; g_root.lmt = t;
    root_written();
}
void check_all(DateTime T, bool idle) {
    (void)idle;
    auto ov = g_out->view(T);
    Flags p = rd(ov);
    bool pushed_at_T = g_root.valid & (g_push_t == T) & (g_root.lmt == T);
    check_prod_window(p, g_root, T, pushed_at_T);
    {
        auto ow = ov.as_window();
        ok_value &= ((int)ow.size() == g_count);
        for (int i = 0; i < g_count; i++) ok_value &= (as_i64(ow.at((std::size_t)i)) == g_win[i]);
        if (g_root.valid) ok_value &= (ov.all_valid() == (g_count >= WMIN));
    }
    for (int c = 0; c < NC; c++) {
        if (!g_bound[c]) continue;
        auto iv = g_c[c]->view(T);
        check_cons(p, rd(iv), c, true);
        auto iw = iv.as_window();
        ok_value &= ((int)iw.size() == g_count);
        for (int i = 0; i < g_count; i++) ok_value &= (as_i64(iw.at((std::size_t)i)) == g_win[i]);
    }
}
#define CHECK_ALL_HAS_IDLE 1
#define HAS_CYCLE_RESET 1
void cycle_reset() { g_pushed = false; g_scope_used = false; }
#endif

// ------------------------------------------------------------------------------------------------
#if SHAPE == 7
// one nesting: TSD<int, TSB{a,b}>
NM g_root;
bool g_live[NK];
NM g_elem[NK];
NM g_fld[NK][2];
// a key erased and re-created within one cycle is resurrected with its element intact (documented runtime behaviour:
// tests/cpp "TSD same-cycle resurrection does not reconstruct element storage")
bool g_erased_now[NK];
NM g_saved_elem[NK], g_saved_fld[NK][2];
void forget(int k) {
    if (g_live[k] && !g_erased_now[k]) { g_erased_now[k] = true; g_saved_elem[k] = g_elem[k]; g_saved_fld[k][0] = g_fld[k][0]; g_saved_fld[k][1] = g_fld[k][1]; }
    g_live[k] = false; g_elem[k] = NM{}; g_fld[k][0] = NM{}; g_fld[k][1] = NM{};
}
const TSValueTypeMetaData *shape_schema() { return schemas().tsd_tsb; }
constexpr int N_OPKINDS = 5;  // none, write field (k,f) (creating k), erase k, invalidate element k, clear
void apply_op(int op, DateTime t) {
    if (op == 0) return;
    auto ov = g_out->view(t);
    auto od = ov.as_dict();
    if (op == 4) {
        auto m = od.begin_mutation(t);
        m.clear();
        for (int k = 0; k < NK; k++) forget(k);
        g_root.valid = true; g_root.lmt = t;
        return;
    }
    int k = verif_choice("key", NK);
    Value key{Int{k}};
    if (op == 1) {
        int f = verif_choice("kid", 2);
        I64 v = verif_range("val", -VMAX, VMAX);
        {
            auto m = od.begin_mutation(t);
            auto child = m.at(key.view());
            TSOutputView elem{g_out, child, t};
            write_i64(elem.indexed_child_at((std::size_t)f), t, v);
        }
        if (!g_live[k]) verif_reach("key_added");
        else verif_reach("child_only_write");
        if (!g_live[k] && g_erased_now[k]) {
            verif_reach("key_resurrected_same_cycle");
            g_elem[k] = g_saved_elem[k]; g_fld[k][0] = g_saved_fld[k][0]; g_fld[k][1] = g_saved_fld[k][1];
        }
        g_live[k] = true;
        g_fld[k][f] = NM{true, t, v};
        g_elem[k].valid = true; g_elem[k].lmt = t;
        g_root.valid = true; g_root.lmt = t;
    } else if (op == 2) {
        auto m = od.begin_mutation(t);
        bool r = m.erase(key.view());
        ok_struct &= (r == g_live[k]);
        if (g_live[k]) verif_reach("key_erased");
        forget(k);
        g_root.valid = true; g_root.lmt = t;
    } else if (op == 3) {
        if (!g_live[k] || !g_elem[k].valid) return;
        auto elem = od.at(key.view());
        bool r = invalidate(elem, t);
        ok_struct &= r;
        verif_reach("child_invalidated");
        g_elem[k].valid = false; g_elem[k].lmt = MIN_DT;
        for (int f = 0; f < 2; f++) { g_fld[k][f].valid = false; g_fld[k][f].lmt = MIN_DT; }
        g_root.valid = true; g_root.lmt = t;
    }
}
void check_all(DateTime T, bool idle) {
    (void)idle;
    auto ov = g_out->view(T);
    Flags p = rd(ov);
    check_prod(p, g_root, T);
    auto od = ov.as_dict();
    Flags pe[NK], pf[NK][2];
    for (int k = 0; k < NK; k++) {
        Value key{Int{k}};
        ok_value &= (od.contains(key.view()) == g_live[k]);
        if (!g_live[k]) continue;
        auto elem = od.at(key.view());
        pe[k] = rd(elem);
        check_prod(pe[k], g_elem[k], T);
        ok_parent_up &= (!pe[k].mod) | p.mod;
        for (int f = 0; f < 2; f++) {
            auto fld = elem.indexed_child_at((std::size_t)f);
            pf[k][f] = rd(fld);
            check_prod(pf[k][f], g_fld[k][f], T);
            if (g_fld[k][f].valid) ok_value &= (as_i64(fld.value()) == g_fld[k][f].val);
            ok_parent_up &= (!pf[k][f].mod) | (pe[k].mod & p.mod);
        }
    }
    for (int c = 0; c < NC; c++) {
        if (!g_bound[c]) continue;
        auto iv = g_c[c]->view(T);
        check_cons(p, rd(iv), c, true);
        auto id = iv.as_dict();
        for (int k = 0; k < NK; k++) {
            Value key{Int{k}};
            ok_value &= (id.contains(key.view()) == g_live[k]);
            if (!g_live[k]) continue;
            auto elem = id.at(key.view());
            check_cons(pe[k], rd(elem), c, false);
            for (int f = 0; f < 2; f++) {
                auto fld = elem.indexed_child_at((std::size_t)f);
                check_cons(pf[k][f], rd(fld), c, false);
                if (g_fld[k][f].valid) ok_value &= (as_i64(fld.value()) == g_fld[k][f].val);
            }
        }
    }
}
#define CHECK_ALL_HAS_IDLE 1
#define HAS_CYCLE_RESET 1
void cycle_reset() { for (int k = 0; k < NK; k++) g_erased_now[k] = false; }
#endif

#ifndef CHECK_ALL_HAS_IDLE
void check_all(DateTime T, bool) { check_all(T); }
#endif
#ifndef HAS_CYCLE_RESET
void cycle_reset() {}
#endif
}  // namespace

extern "C" int harness_main() {
    // ---- concrete set-up (before the first symbolic input)
    const auto *schema = shape_schema();
    TSOutput out{*schema};
    g_out = &out;
    CountingNotifiable note;
    Consumer c0{schema, "VerifC04Root"}, c1{schema, "VerifC04Root", &note}, c2{schema, "VerifC04Root"};
    g_c[0] = &c0; g_c[1] = &c1; g_c[2] = &c2;

    std::int64_t base = verif_range("base", 0, 1000000);
    DateTime t = MIN_ST + TimeDelta{base};
    {   // c0 passive, c1 active: bound before the first cycle
        auto v0 = c0.view(t); v0.bind_output(out.view(t)); g_bound[0] = true;
        auto v1 = c1.view(t); v1.bind_output(out.view(t)); v1.make_active(); g_bound[1] = true;
    }
    check_all(t, true);  // nothing written yet: nothing valid, nothing modified, no delta
    int notified_cycles = 0, write_cycles = 0;
    for (int cyc = 0; cyc < NCYC; cyc++) {
        if (cyc > 0) t = t + TimeDelta{verif_range("gap", 1, GMAX)};
        if (cyc == 1) {  // the late consumer binds at the start of the second cycle
            auto v2 = c2.view(t); v2.bind_output(out.view(t)); g_bound[2] = true;
            verif_reach("late_consumer_bound");
        }
        int before = note.count;
        bool any = false;
        cycle_reset();
        for (int i = 0; i < NOPS; i++) {
            int op = verif_choice("op", N_OPKINDS);
            any |= (op != 0);
            apply_op(op, t);
        }
        if (note.count != before) notified_cycles++;
        if (any) write_cycles++;
        check_all(t, false);                 // the cycle itself
        check_all(t + TimeDelta{1}, true);   // the following idle instant
        if (!any) verif_reach("idle_cycle");
    }
    verif_assert(ok_struct, "C04.mutation_result_matches_model");
    verif_assert(ok_prod, "C04.producer_modified_valid_lmt");
    verif_assert(ok_prod_delta, "C04.producer_delta_iff_modified");
    verif_assert(ok_value, "C04.value_seen_by_producer_and_consumers");
    verif_assert(ok_cons, "C04.consumer_same_flags_as_producer");
    verif_assert(ok_cons_delta, "C04.consumer_delta_iff_modified");
    verif_assert(ok_parent_up, "C04.parent_modified_when_child_is");
    verif_assert(ok_parent_only, "C04.fixed_parent_modified_only_with_child");
    verif_assert(ok_idle, "C04.no_delta_at_idle_instant");
    // the two ids below are contradicted by the unchanged tree (see notes/C04.md); they come last because a
    // failing assertion ends the path
    verif_assert(ok_cons_child_delta, "C04.consumer_child_delta_iff_modified");
    verif_assert(ok_cons_inv, "C04.consumer_same_flags_as_producer_after_invalidate");
    verif_log("write_cycles", write_cycles);
    verif_log("notified_cycles", notified_cycles);
    verif_reach("end");
    return 0;
}

// C07: simulation runs are reproducible and isolated from each other.
//   One GraphBuilder (built once, seeded GlobalState) is used for several make_executor()+run().  Each run gets
//   its own fully symbolic wall clock (start value and per-read advance), an enumerated interfering history
//   happens between the runs, and (THREADS=1) two executors of the same builder run on two interpreter threads.
//   self-composition oracle: the complete trace of run 2 (cycle times, values, state seen, global state seen)
//   equals run 1's for ALL clock values; run 2 sees the builder's seed, never what run 1 wrote; a map_'s dynamic
//   children of run 1 do not exist in run 2.
#include "hk.h"

#ifndef NEMIT
#define NEMIT 3
#endif
#ifndef DMAX
#define DMAX 3
#endif
#ifndef THREADS
#define THREADS 0
#endif

using namespace hk;

namespace {
std::int64_t g_delta[NEMIT], g_val[NEMIT];
std::int64_t g_poison;  // written by run 1 (and by the interfering graph) into global state / state

struct Rec { DateTime t; Int v; Int seen_seed; Int seen_scratch; Int state_before; Int seen_bias; };
struct Trace { Rec r[NEMIT + 2]; int n = 0; };
Trace g_tr[3];
// which trace the currently running executor writes to; with THREADS each executor carries its id in a scalar
struct Src {
    static constexpr auto name = "src";
    static constexpr bool schedule_on_start = true;
    static void eval(NodeScheduler s, State<Int> n, Out<TS<Int>> out) {
        Int k = n.get();
        if (k < NEMIT) {
            out.set(g_val[k]);
            if (k + 1 < NEMIT && g_delta[k + 1] > 0) s.schedule(TimeDelta{g_delta[k + 1]});
        }
        n.set(k + 1);
    }
};
struct Acc {
    static constexpr auto name = "acc";
    static void eval(In<"a", TS<Int>> a, State<Int> sum, Scalar<"run", Int> run, GlobalStateView gs, DateTime now, Out<TS<Int>> out) {
        Trace &tr = g_tr[run.value()];
        Int before = sum.get();
        Int seed = gs.contains("seed") ? gs.get("seed").checked_as<Int>() : -1;
        Int scratch = gs.contains("scratch") ? gs.get("scratch").checked_as<Int>() : -1;
        sum.set(before + a.value());
        Int bias = gs.contains("bias") ? gs.get("bias").checked_as<Int>() : -1;
        if (tr.n < NEMIT + 2) tr.r[tr.n++] = Rec{now, sum.get(), seed, scratch, before, bias};
        gs.set("scratch", Value{Int{g_poison + sum.get()}});  // state written by this run
        gs.set("seed", Value{Int{g_poison}});                 // ... including an overwrite of the seeded key
        out.set(sum.get());
    }
};
template <int RUN> struct Top {
    static constexpr auto name = "top";
    static void compose(Wiring &w) {
        auto s = wire<Src>(w);
        wire<Acc>(w, s, Int{RUN});
    }
};
// an unrelated graph that writes the same global-state keys
struct Other {
    static constexpr auto name = "other";
    static constexpr bool schedule_on_start = true;
    static void eval(GlobalStateView gs, State<Int> n, Out<TS<Int>> out) {
        gs.set("seed", Value{Int{g_poison + 7}});
        gs.set("scratch", Value{Int{g_poison + 9}});
        n.set(n.get() + 1);
        out.set(n.get());
    }
};
struct OtherTop { static constexpr auto name = "othertop"; static void compose(Wiring &w) { wire<Other>(w); } };

GraphExecutorBuilder *g_eb[3];
void run_one(int which, bool copy_back = false) {
    // every run has its own arbitrary wall clock: start value and advance per reading are symbolic
    verif_clock_set_ns(verif_range("clock0", 1600000000000000000LL, 1800000000000000000LL));
    verif_clock_config(0, 5000000, 0);
    GraphExecutorValue ex = g_eb[which]->make_executor();
    ex.view().run();
    // what eval_node / lower.cpp do at run end: the run's (isolated) global state is copied back to the state the user selected
    if (copy_back) { if (auto *sel = GlobalContext::active_state()) sel->view().copy_from(ex.view().graph().global_state()); }
}
void run_thread(void *arg) {
    int which = (int)(std::intptr_t)arg;
    GraphExecutorValue ex = g_eb[which]->make_executor();
    ex.view().run();
}
// THREADS == 2: a worker thread selects its OWN GlobalContext (wiring-time global state with a 'bias' entry) and builds and
// runs its graph inside it, while the other thread, which never selected a context, builds and runs the same recipe.
DateTime g_start_t, g_end_t;
void ctx_worker(void *) {
    GlobalContext ctx;
    ctx.state().view().set("bias", Value{Int{g_poison}});
    GraphBuilder gb = build_graph<Top<0>>();
    GraphExecutorBuilder eb;
    eb.graph_builder(std::move(gb)).start_time(g_start_t).end_time(g_end_t);
    GraphExecutorValue ex = eb.make_executor();
    ex.view().run();
}
void plain_worker(void *) {
    GraphBuilder gb = build_graph<Top<1>>();
    GraphExecutorBuilder eb;
    eb.graph_builder(std::move(gb)).start_time(g_start_t).end_time(g_end_t);
    GraphExecutorValue ex = eb.make_executor();
    ex.view().run();
}
template <int RUN> GraphBuilder seeded_builder() {
    GraphBuilder gb = build_graph<Top<RUN>>();
    gb.global_state().set("seed", Value{Int{41}});
    return gb;
}
}  // namespace

extern "C" int harness_main() {
    for (int k = 0; k < NEMIT; k++) { g_delta[k] = verif_range("delta", 0, DMAX); g_val[k] = verif_range("val", -100, 100); }
    g_poison = verif_range("poison", 1000, 2000);
    int history = THREADS ? 0 : verif_choice("history", 5);
    DateTime start = MIN_ST + TimeDelta{verif_range("start", 0, 100)}, end = start + TimeDelta{NEMIT * DMAX + 2};

    // the SAME recipe is used for both runs: Top<0>/Top<1> differ only in the scalar telling the node where to log
    GraphExecutorBuilder eb0, eb1, eb2;
    eb0.graph_builder(seeded_builder<0>()).start_time(start).end_time(end);
    eb1.graph_builder(seeded_builder<1>()).start_time(start).end_time(end);
    eb2.graph_builder(seeded_builder<1>()).start_time(start).end_time(end);
    g_eb[0] = &eb0; g_eb[1] = &eb1; g_eb[2] = &eb2;

    g_start_t = start; g_end_t = end;
    if (THREADS == 2) {
        int t1 = verif_spawn(ctx_worker, nullptr);
        int t2 = verif_spawn(plain_worker, nullptr);
        verif_join(t1);
        verif_join(t2);
        verif_reach("context_thread_and_plain_thread_interleaved");
        bool no_leak = true, own = true;
        for (int i = 0; i < g_tr[1].n; i++) no_leak &= (g_tr[1].r[i].seen_bias == -1);      // the plain thread never sees the other thread's context
        for (int i = 0; i < g_tr[0].n; i++) own &= (g_tr[0].r[i].seen_bias == g_poison);   // the context thread sees its own
        verif_assert(no_leak, "C07.other_threads_global_context_not_visible");
        verif_assert(own, "C07.own_global_context_visible");
        verif_assert(g_tr[0].n == g_tr[1].n, "C07.same_number_of_cycles_on_both_threads");
        verif_reach("end");
        return 0;
    } else if (THREADS) {
        verif_clock_set_ns(verif_range("clock0", 1600000000000000000LL, 1800000000000000000LL));
        int t1 = verif_spawn(run_thread, (void *)(std::intptr_t)0);
        int t2 = verif_spawn(run_thread, (void *)(std::intptr_t)1);
        verif_join(t1);
        verif_join(t2);
        verif_reach("two_executors_interleaved");
    } else if (history == 4) {
        // both builders are wired inside a user-selected GlobalContext (their seed is its state at wiring time); every run's
        // final state is copied back into the selected state, as eval_node does.  The next run still starts from the seed.
        GlobalContext ctx;
        ctx.state().view().set("seed", Value{Int{41}});
        GraphExecutorBuilder cb0, cb1;
        cb0.graph_builder(build_graph<Top<0>>()).start_time(start).end_time(end);
        cb1.graph_builder(build_graph<Top<1>>()).start_time(start).end_time(end);
        g_eb[0] = &cb0; g_eb[1] = &cb1;
        run_one(0, true);
        run_one(1, true);
        verif_reach("runs_inside_selected_global_context_with_copy_back");
    } else {
        run_one(0);
        switch (history) {
            case 1: { GraphBuilder other = build_graph<OtherTop>(); (void)other; verif_reach("built_another_graph"); break; }
            case 2: { GraphExecutorBuilder ob; ob.graph_builder(build_graph<OtherTop>()).start_time(start).end_time(end); GraphExecutorValue ox = ob.make_executor(); ox.view().run(); verif_reach("ran_another_graph"); break; }
            case 3: { run_one(0); g_tr[0].n = 0; run_one(0); verif_reach("builder_reused_three_times"); break; }  // reuse the first builder again (trace 0 overwritten by identical runs)
            default: break;
        }
        run_one(1);
    }

    // ---- oracle: run 2 == run 1, cycle for cycle
    Trace &a = g_tr[0], &b = g_tr[1];
    bool same = a.n == b.n, seed_ok = true, fresh_ok = true;
    for (int i = 0; i < a.n && i < b.n; i++) {
        same &= (a.r[i].t == b.r[i].t) & (a.r[i].v == b.r[i].v) & (a.r[i].seen_seed == b.r[i].seen_seed) & (a.r[i].seen_scratch == b.r[i].seen_scratch) & (a.r[i].state_before == b.r[i].state_before);
    }
    if (b.n > 0) {
        seed_ok &= (b.r[0].seen_seed == 41);       // the builder's seed, not what run 1 (or the other graph) wrote
        fresh_ok &= (b.r[0].seen_scratch == -1);    // nothing run 1 wrote is visible
        fresh_ok &= (b.r[0].state_before == 0);     // node state starts fresh
    }
    verif_assert(same, "C07.second_run_trace_equals_first");
    verif_assert(seed_ok, "C07.second_run_sees_builder_seed");
    verif_assert(fresh_ok, "C07.state_of_first_run_not_visible");
    if (a.n >= 2) verif_reach("two_cycles");
    verif_log("cycles", a.n);
    verif_reach("end");
    return 0;
}

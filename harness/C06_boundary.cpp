// C06 (node sharing INSIDE a compiled sub-graph wiring): the interning of Wiring::add_node also runs in a child wiring
//   (WiringKind::SubGraph: the body of a nested graph / map_ / switch_ / try_except), where inputs are BOUNDARY sources:
//   declared sub-graph argument #i (WiringPortRef::boundary_source), explicitly captured enclosing-wiring source #i
//   (Wiring::capture_outer_source -> captured_boundary_source; a SECOND index space that also starts at 0), paths below a
//   structural argument / structural capture, and foreign peered ports of the enclosing wiring (implicit closure capture,
//   numbered by finish_subgraph behind the explicit captures).
//   One dataflow     d1 = Scale(p, k1);  d2 = Scale(q, k2);  Rec0(d1);  Rec1(d2);  out = Comb(d1, d2);  [outside] Rec2(out)
//   is wired twice in one path on the same SYMBOLIC script: FLAT in the root wiring (p, q = the outer ports themselves) and
//   NESTED - the five statements inside a child wiring hosted by a real single_nested_graph_node (or, HOST 1, the real
//   wire_try_except), p and q being boundary sources of the child chosen by the ENUMERATED scenario:
//     0 argument #0 (A)            vs explicit capture #0 (B)          [same index, the two index spaces]
//     1 argument #1 (A)            vs explicit capture #1 (B)          [arg #0 = F(A) and capture #0 = G(B) exist, unused]
//     2 argument #0 (A)            vs argument #1 (B)
//     3 capture #0 (A)             vs capture #1 (B)                   [no declared argument: ordinals start at 0]
//     4 capture of B               vs capture of B again               [same outer port twice: same index, MAY share]
//     5 argument #0 (A)            vs capture of the same outer port A [same value through two routes, MAY share]
//     6 path {0} of structural argument #0 = {A, B}   vs path {1} of the same argument
//     7 path {1} of structural argument #0 = {A, F(A)} vs path {1} of structural capture #0 = {B, G(B)}
//     8 explicit capture #0 (A)    vs foreign outer port B used directly (implicit capture, becomes capture #1)
//     9 explicit capture #0 (B)    vs foreign outer port B used directly (same outer port, MAY share)
//    10 TWO call sites of one nested definition  body(x) = Scale(x, k):  site(A) vs site(B)   [the nested NODES are interned
//       by the factory overload of add_node in the enclosing wiring: different inputs stay distinct]
//    11 two call sites on the same port: site(A) vs site(A)            [MAY share one nested node]
//    12 path {0} of structural capture #0 = {A, B}    vs path {1} of the same capture        [argument #0 = F(A) unused]
//   enumerated: scenario, equal / different scalars (different only in 4 and 11, where the scalar alone keeps the nodes
//               apart), the host (nested graph node / try_except, TRY_MASK), the statement order inside the child (which Scale is wired - and which source captured -
//               first; recorders before / after the combiner)
//   symbolic : emission times of the two script sources (first offset >= 0, gaps >= 1 us), their values, start, window
//   oracle   : every recorder stream of the NESTED wiring == the FLAT wiring's stream (times and values);
//              d1 / d2 streams == the un-shared model (1000 * value of the port denoted by p / q + k at that port's ticks);
//              where p and q denote different ports or the scalars differ, the child graph has two Scale nodes
//              (child node count 5; scenario 10: two nested nodes in the enclosing graph).  Where sharing is allowed nothing is
//              demanded about the node count - the reach labels record that sharing did happen.
#include "hk.h"

#include <hgraph/runtime/nested_graph_node.h>
#include <hgraph/types/subgraph_wiring.h>

#ifndef NX
#define NX 2
#endif
#ifndef DMAX
#define DMAX 3
#endif
#ifndef WMAX
#define WMAX 4
#endif
#ifndef NORD      // statement orders inside the child that are enumerated (<= 4)
#define NORD 2
#endif
#ifndef SCN_MASK  // scenarios that are explored
#define SCN_MASK 0x1fff
#endif
#ifndef HOST_TRY  // 1: additionally host the child behind the real wire_try_except ...
#define HOST_TRY 0
#endif
#ifndef TRY_MASK  // ... in these scenarios (only 0-5, 8, 9 are eligible: one call site, no structural source)
#define TRY_MASK 0x119
#endif
#if HOST_TRY
#include "hk_ho.h"
#endif

using namespace hk;

namespace {
constexpr int NSCN = 13;
constexpr int MAXO = 4 * NX + 2;
constexpr int NREC = 3;  // 0: d1, 1: d2, 2: out (recorded in the enclosing graph)

DateTime g_T[2][NX];
Int g_V[2][NX];
DateTime g_start, g_end;
int g_mode = 0;  // 0 flat, 1 nested
int g_scn = 0, g_ord = 0, g_host = 0;
Int g_k1 = 3, g_k2 = 3;

struct Tick { DateTime t; Int v; };
struct RunLog {
    Tick rec[NREC][MAXO];
    int n[NREC] = {0, 0, 0};
    bool overflow = false;
    std::size_t nodes = 0;         // nodes of the enclosing graph
    std::size_t child_nodes = 0;   // nodes of the (last) compiled child graph
    std::size_t child_inputs = 0;  // boundary inputs of the (last) compiled child: declared + captured
    int sites = 0;                 // nested call sites wired
};
RunLog g_r[2];

template <int ID> struct Src {
    static constexpr auto name = "c06b_src";
    static constexpr bool schedule_on_start = true;
    static void eval(NodeScheduler s, State<Int> k, DateTime now, Out<TS<Int>> out) {
        Int i = k.get();
        if (i < NX && now == g_T[ID][i]) { out.set(g_V[ID][i]); i++; k.set(i); }
        if (i < NX) s.schedule(g_T[ID][i]);
    }
};
struct F { static constexpr auto name = "c06b_f"; static void eval(In<"a", TS<Int>> a, Out<TS<Int>> out) { out.set(2 * a.value() + 1); } };
struct G { static constexpr auto name = "c06b_g"; static void eval(In<"a", TS<Int>> a, Out<TS<Int>> out) { out.set(5 - a.value()); } };
struct Scale {
    static constexpr auto name = "c06b_scale";
    static void eval(In<"a", TS<Int>> a, Scalar<"k", Int> k, Out<TS<Int>> out) { out.set(1000 * a.value() + k.value()); }
};
struct Comb {  // evaluated whenever either side ticks
    static constexpr auto name = "c06b_comb";
    static void eval(In<"a", TS<Int>, InputValidity::Unchecked> a, In<"b", TS<Int>, InputValidity::Unchecked> b, Out<TS<Int>> out) {
        out.set((a.valid() ? a.value() : Int{7}) + 3 * (b.valid() ? b.value() : Int{11}));
    }
};
template <int ID> struct Rec {
    static constexpr auto name = "c06b_rec";
    static void eval(In<"a", TS<Int>> a, DateTime now) {
        RunLog &L = g_r[g_mode];
        if (L.n[ID] < MAXO) L.rec[ID][L.n[ID]++] = Tick{now, a.value()}; else L.overflow = true;
    }
};

// ---- scenarios.  Outer ports: 0 = A, 1 = B, 2 = F(A), 3 = G(B).  A source is {o0, -1} (plain TS<Int>) or {o0, o1} (TSL {o0, o1}).
enum Space { ARG, CAP, IMP };
struct Ref { int sp; int idx; int path; };  // ARG/CAP: idx into args[] / caps[], path -1 whole or child index;  IMP: idx = outer port
struct Scn {
    int nargs; int args[2][2];
    int ncaps; int caps[2][2];  // explicit captures, in declaration order; the first npre are captured before any statement,
    int npre;                   // the others when the statement using them is wired
    Ref p, q;
    bool same_input;            // p and q denote the same outer port
    bool two_sites;
};
const Scn SCN[NSCN] = {
    /* 0*/ {1, {{0, -1}, {-1, -1}}, 1, {{1, -1}, {-1, -1}}, 0, {ARG, 0, -1}, {CAP, 0, -1}, false, false},
    /* 1*/ {2, {{2, -1}, {0, -1}}, 2, {{3, -1}, {1, -1}}, 1, {ARG, 1, -1}, {CAP, 1, -1}, false, false},
    /* 2*/ {2, {{0, -1}, {1, -1}}, 0, {{-1, -1}, {-1, -1}}, 0, {ARG, 0, -1}, {ARG, 1, -1}, false, false},
    /* 3*/ {0, {{-1, -1}, {-1, -1}}, 2, {{0, -1}, {1, -1}}, 0, {CAP, 0, -1}, {CAP, 1, -1}, false, false},
    /* 4*/ {1, {{0, -1}, {-1, -1}}, 2, {{1, -1}, {1, -1}}, 0, {CAP, 0, -1}, {CAP, 1, -1}, true, false},
    /* 5*/ {1, {{0, -1}, {-1, -1}}, 1, {{0, -1}, {-1, -1}}, 0, {ARG, 0, -1}, {CAP, 0, -1}, true, false},
    /* 6*/ {1, {{0, 1}, {-1, -1}}, 0, {{-1, -1}, {-1, -1}}, 0, {ARG, 0, 0}, {ARG, 0, 1}, false, false},
    /* 7*/ {1, {{0, 2}, {-1, -1}}, 1, {{1, 3}, {-1, -1}}, 0, {ARG, 0, 1}, {CAP, 0, 1}, false, false},
    /* 8*/ {1, {{2, -1}, {-1, -1}}, 1, {{0, -1}, {-1, -1}}, 0, {CAP, 0, -1}, {IMP, 1, -1}, false, false},
    /* 9*/ {1, {{0, -1}, {-1, -1}}, 1, {{1, -1}, {-1, -1}}, 0, {CAP, 0, -1}, {IMP, 1, -1}, true, false},
    /*10*/ {0, {{-1, -1}, {-1, -1}}, 0, {{-1, -1}, {-1, -1}}, 0, {IMP, 0, -1}, {IMP, 1, -1}, false, true},
    /*11*/ {0, {{-1, -1}, {-1, -1}}, 0, {{-1, -1}, {-1, -1}}, 0, {IMP, 0, -1}, {IMP, 0, -1}, true, true},
    /*12*/ {1, {{2, -1}, {-1, -1}}, 1, {{0, 1}, {-1, -1}}, 0, {CAP, 0, 0}, {CAP, 0, 1}, false, false},
};
int outer_id(const Scn &S, const Ref &r) {  // the outer port a reference denotes
    const int c = r.path < 0 ? 0 : r.path;
    return r.sp == ARG ? S.args[r.idx][c] : r.sp == CAP ? S.caps[r.idx][c] : r.idx;
}
bool has_structural(const Scn &S) {
    for (int i = 0; i < S.nargs; i++) if (S.args[i][1] >= 0) return true;
    for (int i = 0; i < S.ncaps; i++) if (S.caps[i][1] >= 0) return true;
    return false;
}

// statement orders inside the child: 0 d1 = Scale(p), 1 d2 = Scale(q), 2 Rec0(d1), 3 Rec1(d2), 4 out = Comb(d1, d2)
const int ORDERS[4][5] = {{0, 1, 2, 3, 4}, {1, 0, 4, 3, 2}, {0, 2, 1, 4, 3}, {1, 3, 0, 4, 2}};

struct Outer {
    Port<TS<Int>> o[4];
    WiringPortRef source(const int ids[2]) const {
        if (ids[1] < 0) return o[ids[0]].erased();
        return WiringPortRef::structural_source(schema_descriptor<TSL<TS<Int>, 2>>::ts_meta(), {o[ids[0]].erased(), o[ids[1]].erased()});
    }
};
WiringPortRef pick(const WiringPortRef &r, int path) { return path < 0 ? r : r.structural_children()[path]; }

// the five statements, wired into `cw` in the enumerated order; `scaled(ref, k)` wires Scale over the source that p / q denotes in `cw`
template <class R> WiringPortRef wire_body(Wiring &cw, const Scn &S, R &&scaled) {
    Port<TS<Int>> d1, d2, out;
    for (int pos = 0; pos < 5; pos++) {
        switch (ORDERS[g_ord][pos]) {
            case 0: d1 = Port<TS<Int>>{cw, scaled(S.p, g_k1)}; break;
            case 1: d2 = Port<TS<Int>>{cw, scaled(S.q, g_k2)}; break;
            case 2: wire<Rec<0>>(cw, d1); break;
            case 3: wire<Rec<1>>(cw, d2); break;
            default: out = wire<Comb>(cw, d1, d2); break;
        }
    }
    return out.erased();
}
inline WiringPortRef scale_of(Wiring &cw, WiringPortRef src, Int k) { return wire<Scale>(cw, Port<TS<Int>>{cw, std::move(src)}, Int{k}).erased(); }

struct NestedTag {};
// Mirror of subgraph_wiring.h nested_ (see hk_nested.h nested_call), additionally reporting the compiled child's size.
template <class C> WiringPortRef host_nested(Wiring &w, std::vector<WiringPortRef> outer, C &&compose, Value scalars = {}) {
    namespace gd = hgraph::graph_wiring_detail;
    namespace sw = hgraph::subgraph_wiring_detail;
    std::vector<WiringPortRef> inputs, shapes;
    std::vector<const TSValueTypeMetaData *> schemas;
    for (auto &src : outer) {
        WiringPortRef ref = gd::adapt_source_for_input(w, src.schema, src);
        shapes.push_back(sw::boundary_shape(ref, inputs.size(), {}));
        schemas.push_back(src.schema);
        inputs.push_back(std::move(ref));
    }
    Wiring cw = w.child_wiring();
    WiringPortRef child_out = compose(cw, std::span<const WiringPortRef>{shapes.data(), shapes.size()});
    CompiledSubGraph compiled = std::move(cw).finish_subgraph(child_out, std::move(schemas));
    compiled.graph_builder.label("c06b_child");
    for (WiringPortRef &captured : compiled.captured_inputs) inputs.push_back(std::move(captured));
    compiled.captured_inputs.clear();
    RunLog &L = g_r[g_mode];
    L.child_nodes = compiled.graph_builder.node_count();
    L.child_inputs = compiled.input_schemas.size();
    L.sites++;

    const TSValueTypeMetaData *input_schema = nullptr;
    if (!compiled.input_schemas.empty()) {
        std::vector<std::pair<std::string, const TSValueTypeMetaData *>> fields;
        for (std::size_t i = 0; i < compiled.input_schemas.size(); ++i) fields.emplace_back(std::to_string(i), compiled.input_schemas[i]);
        input_schema = TypeRegistry::instance().un_named_tsb(fields);
    }
    WiringNodeSchema node_schema;
    node_schema.input = input_schema;
    node_schema.output = compiled.output_schema;
    return w.add_node(std::type_index(typeid(NestedTag)), node_schema, std::span<const WiringPortRef>{inputs.data(), inputs.size()}, std::move(scalars), [&]() {
        NodeTypeMetaData meta;
        meta.display_name = "c06b_nested";
        meta.input_schema = input_schema;
        meta.output_schema = compiled.output_schema;
        SingleNestedGraphNodeSpec spec;
        spec.graph_builder = std::move(compiled.graph_builder);
        spec.input_bindings = std::move(compiled.input_bindings);
        spec.output_binding = compiled.output_binding;
        NodeBuilder builder = single_nested_graph_node(std::move(meta), std::move(spec));
        builder.input_endpoint(gd::input_endpoint_for_sources(input_schema, std::span<const WiringPortRef>{inputs.data(), inputs.size()}));
        return builder;
    });
}

// the child body of scenarios 0-9, composed over the boundary shapes of the declared arguments
const Outer *g_outer = nullptr;
WiringPortRef compose_child(Wiring &cw, std::span<const WiringPortRef> shapes) {
    const Scn &S = SCN[g_scn];
    WiringPortRef handle[2];
    bool made[2] = {false, false};
    auto capture = [&](int i) -> const WiringPortRef & {
        if (!made[i]) { handle[i] = cw.capture_outer_source(g_outer->source(S.caps[i])); made[i] = true; }
        return handle[i];
    };
    for (int i = 0; i < S.npre; i++) capture(i);
    return wire_body(cw, S, [&](const Ref &r, Int k) -> WiringPortRef {
        if (r.sp == ARG) return scale_of(cw, pick(shapes[r.idx], r.path), k);
        if (r.sp == CAP) return scale_of(cw, pick(capture(r.idx), r.path), k);
        return scale_of(cw, g_outer->o[r.idx].erased(), k);  // a port of the ENCLOSING wiring used inside the child
    });
}

#if HOST_TRY
struct TryBody {  // the same child behind wire_try_except: a WiredFn whose compile callback composes the child
    static CompiledSubGraph compile(const void *, Wiring *parent, std::span<const TSValueTypeMetaData *const> s) {
        Wiring cw = parent ? parent->child_wiring() : Wiring{WiringKind::SubGraph};
        std::vector<WiringPortRef> shapes;
        std::vector<const TSValueTypeMetaData *> schemas;
        for (std::size_t i = 0; i < s.size(); i++) { shapes.push_back(WiringPortRef::boundary_source(i, {}, s[i])); schemas.push_back(s[i]); }
        WiringPortRef out = compose_child(cw, std::span<const WiringPortRef>{shapes.data(), shapes.size()});
        CompiledSubGraph compiled = std::move(cw).finish_subgraph(out, std::move(schemas));
        RunLog &L = g_r[g_mode];
        L.child_nodes = compiled.graph_builder.node_count();
        L.child_inputs = compiled.input_schemas.size();
        L.sites++;
        return compiled;
    }
    static WiringPortRef wire_(const void *, Wiring &w, std::span<const WiringPortRef> a) { return compose_child(w, a); }
    static const TSValueTypeMetaData *out(const void *) { return schema_descriptor<TS<Int>>::ts_meta(); }
    static WiredFn make(std::size_t arity) {
        static WiredFnOps ops{.wire = &wire_, .compile = &compile, .output_schema = &out};
        WiredFn f;
        f.ops = &ops;
        f.arity = arity;
        f.has_output = true;
        f.identity = &typeid(TryBody);
        return f;
    }
};
#endif

struct Top {
    static constexpr auto name = "c06b_top";
    static void compose(Wiring &w) {
        const Scn &S = SCN[g_scn];
        bool need[4] = {false, false, false, false};
        for (int i = 0; i < S.nargs; i++) for (int c = 0; c < 2; c++) if (S.args[i][c] >= 0) need[S.args[i][c]] = true;
        for (int i = 0; i < S.ncaps; i++) for (int c = 0; c < 2; c++) if (S.caps[i][c] >= 0) need[S.caps[i][c]] = true;
        need[outer_id(S, S.p)] = true;
        need[outer_id(S, S.q)] = true;
        Outer O;
        if (need[0] || need[2]) O.o[0] = wire<Src<0>>(w);
        if (need[1] || need[3]) O.o[1] = wire<Src<1>>(w);
        if (need[2]) O.o[2] = wire<F>(w, O.o[0]);
        if (need[3]) O.o[3] = wire<G>(w, O.o[1]);

        WiringPortRef out;
        if (g_mode == 0) {
            out = wire_body(w, S, [&](const Ref &r, Int k) -> WiringPortRef { return scale_of(w, O.o[outer_id(S, r)].erased(), k); });
        } else if (S.two_sites) {
            // each Scale sits alone in its own call of ONE nested definition; the rest of the dataflow stays outside
            auto site = [&](const Ref &r, Int k) -> WiringPortRef {
                return host_nested(w, {O.o[outer_id(S, r)].erased()}, [&](Wiring &cw, std::span<const WiringPortRef> in) -> WiringPortRef {
                    return scale_of(cw, in[0], k);
                }, Value{Int{k}});  // nested_<G> puts G's scalar arguments into the interning identity of the nested node
            };
            out = wire_body(w, S, site);
        } else {
            g_outer = &O;
            std::vector<WiringPortRef> args;
            for (int i = 0; i < S.nargs; i++) args.push_back(O.source(S.args[i]));
#if HOST_TRY
            if (g_host == 1) {
                WiringPortRef r = ho::wire_try_except(w, TryBody::make(args.size()), args, {}, ErrorCaptureOptions{});
                const auto *bundle = r.schema;
                out = WiringPortRef::peered_source(r.peered_node(), {1}, bundle->fields()[1].type);
            } else
#endif
                out = host_nested(w, args, compose_child);
            g_outer = nullptr;
        }
        wire<Rec<2>>(w, Port<TS<Int>>{w, out});
    }
};

Int model_value(int outer, Int a, Int b) { return outer == 0 ? a : outer == 1 ? b : outer == 2 ? 2 * a + 1 : 5 - b; }
}  // namespace

extern "C" int harness_main() {
#if HOST_TRY
    register_ho_scalars();
#endif
    g_scn = verif_choice("scn", NSCN);
    if (!((SCN_MASK >> g_scn) & 1)) { verif_end_path(); return 0; }
    const Scn &S = SCN[g_scn];
    // different scalars are only interesting where p and q are the same input through the same kind of reference (else the
    // inputs already keep the nodes apart)
    const bool same_k = (S.same_input && S.p.sp == S.q.sp) ? verif_bool("same_k") : true;
    g_k1 = 3;
    g_k2 = same_k ? 3 : 4;
    g_ord = NORD > 1 ? verif_choice("ord", NORD) : 0;
#if HOST_TRY
    g_host = (!S.two_sites && !has_structural(S) && ((TRY_MASK >> g_scn) & 1)) ? verif_choice("host", 2) : 0;
#endif

    std::int64_t s0 = verif_range("start", 0, 1000);
    std::int64_t win = verif_range("window", 1, WMAX);
    g_start = at_us(s0);
    g_end = g_start + TimeDelta{win};
    for (int sc = 0; sc < 2; sc++) {
        DateTime t = g_start;
        for (int j = 0; j < NX; j++) {
            t = t + TimeDelta{verif_range(sc == 0 ? "gapa" : "gapb", j == 0 ? 0 : 1, DMAX)};
            g_T[sc][j] = t;
            g_V[sc][j] = verif_range(sc == 0 ? "vala" : "valb", -1000, 1000);
        }
    }

    for (g_mode = 0; g_mode < 2; g_mode++) {
        GraphBuilder gb = build_graph<Top>();
        g_r[g_mode].nodes = gb.node_count();
        run_sim(std::move(gb), g_start, g_end, nullptr);
    }
    const RunLog &FL = g_r[0], &NE = g_r[1];

    verif_assert(!FL.overflow && !NE.overflow, "C06.log_overflow");
    // ---- the nested wiring behaves like the same dataflow wired flat
    bool ok_count = true, ok_stream = true;
    for (int r = 0; r < NREC; r++) {
        ok_count &= FL.n[r] == NE.n[r];
        const int n = FL.n[r] < NE.n[r] ? FL.n[r] : NE.n[r];
        for (int i = 0; i < n; i++) ok_stream &= (FL.rec[r][i].t == NE.rec[r][i].t) & (FL.rec[r][i].v == NE.rec[r][i].v);
    }
    verif_assert(ok_count, "C06.sub.same_number_of_ticks_as_flat_wiring");
    verif_assert(ok_stream, "C06.sub.same_streams_as_flat_wiring");
    // ---- un-shared model of d1 and d2 (nested run)
    bool ok_mcount = true, ok_model = true;
    const int oid[2] = {outer_id(S, S.p), outer_id(S, S.q)};
    for (int r = 0; r < 2; r++) {
        const int sc = (oid[r] == 0 || oid[r] == 2) ? 0 : 1;
        const Int k = r == 0 ? g_k1 : g_k2;
        int i = 0;
        Int expected_n = 0;
        for (int j = 0; j < NX; j++) {
            expected_n += (g_T[sc][j] < g_end) ? 1 : 0;
            if (i < NE.n[r]) {
                const Int in = model_value(oid[r], g_V[0][j], g_V[1][j]);
                ok_model &= (NE.rec[r][i].t == g_T[sc][j]) & (NE.rec[r][i].v == 1000 * in + k);
                i++;
            }
        }
        ok_mcount &= Int(NE.n[r]) == expected_n;
    }
    verif_assert(ok_mcount, "C06.sub.no_tick_lost_or_added_inside_child");
    verif_assert(ok_model, "C06.sub.child_outputs_equal_unshared_model");
    // ---- nodes that differ in an input or a scalar stay distinct
    const bool must_be_distinct = !S.same_input || !same_k;
    int site_nodes = 0;
    if (!S.two_sites) {
        // child graph: Scale x (1 or 2), Rec0, Rec1, Comb
        verif_assert(NE.child_nodes == 4 || NE.child_nodes == 5, "C06.sub.child_node_count_calibration");
        if (must_be_distinct) verif_assert(NE.child_nodes == 5, "C06.sub.different_boundary_inputs_stay_distinct");
    } else {
        // enclosing graph: sources (2 / 1), nested node x (1 or 2), Rec0, Rec1, Comb, Rec2; each child graph is one Scale
        site_nodes = int(NE.nodes) - (g_scn == 10 ? 2 : 1) - 4;
        verif_assert((site_nodes == 1 || site_nodes == 2) && NE.child_nodes == 1 && NE.sites == 2, "C06.sub.child_node_count_calibration");
        if (must_be_distinct) verif_assert(site_nodes == 2, "C06.sub.call_sites_with_different_inputs_stay_distinct");
    }

    // ---- reach (all run-dependent labels at the end)
    const bool both_ticked = NE.n[0] >= 1 && NE.n[1] >= 1;
    const bool shared = !S.two_sites ? NE.child_nodes == 4 : site_nodes == 1;
    if ((g_scn == 0 || g_scn == 1) && both_ticked) verif_reach("argument_i_vs_capture_i_both_ticked");
    if (g_scn == 1 && both_ticked) verif_reach("argument_1_vs_capture_1");
    if (g_scn == 2 && both_ticked) verif_reach("argument_i_vs_argument_j");
    if (g_scn == 3 && both_ticked) verif_reach("capture_i_vs_capture_j");
    if (g_scn == 4 && same_k && shared && both_ticked) verif_reach("same_port_captured_twice_shared");
    if (g_scn == 4 && !same_k && both_ticked) verif_reach("same_capture_different_scalar_distinct");
    if (g_scn == 5 && both_ticked) verif_reach("argument_and_capture_of_same_outer_port");
    if (g_scn == 6 && both_ticked) verif_reach("paths_of_one_structural_argument");
    if (g_scn == 7 && both_ticked) verif_reach("structural_argument_path_vs_structural_capture_path");
    if (g_scn == 8 && both_ticked) verif_reach("explicit_capture_vs_implicit_capture");
    if (g_scn == 9 && both_ticked) verif_reach("explicit_and_implicit_capture_of_same_port");
    if (g_scn == 10 && both_ticked) verif_reach("two_call_sites_different_inputs");
    if (g_scn == 11 && same_k && shared && both_ticked) verif_reach("two_call_sites_same_input_shared");
    if (g_scn == 11 && !same_k && both_ticked) verif_reach("two_call_sites_same_input_different_scalar");
    if (g_scn == 12 && both_ticked) verif_reach("paths_of_one_structural_capture");
    if (g_ord != 0 && both_ticked) verif_reach("child_statement_order_permuted");
    if (g_host == 1 && both_ticked) verif_reach("hosted_by_try_except");
    if (NE.n[2] >= 2) verif_reach("two_output_ticks");
    verif_log("child_nodes", (std::int64_t)NE.child_nodes);
    verif_log("child_inputs", (std::int64_t)NE.child_inputs);
    verif_log("nodes", (std::int64_t)NE.nodes);
    verif_reach("end");
    return 0;
}

// C15: captured errors tick once, where they happen, and do not disturb the rest.
//   One path runs the SAME program twice on the same symbolic inputs: run 0 with the fault script armed, run 1 (the
//   fault-free twin) with it disarmed, and compares the recorded streams.
//   MODE 0 (per-node capture, Wiring::activate_error_capture -> node.cpp evaluate_impl / write_node_error):
//        src -> T (capturing compute node, self-scheduling) -> dep sink ;  error_output(T) -> err sink
//        S  (capturing self-scheduling SOURCE node)          -> dep2 sink;  error_output(S) -> err2 sink
//        src -> indep (wired after T and S) -> indep sink
//   MODE 1 (wire_try_except -> try_except_node.cpp): src -> try_except( pre -> T -> post ) -> out sink / exception sink,
//        src -> indep -> indep sink
//   MODE 2 (map_ with per-key error capture, map_node.cpp write_map_error): keysrc (keys 0,1) -> map_( (key, x): pre -> TK ) ->
//        per-key dep sink; exception_time_series(map) -> per-key err sink;  src -> indep -> indep sink
//   enumerated: whether all throws of a node carry the SAME message (a NodeError has no time stamp, so a repeated error is an
//               equal value written again) or a message numbered by the evaluation
//   symbolic  : source payloads, source cycle deltas, T's / S's self-scheduling deltas, the SET of evaluations in which
//               T (and S) throw (one symbolic bool per evaluation - forks where it is consulted)
//   oracle    : neither run lets an exception escape; the twin has no error tick; run 0's error stream is exactly the
//               list of throws: same count, same cycle time, same message; the independent stream is identical in both
//               runs; the capturing node (and, MODE 1, every node of the wrapped graph) is evaluated at exactly the same
//               times in both runs (evaluated normally again, scheduler re-armed); in evaluations that did not throw
//               the dependent stream equals the twin's (what it shows in a throwing cycle is left open).
#ifndef MODE
#define MODE 0          // 0: per-node error capture, 1: try_except over a three-node sub-graph, 2: map_ per-key capture
#endif
#include "hk.h"

#include <hgraph/runtime/node_error.h>
#include <hgraph/types/subgraph_wiring.h>
#if MODE >= 1
#include <hgraph/lib/std/operators/impl/higher_order_impl.h>
#endif

#include <string>

#ifndef NCYC
#define NCYC 3          // source cycles
#endif
#ifndef DMAX
#define DMAX 2          // deltas symbolic in [1,DMAX] (self-scheduling: [0,DMAX], 0 = none)
#endif
#ifndef TSCHED
#define TSCHED 1        // number of T evaluations that may self-schedule
#endif

using namespace hk;

namespace {
constexpr int MAXE = NCYC + TSCHED + 1;    // evaluations of T per run (upper bound; overflow is asserted)
constexpr int CAP = 2 * MAXE + 2;           // per-stream capacity (MODE 2: the shared pre-tap sees both keys); overflow is asserted
struct Rec { DateTime t; Int v; };
struct Stream {
    Rec r[CAP];
    int n = 0;
    bool overflow = false;
    void add(DateTime t, Int v) { if (n < CAP) r[n++] = Rec{t, v}; else overflow = true; }
};
enum StreamId : int { ST_IND = 0, ST_DEP, ST_ERR, ST_TEVAL, ST_THROWN, ST_DEP2, ST_ERR2, ST_SEVAL, ST_THROWN2, ST_PRE, ST_POST,
                      ST_KEVAL0, ST_KEVAL1, ST_KTHROWN0, ST_KTHROWN1, ST_KERR0, ST_KERR1, ST_KDEP0, ST_KDEP1, NSTREAM };
Stream g_s[2][NSTREAM];
int g_run = 0;
bool g_same_msg = false;   // enumerated: every throw of a node carries the SAME message (else the evaluation number is appended)

std::int64_t g_val[NCYC], g_delta[NCYC], g_tsched[MAXE], g_val2[NCYC], g_delta2[NCYC];
std::int64_t g_throwT[MAXE], g_throwS[NCYC];   // symbolic 0/1
bool g_thrownT[MAXE], g_thrownS[NCYC];         // what actually happened in run 0 (concrete)
DateTime g_pendT[2] = {MIN_DT, MIN_DT};        // latest wake-up time T asked its scheduler for (per run)
bool g_threw_with_pending_wakeup = false;      // run 0: T threw while a wake-up it requested in an EARLIER evaluation was still ahead
int g_kmask[NCYC];                             // MODE 2: which keys the keyed source updates in cycle c (bit k), concrete
std::int64_t g_kval[NCYC][2], g_throwK[2][NCYC];
bool g_thrownK[2][NCYC];

struct Src {
    static constexpr auto name = "src";
    static constexpr bool schedule_on_start = true;
    static void eval(NodeScheduler s, State<Int> n, Out<TS<Int>> out) {
        Int c = n.get();
        n.set(c + 1);
        if (c + 1 < NCYC) s.schedule(TimeDelta{g_delta[c]});
        out.set(g_val[c]);
    }
};
// The capturing compute node.  Registers its own wake-up BEFORE it throws, so the request is pending in the scheduler
// state when the exception is captured.
struct T {
    static constexpr auto name = "thrower";
    static void eval(In<"a", TS<Int>> a, Out<TS<Int>> out, NodeScheduler s, State<Int> n, DateTime now) {
        Int k = n.get();
        n.set(k + 1);
        Stream &ev = g_s[g_run][ST_TEVAL];
        ev.add(now, k);
        DateTime pending_before = g_pendT[g_run];
        if (k < TSCHED && g_tsched[k] > 0) { s.schedule(TimeDelta{g_tsched[k]}); g_pendT[g_run] = now + TimeDelta{g_tsched[k]}; }
        if (g_run == 0 && k < MAXE && g_throwT[k] != 0) {
            g_thrownT[k] = true;
            g_threw_with_pending_wakeup |= (pending_before > now);
            Int tag = g_same_msg ? 0 : k;
            g_s[0][ST_THROWN].add(now, tag);
            throw std::runtime_error(std::string("boomT") + char('0' + tag));
        }
        out.set(a.value() * 3 + 1);
    }
};
// The capturing source node (no inputs): re-arms itself, then may throw.
struct S {
    static constexpr auto name = "throwsrc";
    static constexpr bool schedule_on_start = true;
    static void eval(NodeScheduler s, State<Int> n, Out<TS<Int>> out, DateTime now) {
        Int k = n.get();
        n.set(k + 1);
        g_s[g_run][ST_SEVAL].add(now, k);
        if (k + 1 < NCYC) s.schedule(TimeDelta{g_delta2[k]});
        if (g_run == 0 && g_throwS[k] != 0) {
            g_thrownS[k] = true;
            Int tag = g_same_msg ? 0 : k;
            g_s[0][ST_THROWN2].add(now, tag);
            throw std::runtime_error(std::string("boomS") + char('0' + tag));
        }
        out.set(g_val2[k]);
    }
};
struct Indep {
    static constexpr auto name = "indep";
    static void eval(In<"a", TS<Int>> a, Out<TS<Int>> out) { out.set(a.value() * 2 + 1); }
};
template <int STREAM> struct Tap {   // pass-through that records its evaluations (used inside the wrapped graph)
    static constexpr auto name = "tap";
    static void eval(In<"a", TS<Int>> a, Out<TS<Int>> out, DateTime now) {
        g_s[g_run][STREAM].add(now, a.value());
        out.set(a.value() + 1);
    }
};
template <int STREAM> struct RecSink {
    static constexpr auto name = "recsink";
    static void eval(In<"a", TS<Int>> a, DateTime now) { g_s[g_run][STREAM].add(now, a.value()); }
};
// error message -> evaluation number: "boom<tag><digit>" gives digit, anything else -1
Int decode(const std::string &m, char tag) {
    if (m.size() == 6 && m.compare(0, 4, "boom") == 0 && m[4] == tag && m[5] >= '0' && m[5] <= '9') return m[5] - '0';
    return -1;
}
template <int STREAM, char TAG> struct ErrSink {
    static constexpr auto name = "errsink";
    static void eval(In<"e", TS<NodeError>> e, DateTime now) {
        std::string m = e.base().value().as_bundle().at("error_msg").checked_as<Str>();
        g_s[g_run][STREAM].add(now, decode(m, TAG));
    }
};

#if MODE >= 1
namespace ho = hgraph::stdlib::higher_order_impl_detail;
#endif
#if MODE == 2
struct KeySrc {
    static constexpr auto name = "keysrc";
    static constexpr bool schedule_on_start = true;
    static void eval(NodeScheduler s, State<Int> n, Out<TSD<Int, TS<Int>>> out) {
        Int c = n.get();
        n.set(c + 1);
        if (c + 1 < NCYC) s.schedule(TimeDelta{g_delta2[c]});
        if (g_kmask[c] & 1) out[Int{0}].set(g_kval[c][0]);
        if (g_kmask[c] & 2) out[Int{1}].set(g_kval[c][1]);
    }
};
// The per-key thrower: evaluation j of key k throws when g_throwK[k][j] (run 0 only).
struct TK {
    static constexpr auto name = "keyed_thrower";
    static void eval(In<"key", TS<Int>> key, In<"a", TS<Int>> a, Out<TS<Int>> out, State<Int> n, DateTime now) {
        int k = (int)key.value();
        Int j = n.get();
        n.set(j + 1);
        g_s[g_run][ST_KEVAL0 + k].add(now, a.value());
        if (g_run == 0 && j < NCYC && g_throwK[k][j] != 0) {
            g_thrownK[k][j] = true;
            Int tag = g_same_msg ? 0 : j;
            g_s[0][ST_KTHROWN0 + k].add(now, tag);
            throw std::runtime_error(std::string("boom") + char('a' + k) + char('0' + tag));
        }
        out.set(a.value() * 3 + 1);
    }
};
struct KDepSink {
    static constexpr auto name = "kdepsink";
    static void eval(In<"a", TSD<Int, TS<Int>>> a, DateTime now) {
        const TSDInputView &d = a;
        for (const auto [k, v] : d.modified_items()) {
            int kk = (int)k.template checked_as<Int>();
            g_s[g_run][ST_KDEP0 + kk].add(now, v.value().template checked_as<Int>());
        }
    }
};
struct KErrSink {
    static constexpr auto name = "kerrsink";
    static void eval(In<"e", TSD<Int, TS<NodeError>>> e, DateTime now) {
        const TSDInputView &d = e;
        for (const auto [k, v] : d.modified_items()) {
            int kk = (int)k.template checked_as<Int>();
            std::string m = v.value().as_bundle().at("error_msg").template checked_as<Str>();
            g_s[g_run][ST_KERR0 + kk].add(now, decode(m, char('a' + kk)));
        }
    }
};
struct KeyFn {   // WiredFn for  (key, x) -> pre -> TK
    static WiringPortRef body(Wiring &w, Port<TS<Int>> key, Port<TS<Int>> x) {
        auto pre = wire<Tap<ST_PRE>>(w, x);
        return wire<TK>(w, key, pre).erased();
    }
    static CompiledSubGraph compile(const void *, Wiring *parent, std::span<const TSValueTypeMetaData *const> s) {
        Wiring cw = parent ? parent->child_wiring() : Wiring{WiringKind::SubGraph};
        Port<TS<Int>> key{cw, WiringPortRef::boundary_source(0, {}, s[0])};
        Port<TS<Int>> x{cw, WiringPortRef::boundary_source(1, {}, s[1])};
        WiringPortRef out = body(cw, key, x);
        return std::move(cw).finish_subgraph(out, {s[0], s[1]});
    }
    static WiringPortRef wire_(const void *, Wiring &w, std::span<const WiringPortRef> a) {
        return body(w, Port<TS<Int>>{w, a[0]}, Port<TS<Int>>{w, a[1]});
    }
    static const TSValueTypeMetaData *out(const void *) { return schema_descriptor<TS<Int>>::ts_meta(); }
    static WiredFn make() {
        static WiredFnOps ops{.wire = &wire_, .compile = &compile, .output_schema = &out};
        WiredFn f; f.ops = &ops; f.arity = 2; f.has_output = true; f.identity = &typeid(KeyFn);
        return f;
    }
};
#endif
#if MODE == 1
using TryIntResult = UnNamedTSB<Field<"exception", TS<NodeError>>, Field<"out", TS<Int>>>;
struct TryOut {
    static constexpr auto name = "try_out";
    static void eval(In<"r", TryIntResult, InputValidity::Unchecked> r, DateTime now) {
        auto field = r.template field<"out">();
        if (field.valid() && field.modified()) g_s[g_run][ST_DEP].add(now, field.value());
    }
};
struct TryErr {
    static constexpr auto name = "try_err";
    static void eval(In<"r", TryIntResult, InputValidity::Unchecked> r, DateTime now) {
        auto field = r.template field<"exception">();
        if (field.valid() && field.modified()) {
            std::string m = field.base().value().as_bundle().at("error_msg").checked_as<Str>();
            g_s[g_run][ST_ERR].add(now, decode(m, 'T'));
        }
    }
};
struct WrappedFn {   // WiredFn for  x -> pre -> T -> post
    static WiringPortRef body(Wiring &w, Port<TS<Int>> x) {
        auto pre = wire<Tap<ST_PRE>>(w, x);
        auto t = wire<T>(w, pre);
        return wire<Tap<ST_POST>>(w, t).erased();
    }
    static CompiledSubGraph compile(const void *, Wiring *parent, std::span<const TSValueTypeMetaData *const> s) {
        Wiring cw = parent ? parent->child_wiring() : Wiring{WiringKind::SubGraph};
        Port<TS<Int>> x{cw, WiringPortRef::boundary_source(0, {}, s[0])};
        WiringPortRef out = body(cw, x);
        return std::move(cw).finish_subgraph(out, {s[0]});
    }
    static WiringPortRef wire_(const void *, Wiring &w, std::span<const WiringPortRef> a) { return body(w, Port<TS<Int>>{w, a[0]}); }
    static const TSValueTypeMetaData *out(const void *) { return schema_descriptor<TS<Int>>::ts_meta(); }
    static WiredFn make() {
        static WiredFnOps ops{.wire = &wire_, .compile = &compile, .output_schema = &out};
        WiredFn f; f.ops = &ops; f.arity = 1; f.has_output = true; f.identity = &typeid(WrappedFn);
        return f;
    }
};
#endif

struct Top {
    static constexpr auto name = "top";
    static void compose(Wiring &w) {
        auto s = wire<Src>(w);
#if MODE == 0
        auto t = wire<T>(w, s);
        auto terr = exception_time_series(t);
        wire<ErrSink<ST_ERR, 'T'>>(w, terr);
        wire<RecSink<ST_DEP>>(w, t);
        auto s2 = wire<S>(w);
        auto serr = exception_time_series(s2);
        wire<ErrSink<ST_ERR2, 'S'>>(w, serr);
        wire<RecSink<ST_DEP2>>(w, s2);
#elif MODE == 1
        WiringPortRef r = ho::wire_try_except(w, WrappedFn::make(), {s.erased()}, {}, ErrorCaptureOptions{});
        Port<TryIntResult> res{w, r};
        wire<TryOut>(w, res);
        wire<TryErr>(w, res);
#else
        auto d = wire<KeySrc>(w);
        WiringPortRef m = ho::wire_map(w, Scalar<"func", WiredFn>{KeyFn::make()}, "", {d.erased()}, std::nullopt, true);
        Port<TSD<Int, TS<Int>>> mp{w, m};
        auto errs = exception_time_series(mp);
        wire<KErrSink>(w, errs);
        wire<KDepSink>(w, mp);
#endif
        auto i = wire<Indep>(w, s);
        wire<RecSink<ST_IND>>(w, i);
    }
};

bool same_stream(const Stream &a, const Stream &b) {
    bool ok = (a.n == b.n);
    int n = a.n < b.n ? a.n : b.n;
    for (int i = 0; i < n; i++) ok &= (a.r[i].t == b.r[i].t) & (a.r[i].v == b.r[i].v);
    return ok;
}
// dependent stream: every twin tick of an evaluation that did not throw appears identically in run 0, and every run-0
// tick is a twin tick (same time; same value unless that evaluation threw).  ev = evaluation stream of the producer
// (identical in both runs when this is used), thrown[k] = evaluation k threw in run 0.
bool dependent_ok(const Stream &d0, const Stream &d1, const Stream &ev, const bool *thrown, int nthrown) {
    bool ok = true;
    for (int i = 0; i < d1.n; i++) {
        bool threw_then = false, found = false;
        for (int k = 0; k < ev.n && k < nthrown; k++) threw_then |= thrown[k] & (ev.r[k].t == d1.r[i].t);
        for (int j = 0; j < d0.n; j++) found |= (d0.r[j].t == d1.r[i].t) & (d0.r[j].v == d1.r[i].v);
        ok &= found | threw_then;
    }
    for (int j = 0; j < d0.n; j++) {
        bool threw_then = false, match = false;
        for (int k = 0; k < ev.n && k < nthrown; k++) threw_then |= thrown[k] & (ev.r[k].t == d0.r[j].t);
        for (int i = 0; i < d1.n; i++) {
            match |= (d0.r[j].t == d1.r[i].t) & (d0.r[j].v == d1.r[i].v);
        }
        ok &= match | threw_then;
    }
    return ok;
}
}  // namespace

extern "C" int harness_main() {
#if MODE >= 1
    auto &reg = TypeRegistry::instance();
    reg.register_scalar<WiredFn>("fn");
    reg.register_scalar<stdlib::SwitchCases>("switch_cases");
#endif
    GraphBuilder gb0 = build_graph<Top>();
    GraphBuilder gb1 = build_graph<Top>();

    g_same_msg = verif_bool("same_msg");
    for (int c = 0; c < NCYC; c++) {
        g_val[c] = verif_range("val", -1000, 1000);
        g_delta[c] = verif_range("delta", 1, DMAX);
        g_val2[c] = verif_range("val2", -1000, 1000);
        g_delta2[c] = verif_range("delta2", 1, DMAX);
        g_throwS[c] = MODE == 0 ? verif_range("throwS", 0, 1) : 0;
#if MODE == 2
        g_kmask[c] = c == 0 ? 3 : 1 + verif_choice("kmask", 3);
        for (int k = 0; k < 2; k++) {
            g_kval[c][k] = verif_range("kval", -1000, 1000);
            g_throwK[k][c] = verif_range("throwK", 0, 1);
        }
#endif
    }
    for (int k = 0; k < MAXE; k++) {
        g_tsched[k] = k < TSCHED ? verif_range("tsched", 0, DMAX) : 0;
        g_throwT[k] = MODE == 2 ? 0 : verif_range("throwT", 0, 1);
    }

    bool escaped[2] = {false, false};
    for (int run = 0; run < 2; run++) {
        g_run = run;
        try {
            run_sim(run == 0 ? std::move(gb0) : std::move(gb1), MIN_ST, MIN_ST + TimeDelta{1000});
        } catch (const std::exception &) {
            escaped[run] = true;
        }
    }

    // ---- oracle
    bool overflow = false;
    for (int r = 0; r < 2; r++)
        for (int s = 0; s < NSTREAM; s++) overflow |= g_s[r][s].overflow;
    verif_assert(!overflow, "C15.log_overflow");
    verif_assert(!escaped[0], "C15.run_continues_no_exception_escapes");
    verif_assert(!escaped[1], "C15.twin_run_completes");
    verif_assert(g_s[1][ST_ERR].n == 0 && g_s[1][ST_ERR2].n == 0 && g_s[1][ST_KERR0].n == 0 && g_s[1][ST_KERR1].n == 0, "C15.no_error_tick_without_throw");

    // exactly one error tick per throw, in that cycle, carrying the message (decoded evaluation number)
    verif_assert(same_stream(g_s[0][ST_ERR], g_s[0][ST_THROWN]), "C15.one_error_tick_per_throw_same_cycle_same_message");
    verif_assert(same_stream(g_s[0][ST_ERR2], g_s[0][ST_THROWN2]), "C15.source_one_error_tick_per_throw_same_cycle_same_message");
    // non-interference
    verif_assert(same_stream(g_s[0][ST_IND], g_s[1][ST_IND]), "C15.independent_stream_identical_to_twin");
    verif_assert(g_s[1][ST_IND].n == NCYC, "C15.twin_independent_stream_complete");
    // evaluated normally again (and the scheduler still re-arms): same evaluation times as the twin
    // The case "T throws on an input-driven evaluation while a wake-up it requested earlier is still pending" has its own id
    // (same check), so that the fate of that pending wake-up can be told apart from everything else.
    bool same_evals = same_stream(g_s[0][ST_TEVAL], g_s[1][ST_TEVAL]);
    verif_assert(same_evals | g_threw_with_pending_wakeup, "C15.failing_node_evaluated_at_same_times_as_twin");
    verif_assert(same_evals | !g_threw_with_pending_wakeup, "C15.pending_wakeup_survives_captured_failure");
    verif_assert(same_stream(g_s[0][ST_SEVAL], g_s[1][ST_SEVAL]), "C15.failing_source_rearms_like_twin");
    verif_assert(same_stream(g_s[0][ST_PRE], g_s[1][ST_PRE]), "C15.wrapped_graph_upstream_node_evaluated_like_twin");
    verif_assert(!same_evals | dependent_ok(g_s[0][ST_DEP], g_s[1][ST_DEP], g_s[1][ST_TEVAL], g_thrownT, MAXE), "C15.output_equals_twin_when_not_throwing");
    verif_assert(dependent_ok(g_s[0][ST_DEP2], g_s[1][ST_DEP2], g_s[1][ST_SEVAL], g_thrownS, NCYC), "C15.source_output_equals_twin_when_not_throwing");

#if MODE == 2
    // keyed map: the error of key k's child appears under key k only, once per throw, in that cycle, with the message;
    // each key's child is evaluated like the twin's and its output equals the twin's where it did not throw.
    verif_assert(same_stream(g_s[0][ST_KERR0], g_s[0][ST_KTHROWN0]) & same_stream(g_s[0][ST_KERR1], g_s[0][ST_KTHROWN1]),
                 "C15.map_error_under_failing_key_only_once_per_throw");
    bool same_kevals = same_stream(g_s[0][ST_KEVAL0], g_s[1][ST_KEVAL0]) & same_stream(g_s[0][ST_KEVAL1], g_s[1][ST_KEVAL1]);
    verif_assert(same_kevals, "C15.map_children_evaluated_at_same_times_as_twin");
    verif_assert(!same_kevals | (dependent_ok(g_s[0][ST_KDEP0], g_s[1][ST_KDEP0], g_s[1][ST_KEVAL0], g_thrownK[0], NCYC) &
                                 dependent_ok(g_s[0][ST_KDEP1], g_s[1][ST_KDEP1], g_s[1][ST_KEVAL1], g_thrownK[1], NCYC)),
                 "C15.map_key_output_equals_twin_when_not_throwing");
    {
        int n0 = g_s[0][ST_KTHROWN0].n, n1 = g_s[0][ST_KTHROWN1].n;
        if (n0 + n1 >= 1) verif_reach("key_child_throws");
        if (n0 >= 1 && n1 == 0 && g_s[1][ST_KEVAL1].n >= 2) verif_reach("one_key_throws_other_key_runs");
        if (n0 >= 1 && n1 >= 1) verif_reach("both_keys_throw");
        bool rec = false;
        for (int k = 0; k < 2; k++)
            for (int j = 0; j + 1 < NCYC; j++) rec |= g_thrownK[k][j] && !g_thrownK[k][j + 1] && j + 1 < g_s[0][ST_KEVAL0 + k].n;
        if (rec) verif_reach("key_child_normal_evaluation_after_throw");
    }
#endif
    // ---- reach
    int nthrow = g_s[0][ST_THROWN].n, nthrow2 = g_s[0][ST_THROWN2].n;
    if (nthrow == 0 && nthrow2 == 0 && g_s[0][ST_KTHROWN0].n == 0 && g_s[0][ST_KTHROWN1].n == 0) verif_reach("no_throw");
    if (nthrow >= 1) verif_reach("throw");
    if (g_thrownT[0]) verif_reach("throw_in_first_cycle");
    bool consecutive = false, recovered = false;
    for (int k = 0; k + 1 < MAXE; k++) {
        consecutive |= g_thrownT[k] && g_thrownT[k + 1];
        recovered |= g_thrownT[k] && !g_thrownT[k + 1] && k + 1 < g_s[0][ST_TEVAL].n;
    }
    if (consecutive) verif_reach("throw_in_consecutive_evaluations");
    if (g_same_msg && (nthrow >= 2 || nthrow2 >= 2 || g_s[0][ST_KTHROWN0].n >= 2 || g_s[0][ST_KTHROWN1].n >= 2))
        verif_reach("same_error_message_in_two_cycles");
    {   // same message, NOT in consecutive evaluations (a successful evaluation in between)
        bool gap = false;
        for (int a = 0; a < MAXE; a++)
            for (int b = a + 2; b < MAXE; b++) gap |= g_thrownT[a] && g_thrownT[b] && !g_thrownT[a + 1];
        if (g_same_msg && gap) verif_reach("same_error_message_again_after_a_good_evaluation");
    }
    if (recovered) verif_reach("normal_evaluation_after_throw");
    if (g_s[1][ST_TEVAL].n > NCYC) verif_reach("thrower_woken_by_own_schedule");
    if (g_threw_with_pending_wakeup) verif_reach("throw_while_own_wakeup_pending");
    if (nthrow >= 1 && nthrow2 >= 1) verif_reach("two_nodes_throw");
    bool same_cycle = false;
    for (int i = 0; i < nthrow; i++)
        for (int j = 0; j < nthrow2; j++) same_cycle |= (g_s[0][ST_THROWN].r[i].t == g_s[0][ST_THROWN2].r[j].t);
    if (same_cycle) verif_reach("two_nodes_throw_in_same_cycle");
    verif_log("throws", nthrow);
    verif_log("throws2", nthrow2);
    verif_log("tevals", g_s[1][ST_TEVAL].n);
    verif_reach("end");
    return 0;
}

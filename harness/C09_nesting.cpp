// C09: a sub-graph behaves the same inlined or nested, at any depth.
//   Each sub-graph definition G is wired (mode 0) inline - G::compose(w, x) - and (mode k>=1) as a nested child
//   graph k levels deep through hk::c09::nested_call (mirror of subgraph_wiring.h nested_<G>: real child_wiring,
//   boundary shapes, G::compose, finish_subgraph, single_nested_graph_node).  Every mode is built and run on its own
//   (so the parent really is idle when only the child has work) on the SAME symbolic script, in one path.
//   enumerated: definition (DEF)
//       0 stateless map of its input              1 internal self-scheduling timer source added to the input
//       2 stateful running sum                    3 pass-through of its input (ParentInput output binding)
//       4 captured outer port added to the input  5 no input at all: internal timer only (parent otherwise idle)
//       6 stateful node with an Unchecked (validity-gate-free) input that writes on every evaluation
//       7 REF<TS<Int>> boundary fed by the plain input (to-REF adapter outside, de-referencing consumer inside: the
//         nested node's own input only ticks when the reference changes, so later input ticks reach the child only
//         through the out-of-band "push" of graph.cpp nested_schedule_node_impl)
//       8 sampler: reads the input PASSIVELY and wakes itself by symbolic periods (an outer tick wakes the nested node
//         while nothing in the child is due, yet the child's pending wake-up must survive)
//   For the internal-timer definitions (1, 5, 8) every mode additionally has an UNRELATED self-scheduling ticker (symbolic
//   period, own recorder) in the PARENT graph, wired before the sub-graph: the parent then has its own earlier wake-ups
//   cached when the child's next wake-up is pulled up.
//   symbolic : input script times (first offset >= 0, gaps >= 1 us) and values, the captured port's script,
//              the internal timer's wake-up deltas (>= 1 us: consecutive smallest steps and gaps), start, window
//   oracle   : output recorder stream (time, value) of every nested mode == the inlined mode's stream;
//              every wake-up requested by the internal timer inside the window was honoured at exactly that time
//              in every mode; no nested graph evaluation carries a time earlier than the enclosing root cycle's time
#include "hk.h"
#ifdef C09_DEBUG
#include <cstdio>
#endif
#include "hk_c09.h"

#ifndef NX
#define NX 2
#endif
#ifndef NT
#define NT 2
#endif
#ifndef DMAX
#define DMAX 3
#endif
#ifndef WMAX
#define WMAX 6
#endif
#ifndef DEPTH
#define DEPTH 2
#endif
#ifndef PMAX  // largest period of the unrelated parent-level ticker
#define PMAX DMAX
#endif
#ifndef NDEF
#define NDEF 9
#endif
#ifndef DEF_MASK
#define DEF_MASK 0x1ff
#endif

using namespace hk;

namespace {
constexpr int NMODE = DEPTH + 1;
constexpr int MAXO = 2 * (NX + NX + NT + 2) + WMAX;  // output ticks per run (slack)

DateTime g_T[2][NX];  // script 0: input x, script 1: captured outer port c
Int g_V[2][NX];
Int g_td[NT];         // timer deltas
DateTime g_start, g_end;
int g_mode = 0;

struct Tick { DateTime t; Int v; };
struct ModeLog {
    Tick out[MAXO]; int nout = 0;
    DateTime trun[NT + 2]; int ntrun = 0;   // evaluations of the internal timer
    DateTime treq[NT + 2]; int ntreq = 0;   // its requested wake-ups
    DateTime prun[WMAX + 3]; int nprun = 0; // evaluations of the unrelated parent-level ticker
    Tick pout[WMAX + 3]; int npout = 0;     // its recorder
    bool overflow = false;
};
ModeLog g_m[NMODE];

template <int ID> struct Src {
    static constexpr auto name = "c09_src";
    static constexpr bool schedule_on_start = true;
    static void eval(NodeScheduler s, State<Int> k, DateTime now, Out<TS<Int>> out) {
        Int i = k.get();
        if (i < NX && now == g_T[ID][i]) { out.set(g_V[ID][i]); i++; k.set(i); }
        if (i < NX) s.schedule(g_T[ID][i]);
    }
};
struct Timer {  // internal source: runs at start, then wakes itself NT times by symbolic deltas
    static constexpr auto name = "c09_timer";
    static constexpr bool schedule_on_start = true;
    static void eval(NodeScheduler s, State<Int> k, DateTime now, Out<TS<Int>> out) {
        ModeLog &L = g_m[g_mode];
        Int i = k.get();
        if (L.ntrun < NT + 2) L.trun[L.ntrun++] = now; else L.overflow = true;
        out.set(100 + i);
        if (i < NT) {
            s.schedule(TimeDelta{g_td[i]});
            if (L.ntreq < NT + 2) L.treq[L.ntreq++] = now + TimeDelta{g_td[i]}; else L.overflow = true;
        }
        k.set(i + 1);
    }
};
struct Sampler {  // passive reader of the input, driven only by its own schedule (period = symbolic timer deltas)
    static constexpr auto name = "c09_sampler";
    static constexpr bool schedule_on_start = true;
    static void eval(In<"a", TS<Int>, InputActivity::Passive, InputValidity::Unchecked> a, NodeScheduler s, State<Int> k, DateTime now, Out<TS<Int>> out) {
        ModeLog &L = g_m[g_mode];
        Int i = k.get();
        if (L.ntrun < NT + 2) L.trun[L.ntrun++] = now; else L.overflow = true;
        out.set(100000000 * (i + 1) + (a.valid() ? a.value() : Int{-1}));
        if (i < NT) {
            s.schedule(TimeDelta{g_td[i]});
            if (L.ntreq < NT + 2) L.treq[L.ntreq++] = now + TimeDelta{g_td[i]}; else L.overflow = true;
        }
        k.set(i + 1);
    }
};
Int g_pp = 1;              // period of the parent-level ticker
bool g_with_ticker = false;
struct Ticker {  // unrelated parent-level source: runs at start and then every g_pp us until the end of the window
    static constexpr auto name = "c09_parent_ticker";
    static constexpr bool schedule_on_start = true;
    static void eval(NodeScheduler s, State<Int> k, DateTime now, Out<TS<Int>> out) {
        ModeLog &L = g_m[g_mode];
        if (L.nprun < WMAX + 3) L.prun[L.nprun++] = now; else L.overflow = true;
        out.set(k.get());
        k.set(k.get() + 1);
        s.schedule(TimeDelta{g_pp});
    }
};
struct TickRec {
    static constexpr auto name = "c09_parent_ticker_rec";
    static void eval(In<"a", TS<Int>> a, DateTime now) {
        ModeLog &L = g_m[g_mode];
        if (L.npout < WMAX + 3) L.pout[L.npout++] = Tick{now, a.value()}; else L.overflow = true;
    }
};
inline void wire_parent_ticker(Wiring &w) { if (g_with_ticker) wire<TickRec>(w, wire<Ticker>(w)); }
struct MapN {
    static constexpr auto name = "c09_map";
    static void eval(In<"a", TS<Int>> a, Out<TS<Int>> out) { out.set(2 * a.value() + 1); }
};
struct Add {
    static constexpr auto name = "c09_add";
    static void eval(In<"a", TS<Int>> a, In<"b", TS<Int>> b, Out<TS<Int>> out) { out.set(a.value() + 3 * b.value()); }
};
struct Acc {
    static constexpr auto name = "c09_acc";
    static void eval(In<"a", TS<Int>> a, State<Int> sum, Out<TS<Int>> out) { sum.set(sum.get() + a.value()); out.set(sum.get()); }
};
struct Probe {  // no validity gate: evaluated whenever scheduled; counts its evaluations into the output
    static constexpr auto name = "c09_probe";
    static void eval(In<"a", TS<Int>, InputValidity::Unchecked> a, State<Int> n, Out<TS<Int>> out) {
        n.set(n.get() + 1);
        out.set(n.get() * 10000000 + (a.valid() ? a.value() : Int{-1}));
    }
};
struct Rec {
    static constexpr auto name = "c09_rec";
    static void eval(In<"a", TS<Int>> a, DateTime now) {
        ModeLog &L = g_m[g_mode];
        if (L.nout < MAXO) L.out[L.nout++] = Tick{now, a.value()}; else L.overflow = true;
    }
};

const Port<TS<Int>> *g_outer_c = nullptr;  // the root-wiring port captured by definition 4

// ---- the sub-graph definitions
struct G0 { static constexpr auto name = "c09_g_map";      static Port<TS<Int>> compose(Wiring &w, Port<TS<Int>> x) { return wire<MapN>(w, x); } };
struct G1 { static constexpr auto name = "c09_g_timeradd"; static Port<TS<Int>> compose(Wiring &w, Port<TS<Int>> x) { return wire<Add>(w, x, wire<Timer>(w)); } };
struct G2 { static constexpr auto name = "c09_g_acc";      static Port<TS<Int>> compose(Wiring &w, Port<TS<Int>> x) { return wire<Acc>(w, x); } };
struct G3 { static constexpr auto name = "c09_g_pass";     static Port<TS<Int>> compose(Wiring &, Port<TS<Int>> x) { return x; } };
struct G4 { static constexpr auto name = "c09_g_capture";  static Port<TS<Int>> compose(Wiring &w, Port<TS<Int>> x) { return wire<Add>(w, x, *g_outer_c); } };
struct G5 { static constexpr auto name = "c09_g_timeronly"; static Port<TS<Int>> compose(Wiring &w) { return wire<MapN>(w, wire<Timer>(w)); } };
struct G6 { static constexpr auto name = "c09_g_probe";    static Port<TS<Int>> compose(Wiring &w, Port<TS<Int>> x) { return wire<Probe>(w, x); } };

struct G8 { static constexpr auto name = "c09_g_sampler";  static Port<TS<Int>> compose(Wiring &w, Port<TS<Int>> x) { return wire<Sampler>(w, x); } };
struct G7 { static constexpr auto name = "c09_g_refin";    static Port<TS<Int>> compose(Wiring &w, Port<REF<TS<Int>>> x) { return wire<MapN>(w, x); } };

// ---- G7 (REF boundary) K levels deep: the innermost boundary is REF-typed, outer levels pass the plain port
template <int K> struct NestR {
    static constexpr auto name = "c09_nest_ref";
    static Port<TS<Int>> compose(Wiring &w, Port<TS<Int>> x) {
        if constexpr (K == 0) {
            const auto *ref_schema = schema_descriptor<REF<TS<Int>>>::ts_meta();
            return G7::compose(w, Port<REF<TS<Int>>>{w, graph_wiring_detail::adapt_source_for_input(w, ref_schema, x.erased())});
        } else if constexpr (K == 1) return c09::nested_fn<G7, TS<Int>, REF<TS<Int>>>::call(w, x);
        else return c09::nested1<NestR<K - 1>>(w, x);
    }
};
template <int K> struct TopR {
    static constexpr auto name = "c09_top_ref";
    static void compose(Wiring &w) { wire<Rec>(w, NestR<K>::compose(w, wire<Src<0>>(w))); }
};

// ---- G nested K levels deep (K = 0: inlined)
template <class G, int K> struct Nest1 {
    static constexpr auto name = "c09_nest";
    static Port<TS<Int>> compose(Wiring &w, Port<TS<Int>> x) {
        if constexpr (K == 0) return G::compose(w, x);
        else if constexpr (K == 1) return c09::nested1<G>(w, x);
        else return c09::nested1<Nest1<G, K - 1>>(w, x);
    }
};
template <class G, int K> struct Nest0 {
    static constexpr auto name = "c09_nest0";
    static Port<TS<Int>> compose(Wiring &w) {
        if constexpr (K == 0) return G::compose(w);
        else if constexpr (K == 1) return c09::nested0<G>(w);
        else return c09::nested0<Nest0<G, K - 1>>(w);
    }
};
template <class G, int K, bool WITH_C> struct Top1 {
    static constexpr auto name = "c09_top";
    static void compose(Wiring &w) {
        wire_parent_ticker(w);  // first: lower node index than the nested node
        auto x = wire<Src<0>>(w);
        Port<TS<Int>> c;
        if constexpr (WITH_C) { c = wire<Src<1>>(w); g_outer_c = &c; }
        auto out = Nest1<G, K>::compose(w, x);
        wire<Rec>(w, out);
        g_outer_c = nullptr;
    }
};
template <class G, int K> struct Top0 {
    static constexpr auto name = "c09_top0";
    static void compose(Wiring &w) { wire_parent_ticker(w); wire<Rec>(w, Nest0<G, K>::compose(w)); }
};

template <int K> GraphBuilder build_def(int def) {
    switch (def) {
        case 0: return build_graph<Top1<G0, K, false>>();
        case 1: return build_graph<Top1<G1, K, false>>();
        case 2: return build_graph<Top1<G2, K, false>>();
        case 3: return build_graph<Top1<G3, K, false>>();
        case 4: return build_graph<Top1<G4, K, true>>();
        case 5: return build_graph<Top0<G5, K>>();
        case 6: return build_graph<Top1<G6, K, false>>();
        case 8: return build_graph<Top1<G8, K, false>>();
        default: return build_graph<TopR<K>>();
    }
}
template <int K> struct Builders {
    static GraphBuilder build(int def, int mode) { return mode == K ? build_def<K>(def) : Builders<K - 1>::build(def, mode); }
};
template <> struct Builders<0> {
    static GraphBuilder build(int def, int) { return build_def<0>(def); }
};

constexpr int LOGCAP = 160 * (DEPTH + 1) + 128;
EventLog<LOGCAP> g_log[NMODE];
}  // namespace

extern "C" int harness_main() {
    // Two-stage enumeration (only to balance the shards: the expensive internal-timer definitions 1, 5, 8 are reached after at
    // most 4 forks instead of up to 8): grp 0 = timer definitions, grp 1 = the others; `def` is then made concrete.
    int grp = verif_choice("grp", 2);
    std::int64_t dsym = verif_range("def", 0, NDEF - 1);
    bool is_timer_def = (dsym == 1) | (dsym == 5) | (dsym == 8);
    verif_assume(grp == 0 ? is_timer_def : !is_timer_def);
    int def = (int)verif_concretize(dsym);
    if (!((DEF_MASK >> def) & 1)) { verif_end_path(); return 0; }
    std::int64_t s0 = verif_range("start", 0, 1000);
    std::int64_t win = verif_range("window", 1, WMAX);
    g_start = at_us(s0);
    g_end = g_start + TimeDelta{win};
    const int nscripts = def == 4 ? 2 : 1;
    for (int sc = 0; sc < nscripts; sc++) {
        DateTime t = g_start;
        for (int j = 0; j < NX; j++) {
            t = t + TimeDelta{verif_range(sc == 0 ? "xgap" : "cgap", j == 0 ? 0 : 1, DMAX)};
            g_T[sc][j] = t;
            g_V[sc][j] = verif_range(sc == 0 ? "xval" : "cval", -1000000, 1000000);
        }
    }
    const bool uses_timer = def == 1 || def == 5 || def == 8;
    for (int i = 0; i < NT; i++) g_td[i] = uses_timer ? verif_range("tdelta", 1, DMAX) : 1;
    g_with_ticker = uses_timer;
    g_pp = uses_timer ? verif_range("pperiod", 1, PMAX) : 1;

    for (g_mode = 0; g_mode < NMODE; g_mode++) {
        RecordingObserver<LOGCAP> obs{&g_log[g_mode]};
        run_sim(Builders<DEPTH>::build(def, g_mode), g_start, g_end, &obs);
    }

#ifdef C09_DEBUG
    for (int m = 0; m < NMODE; m++) {
        for (int i = 0; i < g_m[m].nout; i++) std::fprintf(stderr, "mode %d out t=%ld v=%ld\n", m, (long)us(g_m[m].out[i].t), (long)g_m[m].out[i].v);
        for (int i = 0; i < g_m[m].ntrun; i++) std::fprintf(stderr, "mode %d timer run t=%ld\n", m, (long)us(g_m[m].trun[i]));
        for (int i = 0; i < g_log[m].n; i++)
            if (g_log[m].ev[i].kind == EV_GRAPH_BEGIN) std::fprintf(stderr, "mode %d cycle depth=%d t=%ld\n", m, g_log[m].ev[i].depth, (long)us(g_log[m].ev[i].t));
    }
#endif
    // ---- oracle (branch-free over symbolic times / values; counts are concrete per path)
    bool ok_same[NMODE], ok_count[NMODE];
    bool ok_wake = true, ok_clock = true, ok_log = true, ok_ticker = true;
    for (int m = 0; m < NMODE; m++) {
        ok_log &= !g_m[m].overflow & !g_log[m].overflow;
        ok_same[m] = true;
        ok_count[m] = g_m[m].nout == g_m[0].nout;
        int n = g_m[m].nout < g_m[0].nout ? g_m[m].nout : g_m[0].nout;
        for (int i = 0; i < n; i++) ok_same[m] &= (g_m[m].out[i].t == g_m[0].out[i].t) & (g_m[m].out[i].v == g_m[0].out[i].v);
        // the unrelated parent-level ticker behaves the same in every mode
        ok_ticker &= (g_m[m].npout == g_m[0].npout) & (g_m[m].nprun == g_m[0].nprun);
        {
            int np = g_m[m].npout < g_m[0].npout ? g_m[m].npout : g_m[0].npout;
            for (int i = 0; i < np; i++) ok_ticker &= (g_m[m].pout[i].t == g_m[0].pout[i].t) & (g_m[m].pout[i].v == g_m[0].pout[i].v);
        }
        // internal wake-ups honoured at exactly the requested time (or the request lies beyond the window)
        for (int r = 0; r < g_m[m].ntreq; r++) {
            bool ran = false;
            for (int i = 0; i < g_m[m].ntrun; i++) ran |= (g_m[m].trun[i] == g_m[m].treq[r]);
            ok_wake &= ran | (g_m[m].treq[r] >= g_end);
        }
        // a nested graph's evaluation time is never earlier than the root cycle it happens in
        DateTime root_t = MIN_DT;
        for (int i = 0; i < g_log[m].n; i++) {
            const Event &e = g_log[m].ev[i];
            if (e.kind != EV_GRAPH_BEGIN) continue;
            if (e.depth == 0) root_t = e.t;
            else ok_clock &= (e.t >= root_t);
        }
    }
    verif_assert(ok_log, "C09.log_overflow");
    const bool finding_def = def == 6;
    if (finding_def) verif_reach("unchecked_consumer");  // before the assertion: a concretely failing assertion ends the path
    for (int m = 1; m < NMODE; m++) {
        if (finding_def) {
            verif_assert(ok_count[m] & ok_same[m], "C09.unchecked_input_consumer_same_stream");  // known finding N1
        } else {
            verif_assert(ok_count[m], m == 1 ? "C09.depth1_same_number_of_output_ticks" : "C09.deeper_same_number_of_output_ticks");
            verif_assert(ok_same[m], m == 1 ? "C09.depth1_stream_equals_inlined" : "C09.deeper_stream_equals_inlined");
        }
    }
    verif_assert(ok_wake, "C09.child_wakeup_honoured_at_exact_time");
    verif_assert(ok_ticker, "C09.parent_ticker_unaffected_by_nesting");
    verif_assert(ok_clock, "C09.child_not_evaluated_before_parent_time");

    // ---- situations
    const ModeLog &I = g_m[0];
    if (I.nout >= 2) verif_reach("two_output_ticks");
    if (uses_timer) {
        bool idle_parent_wake = false, consecutive = false;
        for (int i = 1; i < I.ntrun; i++) {
            bool x_ticks = false;
            for (int j = 0; j < NX; j++) x_ticks |= (g_T[0][j] == I.trun[i]);
            bool p_ticks = false;
            for (int q = 0; q < I.nprun; q++) p_ticks |= (I.prun[q] == I.trun[i]);
            if ((!x_ticks || def == 5) && !p_ticks) idle_parent_wake = true;
            if (I.trun[i] == I.trun[i - 1] + MIN_TD) consecutive = true;
        }
        // the parent has an unrelated wake-up p with r[i-1] < p <= r[i] for a pending child wake-up r[i]
        bool parent_earlier = false;
        for (int i = 1; i < I.ntrun; i++)
            for (int q = 0; q < I.nprun; q++)
                if (I.trun[i - 1] < I.prun[q] && I.prun[q] <= I.trun[i]) parent_earlier = true;
        if (parent_earlier) verif_reach("parent_has_unrelated_earlier_wakeup");
        if (idle_parent_wake) verif_reach("child_timer_fired_while_parent_idle");
        if (consecutive) verif_reach("child_timer_consecutive_steps");
    }
    if (def == 8) {
        // an outer tick falls strictly between two evaluations of the sampler, the later one being a pending wake-up
        bool pending = false;
        for (int i = 1; i < I.ntrun; i++)
            for (int j = 0; j < NX; j++)
                if (I.trun[i - 1] < g_T[0][j] && g_T[0][j] < I.trun[i]) pending = true;
        if (pending) verif_reach("outer_tick_while_child_wakeup_pending");
    }
    if (def == 3 && I.nout >= 1) verif_reach("pass_through_ticked");
    if (def == 4 && I.nout >= 1) verif_reach("captured_port_ticked");
    if (def == 7 && I.nout >= 2) verif_reach("ref_boundary_second_tick");
    {
        int nested_evals = 0;
        for (int i = 0; i < g_log[NMODE - 1].n; i++) nested_evals += (g_log[NMODE - 1].ev[i].kind == EV_GRAPH_BEGIN && g_log[NMODE - 1].ev[i].depth > 0);
        if (nested_evals >= 2) verif_reach("deepest_mode_evaluated_children");
    }
    verif_log("out_ticks", I.nout);
    verif_reach("end");
    return 0;
}

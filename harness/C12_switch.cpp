// C12: switch_ output follows only the selected branch, which starts fresh.
//   real wire_switch -> compile_switch_branch -> switch_node (switch_node.cpp, nested_bindings.h) with the
//   branches (hand-made WiredFn over static nodes)
//        key 0: sub-graph {heartbeat node scheduled on start; separate consumer x + 1 of the held input}
//        key 1: running sum of x (State)
//        key 2: self-scheduling: x on a tick of x, x + 100*n on its n-th own wake-up one cycle later
//        default (if DEFAULTS): key-consuming, stateful  key*1000 + x + 1000000*(evaluations of this instance so far);
//        two unmatched keys (3 and 4) both fall to it: a change between them must still give a fresh instance
//   enumerated: reload_on_ticked on/off, default branch present/absent, and per cycle: the key source
//               {does not tick, ticks 0, 1, 2, 3, 4 (3 and 4 = unmatched / default)} x {x ticks, x does not tick}
//   symbolic  : every value of x (full int64)
//   model     : a fresh branch instance per selection (key change; every key tick when reloading)
//   oracle    : after every engine cycle (clock-driven checker ranked below the switch node):
//                 output valid <=> the selected instance has written since it was selected
//                 output value ==  that instance's last value;  output ticked <=> it wrote in this cycle
//                 the per-branch evaluation counters of this cycle equal the model's (the selected
//                 instance runs iff it was just selected with a valid x / x ticked / its key input
//                 ticked / its own timer fired; NO other branch code runs: a retired instance is never
//                 evaluated again, its pending timer is dead)
//                 every evaluation of a just-selected instance starts from fresh State
//               an unmatched key without default branch makes run() throw, a matched one does not.
#include "hk_ho.h"

#include <exception>

// One binary covers several configurations {KEYT, NCYC} (enumerated first):
//   KEYT key type: 0 = Int, 1 = Str ("k0".."k3");  NCYC cycles in which the sources act
//   With Int keys the unmatched key 3 is only scripted when a default branch exists: the error message of the
//   unmatched-key exception renders an Int through std::ostringstream, which symx cannot execute; the error
//   case is therefore exercised with Str keys.
#ifndef CONFIGS
#define CONFIGS {0, 4}, {1, 3}
#endif
#ifndef RELOADS     // 1: reload_on_ticked=false only; 2: both
#define RELOADS 2
#endif
#ifndef DEFAULTS    // 1: no default branch only; 2: both
#define DEFAULTS 2
#endif

using namespace hk;

namespace {
using U = std::uint64_t;
struct Cfg { int keyt, ncyc; };
constexpr Cfg CFGS[] = {CONFIGS};
constexpr int NCFG = sizeof(CFGS) / sizeof(CFGS[0]);
Cfg G{};
int NCYC = 0;
template <class Key> struct KeyOps;
template <> struct KeyOps<Int> {
    static Int mk(int k) { return Int{k}; }
    static Int code(const Int &k) { return k; }
};
template <> struct KeyOps<Str> {
    static Str mk(int k) { return Str{"k"} + (char)('0' + k); }
    static Int code(const Str &k) { return (Int)(k[1] - '0'); }
};
constexpr int NB = 4;  // branch codes: 0 inc, 1 sum, 2 sched, 3 default(keyed)
bool g_reload = false, g_default = false;
// ---- script of the current cycle ----
Int g_cur_cycle = 0;
int g_key_tick = -1;   // -1: no tick, else the key value
bool g_x_tick = false;
Int g_xv = 0;
// ---- observations of the current cycle ----
int g_evals[NB];       // evaluations of branch code b in this cycle
int g_hb_evals = 0;    // evaluations of branch 0's heartbeat node in this cycle
bool g_fresh_seen[NB]; // the evaluation saw default (fresh) State
Int g_obs_cycle = -1;
int g_obs_runs = 0;
int g_checks = 0;
// ---- model ----
struct Model {
    int sel = -1;      // selected branch code
    Int cur_key = -1;
    bool just_selected = false;
    Int sum = 0, wakes = 0, pending = -1, cnt = 0;
    bool x_valid = false;
    Int x = 0;
    bool out_valid = false;
    Int out = 0;
    bool expect_throw = false;
} M;
bool ok_valid = true, ok_value = true, ok_ticks = true, ok_evals = true, ok_fresh = true, ok_notified = true;
int n_switches = 0;
int g_exp_hb = 0;
bool r_due_and_held = false;
bool r_back = false, r_same_cycle = false, r_dead_timer = false, r_reload_same = false, r_default = false, r_wake = false,
     r_silent_select = false, r_same_key_no_reload = false, r_default_to_default = false;
bool visited[NB];

inline Int cyc(DateTime now) { return (now - MIN_ST).count(); }

// ---- branches ----
// Branch 0 is a two-node sub-graph: a heartbeat node that is scheduled on start (so the freshly started branch graph is
// already due in the activation cycle for a reason of its own) and, separately, the consumer of the held input x below.
struct Heartbeat {
    static constexpr auto name = "b_heartbeat";
    static constexpr bool schedule_on_start = true;
    static void eval(State<Int> n, Out<TS<Int>> out) {
        g_hb_evals++;
        n.set(n.get() + 1);
        out.set(n.get());
    }
};
struct BInc {
    static constexpr auto name = "b_inc";
    static void eval(In<"x", TS<Int>> x, State<Int> n, Out<TS<Int>> out) {
        g_fresh_seen[0] = (n.get() == 0);
        g_evals[0]++;
        n.set(n.get() + 1);
        out.set((Int)((U)x.value() + 1));
    }
};
struct BSum {
    static constexpr auto name = "b_sum";
    static void eval(In<"x", TS<Int>> x, State<Int> s, Out<TS<Int>> out) {
        // one State slot per node: the freshness of this branch shows in its value (sum restarts)
        g_evals[1]++;
        Int v = (Int)((U)s.get() + (U)x.value());
        s.set(v);
        out.set(v);
    }
};
struct BSched {
    static constexpr auto name = "b_sched";
    static void eval(In<"x", TS<Int>> x, State<Int> st, NodeScheduler s, Out<TS<Int>> out) {
        Int n = st.get() / 1000, wakes = st.get() % 1000;   // one State slot per node: evaluations*1000 + wake-ups
        g_fresh_seen[2] = (n == 0);
        g_evals[2]++;
        if (x.modified()) s.schedule(MIN_TD);
        else wakes++;
        st.set((n + 1) * 1000 + wakes);
        out.set((Int)((U)x.value() + 100 * (U)wakes));
    }
};
template <class Key> struct BKeyed {
    static constexpr auto name = "b_keyed";
    static constexpr std::array<std::string_view, 2> hk_param_names{"key", "x"};
    static void eval(In<"key", TS<Key>> key, In<"x", TS<Int>> x, State<Int> n, Out<TS<Int>> out) {
        g_fresh_seen[3] = (n.get() == 0);
        g_evals[3]++;
        n.set(n.get() + 1);
        // the value shows the instance's age: a default instance that survives a change between two unmatched keys is caught
        out.set((Int)((U)KeyOps<Key>::code(key.value()) * 1000 + (U)x.value() + 1000000 * (U)(n.get() - 1)));
    }
};

struct BHeartInc {   // the sub-graph of branch 0
    static WiringPortRef wire(Wiring &w, std::span<const WiringPortRef> a) {
        (void)hgraph::wire<Heartbeat>(w);
        return hgraph::wire<BInc>(w, Port<void>{w, a[0]}).erased();
    }
};

// ---- scripted sources ----
template <class Key> struct KeySrc {
    static constexpr auto name = "key_src";
    static constexpr bool schedule_on_start = true;
    static void eval(NodeScheduler s, State<Int> n, Out<TS<Key>> out) {
        Int c = n.get();
        g_cur_cycle = c;
        int a = verif_choice("key", (g_default || G.keyt == 1) ? 6 : 4);   // 0 none, 1..3 keys 0..2, 4..5 unmatched keys 3, 4
        if (a > 0) { out.set(KeyOps<Key>::mk(a - 1)); g_key_tick = a - 1; }
        n.set(c + 1);
        if (c + 1 < NCYC) s.schedule(MIN_TD);
    }
};
struct ValSrc {
    static constexpr auto name = "val_src";
    static constexpr bool schedule_on_start = true;
    static void eval(NodeScheduler s, State<Int> n, Out<TS<Int>> out) {
        Int c = n.get();
        if (verif_choice("xtick", 2) == 1) {
            Int v = verif_i64("x");
            out.set(v);
            g_x_tick = true; g_xv = v;
        }
        n.set(c + 1);
        if (c + 1 < NCYC) s.schedule(MIN_TD);
    }
};
struct Clock {
    static constexpr auto name = "clock";
    static constexpr bool schedule_on_start = true;
    static void eval(NodeScheduler s, State<Int> n, Out<TS<Int>> out) {
        Int c = n.get();
        out.set(c);
        n.set(c + 1);
        if (c < NCYC) s.schedule(MIN_TD);   // one cycle more than the sources: pending timers
    }
};
struct Obs {
    static constexpr auto name = "obs";
    static void eval(In<"r", TS<Int>> r, DateTime now, Out<TS<Int>> out) {
        (void)r;
        g_obs_cycle = cyc(now);
        g_obs_runs++;
        out.set(Int{g_obs_runs});
    }
};

int branch_for(int key) {
    if (key >= 0 && key <= 2) return key;   // keys 3 and 4 are unmatched: default branch or error
    return g_default ? 3 : -1;
}

// one model step; fills exp_evals[] and returns whether the selected instance wrote
bool model_step(Int c, int exp_evals[NB], bool &exp_fresh) {
    for (int b = 0; b < NB; b++) exp_evals[b] = 0;
    exp_fresh = false;
    g_exp_hb = 0;
    if (g_x_tick) { M.x = g_xv; M.x_valid = true; }
    bool selected_now = false;
    if (g_key_tick >= 0) {
        bool change = (M.sel < 0) || g_reload || (g_key_tick != M.cur_key);
        if (change) {
            int b = branch_for(g_key_tick);
            if (b < 0) { M.expect_throw = true; return false; }
            if (M.sel >= 0) {
                n_switches++;
                if (M.pending >= c) r_dead_timer = true;
                if (g_key_tick == M.cur_key) r_reload_same = true;
                if (M.sel == 3 && b == 3 && g_key_tick != M.cur_key) r_default_to_default = true;
                if (visited[b] && g_key_tick != M.cur_key) r_back = true;
                if (g_x_tick) r_same_cycle = true;
            }
            M.sel = b; M.cur_key = g_key_tick;
            M.sum = 0; M.wakes = 0; M.pending = -1; M.cnt = 0; M.out_valid = false;
            visited[b] = true;
            selected_now = true;
            if (b == 0) {
                g_exp_hb = 1;   // the heartbeat runs once, in the activation cycle
                if (M.x_valid && !g_x_tick) r_due_and_held = true;
            }
            if (b == 3) r_default = true;
        } else {
            r_same_key_no_reload = true;
        }
    }
    if (M.sel < 0) return false;
    bool wake = (M.pending == c);
    if (wake) M.pending = -1;
    // which events evaluate the selected instance's node
    bool trig = (selected_now && M.x_valid) || g_x_tick || (M.sel == 2 && wake) || (M.sel == 3 && g_key_tick >= 0);
    if (!M.x_valid) trig = false;   // every branch node needs a valid x
    if (selected_now && !trig) r_silent_select = true;
    if (!trig) return false;
    exp_evals[M.sel] = 1;
    exp_fresh = (M.cnt == 0);
    M.cnt++;
    switch (M.sel) {
        case 0: M.out = (Int)((U)M.x + 1); break;
        case 1: M.sum = (Int)((U)M.sum + (U)M.x); M.out = M.sum; break;
        case 2:
            // x.modified() inside the branch: x ticked this cycle, or the input was sampled on selection
            if (g_x_tick || selected_now) M.pending = c + 1;
            else { M.wakes++; r_wake = true; }
            M.out = (Int)((U)M.x + 100 * (U)M.wakes);
            break;
        default: M.out = (Int)((U)M.cur_key * 1000 + (U)M.x + 1000000 * (U)(M.cnt - 1)); break;
    }
    M.out_valid = true;
    return true;
}

struct Checker {
    static constexpr auto name = "checker";
    static void eval(In<"clk", TS<Int>> clk, In<"r", TS<Int>, InputValidity::Unchecked, InputActivity::Passive> r,
                     In<"dep", TS<Int>, InputValidity::Unchecked, InputActivity::Passive> dep, DateTime now) {
        (void)clk; (void)dep;
        Int c = cyc(now);
        g_checks++;
        int exp_evals[NB];
        bool exp_fresh = false;
        bool wrote = model_step(c, exp_evals, exp_fresh);
        bool valid = r.valid();
        ok_valid &= (valid == M.out_valid);
        if (valid && M.out_valid) ok_value &= (r.value() == M.out);
        ok_ticks &= (r.modified() == wrote);
        for (int b = 0; b < NB; b++) {
            ok_evals &= (g_evals[b] == exp_evals[b]);
            if (b != 1 && exp_evals[b] == 1 && g_evals[b] == 1) ok_fresh &= (g_fresh_seen[b] == exp_fresh);
        }
        if (wrote) ok_notified &= (g_obs_cycle == c);
        ok_evals &= (g_hb_evals == g_exp_hb);
        g_hb_evals = 0;
        for (int b = 0; b < NB; b++) { g_evals[b] = 0; g_fresh_seen[b] = false; }
        g_key_tick = -1;
        g_x_tick = false;
    }
};

template <class Key> WiringPortRef wire_the_switch(Wiring &w, const Port<TS<Int>> &v) {
    auto k = wire<KeySrc<Key>>(w);
    stdlib::SwitchCases cases;
    cases.cases.push_back(stdlib::SwitchCase{Value{KeyOps<Key>::mk(0)}, FnW<BHeartInc, 1>::make()});
    cases.cases.push_back(stdlib::SwitchCase{Value{KeyOps<Key>::mk(1)}, FnN<BSum, 1>::make()});
    cases.cases.push_back(stdlib::SwitchCase{Value{KeyOps<Key>::mk(2)}, FnN<BSched, 1>::make()});
    if (g_default) cases.default_branch = FnN<BKeyed<Key>, 2>::make();
    cases.reload_on_ticked = g_reload;
    return ho::wire_switch(w, k.erased(), cases, {v.erased()}, {}, true);
}
struct Top {
    static constexpr auto name = "top";
    static void compose(Wiring &w) {
        auto v = wire<ValSrc>(w);
        auto clk = wire<Clock>(w);
        WiringPortRef s = G.keyt == 0 ? wire_the_switch<Int>(w, v) : wire_the_switch<Str>(w, v);
        Port<TS<Int>> sp{w, s};
        auto o = wire<Obs>(w, sp);
        wire<Checker>(w, clk, sp, o);
    }
};
}  // namespace

extern "C" int harness_main() {
    register_ho_scalars();
    G = CFGS[NCFG > 1 ? verif_choice("cfg", NCFG) : 0];
    NCYC = G.ncyc;
    g_reload = RELOADS > 1 ? verif_choice("reload", 2) == 1 : false;
    g_default = DEFAULTS > 1 ? verif_choice("default", 2) == 1 : false;
    bool thrown = false;
    try {
        run_sim(build_graph<Top>(), MIN_ST, MIN_ST + TimeDelta{NCYC + 3});
    } catch (const std::exception &) {
        thrown = true;
    }
    if (thrown) {
        // the checker of the failing cycle did not run: replay the model for that cycle
        int ee[NB]; bool ef;
        if (!M.expect_throw) (void)model_step(g_cur_cycle, ee, ef);
        verif_assert(M.expect_throw, "C12.throws_only_for_unmatched_key_without_default");
        verif_reach("unmatched_key_throws");
        verif_reach("end");
        return 0;
    }
    verif_assert(!M.expect_throw, "C12.unmatched_key_without_default_is_an_error");
    verif_assert(g_checks == NCYC + 1, "C12.checker_ran_every_cycle");
    verif_assert(ok_valid, "C12.output_valid_iff_selected_instance_wrote");
    verif_assert(ok_value, "C12.output_equals_selected_instance");
    verif_assert(ok_ticks, "C12.output_ticks_iff_selected_instance_wrote");
    verif_assert(ok_evals, "C12.only_selected_instance_evaluates");
    verif_assert(ok_fresh, "C12.selected_instance_starts_fresh");
    verif_assert(ok_notified, "C12.consumer_notified");
    if (n_switches >= 1) verif_reach("switched");
    if (n_switches >= 3) verif_reach("three_switches");
    if (r_back) verif_reach("returned_to_earlier_key");
    if (r_same_cycle) verif_reach("switch_and_input_tick_same_cycle");
    if (r_dead_timer) verif_reach("switched_away_with_pending_timer");
    if (r_reload_same) verif_reach("reload_on_same_key");
    if (r_same_key_no_reload) verif_reach("same_key_tick_without_reload");
    if (r_default) verif_reach("default_branch_selected");
    if (r_default_to_default) verif_reach("default_to_default_key_change");
    if (r_due_and_held) verif_reach("branch_due_at_activation_and_held_input_consumer");
    if (r_wake) verif_reach("branch_timer_fired");
    if (r_silent_select) verif_reach("selected_before_input_valid");
    verif_log("obs_runs", g_obs_runs);
    verif_reach("end");
    return 0;
}

// C19: OperatorRegistry::resolve picks the unique most specific matching candidate, the same
// one under every registration order; "no match" / "ambiguous" are errors; the returned
// ResolutionMap really unifies the winner's parameter patterns with the supplied types and the
// output type is the substitution of those bindings.
//
//   enumerated : pool group (one argument | two arguments | field-wise TSB inputs | caller-requested TSB
//                output), a family of <= FAMMAX hand-built OperatorImpl candidates (real
//                TypePattern / ScalarPattern trees built through the non-template factories,
//                rank = operator_dispatch_detail::operator_rank(params) exactly as the real
//                constructors do), an argument tuple of concrete interned schemas / plain values,
//                and - inside one path - EVERY registration order of the family (each order under
//                a fresh operator name) plus every member registered alone.
//   symbolic   : the numeric pattern parameters: TSL fixed size (0 = any), the accepted sizes of a
//                constrained size variable, TSW period / min-period, and the fixed size inside the
//                **kwargs pack pattern of the collector candidate (feeds ts_pattern_rank, hence
//                the effective rank is symbolic on those paths).
//   observed   : the ResolvedOperatorCall returned by resolve, the OperatorResolutionError text and
//                the WiringResolutionEvent delivered to a real WiringObserver.
//   oracle     : (1) same outcome (winner / no-match / ambiguous, rank, bindings, output) for every
//                registration order; (2) with m_i / r_i = "matches" / effective rank of member i
//                when registered alone: winner = the unique matching member whose rank is strictly
//                below every other matching member's, none matching => no-match error, best rank
//                shared => ambiguity error naming exactly the tied members, rejected list = exactly
//                the non-matching members; (3) an independent reference unifier over a mini-AST of
//                the same patterns / schemas (REF transparency and SIGNAL as documented in
//                type_pattern.h) agrees on m_i and on every variable binding; (4) substituting the
//                returned map into the winner's parameter patterns with the real *_pattern_resolve
//                gives the supplied schemas (modulo dereference; wildcards excluded) and
//                ts_pattern_resolve(output) equals the reference substitution; (5) the specificity
//                orderings that docs/source/developer_guide/operators.rst states explicitly
//                (concrete < scalar-generic < bare variable, recursively; repeated variable ahead
//                of independent variables; constrained ahead of unconstrained; a used default
//                costs) hold between the effective ranks.  The rank formula itself is NOT
//                re-specified.
//   TSB groups : candidates whose parameter (group 3, input_ts_pattern_match, also nested under TSD and
//                with REF fields) or output (group 4, matched against a caller-requested output by
//                output_ts_pattern_match / ts_pattern_match) is a FIELD-WISE TSB pattern (un-named or
//                named) against bundles with the same fields, MORE fields sharing the pattern's fields as
//                a prefix, FEWER fields, same count but other names / order, other bundle name.  A
//                field-wise pattern matches only bundles with exactly its fields (names, order).
//   variadic   : group 5: candidates whose LAST parameter is a variadic tail (OperatorImpl::variadic, rank =
//                operator_rank(params, true) as make_operator_graph_impl computes it) whose tail pattern re-uses a
//                variable bound by the fixed prefix (homog(TS[T], *TS[T]), (V, *V), size variable N, two fixed +
//                tail), or only bindable by a caller-requested output / an initial_resolution ((*TS[T]) -> TS[T]),
//                next to fallbacks with an independent tail variable, a concrete tail, a bare-variable tail, a
//                symbolic-size TSL tail and a fixed-arity (TS[T], TS[T]); calls with 1..4 arguments whose tail
//                agrees / disagrees with the binding (first or last tail argument), empty tail, REF and plain
//                value in the tail, requested output, initial resolution.  The reference unifier threads ONE
//                binding through prefix and tail (the statement: every variable one type across all positions).
//                Where that differs from matching every tail argument on its own copy of the prefix bindings
//                (only possible for a variable that nothing but the tail binds) the demand has its own id.
#include <hgraph/types/operator_dispatch.h>
#include <hgraph/types/metadata/type_registry.h>
#include <hgraph/types/time_series/endpoint_schema.h>  // time_series_schema_equivalent
#include <hgraph/types/wiring_observer.h>

#include <cstring>

#include "verif.h"

#ifndef FAMMAX
#define FAMMAX 3  // family size FAMMIN..FAMMAX (<= 4)
#endif
#ifndef FAMMIN
#define FAMMIN 1
#endif
#ifndef POOL1
#define POOL1 0x3fffff  // bit i: arity-1 candidate i is in the pool
#endif
#ifndef POOL2
#define POOL2 0xffff  // bit i: arity-2 candidate i is in the pool
#endif
#ifndef ARGS1
#define ARGS1 0x1fff  // bit i: arity-1 argument i is in the pool
#endif
#ifndef ARGS2
#define ARGS2 0x1fff  // bit i: arity-2 argument tuple i is in the pool
#endif
#ifndef POOL3
#define POOL3 0x3fff  // bit i: TSB-input candidate i is in the pool
#endif
#ifndef ARGS3
#define ARGS3 0x7ff  // bit i: TSB-input argument i is in the pool
#endif
#ifndef POOL4
#define POOL4 0xff  // bit i: requested-output candidate i is in the pool
#endif
#ifndef ARGS4
#define ARGS4 0x1ff  // bit i: (input, requested output) tuple i is in the pool
#endif
#ifndef POOL5
#define POOL5 0x1fff  // bit i: variadic-group candidate i is in the pool
#endif
#ifndef ARGS5
#define ARGS5 0x3fffff  // bit i: variadic-group call i is in the pool
#endif
#ifndef ARITIES
#define ARITIES 31  // bit0: one argument, bit1: two arguments, bit2: field-wise TSB inputs, bit3: requested TSB output, bit4: variadic tails
#endif
#ifndef SZMAX
#define SZMAX 4  // symbolic sizes range over [0, SZMAX]
#endif

using namespace hgraph;

namespace {
// ------------------------------------------------------------------ concrete schema table
enum SK { S_TS, S_TSS, S_TSL, S_TSD, S_TSW, S_REF, S_SIGNAL, S_TSB };
enum { SC_INT = 0, SC_FLOAT = 1, SC_STR = 2, NSC = 3 };
struct Sch {
    int k;
    int sc;    // TS/TSS/TSW value scalar, TSD key scalar
    int ch;    // TSL element / TSD value / REF target (schema id)
    int size;  // TSL size, TSW period
    int min;   // TSW min period
    int deref; // id of the dereferenced schema
    const TSValueTypeMetaData *meta;
    int nf = 0;                    // TSB: fields
    const char *fn[3] = {};        // TSB: field names
    int fch[3] = {};               // TSB: field schema ids
    const char *bname = nullptr;   // TSB: nominal bundle name (nullptr = un-named)
};
enum {
    A_TSI, A_TSF, A_TSL2I, A_TSL3I, A_TSDI, A_REFI, A_SIG, A_TSB, A_TSD_L2, A_TSL2F, A_TSWI, A_TSD_REF, A_TSS,
    // bundles for the field-wise TSB groups (A_TSB = {a:TS<int>, b:TS<float>})
    B_A, B_ABC, B_BA, B_AX, B_AB_II, N_AB, N_AB2, B_AREF, D_AB, D_A, NSCH
};
constexpr int B_AB = A_TSB;
Sch SCH[NSCH];
const ValueTypeMetaData *SCM[NSC];

void build_schemas() {
    TypeRegistry &r = TypeRegistry::instance();
    SCM[SC_INT] = scalar_descriptor<Int>::value_meta();
    SCM[SC_FLOAT] = scalar_descriptor<Float>::value_meta();
    SCM[SC_STR] = scalar_descriptor<Str>::value_meta();
    auto set = [](int id, int k, int sc, int ch, int size, int min, int deref, const TSValueTypeMetaData *m) {
        SCH[id] = Sch{k, sc, ch, size, min, deref, m};
    };
    set(A_TSI, S_TS, SC_INT, -1, 0, 0, A_TSI, r.ts(SCM[SC_INT]));
    set(A_TSF, S_TS, SC_FLOAT, -1, 0, 0, A_TSF, r.ts(SCM[SC_FLOAT]));
    set(A_TSS, S_TS, SC_STR, -1, 0, 0, A_TSS, r.ts(SCM[SC_STR]));
    set(A_TSL2I, S_TSL, -1, A_TSI, 2, 0, A_TSL2I, r.tsl(SCH[A_TSI].meta, 2));
    set(A_TSL3I, S_TSL, -1, A_TSI, 3, 0, A_TSL3I, r.tsl(SCH[A_TSI].meta, 3));
    set(A_TSL2F, S_TSL, -1, A_TSF, 2, 0, A_TSL2F, r.tsl(SCH[A_TSF].meta, 2));
    set(A_TSDI, S_TSD, SC_INT, A_TSI, 0, 0, A_TSDI, r.tsd(SCM[SC_INT], SCH[A_TSI].meta));
    set(A_REFI, S_REF, -1, A_TSI, 0, 0, A_TSI, r.ref(SCH[A_TSI].meta));
    set(A_SIG, S_SIGNAL, -1, -1, 0, 0, A_SIG, r.signal());
    struct F { const char *n; int s; };
    auto bundle = [&](int id, const char *bname, std::initializer_list<F> fs, int deref) {
        std::vector<std::pair<std::string, const TSValueTypeMetaData *>> f;
        Sch x{S_TSB, -1, -1, 0, 0, deref, nullptr};
        for (const F &e : fs) { f.emplace_back(e.n, SCH[e.s].meta); x.fn[x.nf] = e.n; x.fch[x.nf] = e.s; x.nf++; }
        x.bname = bname;
        x.meta = bname != nullptr ? r.tsb(bname, f) : r.un_named_tsb(f);
        SCH[id] = x;
    };
    bundle(A_TSB, nullptr, {{"a", A_TSI}, {"b", A_TSF}}, A_TSB);
    set(A_TSD_L2, S_TSD, SC_INT, A_TSL2I, 0, 0, A_TSD_L2, r.tsd(SCM[SC_INT], SCH[A_TSL2I].meta));
    set(A_TSWI, S_TSW, SC_INT, -1, 3, 1, A_TSWI, r.tsw(SCM[SC_INT], 3, 1));
    set(A_TSD_REF, S_TSD, SC_INT, A_REFI, 0, 0, A_TSDI, r.tsd(SCM[SC_INT], SCH[A_REFI].meta));
    bundle(B_A, nullptr, {{"a", A_TSI}}, B_A);
    bundle(B_ABC, nullptr, {{"a", A_TSI}, {"b", A_TSF}, {"c", A_TSS}}, B_ABC);
    bundle(B_BA, nullptr, {{"b", A_TSF}, {"a", A_TSI}}, B_BA);
    bundle(B_AX, nullptr, {{"a", A_TSI}, {"x", A_TSF}}, B_AX);
    bundle(B_AB_II, nullptr, {{"a", A_TSI}, {"b", A_TSI}}, B_AB_II);
    bundle(N_AB, "c19.Pair", {{"a", A_TSI}, {"b", A_TSF}}, N_AB);
    bundle(N_AB2, "c19.Other", {{"a", A_TSI}, {"b", A_TSF}}, N_AB2);
    bundle(B_AREF, nullptr, {{"a", A_REFI}, {"b", A_TSF}}, B_AB);
    set(D_AB, S_TSD, SC_INT, B_AB, 0, 0, D_AB, r.tsd(SCM[SC_INT], SCH[B_AB].meta));
    set(D_A, S_TSD, SC_INT, B_A, 0, 0, D_A, r.tsd(SCM[SC_INT], SCH[B_A].meta));
}

// ------------------------------------------------------------------ symbolic numeric slots
enum { Y_F0, Y_C0, Y_WP, Y_WM, Y_KF, NSYM };
std::int64_t SYMV[NSYM];
bool SYM_USED[NSYM];

// ------------------------------------------------------------------ pattern mini-AST
enum PK { P_VAR, P_CONC, P_TS, P_TSS, P_TSL, P_TSD, P_TSW, P_TSWANY, P_REF, P_SIGNAL, P_TSBVAR, P_TSB };
const char *TSVARS[] = {"V", "W", "S"};
const char *SCVARS[] = {"T", "U", "K"};
const char *SZVARS[] = {"N", "M"};
enum { NTV = 3, NSV = 3, NZV = 2 };
struct SP {  // scalar pattern: variable (optionally constrained) or concrete
    bool var;
    int id;         // variable id or scalar id
    unsigned cons;  // mask over scalar ids (variable only, 0 = unconstrained)
};
enum SizeMode { Z_FIXED, Z_FIXED_SYM, Z_VAR, Z_VAR_CONS_SYM };
struct Pat {
    int k;
    int var = 0;        // P_VAR / P_TSBVAR
    unsigned cons = 0;  // P_VAR: mask over schema ids
    int conc = 0;       // P_CONC: schema id
    SP sp{};            // TS/TSS/TSW payload, TSD key
    const Pat *ch = nullptr;
    int zmode = Z_FIXED;
    int z = 0;          // fixed size | slot | size var id
    int z2 = 0;         // Z_VAR_CONS_SYM: slot of the first accepted size (second is the constant 3); TSW: min slot
    int nf = 0;                   // P_TSB: field-wise bundle pattern
    const char *fn[3] = {};       // P_TSB: field names
    const Pat *fp[3] = {};        // P_TSB: field patterns
    const char *bname = nullptr;  // P_TSB: nominal bundle name (nullptr = un-named)
};
SP svar(int id, unsigned cons = 0) { return SP{true, id, cons}; }
SP sconc(int sc) { return SP{false, sc, 0}; }
const Pat *mk(Pat p) { return new Pat(p); }
const Pat *p_var(int v, unsigned cons = 0) { Pat p{P_VAR}; p.var = v; p.cons = cons; return mk(p); }
const Pat *p_conc(int s) { Pat p{P_CONC}; p.conc = s; return mk(p); }
const Pat *p_ts(SP s) { Pat p{P_TS}; p.sp = s; return mk(p); }
const Pat *p_tsl(const Pat *e, int zmode, int z, int z2 = 0) { Pat p{P_TSL}; p.ch = e; p.zmode = zmode; p.z = z; p.z2 = z2; return mk(p); }
const Pat *p_tsd(SP k, const Pat *v) { Pat p{P_TSD}; p.sp = k; p.ch = v; return mk(p); }
const Pat *p_tsw(SP s, int pslot, int mslot) { Pat p{P_TSW}; p.sp = s; p.z = pslot; p.z2 = mslot; return mk(p); }
const Pat *p_tswany(SP s) { Pat p{P_TSWANY}; p.sp = s; return mk(p); }
const Pat *p_ref(const Pat *t) { Pat p{P_REF}; p.ch = t; return mk(p); }
const Pat *p_signal() { return mk(Pat{P_SIGNAL}); }
const Pat *p_tsbvar(int v) { Pat p{P_TSBVAR}; p.var = v; return mk(p); }
struct PF { const char *n; const Pat *p; };
const Pat *p_tsb(std::initializer_list<PF> fs, const char *bname = nullptr) {
    Pat p{P_TSB};
    for (const PF &f : fs) { p.fn[p.nf] = f.n; p.fp[p.nf] = f.p; p.nf++; }
    p.bname = bname;
    return mk(p);
}

// real pattern trees, built with the public non-template factories
ScalarPattern real_sp(const SP &s) {
    if (!s.var) return ScalarPattern::concrete(SCM[s.id]);
    std::vector<const ValueTypeMetaData *> cons;
    for (int i = 0; i < NSC; i++) if (s.cons & (1u << i)) cons.push_back(SCM[i]);
    return ScalarPattern::var(SCVARS[s.id], std::move(cons));
}
TypePattern real_pat(const Pat *p) {
    switch (p->k) {
        case P_VAR: {
            std::vector<const TSValueTypeMetaData *> cons;
            for (int i = 0; i < NSCH; i++) if (p->cons & (1u << i)) cons.push_back(SCH[i].meta);
            return TypePattern::var(TSVARS[p->var], std::move(cons));
        }
        case P_CONC: return TypePattern::concrete(SCH[p->conc].meta);
        case P_TS: return TypePattern::ts(real_sp(p->sp));
        case P_TSS: return TypePattern::tss(real_sp(p->sp));
        case P_TSL:
            switch (p->zmode) {
                case Z_FIXED: return TypePattern::tsl(real_pat(p->ch), (std::size_t)p->z);
                case Z_FIXED_SYM: SYM_USED[p->z] = true; return TypePattern::tsl(real_pat(p->ch), (std::size_t)SYMV[p->z]);
                case Z_VAR: return TypePattern::tsl_var(real_pat(p->ch), SZVARS[p->z]);
                default: SYM_USED[p->z2] = true; return TypePattern::tsl_var(real_pat(p->ch), SZVARS[p->z], {(std::size_t)SYMV[p->z2], (std::size_t)3});
            }
        case P_TSD: return TypePattern::tsd(real_sp(p->sp), real_pat(p->ch));
        case P_TSW: SYM_USED[p->z] = SYM_USED[p->z2] = true; return TypePattern::tsw(real_sp(p->sp), (std::size_t)SYMV[p->z], (std::size_t)SYMV[p->z2]);
        case P_TSWANY: return TypePattern::tsw_any(real_sp(p->sp));
        case P_REF: return TypePattern::ref(real_pat(p->ch));
        case P_SIGNAL: return TypePattern::signal();
        case P_TSB: {
            std::vector<std::string> names;
            std::vector<TypePattern> children;
            for (int i = 0; i < p->nf; i++) { names.emplace_back(p->fn[i]); children.push_back(real_pat(p->fp[i])); }
            return p->bname != nullptr ? TypePattern::tsb(std::move(names), std::move(children), p->bname, true)
                                       : TypePattern::tsb(std::move(names), std::move(children));
        }
        default: return TypePattern::tsb_var(TSVARS[p->var]);
    }
}

// ------------------------------------------------------------------ reference unifier (what "matches" means)
struct Bind {
    int ts[NTV];             // schema id or -1
    int sc[NSV];             // scalar id or -1
    std::int64_t sz[NZV];    // size or -1
    Bind() { for (int &x : ts) x = -1; for (int &x : sc) x = -1; for (auto &x : sz) x = -1; }
};
bool rmatch_sp(const SP &s, int sc, Bind &b) {
    if (!s.var) return s.id == sc;
    if (s.cons && !(s.cons & (1u << sc))) return false;
    if (b.sc[s.id] >= 0) return b.sc[s.id] == sc;
    b.sc[s.id] = sc;
    return true;
}
// Input direction (type_pattern.h): SIGNAL accepts any time-series; a REF source is seen through by every
// non-REF pattern (a variable binds the dereferenced schema); REF<p> accepts X and REF<X> alike.
bool rmatch(const Pat *p, int s, Bind &b) {
    if (p->k == P_SIGNAL) return true;
    if (p->k != P_REF && SCH[s].k == S_REF) return rmatch(p, SCH[s].ch, b);
    const Sch &S = SCH[s];
    switch (p->k) {
        case P_VAR:
            if (p->cons && !(p->cons & (1u << s))) return false;
            if (b.ts[p->var] >= 0) return b.ts[p->var] == s;
            b.ts[p->var] = s;
            return true;
        case P_CONC: return SCH[p->conc].deref == S.deref;
        case P_TS: return S.k == S_TS && rmatch_sp(p->sp, S.sc, b);
        case P_TSS: return S.k == S_TSS && rmatch_sp(p->sp, S.sc, b);
        case P_TSL: {
            if (S.k != S_TSL) return false;
            switch (p->zmode) {
                case Z_FIXED: if (p->z != 0 && p->z != S.size) return false; break;
                case Z_FIXED_SYM: if (!((SYMV[p->z] == 0) | (SYMV[p->z] == S.size))) return false; break;
                case Z_VAR:
                case Z_VAR_CONS_SYM:
                    if (p->zmode == Z_VAR_CONS_SYM && !((SYMV[p->z2] == S.size) | (3 == S.size))) return false;
                    if (b.sz[p->z] >= 0) { if (b.sz[p->z] != S.size) return false; }
                    else b.sz[p->z] = S.size;
                    break;
            }
            return rmatch(p->ch, S.ch, b);
        }
        case P_TSD: return S.k == S_TSD && rmatch_sp(p->sp, S.sc, b) && rmatch(p->ch, S.ch, b);
        case P_TSW: return S.k == S_TSW && rmatch_sp(p->sp, S.sc, b) && ((SYMV[p->z] == S.size) & (SYMV[p->z2] == S.min));
        case P_TSWANY: return S.k == S_TSW && rmatch_sp(p->sp, S.sc, b);
        case P_REF: return rmatch(p->ch, S.k == S_REF ? S.ch : s, b);
        case P_TSBVAR:
            if (S.k != S_TSB) return false;
            if (b.ts[p->var] >= 0) return b.ts[p->var] == s;
            b.ts[p->var] = s;
            return true;
        case P_TSB:
            // a field-wise pattern matches only bundles with exactly its fields: same count, names and order;
            // a nominal pattern additionally needs the same bundle name (a structural one ignores the name)
            if (S.k != S_TSB || S.nf != p->nf) return false;
            if (p->bname != nullptr && (S.bname == nullptr || std::strcmp(p->bname, S.bname) != 0)) return false;
            for (int i = 0; i < p->nf; i++) {
                if (std::strcmp(p->fn[i], S.fn[i]) != 0) return false;
                if (!rmatch(p->fp[i], S.fch[i], b)) return false;
            }
            return true;
    }
    return false;
}
// reference substitution (output type); nullptr when a variable is unbound
const TSValueTypeMetaData *rsubst(const Pat *p, const Bind &b) {
    TypeRegistry &r = TypeRegistry::instance();
    switch (p->k) {
        case P_VAR:
        case P_TSBVAR: return b.ts[p->var] >= 0 ? SCH[b.ts[p->var]].meta : nullptr;
        case P_CONC: return SCH[p->conc].meta;
        case P_TS: {
            int sc = p->sp.var ? b.sc[p->sp.id] : p->sp.id;
            return sc >= 0 ? r.ts(SCM[sc]) : nullptr;
        }
        case P_TSB: {
            std::vector<std::pair<std::string, const TSValueTypeMetaData *>> f;
            for (int i = 0; i < p->nf; i++) {
                const TSValueTypeMetaData *c = rsubst(p->fp[i], b);
                if (c == nullptr) return nullptr;
                f.emplace_back(p->fn[i], c);
            }
            return p->bname != nullptr ? r.tsb(p->bname, f) : r.un_named_tsb(f);
        }
        default: return nullptr;  // the pool's outputs are variables, concrete leaves, TS<scalar> or bundles of those
    }
}
bool any_field(const Pat *p, bool (*f)(const Pat *)) {
    for (int i = 0; i < p->nf; i++) if (f(p->fp[i])) return true;
    return false;
}
bool has_wildcard(const Pat *p) {  // substitution cannot reproduce the argument through these
    if (p == nullptr) return false;
    if (p->k == P_SIGNAL || p->k == P_TSWANY) return true;
    if (p->k == P_TSL && p->zmode == Z_FIXED && p->z == 0) return true;
    if (p->k == P_TSL && p->zmode == Z_FIXED_SYM && SYMV[p->z] == 0) return true;
    if (p->k == P_TSB) return any_field(p, has_wildcard);
    return has_wildcard(p->ch);
}
int sym_size_slot(const Pat *p) {  // slot of a symbolic size that ts_pattern_resolve would intern, or -1
    if (p == nullptr) return -1;
    if (p->k == P_TSL && p->zmode == Z_FIXED_SYM) return p->z;
    if (p->k == P_TSW) return p->z;
    return sym_size_slot(p->ch);
}

// ------------------------------------------------------------------ candidates
struct Param {
    bool scalar = false;
    const Pat *ts = nullptr;
    SP sp{};
    bool has_default = false;  // scalar param with default Int{7}
};
struct Cand {
    const char *label;
    int np;
    Param p[3];
    const Pat *out;
    int kw_slot = -1;  // >= 0: **kwargs collector with pack pattern TSL<TS<int>, fixed = SYMV[slot]>
    bool variadic = false;   // the LAST parameter is a variadic tail (zero or more trailing arguments)
    bool tail_free = false;  // variadic: the tail pattern has a variable that the fixed prefix does not bind
};
// parameter that argument position i is matched against (the tail parameter for every overflow position)
int param_index(const Cand &c, int i) { return c.variadic && i >= c.np - 1 ? c.np - 1 : i; }
bool is_tail_pos(const Cand &c, int i) { return c.variadic && i >= c.np - 1; }
Param in(const Pat *p) { Param x; x.ts = p; return x; }
Param sc(SP s, bool dflt = false) { Param x; x.scalar = true; x.sp = s; x.has_default = dflt; return x; }

enum { V = 0, W = 1, S = 2 };
enum { T = 0, U = 1, K = 2 };
enum { N = 0, M = 1 };

std::vector<Cand> C1, C2, C3, C4, C5;
// documented "more specific than" pairs (index into C1 / C2): first must rank strictly below second
struct Ord { int a, b; };
std::vector<Ord> ORD1, ORD2, ORD3, ORD4, ORD5;

void build_candidates() {
    const unsigned INT_STR = (1u << SC_INT) | (1u << SC_STR);
    const unsigned TSI_TSL2I = (1u << A_TSI) | (1u << A_TSL2I);
    // arity 1 (16 and 19 accept one argument through a default / an empty **kwargs pack)
    C1 = {
        /* 0*/ {"conc_TSint", 1, {in(p_conc(A_TSI))}, p_conc(A_TSI)},
        /* 1*/ {"TS[int]", 1, {in(p_ts(sconc(SC_INT)))}, p_conc(A_TSI)},
        /* 2*/ {"TS[T]", 1, {in(p_ts(svar(T)))}, p_ts(svar(T))},
        /* 3*/ {"TS[T:int|str]", 1, {in(p_ts(svar(T, INT_STR)))}, p_ts(svar(T))},
        /* 4*/ {"V", 1, {in(p_var(V))}, p_var(V)},
        /* 5*/ {"V:TSint|TSL2int", 1, {in(p_var(V, TSI_TSL2I))}, p_var(V)},
        /* 6*/ {"TSL[TS[T],F]", 1, {in(p_tsl(p_ts(svar(T)), Z_FIXED_SYM, Y_F0))}, p_ts(svar(T))},
        /* 7*/ {"TSL[TS[T],N]", 1, {in(p_tsl(p_ts(svar(T)), Z_VAR, N))}, p_ts(svar(T))},
        /* 8*/ {"TSL[V,N]", 1, {in(p_tsl(p_var(V), Z_VAR, N))}, p_var(V)},
        /* 9*/ {"TSL[TS[int],N]", 1, {in(p_tsl(p_ts(sconc(SC_INT)), Z_VAR, N))}, p_conc(A_TSI)},
        /*10*/ {"TSL[TS[T],N:C|3]", 1, {in(p_tsl(p_ts(svar(T)), Z_VAR_CONS_SYM, N, Y_C0))}, p_ts(svar(T))},
        /*11*/ {"TSD[K,V]", 1, {in(p_tsd(svar(K), p_var(V)))}, p_var(V)},
        /*12*/ {"TSD[K,TS[T]]", 1, {in(p_tsd(svar(K), p_ts(svar(T))))}, p_ts(svar(T))},
        /*13*/ {"REF[TS[T]]", 1, {in(p_ref(p_ts(svar(T))))}, p_ts(svar(T))},
        /*14*/ {"SIGNAL", 1, {in(p_signal())}, p_conc(A_TSI)},
        /*15*/ {"TSB[S]", 1, {in(p_tsbvar(S))}, p_tsbvar(S)},
        /*16*/ {"TS[T],k=7", 2, {in(p_ts(svar(T))), sc(sconc(SC_INT), true)}, p_ts(svar(T))},
        /*17*/ {"TSW[T,P,M]", 1, {in(p_tsw(svar(T), Y_WP, Y_WM))}, p_ts(svar(T))},
        /*18*/ {"TSW[T,*]", 1, {in(p_tswany(svar(T)))}, p_ts(svar(T))},
        /*19*/ {"TS[T],**kw", 1, {in(p_ts(svar(T)))}, p_ts(svar(T)), Y_KF},
        /*20*/ {"TS[T]->TS[U]", 1, {in(p_ts(svar(T)))}, p_ts(svar(U))},
        /*21*/ {"TSD[K,TSL[TS[T],N]]", 1, {in(p_tsd(svar(K), p_tsl(p_ts(svar(T)), Z_VAR, N)))}, p_ts(svar(T))},
    };
    ORD1 = {{0, 2}, {1, 2}, {2, 4}, {3, 2}, {5, 4}, {9, 7}, {7, 8}, {8, 4}, {12, 11}, {2, 16}, {11, 4}, {21, 11}};
    C2 = {
        /* 0*/ {"TS[T],TS[T]", 2, {in(p_ts(svar(T))), in(p_ts(svar(T)))}, p_ts(svar(T))},
        /* 1*/ {"TS[T],TS[U]", 2, {in(p_ts(svar(T))), in(p_ts(svar(U)))}, p_ts(svar(T))},
        /* 2*/ {"TSint,TS[T]", 2, {in(p_conc(A_TSI)), in(p_ts(svar(T)))}, p_ts(svar(T))},
        /* 3*/ {"V,V", 2, {in(p_var(V)), in(p_var(V))}, p_var(V)},
        /* 4*/ {"V,W", 2, {in(p_var(V)), in(p_var(W))}, p_var(W)},
        /* 5*/ {"TS[T],sc T", 2, {in(p_ts(svar(T))), sc(svar(T))}, p_ts(svar(T))},
        /* 6*/ {"TS[T],sc int", 2, {in(p_ts(svar(T))), sc(sconc(SC_INT))}, p_ts(svar(T))},
        /* 7*/ {"TSL[TS[T],N]x2", 2, {in(p_tsl(p_ts(svar(T)), Z_VAR, N)), in(p_tsl(p_ts(svar(T)), Z_VAR, N))}, p_ts(svar(T))},
        /* 8*/ {"TSL[TS[T],N],TSL[TS[U],M]", 2, {in(p_tsl(p_ts(svar(T)), Z_VAR, N)), in(p_tsl(p_ts(svar(U)), Z_VAR, M))}, p_ts(svar(U))},
        /* 9*/ {"TSD[K,V],V", 2, {in(p_tsd(svar(K), p_var(V))), in(p_var(V))}, p_var(V)},
        /*10*/ {"TSD[K,V],TS[K]", 2, {in(p_tsd(svar(K), p_var(V))), in(p_ts(svar(K)))}, p_var(V)},
        /*11*/ {"V,SIGNAL", 2, {in(p_var(V)), in(p_signal())}, p_var(V)},
        /*12*/ {"REF[TS[T]],TS[T]", 2, {in(p_ref(p_ts(svar(T)))), in(p_ts(svar(T)))}, p_ts(svar(T))},
        /*13*/ {"TS[T],TS[T],k=7", 3, {in(p_ts(svar(T))), in(p_ts(svar(T))), sc(sconc(SC_INT), true)}, p_ts(svar(T))},
        /*14*/ {"TSint,TSint", 2, {in(p_conc(A_TSI)), in(p_conc(A_TSI))}, p_conc(A_TSI)},
        /*15*/ {"TSL[TS[T],F],TS[T]", 2, {in(p_tsl(p_ts(svar(T)), Z_FIXED_SYM, Y_F0)), in(p_ts(svar(T)))}, p_ts(svar(T))},
    };
    ORD2 = {{0, 1}, {14, 2}, {2, 1}, {1, 4}, {3, 4}, {0, 13}, {7, 8}, {14, 0}};
    // group 3: field-wise TSB parameter patterns (input direction), one argument
    auto tsT = [] { return p_ts(svar(T)); };
    auto tsU = [] { return p_ts(svar(U)); };
    auto tsK = [] { return p_ts(svar(K)); };
    C3 = {
        /* 0*/ {"narrow[a:T]", 1, {in(p_tsb({{"a", tsT()}}))}, tsT()},
        /* 1*/ {"wide[a:T,b:U]", 1, {in(p_tsb({{"a", tsT()}, {"b", tsU()}}))}, tsU()},
        /* 2*/ {"wide3[a:T,b:U,c:K]", 1, {in(p_tsb({{"a", tsT()}, {"b", tsU()}, {"c", tsK()}}))}, tsK()},
        /* 3*/ {"same[a:T,b:T]", 1, {in(p_tsb({{"a", tsT()}, {"b", tsT()}}))}, tsT()},
        /* 4*/ {"swapped[b:U,a:T]", 1, {in(p_tsb({{"b", tsU()}, {"a", tsT()}}))}, tsU()},
        /* 5*/ {"renamed[a:T,x:U]", 1, {in(p_tsb({{"a", tsT()}, {"x", tsU()}}))}, tsU()},
        /* 6*/ {"Pair[a:T,b:U]", 1, {in(p_tsb({{"a", tsT()}, {"b", tsU()}}, "c19.Pair"))}, tsU()},
        /* 7*/ {"TSB[S]", 1, {in(p_tsbvar(S))}, p_tsbvar(S)},
        /* 8*/ {"half[a:int,b:U]", 1, {in(p_tsb({{"a", p_ts(sconc(SC_INT))}, {"b", tsU()}}))}, tsU()},
        /* 9*/ {"fieldvar[a:V,b:U]", 1, {in(p_tsb({{"a", p_var(V)}, {"b", tsU()}}))}, p_var(V)},
        /*10*/ {"TSD[K,narrow]", 1, {in(p_tsd(svar(K), p_tsb({{"a", tsT()}})))}, tsT()},
        /*11*/ {"TSD[K,wide]", 1, {in(p_tsd(svar(K), p_tsb({{"a", tsT()}, {"b", tsU()}})))}, tsU()},
        /*12*/ {"reffield[a:REF T,b:U]", 1, {in(p_tsb({{"a", p_ref(tsT())}, {"b", tsU()}}))}, tsT()},
        /*13*/ {"V", 1, {in(p_var(V))}, p_var(V)},
    };
    ORD3 = {{8, 1}, {3, 1}, {1, 9}, {1, 13}, {9, 13}, {11, 13}};
    // group 4: field-wise TSB OUTPUT patterns against a caller-requested output (output direction)
    C4 = {
        /* 0*/ {"->narrow[a:T]", 1, {in(tsT())}, p_tsb({{"a", tsT()}})},
        /* 1*/ {"->wide[a:T,b:U]", 1, {in(tsT())}, p_tsb({{"a", tsT()}, {"b", tsU()}})},
        /* 2*/ {"->swapped[b:U,a:T]", 1, {in(tsT())}, p_tsb({{"b", tsU()}, {"a", tsT()}})},
        /* 3*/ {"->Pair[a:T,b:U]", 1, {in(tsT())}, p_tsb({{"a", tsT()}, {"b", tsU()}}, "c19.Pair")},
        /* 4*/ {"narrow->wide", 1, {in(p_tsb({{"a", tsT()}}))}, p_tsb({{"a", tsT()}, {"b", tsU()}})},
        /* 5*/ {"->wide3[a:T,b:U,c:K]", 1, {in(tsT())}, p_tsb({{"a", tsT()}, {"b", tsU()}, {"c", tsK()}})},
        /* 6*/ {"->V", 1, {in(tsT())}, p_var(V)},
        /* 7*/ {"->TS[T]", 1, {in(tsT())}, tsT()},
    };
    ORD4 = {};
    // group 5: variadic tails ("*p" = the tail parameter); the last two aggregate members are {variadic, tail_free}
    C5 = {
        /* 0*/ {"homog(TS[T],*TS[T])", 2, {in(tsT()), in(tsT())}, tsT(), -1, true, false},
        /* 1*/ {"indep(TS[T],*TS[U])", 2, {in(tsT()), in(tsU())}, tsT(), -1, true, true},
        /* 2*/ {"conc(TS[T],*TS[float])", 2, {in(tsT()), in(p_ts(sconc(SC_FLOAT)))}, tsT(), -1, true, false},
        /* 3*/ {"any(TS[T],*V)", 2, {in(tsT()), in(p_var(V))}, tsT(), -1, true, true},
        /* 4*/ {"tailvar(*TS[T])->TSint", 1, {in(tsT())}, p_conc(A_TSI), -1, true, true},
        /* 5*/ {"tailvar(*TS[T])->TS[T]", 1, {in(tsT())}, tsT(), -1, true, true},
        /* 6*/ {"two(TS[T],TS[U],*TS[U])", 3, {in(tsT()), in(tsU()), in(tsU())}, tsU(), -1, true, false},
        /* 7*/ {"fixed(TS[T],TS[T])", 2, {in(tsT()), in(tsT())}, tsT()},
        /* 8*/ {"homogV(V,*V)", 2, {in(p_var(V)), in(p_var(V))}, p_var(V), -1, true, false},
        /* 9*/ {"sized(TSL[TS[T],N],*TSL[TS[T],N])", 2, {in(p_tsl(tsT(), Z_VAR, N)), in(p_tsl(tsT(), Z_VAR, N))}, tsT(), -1, true, false},
        /*10*/ {"symtail(TS[T],*TSL[TS[T],F])", 2, {in(tsT()), in(p_tsl(tsT(), Z_FIXED_SYM, Y_F0))}, tsT(), -1, true, false},
        /*11*/ {"homogint(TS[int],*TS[int])", 2, {in(p_ts(sconc(SC_INT))), in(p_ts(sconc(SC_INT)))}, p_conc(A_TSI), -1, true, false},
        /*12*/ {"fixed3(TS[T],TS[T],TS[T])", 3, {in(tsT()), in(tsT()), in(tsT())}, tsT()},
    };
    ORD5 = {};
}

// ------------------------------------------------------------------ arguments
struct Arg { bool scalar; int id; };  // schema id | scalar id (plain value)
struct ArgTuple {
    int n;
    Arg a[4];
    int want = -1;  // caller-requested output schema id (-1 = none)
    int init = -1;  // initial_resolution binds scalar variable T to this scalar id (-1 = no initial resolution)
};
std::vector<ArgTuple> T1, T2, T3, T4, T5;
void build_args() {
    for (int s : {A_TSI, A_TSF, A_TSL2I, A_TSL3I, A_TSDI, A_REFI, A_SIG, A_TSB, A_TSD_L2, A_TSL2F, A_TSWI, A_TSD_REF, A_TSS})
        T1.push_back(ArgTuple{1, {{false, s}}});
    auto t = [](Arg a, Arg b) { T2.push_back(ArgTuple{2, {a, b}}); };
    t({false, A_TSI}, {false, A_TSI});
    t({false, A_TSI}, {false, A_TSF});
    t({false, A_TSI}, {false, A_REFI});
    t({false, A_TSL2I}, {false, A_TSL2I});
    t({false, A_TSL2I}, {false, A_TSL3I});
    t({false, A_TSL2I}, {false, A_TSL2F});
    t({false, A_TSDI}, {false, A_TSI});
    t({false, A_TSDI}, {false, A_TSF});
    t({false, A_TSI}, {true, SC_INT});
    t({false, A_TSI}, {true, SC_STR});
    t({false, A_TSF}, {false, A_SIG});
    t({false, A_TSL2I}, {false, A_TSI});
    t({false, A_REFI}, {false, A_TSI});
    for (int s : {(int)B_A, B_AB, (int)B_ABC, (int)B_BA, (int)B_AX, (int)N_AB, (int)D_AB, (int)B_AB_II, (int)B_AREF, (int)D_A, (int)N_AB2})
        T3.push_back(ArgTuple{1, {{false, s}}});
    auto q = [](int in_s, int want) { ArgTuple x{1, {{false, in_s}}}; x.want = want; T4.push_back(x); };
    q(A_TSI, B_AB);
    q(A_TSI, B_A);
    q(A_TSI, B_ABC);
    q(A_TSI, B_BA);
    q(A_TSI, N_AB);
    q(A_TSF, B_AB);
    q(B_A, B_AB);
    q(A_TSI, -1);
    q(A_TSI, B_AX);
    // group 5 calls: fixed prefix + tail arguments, optional requested output / initial resolution
    auto v = [](std::initializer_list<int> ss, int want = -1, int init = -1) {
        ArgTuple x{0, {}};
        for (int s : ss) x.a[x.n++] = Arg{false, s};
        x.want = want;
        x.init = init;
        T5.push_back(x);
    };
    /* 0*/ v({A_TSI});                             // empty tail
    /* 1*/ v({A_TSI, A_TSI});
    /* 2*/ v({A_TSI, A_TSF});                       // the tail disagrees with the prefix binding
    /* 3*/ v({A_TSI, A_TSI, A_TSI});
    /* 4*/ v({A_TSI, A_TSI, A_TSF});                // first tail argument agrees, the last one does not
    /* 5*/ v({A_TSI, A_TSF, A_TSF});                // tail homogeneous in itself, not with the prefix
    /* 6*/ v({A_TSI, A_TSF, A_TSS});                // fully heterogeneous
    /* 7*/ v({A_TSI, A_TSI, A_TSI, A_TSF});         // three tail arguments, only the last disagrees
    /* 8*/ v({A_TSI, A_TSI}, A_TSI);                // requested output TS<int>
    /* 9*/ v({A_TSI, A_TSF}, A_TSI);
    /*10*/ v({A_TSF, A_TSF}, A_TSI);
    /*11*/ v({A_TSI, A_TSI}, -1, SC_INT);           // initial resolution T = int
    /*12*/ v({A_TSI, A_TSF}, -1, SC_INT);
    /*13*/ v({A_TSF, A_TSF}, -1, SC_INT);
    /*14*/ v({A_TSL2I, A_TSL2I});
    /*15*/ v({A_TSL2I, A_TSL2F});
    /*16*/ v({A_TSL2I, A_TSL3I});                   // the tail disagrees with the size variable
    /*17*/ v({A_TSI, A_REFI});                      // REF source in the tail
    /*18*/ v({A_TSI, A_TSL2I});                     // symbolic-size TSL tail
    /*19*/ v({A_TSI, A_TSL2I, A_TSL3I});
    /*20*/ v({A_TSF, A_TSI, A_TSI});                // tail homogeneous in itself, not with the prefix (prefix float)
    {
        ArgTuple x{2, {{false, A_TSI}, {true, SC_INT}}};  // a plain value in the tail (promotion: unspecified)
        /*21*/ T5.push_back(x);
    }
}
WiringArg real_arg(const Arg &a) {
    WiringArg w;
    if (a.scalar) {
        w.kind = WiringArg::Kind::Scalar;
        if (a.id == SC_INT) w.scalar_value = Value{Int{3}};
        else if (a.id == SC_FLOAT) w.scalar_value = Value{Float{1.5}};
        else w.scalar_value = Value{Str{"x"}};
        w.scalar_meta = w.scalar_value.schema();
    } else {
        w.kind = WiringArg::Kind::TimeSeries;
        w.port.schema = SCH[a.id].meta;
    }
    return w;
}

OperatorImpl real_impl(const Cand &c, const std::string &name) {
    OperatorImpl impl;
    impl.name = name;
    impl.label = c.label;
    for (int i = 0; i < c.np; i++) {
        ParamPattern pp;
        pp.name = std::string{"p"} + char('0' + i);
        if (c.p[i].scalar) {
            pp.kind = ParamPattern::Kind::Scalar;
            pp.scalar = real_sp(c.p[i].sp);
            if (c.p[i].has_default) pp.default_value = Value{Int{7}};
        } else {
            pp.kind = ParamPattern::Kind::Input;
            pp.ts = real_pat(c.p[i].ts);
        }
        impl.params.push_back(std::move(pp));
    }
    impl.has_output = true;
    impl.output = real_pat(c.out);
    if (c.kw_slot >= 0) {
        SYM_USED[c.kw_slot] = true;
        impl.has_kwargs = true;
        impl.has_kwargs_pattern = true;
        impl.kwargs_pattern = TypePattern::tsl(TypePattern::concrete(SCH[A_TSI].meta), (std::size_t)SYMV[c.kw_slot]);
    }
    impl.variadic = c.variadic;
    // as make_operator_impl / the Python bridge do; a variadic candidate's base rank leaves the tail out, as
    // make_operator_graph_impl does (operator_rank(impl.params, impl.variadic))
    impl.rank = operator_dispatch_detail::operator_rank(impl.params, impl.variadic);
    return impl;
}

// reference: does candidate c match the tuple?  1 yes, 0 no, -1 not specified by the statement
// tail mode (variadic candidates only): M_ONE = one binding threaded through prefix and tail (the statement),
// M_INDEP = every tail argument against its own copy of the prefix bindings, M_SKIP = tail arguments ignored,
// M_FRESH = every tail argument against an empty binding (does the tail pattern fit the argument at all)
enum { M_ONE, M_INDEP, M_SKIP, M_FRESH };
int ref_matches(const Cand &c, const ArgTuple &t, Bind &b, int mode = M_ONE) {
    int need = 0;
    const int fixed = c.variadic ? c.np - 1 : c.np;
    for (int i = 0; i < fixed; i++) if (!c.p[i].has_default) need++;
    if (t.n < need || (!c.variadic && t.n > c.np)) return 0;
    if (t.init >= 0) b.sc[T] = t.init;
    // a caller-requested output must be matched by the output pattern (output direction; the pool's output
    // patterns contain no SIGNAL / REF, so the structural rules coincide with the input direction's)
    if (t.want >= 0 && !rmatch(c.out, t.want, b)) return 0;
    bool unspec = false;
    for (int i = 0; i < t.n; i++) {
        const Param &p = c.p[param_index(c, i)];
        const Arg &a = t.a[i];
        if (is_tail_pos(c, i) && mode != M_ONE && !a.scalar) {
            if (mode == M_SKIP) continue;
            Bind scope = mode == M_INDEP ? b : Bind{};
            if (!rmatch(p.ts, a.id, scope)) return 0;
            continue;
        }
        if (p.scalar) {
            if (!a.scalar) return 0;
            if (!rmatch_sp(p.sp, a.id, b)) return 0;
        } else if (a.scalar) {
            unspec = true;  // promotion of a plain value to a const source: rules not part of the statement
        } else if (!rmatch(p.ts, a.id, b)) {
            return 0;
        }
    }
    if (unspec) return -1;
    return rsubst(c.out, b) != nullptr ? 1 : 0;  // an output variable nothing binds cannot be substituted
}

// ------------------------------------------------------------------ observation
struct Obs : WiringObserver {
    WiringResolutionEvent last;
    int count = 0;
    void on_overload_resolution(const WiringResolutionEvent &e) override { last = e; count++; }
};
enum { R_WIN, R_NOMATCH, R_AMBIG, R_OTHER };
struct Res {
    int kind = R_OTHER;
    int winner = -1;  // position in the family
    int rank = 0;
    bool channels_agree = true;
    bool tail_ok = true;  // variadic winner: every tail argument matches the tail pattern under the returned map
    unsigned amb = 0, rej = 0;  // masks over family positions (from the observer event)
    ResolutionMap map;
    const TSValueTypeMetaData *out = nullptr;
    std::vector<const TSValueTypeMetaData *> subst;  // real substitution of the winner's input params (nullptr = skipped)
};
int OPN = 0;
bool starts_with_lit(const char *s, const char *lit) {
    for (; *lit; ++s, ++lit) if (*s != *lit) return false;
    return true;
}

int pos_of(const std::string &label, const Cand *const *fam, int n) {
    for (int i = 0; i < n; i++) if (label == fam[i]->label) return i;
    return -1;
}

// register `fam` in the order `perm` under a fresh name, resolve, observe
Res run_resolve(const Cand *const *fam, int n, const int *perm, const ArgTuple &t, Wiring &w, Obs &obs) {
    std::string name = "c19_" + std::to_string(OPN++);
    OperatorRegistry &reg = OperatorRegistry::instance();
    for (int i = 0; i < n; i++) reg.register_overload(real_impl(*fam[perm[i]], name));
    std::vector<WiringArg> args;
    for (int i = 0; i < t.n; i++) args.push_back(real_arg(t.a[i]));
    Res r;
    int before = obs.count;
    try {
        ResolutionMap init;
        if (t.init >= 0) init.bind_scalar(SCVARS[T], SCM[t.init]);
        ResolvedOperatorCall rc = reg.resolve(name, std::span<const WiringArg>{args}, std::nullopt, t.want >= 0 ? SCH[t.want].meta : nullptr, {}, {}, &w,
                                              t.init >= 0 ? &init : nullptr);
        r.kind = R_WIN;
        r.winner = rc.impl != nullptr ? pos_of(rc.impl->label, fam, n) : -1;
        r.map = rc.map;
        const Cand &c = *fam[r.winner >= 0 ? r.winner : 0];
        r.out = rc.impl != nullptr && rc.impl->has_output ? ts_pattern_resolve(rc.impl->output, rc.map) : nullptr;
        for (int i = 0; i < t.n && rc.impl != nullptr; i++) {
            const TSValueTypeMetaData *s = nullptr;
            const int pi = param_index(c, i);
            if (!c.p[pi].scalar && !has_wildcard(c.p[pi].ts)) {
                int slot = sym_size_slot(c.p[pi].ts);
                if (slot >= 0) {
                    // the size is pinned by the successful match; make it concrete before it is interned
                    TypePattern copy = rc.impl->params[pi].ts;
                    std::size_t v = (std::size_t)verif_concretize(SYMV[slot]);
                    if (copy.kind == TypePattern::Kind::TSL) copy.fixed_size = v;
                    if (copy.kind == TypePattern::Kind::TSW) { copy.fixed_size = v; copy.min_size = (std::size_t)verif_concretize(SYMV[c.p[pi].ts->z2]); }
                    s = ts_pattern_resolve(copy, rc.map);
                } else {
                    s = ts_pattern_resolve(rc.impl->params[pi].ts, rc.map);
                }
                // a matched parameter must be substitutable (a tail whose variable only the tail could bind is
                // judged by C19.variadic_tail_variable_one_type instead)
                if (s == nullptr && !(is_tail_pos(c, i) && c.tail_free)) r.channels_agree = false;
                // the real matcher, under the RETURNED bindings, must accept every tail argument
                if (is_tail_pos(c, i) && !t.a[i].scalar) {
                    ResolutionMap scope = rc.map;
                    r.tail_ok &= input_ts_pattern_match(rc.impl->params[pi].ts, SCH[t.a[i].id].meta, scope);
                }
            }
            r.subst.push_back(s);
        }
        r.channels_agree &= obs.count == before + 1 && obs.last.selected.has_value() && obs.last.error.empty() &&
                            obs.last.ambiguous.empty() && r.winner >= 0 && obs.last.selected->label == fam[r.winner]->label;
        if (obs.last.selected.has_value()) r.rank = obs.last.selected->rank;
    } catch (const OperatorResolutionError &e) {
        // only the literal heads of the texts are inspected: further on they may embed a symbolic size digit
        const char *m = e.what();
        bool nomatch = starts_with_lit(m, "no matching overload");
        bool ambig = starts_with_lit(m, "ambiguous overloads");
        r.kind = nomatch ? R_NOMATCH : ambig ? R_AMBIG : R_OTHER;
        r.channels_agree = obs.count == before + 1 && !obs.last.selected.has_value() && obs.last.error.size() >= 19 &&
                           starts_with_lit(obs.last.error.c_str(), nomatch ? "no matching overload" : "ambiguous overloads") &&
                           (ambig ? !obs.last.ambiguous.empty() : obs.last.ambiguous.empty());
        if (ambig && !obs.last.ambiguous.empty()) r.rank = obs.last.ambiguous[0].rank;
    } catch (const std::exception &) {
        r.kind = R_OTHER;
    }
    if (obs.count == before + 1) {
        for (const auto &d : obs.last.ambiguous) { int p = pos_of(d.label, fam, n); if (p >= 0) r.amb |= 1u << p; else r.channels_agree = false; }
        for (const auto &d : obs.last.rejected) { int p = pos_of(d.label, fam, n); if (p >= 0) r.rej |= 1u << p; else r.channels_agree = false; }
        r.channels_agree &= obs.last.operator_name == name && (int)obs.last.argument_types.size() == t.n;
    }
    return r;
}

bool same_map(const ResolutionMap &a, const ResolutionMap &b) {
    return a.ts_vars == b.ts_vars && a.scalar_vars == b.scalar_vars && a.size_vars == b.size_vars;
}

int pick_from_mask(const char *what, unsigned mask, int limit, int lo) {
    // enumerated choice of an index >= lo whose bit is set in mask
    int cnt = 0;
    for (int i = lo; i < limit; i++) if (mask & (1u << i)) cnt++;
    if (cnt == 0) { verif_assume(false); return -1; }
    int c = verif_choice(what, cnt);
    for (int i = lo; i < limit; i++) if (mask & (1u << i)) { if (c == 0) return i; c--; }
    return -1;
}
// one (argument tuple, family) case: every member alone, then the family under every registration order
bool prefix_narrower(const Pat *p, int s) {  // field-wise pattern whose fields are a strict prefix of the bundle's
    if (p == nullptr) return false;
    if (p->k == P_TSD && SCH[s].k == S_TSD) return prefix_narrower(p->ch, SCH[s].ch);
    if (p->k != P_TSB || SCH[s].k != S_TSB || p->nf >= SCH[s].nf) return false;
    for (int i = 0; i < p->nf; i++) if (std::strcmp(p->fn[i], SCH[s].fn[i]) != 0) return false;
    return true;
}
void check_case(int group, const ArgTuple &t, int n, const Cand *const *fam, const int *famidx, Wiring &w, Obs &obs) {
    const std::vector<Ord> &ords = group == 1 ? ORD1 : group == 2 ? ORD2 : group == 3 ? ORD3 : group == 4 ? ORD4 : ORD5;
    bool ok_tailvar = true, ok_tail = true;
    bool incons[4] = {false, false, false, false};  // variadic member rejected ONLY because its tail disagrees with a binding
    // ---- each member alone: "matches" and effective rank
    bool m[4];
    int r[4];
    bool ok_ref = true, ok_bind = true, ok_exc = true, ok_chan = true, ok_subst = true, ok_out = true;
    int id1[1] = {0};
    for (int i = 0; i < n; i++) {
        const Cand *one[1] = {fam[i]};
        Res s = run_resolve(one, 1, id1, t, w, obs);
        ok_exc &= s.kind == R_WIN || s.kind == R_NOMATCH;
        ok_chan &= s.channels_agree;
        m[i] = s.kind == R_WIN;
        r[i] = s.rank;
        Bind b;
        int exp = ref_matches(*fam[i], t, b);
        if (fam[i]->variadic) {
            const Cand &c = *fam[i];
            Bind bi, bs, bf;
            int indep = ref_matches(c, t, bi, M_INDEP), pre = ref_matches(c, t, bs, M_SKIP), fresh = ref_matches(c, t, bf, M_FRESH);
            const int ntail = t.n - (c.np - 1);
            if (exp >= 0 && exp != indep) {
                // only a variable that nothing but the tail binds can make the two readings differ: the statement
                // (one type per variable across ALL positions) is demanded under its own id
                verif_reach("variadic_tail_only_variable_readings_differ");
                ok_tailvar &= (exp == 1) == m[i];
                exp = -1;
            } else if (exp == 1) {
                b = bi;  // what the prefix / requested output / initial resolution bind
            }
            if (exp == 1 && m[i] && ntail == 0) verif_reach("variadic_empty_tail_match");
            if (exp == 1 && m[i] && ntail >= 2 && !c.tail_free) verif_reach("variadic_shared_variable_tail_agrees_match");
            if (exp == 1 && m[i] && ntail >= 1 && c.tail_free && (t.want >= 0 || t.init >= 0) && c.np == 1) verif_reach("variadic_tail_agrees_with_output_or_initial_binding_match");
            if (exp == 0 && indep == 0 && pre == 1 && fresh == 1) {
                incons[i] = !m[i];
                if (!m[i] && !c.tail_free && t.want < 0 && t.init < 0) verif_reach("variadic_tail_disagrees_with_prefix_binding_rejected");
                if (!m[i] && !c.tail_free && ntail >= 2) verif_reach("variadic_later_tail_argument_disagrees_rejected");
                if (!m[i] && c.np == 1 && t.want >= 0) verif_reach("variadic_tail_disagrees_with_requested_output_rejected");
                if (!m[i] && c.np == 1 && t.init >= 0) verif_reach("variadic_tail_disagrees_with_initial_resolution_rejected");
                if (!m[i] && c.p[c.np - 1].ts->k == P_TSL && c.p[c.np - 1].ts->zmode == Z_VAR) verif_reach("variadic_tail_disagrees_with_size_variable_rejected");
            }
        }
        if (exp >= 0) ok_ref &= (exp == 1) == m[i];
        if (exp == 1 && m[i]) {
            verif_reach("single_match");
            int nts = 0, nsc = 0, nsz = 0;
            for (int v = 0; v < NTV; v++) if (b.ts[v] >= 0) { nts++; ok_bind &= s.map.find_ts(TSVARS[v]) == SCH[b.ts[v]].meta; }
            for (int v = 0; v < NSV; v++) if (b.sc[v] >= 0) { nsc++; ok_bind &= s.map.find_scalar(SCVARS[v]) == SCM[b.sc[v]]; }
            for (int v = 0; v < NZV; v++) if (b.sz[v] >= 0) { nsz++; auto z = s.map.find_size(SZVARS[v]); ok_bind &= z.has_value() && (std::int64_t)*z == b.sz[v]; }
            ok_bind &= (int)s.map.ts_vars.size() == nts && (int)s.map.scalar_vars.size() == nsc && (int)s.map.size_vars.size() == nsz;
            ok_out &= s.out != nullptr && s.out == rsubst(fam[i]->out, b);
        }
        if (exp == 0) verif_reach("single_reject");
        if (exp == 0 && !m[i] && t.want < 0 && !t.a[0].scalar && prefix_narrower(fam[i]->p[0].ts, t.a[0].id))
            verif_reach("tsb_prefix_narrower_pattern_rejected");
        if (exp == 0 && !m[i] && t.want >= 0 && prefix_narrower(fam[i]->out, t.want))
            verif_reach("requested_output_prefix_narrower_pattern_rejected");
    }
    verif_assert(ok_exc, "C19.no_unexpected_exception");
    verif_assert(ok_ref, "C19.matches_iff_unifiable");
    verif_assert(ok_bind, "C19.bindings_are_the_unifier");
    verif_assert(ok_tailvar, "C19.variadic_tail_variable_one_type");

    // ---- the family under every registration order
    int perm[4] = {0, 1, 2, 3};
    Res first;
    bool have_first = false;
    bool ok_order = true, ok_best = true, ok_sets = true;
    TypeRegistry &treg = TypeRegistry::instance();
    do {
        Res x = run_resolve(fam, n, perm, t, w, obs);
        ok_exc &= x.kind != R_OTHER;
        ok_chan &= x.channels_agree;
        // unique best rank among the matching members
        bool any = false;
        int nbest = 0;
        unsigned tied = 0, nonmatch = 0;
        for (int i = 0; i < n; i++) {
            any |= m[i];
            bool strictly = m[i], weakly = m[i];
            for (int j = 0; j < n; j++) if (j != i) { strictly &= !m[j] | (r[i] < r[j]); weakly &= !m[j] | (r[i] <= r[j]); }
            nbest += strictly ? 1 : 0;
            if (weakly) tied |= 1u << i;
            if (!m[i]) nonmatch |= 1u << i;
            if (x.kind == R_WIN && x.winner == i) ok_best &= strictly;
        }
        if (x.kind == R_WIN) { ok_best &= x.winner >= 0 && x.rank == r[x.winner >= 0 ? x.winner : 0]; }
        if (x.kind == R_NOMATCH) ok_best &= !any;
        if (x.kind == R_AMBIG) { ok_best &= any && nbest == 0; ok_sets &= x.amb == tied; }
        ok_sets &= x.rej == nonmatch;
        // bindings really unify / output is the substitution (real *_pattern_resolve, modulo dereference)
        if (x.kind == R_WIN && x.winner >= 0) {
            const Cand &c = *fam[x.winner];
            ok_tail &= x.tail_ok;
            for (int i = 0; i < t.n; i++) {
                if (c.p[param_index(c, i)].scalar) {
                    ok_subst &= scalar_pattern_resolve(real_sp(c.p[param_index(c, i)].sp), x.map) == SCM[t.a[i].id];
                } else if (x.subst[i] != nullptr) {
                    const TSValueTypeMetaData *supplied = t.a[i].scalar ? treg.ts(SCM[t.a[i].id]) : SCH[t.a[i].id].meta;
                    // pointer identity modulo dereference; a structural bundle pattern may stand for a nominal bundle
                    // with the same fields, which hgraph's own schema equivalence identifies
                    const TSValueTypeMetaData *sa = treg.dereference(x.subst[i]), *sb = treg.dereference(supplied);
                    ok_subst &= sa == sb || time_series_schema_equivalent(sa, sb);
                }
            }
            Bind b;
            int exp = ref_matches(c, t, b, M_INDEP);  // (for a non-variadic candidate the modes coincide)
            if (exp == 1) ok_out &= x.out != nullptr && x.out == rsubst(c.out, b);
            ok_out &= x.out != nullptr;
            if (t.want >= 0) ok_out &= x.out != nullptr && time_series_schema_equivalent(x.out, SCH[t.want].meta);
        }
        if (!have_first) { first = x; have_first = true; }
        else {
            ok_order &= x.kind == first.kind && x.winner == first.winner && x.rank == first.rank && x.out == first.out &&
                        x.amb == first.amb && x.rej == first.rej && same_map(x.map, first.map);
        }
    } while (std::next_permutation(perm, perm + n));

    verif_assert(ok_exc, "C19.no_unexpected_exception");
    verif_assert(ok_chan, "C19.observer_event_agrees_with_result");
    verif_assert(ok_order, "C19.same_outcome_for_every_registration_order");
    verif_assert(ok_best, "C19.winner_is_unique_best_rank_else_error");
    verif_assert(ok_sets, "C19.ambiguous_and_rejected_sets_exact");
    verif_assert(ok_subst, "C19.bindings_unify_parameters_with_arguments");
    verif_assert(ok_out, "C19.output_is_substitution_of_bindings");
    verif_assert(ok_tail, "C19.variadic_tail_arguments_match_under_returned_bindings");

    // ---- documented specificity orderings between members that both match
    bool ok_doc = true;
    for (const Ord &o : ords)
        for (int i = 0; i < n; i++)
            for (int j = 0; j < n; j++)
                if (famidx[i] == o.a && famidx[j] == o.b && m[i] && m[j]) {
                    ok_doc &= r[i] < r[j];
                    verif_reach("documented_order_pair_checked");
                }
    verif_assert(ok_doc, "C19.documented_specificity_order");

    // ---- reach labels
    if (first.kind == R_WIN) {
        verif_reach("winner");
        int nm = 0;
        for (int i = 0; i < n; i++) nm += m[i] ? 1 : 0;
        if (nm >= 2) verif_reach("winner_among_several_matching");
        if (nm >= 2 && n >= 3) verif_reach("winner_among_several_matching_3_orders");
        if (!first.map.ts_vars.empty() && !first.map.scalar_vars.empty()) verif_reach("ts_and_scalar_vars_bound");
        if (!first.map.size_vars.empty()) verif_reach("size_var_bound");
        const Cand &wc = *fam[first.winner >= 0 ? first.winner : 0];
        if (!wc.p[0].scalar && wc.p[0].ts->k == P_TSB && t.want < 0) verif_reach("tsb_fieldwise_winner");
        if (!wc.p[0].scalar && wc.p[0].ts->k == P_TSD && wc.p[0].ts->ch->k == P_TSB) verif_reach("tsb_nested_fieldwise_winner");
        if (t.want >= 0 && wc.out->k == P_TSB) verif_reach("requested_output_tsb_winner");
    }
    if (group == 5) {
        bool any_incons = false, var_m = false, fix_m = false, ar1 = false, ar2 = false;
        for (int i = 0; i < n; i++) {
            any_incons |= incons[i];
            var_m |= m[i] && fam[i]->variadic;
            fix_m |= m[i] && !fam[i]->variadic;
            ar1 |= m[i] && fam[i]->variadic && fam[i]->np == 2;
            ar2 |= m[i] && fam[i]->variadic && fam[i]->np == 3;
        }
        if (any_incons && first.kind == R_WIN && n >= 2) verif_reach("variadic_inconsistent_call_fallback_wins");
        if (any_incons && first.kind == R_NOMATCH && n == 1) verif_reach("variadic_inconsistent_call_alone_no_match");
        if (any_incons && first.kind == R_NOMATCH && n >= 2) verif_reach("variadic_inconsistent_call_family_no_match");
        if (var_m && fix_m) verif_reach("variadic_and_fixed_arity_both_match");
        if (ar1 && ar2) verif_reach("variadic_two_prefix_arities_both_match");
        if (first.kind == R_WIN && fam[first.winner >= 0 ? first.winner : 0]->variadic) verif_reach("variadic_winner");
    }
    if (n == 4) verif_reach("four_member_family_24_orders");
    if (first.kind == R_NOMATCH) verif_reach("no_match_error");
    if (first.kind == R_AMBIG) verif_reach("ambiguity_error");
    for (int i = 0; i < n; i++) {
        if (fam[i]->kw_slot >= 0 && m[i]) verif_reach("symbolic_rank_member_matches");
        if (fam[i]->np > t.n && m[i] && !fam[i]->variadic) verif_reach("default_used");
    }
}
}  // namespace

#ifdef C19_NATIVE_SWEEP
// dev only: exhaustive native calibration in one process (prints CASE lines before the F lines of a failing case)
#include <cstdio>
static void native_sweep(Wiring &w, Obs &obs) {
    static const std::int64_t SZ[][NSYM] = {{0, 0, 0, 0, 0}, {2, 2, 3, 1, 2}, {3, 3, 3, 0, 3}, {1, 2, 3, 1, 0}, {4, 4, 4, 4, 4}, {2, 1, 3, 1, 1}};
    long cases = 0;
    for (auto &sz : SZ) {
        for (int i = 0; i < NSYM; i++) SYMV[i] = sz[i];
        for (int arity = 1; arity <= 5; arity++) {
            if (!((ARITIES >> (arity - 1)) & 1)) continue;
            if ((arity == 3 || arity == 4) && &sz != &SZ[0]) continue;  // the TSB groups have no symbolic sizes
            const std::vector<Cand> &pool = arity == 1 ? C1 : arity == 2 ? C2 : arity == 3 ? C3 : arity == 4 ? C4 : C5;
            const std::vector<ArgTuple> &tuples = arity == 1 ? T1 : arity == 2 ? T2 : arity == 3 ? T3 : arity == 4 ? T4 : T5;
            int P = (int)pool.size();
            for (int ti = 0; ti < (int)tuples.size(); ti++)
                for (int n = FAMMIN; n <= (FAMMAX < 3 ? FAMMAX : 3); n++)
                    for (int i0 = 0; i0 < P; i0++)
                        for (int i1 = (n >= 2 ? i0 + 1 : P - 1); i1 < P; i1++)
                            for (int i2 = (n >= 3 ? i1 + 1 : P - 1); i2 < P; i2++) {
                                int famidx[4] = {i0, i1, i2, 0};
                                const Cand *fam[4] = {&pool[i0], &pool[i1], &pool[i2], nullptr};
                                printf("CASE sz=%d,%d,%d,%d,%d arity=%d args=%d fam=%d:%s|%s|%s\n", (int)sz[0], (int)sz[1], (int)sz[2], (int)sz[3], (int)sz[4], arity, ti, n,
                                       fam[0]->label, n >= 2 ? fam[1]->label : "", n >= 3 ? fam[2]->label : "");
                                check_case(arity, tuples[ti], n, fam, famidx, w, obs);
                                cases++;
                            }
        }
    }
    printf("SWEEP cases=%ld\n", cases);
}
#endif

extern "C" int harness_main() {
    // ---- concrete set-up (before the first verif_* call)
    build_schemas();
    build_candidates();
    build_args();
    Wiring w;
    Obs obs;
    w.add_wiring_observer(&obs);

#ifdef C19_NATIVE_SWEEP
    native_sweep(w, obs);
    return 0;
#endif
    // ---- symbolic numeric pattern parameters
    SYMV[Y_F0] = verif_range("tsl_fixed", 0, SZMAX);
    SYMV[Y_C0] = verif_range("size_cons", 0, SZMAX);
    SYMV[Y_WP] = verif_range("tsw_period", 0, SZMAX);
    SYMV[Y_WM] = verif_range("tsw_min", 0, SZMAX);
    SYMV[Y_KF] = verif_range("kw_fixed", 0, SZMAX);

    // ---- enumerated shape
    int arity = 1 + pick_from_mask("arity", (unsigned)ARITIES, 5, 0);  // pool group 1..5
    const std::vector<Cand> &pool = arity == 1 ? C1 : arity == 2 ? C2 : arity == 3 ? C3 : arity == 4 ? C4 : C5;
    const std::vector<ArgTuple> &tuples = arity == 1 ? T1 : arity == 2 ? T2 : arity == 3 ? T3 : arity == 4 ? T4 : T5;
    unsigned pmask = arity == 1 ? (unsigned)POOL1 : arity == 2 ? (unsigned)POOL2 : arity == 3 ? (unsigned)POOL3 : arity == 4 ? (unsigned)POOL4 : (unsigned)POOL5;
    unsigned amask = arity == 1 ? (unsigned)ARGS1 : arity == 2 ? (unsigned)ARGS2 : arity == 3 ? (unsigned)ARGS3 : arity == 4 ? (unsigned)ARGS4 : (unsigned)ARGS5;
    int ti = pick_from_mask("args", amask, (int)tuples.size(), 0);
    const ArgTuple &t = tuples[ti];
    int n = FAMMIN + verif_choice("fam_n", FAMMAX - FAMMIN + 1);
    const Cand *fam[4];
    int famidx[4];
    int lo = 0;
    for (int i = 0; i < n; i++) {
        int ci = pick_from_mask("cand", pmask, (int)pool.size(), lo);
        famidx[i] = ci;
        fam[i] = &pool[ci];
        lo = ci + 1;
    }

    check_case(arity, t, n, fam, famidx, w, obs);
    verif_reach("end");
    return 0;
}

// C17 (lagging run + push): a real-time run whose window lies in the past of the wall clock evaluates its overdue
// scheduled wake-ups at their logical times.  A value pushed into a push source DURING one of those evaluations makes
// push_update_pending true for the next advance: the pushed value must be delivered in a cycle of its own, and the
// overdue scheduled wake-ups must still all be evaluated at exactly their times (evaluation time never passes the
// earliest pending scheduled time).
#include "hk.h"

#include <hgraph/runtime/push_source_node.h>

#ifndef NTICKS
#define NTICKS 6
#endif
#ifndef GAPMAX
#define GAPMAX 4
#endif

using namespace hk;

namespace {
PushSourceSender g_sender;
std::int64_t g_gap;
int g_push_at = -1;
Int g_payload;
DateTime g_tick_t[NTICKS + 2];
int g_nticks = 0;
DateTime g_expect;
bool ok_exact = true;
DateTime g_push_time = MIN_DT;
struct Deliv { Int v; DateTime t; };
Deliv g_deliv[4];
int g_ndel = 0;
bool g_accepted = false;

struct Ticker {
    static constexpr auto name = "ticker";
    static constexpr bool schedule_on_start = true;
    static void eval(NodeScheduler s, State<Int> n, DateTime now, Out<TS<Int>> out) {
        Int k = n.get();
        ok_exact &= (now == g_expect);
        if (g_nticks < NTICKS + 2) g_tick_t[g_nticks++] = now;
        if (k == g_push_at) { g_accepted = g_sender.try_send(g_payload); g_push_time = now; verif_reach("pushed_during_lagging_evaluation"); }
        out.set(k);
        n.set(k + 1);
        if (k + 1 < NTICKS) { s.schedule(TimeDelta{g_gap}); g_expect = now + TimeDelta{g_gap}; }
    }
};
struct PushSink {
    static constexpr auto name = "pushsink";
    static void eval(In<"a", TS<Int>> a, DateTime now) { if (g_ndel < 4) g_deliv[g_ndel++] = Deliv{a.value(), now}; }
};
struct TickSink { static constexpr auto name = "ticksink"; static void eval(In<"a", TS<Int>> a, State<Int> s) { s.set(s.get() + a.value()); } };
struct PushTag {};
struct Top {
    static constexpr auto name = "top";
    static void compose(Wiring &w) {
        auto &registry = TypeRegistry::instance();
        const auto *ts_int = registry.ts(registry.register_scalar<Int>("int"));
        WiringPortRef p = w.add_node(std::type_index(typeid(PushTag)),
                                     make_push_source_node(*ts_int, make_push_source_queue_policy(*ts_int, 0),
                                                           [](PushSourceSender s) { g_sender = std::move(s); }),
                                     std::span<const WiringPortRef>{}, Value{});
        wire<PushSink>(w, Port<TS<Int>>{w, p});
        auto t = wire<Ticker>(w);
        wire<TickSink>(w, t);
    }
};
}  // namespace

extern "C" int harness_main() {
    g_gap = 1 + verif_choice("gap", GAPMAX);          // 1 = consecutive smallest steps
    // -1: never; otherwise during tick 0..NTICKS-2 (after the LAST tick a lagging run has reached its end time and ends,
    // which the statement permits: "reaching the end time ends the run after the current cycle")
    g_push_at = verif_choice("push_at", NTICKS) - 1;
    g_payload = verif_range("payload", -1000, 1000);
    std::int64_t lag_s = 30 + 30 * verif_choice("lag", 2);
    verif_clock_config(0, 0, 0);
    DateTime wall0 = DateTime{std::chrono::duration_cast<TimeDelta>(std::chrono::nanoseconds{verif_clock_ns()})};
    DateTime start = wall0 - TimeDelta{lag_s * 1000000};
    DateTime end = start + TimeDelta{1000000};
    g_expect = start;
    GraphExecutorBuilder eb;
    eb.graph_builder(build_graph<Top>()).mode(GraphExecutorMode::RealTime).start_time(start).end_time(end);
    {
        GraphExecutorValue ex = eb.make_executor();
        ex.view().run();
    }
    verif_reach("run_returned");
    verif_assert(g_nticks == NTICKS, "C17.lagging_run_with_push_delivers_every_scheduled_wakeup");
    verif_assert(ok_exact, "C17.lagging_run_with_push_evaluates_at_exact_logical_times");
    if (g_push_at >= 0) {
        verif_assert(g_accepted, "C17.push_accepted_while_running");
        verif_assert(g_ndel == 1, "C17.pushed_value_delivered_exactly_once");
        bool ok = g_ndel >= 1 && g_deliv[0].v == g_payload && g_deliv[0].t > g_push_time;
        verif_assert(ok, "C17.pushed_value_delivered_in_a_later_cycle_with_its_payload");
    } else verif_assert(g_ndel == 0, "C17.nothing_delivered_without_push");
    verif_log("ticks", g_nticks);
    verif_log("delivered", g_ndel);
    verif_reach("end");
    return 0;
}

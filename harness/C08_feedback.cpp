// C08: a feedback edge delivers each written value exactly one smallest time step later.
//   real stdlib::feedback<TS<Int>> (make_feedback_source_node / make_feedback_sink_node, rank-free value edge),
//   real wiring -> build_ranked_graph -> simulation executor.
//   enumerated: loop shape (VARIANT), with / without declared initial value
//       0 self loop, producer writes when the script source ticks, reader ACTIVE (evaluated on delivery, no write)
//       1 self loop, reader PASSIVE (the loop must go quiet)
//       2 two mutual loops ticking together (A reads B's feedback, B reads A's), readers active
//       3 self loop, producer writes on EVERY evaluation (re-ticks each smallest step until end_time)
//       4 variant 0 wired inside a nested child graph (real finish_subgraph + single_nested_graph_node)
//       5 passive-reader loop with an IDENTICAL ACTIVE TWIN on the same ports: mon = Twin(src, fb()) wired first,
//         total = Twin(src, passive(fb())) second, fb(total) closes the loop         6 the same, total wired first
//         (same definition, same ports; only the use-site passive marker differs: if the two were merged the passive loop
//          would re-tick on every smallest step)
//   symbolic : script emission times (first offset >= 0, then gaps >= 1 us: consecutive smallest steps and gaps),
//              emitted values, the initial value, start time, window length
//   oracle   : (reads)   at every evaluation of a reader the feedback port shows the last value written in an
//                        EARLIER cycle (or the initial value / invalid), and is `modified` iff that write was
//                        exactly MIN_TD ago (or it is the start cycle and an initial value was declared)
//              (stream)  recorder on the reader port = [initial@start] ++ producer stream shifted by MIN_TD
//              (evals)   a reader is evaluated exactly at script ticks and (active only) at deliveries
//              (cycles)  the set of engine cycles is exactly {start} u script ticks u deliveries (< end):
//                        a passive-reader loop goes quiet, an active always-writing loop ticks every step
#include "hk.h"
#ifdef C08_DEBUG
#include <cstdio>
#endif
#include "hk_c09.h"

#include <hgraph/lib/std/operators/control.h>

#ifndef NEMIT
#define NEMIT 3
#endif
#ifndef DMAX
#define DMAX 3
#endif
#ifndef WMAX
#define WMAX 6
#endif
#ifndef NVARIANT
#define NVARIANT 7
#endif
#ifndef VARIANT_MASK
#define VARIANT_MASK 0x7f
#endif

using namespace hk;

namespace {
constexpr int MAXC = WMAX + 3;  // max cycles in the window (+ slack)
constexpr int NLOOP = 2;

DateTime g_T[NEMIT];  // script emission times (strictly increasing)
Int g_V[NEMIT];       // script values
DateTime g_start, g_end;

struct EvalRec { DateTime t; bool src_mod, fb_valid, fb_mod, wrote; Int fb_val, out_val; };
struct Tick { DateTime t; Int v; };
struct LoopLog {
    EvalRec ev[MAXC]; int nev = 0;       // evaluations of the producer/reader node of this loop
    Tick prod[MAXC]; int nprod = 0;      // recorder sink on the producer's output
    Tick rd[MAXC]; int nrd = 0;          // recorder sink on the feedback reader port
    bool overflow = false;
};
LoopLog g_loop[NLOOP];

// ---- script source: emits g_V[i] at g_T[i]
struct Src {
    static constexpr auto name = "c08_src";
    static constexpr bool schedule_on_start = true;
    static void eval(NodeScheduler s, State<Int> k, DateTime now, Out<TS<Int>> out) {
        Int i = k.get();
        if (i < NEMIT && now == g_T[i]) { out.set(g_V[i]); i++; k.set(i); }
        if (i < NEMIT) s.schedule(g_T[i]);
    }
};

// ---- producer == reader of a loop. ID = loop it writes.  out = src part + feedback part + 1
template <int ID, InputActivity ACT, bool ALWAYS> struct Prod {
    static constexpr auto name = "c08_prod";
    static void eval(In<"src", TS<Int>, InputValidity::Unchecked> src, In<"fb", TS<Int>, ACT, InputValidity::Unchecked> fb,
                     Out<TS<Int>> out, DateTime now) {
        LoopLog &L = g_loop[ID];
        EvalRec r{};
        r.t = now;
        r.src_mod = src.modified();
        r.fb_valid = fb.valid();
        r.fb_mod = fb.modified();
        r.fb_val = r.fb_valid ? fb.value() : Int{0};
        r.wrote = ALWAYS || r.src_mod;
        if (r.wrote) {
            r.out_val = (r.src_mod ? src.value() : Int{0}) + r.fb_val + 1;
            out.set(r.out_val);
        }
        if (L.nev < MAXC) L.ev[L.nev++] = r; else L.overflow = true;
    }
};
template <int ID> struct ProdRec {
    static constexpr auto name = "c08_prod_rec";
    static void eval(In<"a", TS<Int>> a, DateTime now) {
        LoopLog &L = g_loop[ID];
        if (L.nprod < MAXC) L.prod[L.nprod++] = Tick{now, a.value()}; else L.overflow = true;
    }
};
template <int ID> struct ReadRec {
    static constexpr auto name = "c08_read_rec";
    static void eval(In<"a", TS<Int>> a, DateTime now) {
        LoopLog &L = g_loop[ID];
        if (L.nrd < MAXC) L.rd[L.nrd++] = Tick{now, a.value()}; else L.overflow = true;
    }
};

bool g_has_init = false;
Int g_init = 0;

template <class S> auto make_fb(Wiring &w) {
    return g_has_init ? stdlib::feedback<S>(w, Int{g_init}) : stdlib::feedback<S>(w);
}

// loop body shared by the root-level and the nested variants: returns the producer output
template <InputActivity ACT, bool ALWAYS> Port<TS<Int>> self_loop(Wiring &w, Port<TS<Int>> s) {
    auto fb = make_fb<TS<Int>>(w);
    auto p = wire<Prod<0, ACT, ALWAYS>>(w, s, fb());
    fb(p);
    wire<ReadRec<0>>(w, fb());
    return p;
}
template <InputActivity ACT, bool ALWAYS> struct SelfTop {
    static constexpr auto name = "c08_self";
    static void compose(Wiring &w) {
        auto s = wire<Src>(w);
        auto p = self_loop<ACT, ALWAYS>(w, s);
        wire<ProdRec<0>>(w, p);
    }
};
struct MutualTop {
    static constexpr auto name = "c08_mutual";
    static void compose(Wiring &w) {
        auto s = wire<Src>(w);
        auto fa = make_fb<TS<Int>>(w);
        auto fbb = make_fb<TS<Int>>(w);
        auto a = wire<Prod<0, InputActivity::Active, false>>(w, s, fbb());  // A reads B's feedback
        auto b = wire<Prod<1, InputActivity::Active, false>>(w, s, fa());   // B reads A's feedback
        fa(a);
        fbb(b);
        wire<ReadRec<0>>(w, fa());
        wire<ReadRec<1>>(w, fbb());
        wire<ProdRec<0>>(w, a);
        wire<ProdRec<1>>(w, b);
    }
};
// ---- twin variants: one definition, used once actively and once through passive(fb())
struct Twin {
    static constexpr auto name = "c08_twin";
    static void eval(In<"src", TS<Int>, InputValidity::Unchecked> src, In<"fb", TS<Int>, InputValidity::Unchecked> fb, Out<TS<Int>> out) {
        out.set((src.modified() ? src.value() : Int{0}) + (fb.valid() ? fb.value() : Int{0}) + 1);  // writes on EVERY evaluation
    }
};
Tick g_mon[2 * MAXC]; int g_nmon = 0; bool g_mon_overflow = false;
struct MonRec {
    static constexpr auto name = "c08_mon_rec";
    static void eval(In<"a", TS<Int>> a, DateTime now) {
        if (g_nmon < 2 * MAXC) g_mon[g_nmon++] = Tick{now, a.value()}; else g_mon_overflow = true;
    }
};
template <bool TOTAL_FIRST> struct TwinTop {
    static constexpr auto name = "c08_twin_top";
    static void compose(Wiring &w) {
        auto s = wire<Src>(w);
        auto fb = make_fb<TS<Int>>(w);
        Port<TS<Int>> mon, total;
        if (TOTAL_FIRST) { total = wire<Twin>(w, s, passive(fb())); mon = wire<Twin>(w, s, fb()); }
        else { mon = wire<Twin>(w, s, fb()); total = wire<Twin>(w, s, passive(fb())); }
        fb(total);
        wire<ReadRec<0>>(w, fb());
        wire<ProdRec<0>>(w, total);
        wire<MonRec>(w, mon);
    }
};
struct NestedBody {
    static constexpr auto name = "c08_nested_body";
    static Port<TS<Int>> compose(Wiring &w, Port<TS<Int>> s) { return self_loop<InputActivity::Active, false>(w, s); }
};
struct NestedTop {
    static constexpr auto name = "c08_nested";
    static void compose(Wiring &w) {
        auto s = wire<Src>(w);
        auto p = hk::c09::nested1<NestedBody>(w, s);
        wire<ProdRec<0>>(w, p);
    }
};

EventLog<8 * MAXC + 64> g_log;

// the loop whose feedback the producer of loop `id` reads
int read_loop(int variant, int id) { return variant == 2 ? 1 - id : id; }
}  // namespace

extern "C" int harness_main() {
    int variant = verif_choice("variant", NVARIANT);
    if (!((VARIANT_MASK >> variant) & 1)) { verif_end_path(); return 0; }
    g_has_init = verif_bool("has_init");
    g_init = verif_range("init", -1000000, 1000000);
    std::int64_t s0 = verif_range("start", 0, 1000);
    std::int64_t win = verif_range("window", 1, WMAX);
    g_start = at_us(s0);
    g_end = g_start + TimeDelta{win};
    DateTime t = g_start;
    for (int j = 0; j < NEMIT; j++) {
        t = t + TimeDelta{verif_range("gap", j == 0 ? 0 : 1, DMAX)};
        g_T[j] = t;
        g_V[j] = verif_range("val", -1000000, 1000000);
    }

    RecordingObserver<8 * MAXC + 64> obs{&g_log};
    GraphBuilder gb = variant == 0   ? build_graph<SelfTop<InputActivity::Active, false>>()
                      : variant == 1 ? build_graph<SelfTop<InputActivity::Passive, false>>()
                      : variant == 2 ? build_graph<MutualTop>()
                      : variant == 3 ? build_graph<SelfTop<InputActivity::Active, true>>()
                      : variant == 4 ? build_graph<NestedTop>()
                      : variant == 5 ? build_graph<TwinTop<false>>()
                                     : build_graph<TwinTop<true>>();
    run_sim(std::move(gb), g_start, g_end, &obs);

    if (variant >= 5) {
        // ---- twin oracle.  total (passive on fb) ticks exactly at the script ticks; value_j = V_j + (previous total or the
        // initial value or nothing) + 1.  The reader port shows [init@start] ++ totals shifted by MIN_TD.  mon (active twin)
        // ticks at script ticks, at deliveries and at the initial emission.  Cycles = {start} u ticks u deliveries: QUIET after.
        const LoopLog &L = g_loop[0];
        verif_assert(!L.overflow && !g_mon_overflow && !g_log.overflow, "C08.log_overflow");
        bool ok_total = true, ok_rd = true, ok_mon = true, ok_cyc = true;
        Int expect_total[NEMIT];
        Int n_in = 0;
        {
            Int prevv = g_has_init ? g_init : Int{0};
            for (int j = 0; j < NEMIT; j++) {
                expect_total[j] = g_V[j] + prevv + 1;
                prevv = expect_total[j];
                n_in += (g_T[j] < g_end) ? 1 : 0;
                if (j < L.nprod) ok_total &= (L.prod[j].t == g_T[j]) & (L.prod[j].v == expect_total[j]);
            }
            ok_total &= (Int{L.nprod} == n_in);  // a re-ticking (merged) loop writes far more often
        }
        {
            int k = 0;
            Int n_del = 0;
            if (g_has_init) { ok_rd &= (L.nrd >= 1); if (L.nrd >= 1) ok_rd &= (L.rd[0].t == g_start) & (L.rd[0].v == g_init); k = 1; }
            for (int j = 0; j < NEMIT; j++) {
                n_del += (g_T[j] + MIN_TD < g_end) ? 1 : 0;
                if (k < L.nrd) { ok_rd &= (L.rd[k].t == g_T[j] + MIN_TD) & (L.rd[k].v == expect_total[j]); k++; }
            }
            ok_rd &= (Int{L.nrd} == n_del + (g_has_init ? 1 : 0));
        }
        {
            // candidate times of mon: script ticks, deliveries, initial emission
            DateTime cand[2 * NEMIT + 1];
            int nc = 0;
            for (int j = 0; j < NEMIT; j++) { cand[nc++] = g_T[j]; cand[nc++] = g_T[j] + MIN_TD; }
            if (g_has_init) cand[nc++] = g_start;
            DateTime prev = MIN_DT;
            for (int i = 0; i < g_nmon; i++) {
                DateTime t = g_mon[i].t;
                bool is_cand = false;
                for (int c = 0; c < nc; c++) is_cand |= (cand[c] == t);
                Int srcpart = 0, fbpart = g_has_init ? g_init : Int{0};
                for (int j = 0; j < NEMIT; j++) {
                    srcpart = (g_T[j] == t) ? g_V[j] : srcpart;
                    fbpart = (g_T[j] + MIN_TD <= t) ? expect_total[j] : fbpart;
                }
                ok_mon &= is_cand & (t > prev) & (g_mon[i].v == srcpart + fbpart + 1);
                prev = t;
            }
            Int expected = 0;
            for (int c = 0; c < nc; c++) {
                bool dup = false, found = false;
                for (int c2 = 0; c2 < c; c2++) dup |= (cand[c2] == cand[c]);
                for (int i = 0; i < g_nmon; i++) found |= (g_mon[i].t == cand[c]);
                ok_mon &= found | (cand[c] >= g_end);
                expected += ((cand[c] < g_end) & !dup) ? 1 : 0;
            }
            ok_mon &= (Int{g_nmon} == expected);
            // cycles
            Int exp_cyc = 0;
            DateTime cc[2 * NEMIT + 1];
            int ncc = 0;
            cc[ncc++] = g_start;
            for (int j = 0; j < NEMIT; j++) { cc[ncc++] = g_T[j]; cc[ncc++] = g_T[j] + MIN_TD; }
            for (int c = 0; c < ncc; c++) {
                bool dup = false;
                for (int c2 = 0; c2 < c; c2++) dup |= (cc[c2] == cc[c]);
                exp_cyc += ((cc[c] < g_end) & !dup) ? 1 : 0;
            }
            int cycles = 0;
            for (int i = 0; i < g_log.n; i++) cycles += (g_log.ev[i].kind == EV_GRAPH_BEGIN && g_log.ev[i].depth == 0);
            ok_cyc &= (Int{cycles} == exp_cyc);
            verif_log("cycles", cycles);
            if (cycles >= 2) verif_reach("passive_loop_with_active_twin");
        }
        verif_assert(ok_total, "C08.twin_passive_loop_writes_only_on_source_ticks");
        verif_assert(ok_rd, "C08.twin_reader_stream_is_producer_stream_shifted_by_one_step");
        verif_assert(ok_mon, "C08.twin_active_monitor_ticks_on_source_and_delivery");
        verif_assert(ok_cyc, "C08.twin_passive_loop_goes_quiet");
        if (g_has_init) verif_reach("with_initial"); else verif_reach("without_initial");
        verif_reach("end");
        return 0;
    }
    const int nloops = variant == 2 ? 2 : 1;
#ifdef C08_DEBUG
    for (int id = 0; id < nloops; id++) {
        for (int e = 0; e < g_loop[id].nev; e++) {
            const EvalRec &r = g_loop[id].ev[e];
            std::fprintf(stderr, "loop %d eval t=%ld src_mod=%d fb_valid=%d fb_mod=%d fb_val=%ld wrote=%d out=%ld\n", id, (long)us(r.t), r.src_mod, r.fb_valid, r.fb_mod, (long)r.fb_val, r.wrote, (long)r.out_val);
        }
        for (int e = 0; e < g_loop[id].nrd; e++) std::fprintf(stderr, "loop %d read-rec t=%ld v=%ld\n", id, (long)us(g_loop[id].rd[e].t), (long)g_loop[id].rd[e].v);
    }
    for (int i = 0; i < g_log.n; i++)
        if (g_log.ev[i].kind == EV_GRAPH_BEGIN) std::fprintf(stderr, "cycle depth=%d t=%ld\n", g_log.ev[i].depth, (long)us(g_log.ev[i].t));
#endif
    const bool passive = variant == 1;
    bool ok_reads = true, ok_never_same_cycle = true, ok_stream = true, ok_count = true, ok_prod = true;
    bool ok_eval_justified = true, ok_eval_complete = true, ok_cycles = true;
    bool back_to_back = false, gap_write = false, init_then_write_at_start = false;

    for (int id = 0; id < nloops; id++) {
        verif_assert(!g_loop[id].overflow, "C08.log_overflow");
        const LoopLog &R = g_loop[id];                          // the reader under test
        const LoopLog &W = g_loop[read_loop(variant, id)];      // the loop whose writes it must see
        // ---- (reads) every evaluation of the reader vs the writes of W in strictly earlier cycles.
        // Records are chronological and a node runs at most once per cycle, so "the last write before t"
        // is found by a concrete scan; only times/values are symbolic.
        for (int e = 0; e < R.nev; e++) {
            const EvalRec &r = R.ev[e];
            // last write of W with time < r.t  (branch-free selection over the few candidates)
            bool have = g_has_init;
            Int exp_val = g_init;
            bool exp_mod = g_has_init & (r.t == g_start);
            for (int k = 0; k < W.nev; k++) {
                if (!W.ev[k].wrote) continue;
                bool earlier = W.ev[k].t < r.t;
                have = have | earlier;
                exp_val = earlier ? W.ev[k].out_val : exp_val;
                exp_mod = earlier ? (W.ev[k].t + MIN_TD == r.t) : exp_mod;
                // the reader must never see the value written in its own cycle: covered by `earlier` being strict,
                // asserted separately so a fault is named precisely
                ok_never_same_cycle &= !((W.ev[k].t == r.t) & r.fb_mod & (r.fb_val == W.ev[k].out_val) & !exp_mod);
            }
            ok_reads &= (r.fb_valid == have) & (r.fb_mod == exp_mod) & (!have | (r.fb_val == exp_val));
            // ---- (evals) justified
            // (nested variant: a freshly started child graph samples its boundary inputs and schedules consumers
            //  whose validity gate is empty at the start time - nested_bindings.h schedule_sampled_input_consumers;
            //  that evaluation is not caused by the feedback and is outside C08's statement, see notes/C09.md)
            bool sampled_start = (variant == 4) & (r.t == g_start);
            ok_eval_justified &= passive ? r.src_mod : (r.src_mod | r.fb_mod | sampled_start);
        }
        // ---- (stream) reader-port recorder = [init@start] ++ shifted writes that land inside the window
        int k = 0;
        if (g_has_init) {
            ok_count &= R.nrd >= 1;
            if (R.nrd >= 1) ok_stream &= (R.rd[0].t == g_start) & (R.rd[0].v == g_init);
            k = 1;
        }
        int delivered = 0;  // concrete per path: the runtime has already decided every time comparison
        Int expected_deliveries = 0;
        for (int i = 0; i < W.nev; i++) {
            if (!W.ev[i].wrote) continue;
            expected_deliveries += (W.ev[i].t + MIN_TD < g_end) ? 1 : 0;
            if (k < R.nrd) {
                // i-th write <-> k-th reader tick; if the write falls beyond the window there is no k-th tick
                ok_stream &= (R.rd[k].t == W.ev[i].t + MIN_TD) & (R.rd[k].v == W.ev[i].out_val);
                k++;
                delivered++;
            }
            // completeness of active reader evaluations: an evaluation exists one step after the write
            if (!passive) {
                bool found = false;
                for (int e = 0; e < R.nev; e++) found |= (R.ev[e].t == W.ev[i].t + MIN_TD) & R.ev[e].fb_mod;
                ok_eval_complete &= found | (W.ev[i].t + MIN_TD >= g_end);
            }
        }
        ok_count &= (k == R.nrd) & (Int{delivered} == expected_deliveries);
        // ---- producer recorder agrees with the node's own writes
        int q = 0;
        for (int i = 0; i < R.nev; i++) {
            if (!R.ev[i].wrote) continue;
            ok_prod &= (q < R.nprod);
            if (q < R.nprod) ok_prod &= (R.prod[q].t == R.ev[i].t) & (R.prod[q].v == R.ev[i].out_val);
            q++;
        }
        ok_prod &= (q == R.nprod);
        // ---- every script tick inside the window evaluated the reader (with src modified), and wrote
        for (int j = 0; j < NEMIT; j++) {
            bool found = false;
            for (int e = 0; e < R.nev; e++) found |= (R.ev[e].t == g_T[j]) & R.ev[e].src_mod & R.ev[e].wrote;
            ok_eval_complete &= found | (g_T[j] >= g_end);
        }
        // situations
        for (int i = 0; i + 1 < R.nev; i++) {
            if (!R.ev[i].wrote) continue;
            for (int i2 = i + 1; i2 < R.nev; i2++) {
                if (!R.ev[i2].wrote) continue;
                if (R.ev[i2].t == R.ev[i].t + MIN_TD) back_to_back = true;
                else gap_write = true;
                break;
            }
        }
        if (g_has_init && R.nev > 0 && R.ev[0].wrote && R.ev[0].t == g_start) init_then_write_at_start = true;
    }

    // ---- (cycles) root cycles = {start} u script ticks u deliveries, each < end, no duplicates, nothing else
    {
        DateTime cand[1 + NEMIT + NLOOP * MAXC];
        int nc = 0;
        cand[nc++] = g_start;
        for (int j = 0; j < NEMIT; j++) cand[nc++] = g_T[j];
        for (int id = 0; id < nloops; id++)
            for (int i = 0; i < g_loop[id].nev; i++)
                if (g_loop[id].ev[i].wrote) cand[nc++] = g_loop[id].ev[i].t + MIN_TD;
        Int expected = 0;
        for (int i = 0; i < nc; i++) {
            bool dup = false;
            for (int k2 = 0; k2 < i; k2++) dup |= (cand[k2] == cand[i]);
            expected += ((cand[i] < g_end) & !dup) ? 1 : 0;
        }
        int cycles = 0;
        DateTime prev = MIN_DT;
        for (int i = 0; i < g_log.n; i++) {
            if (g_log.ev[i].kind != EV_GRAPH_BEGIN || g_log.ev[i].depth != 0) continue;
            DateTime ct = g_log.ev[i].t;
            bool in = false;
            for (int c = 0; c < nc; c++) in |= (cand[c] == ct);
            ok_cycles &= in & (ct > prev) & (ct < g_end);
            prev = ct;
            cycles++;
        }
        ok_cycles &= (Int{cycles} == expected);
        verif_assert(!g_log.overflow, "C08.log_overflow");
        verif_log("cycles", cycles);
        if (variant == 1 && cycles >= 2) verif_reach("passive_loop_ran");
        if (variant == 3 && cycles >= 3) verif_reach("active_loop_reticked");
    }

    verif_assert(ok_reads, "C08.reader_sees_previous_cycle_value");
    verif_assert(ok_never_same_cycle, "C08.never_same_cycle");
    verif_assert(ok_stream, "C08.reader_stream_is_producer_stream_shifted_by_one_step");
    verif_assert(ok_count, "C08.no_loss_no_duplication");
    verif_assert(ok_prod, "C08.producer_recorder_consistent");
    verif_assert(ok_eval_justified, passive ? "C08.passive_reader_not_woken_by_feedback" : "C08.no_spurious_evaluation");
    verif_assert(ok_eval_complete, "C08.reader_evaluated_on_delivery");
    verif_assert(ok_cycles, passive ? "C08.passive_loop_goes_quiet" : "C08.cycles_exactly_ticks_and_deliveries");

    if (back_to_back) verif_reach("back_to_back_writes");
    if (gap_write) verif_reach("writes_with_gap");
    if (init_then_write_at_start) verif_reach("initial_and_write_in_start_cycle");
    if (g_has_init) verif_reach("with_initial"); else verif_reach("without_initial");
    if (variant == 2) verif_reach("mutual_loops");
    if (variant == 4) verif_reach("nested_loop");
    verif_reach("end");
    return 0;
}

// C11 (wide): reduce equals the fold over exactly the currently valid elements - reductions over MORE
// THAN 64 live elements.
//   real wire_reduce_tsd -> reduce_node (reduce_node.cpp).  The combiner tree is heap indexed and the
//   per-cycle candidate set is a SlotBitmap of 64-bit words (prepare_reduce_evaluation_positions /
//   append_leaf_path / materialize_descending).  With more than 64 live leaves the leaf capacity is >= 128,
//   the deepest combiner level starts at position 63 and every leaf pair except (0,1) hangs under a
//   combiner position >= 64, i.e. in the second (third, fourth) bitmap word; the single deepest-first pass
//   must still visit the candidates in strictly descending order across the words.
//   Few paths, long concrete executions: ONE scripted history per path, all values symbolic.
//   script (TSD):  grow to N keys {in one cycle | over every capacity boundary 1,2,3,5,9,17,33,64,65,(128,129,)N |
//                  one key per cycle | 3 keys then N}
//                  -> T1 tick a pattern of leaves chosen around the bitmap word boundary
//                  -> R  remove a non-tail key (variants: alone, +add a new key, +update another key, two keys)
//                  -> S  shrink below 64 in one cycle (head keys | tail keys | every other key) + erase+set a survivor
//                  -> T2 tick the pattern again (capacity is monotonic: the tree stays 128 wide)
//                  -> shrink to one key -> idle cycle (only a re-ticking zero ticks) -> shrink to empty
//                  -> regrow to N in one cycle (same keys, no capacity change: incremental structural rebuild)
//                  -> T3 tick the pattern again
//   script (TSL):  grow (same schedules, elements become valid in ascending order) -> T1 -> T2 (next pattern;
//                  the dynamic list also grows by an element leaving invalid gaps) -> idle -> T3 all elements
//   enumerated: configuration, zero mode, N, tick pattern, removal variant, shrink style
//   symbolic  : every element value and every zero value (full int64)
//   oracle    : after EVERY engine cycle (clock driven checker ranked below the reduce node), as C11_reduce:
//                 no live valid element & no zero -> invalid;  & zero -> == zero;  one element & zero -> element + zero;
//                 one element -> element;  >= 2 -> wrapping sum of exactly the live elements (zero symbol absent)
//               and the value last DELIVERED to a consumer activated only by the reduce output equals the same fold.
#include "hk_ho.h"

#include <bit>

// {COLL, NLO, NHI, GROW, M, ORDER}
//   COLL   0 TSD<Int,TS<Int>>, 1 fixed TSL<TS<Int>,TSLW>, 2 dynamic TSL<TS<Int>>
//   NLO..NHI  peak number of live elements (enumerated, decided as late as possible)
//   GROW   0 all in one cycle; 1 one cycle per capacity boundary; 2 one key per cycle up to NLO-1, then N; 3 three keys, then N
//   M      size after the shrink (< 64)
//   ORDER  (TSD) 0 keys ascending, 1 keys descending
#ifndef CONFIGS
#define CONFIGS {0, 66, 66, 0, 40, 0}
#endif
#ifndef TSLW     // size of the fixed TSL (>= NHI + 3)
#define TSLW 73
#endif
#ifndef ZLIST    // zero modes explored: 0 none, 1 constant (ticks in cycle 0), 2 re-ticking with a fresh value every cycle
#define ZLIST 0, 2
#endif
#ifndef NPAT     // tick patterns explored (<= 7; pattern 6 needs capacity 256)
#define NPAT 6
#endif
#ifndef NRM      // removal variants explored (<= 4)
#define NRM 4
#endif
#ifndef NSHR     // shrink styles explored (<= 3)
#define NSHR 2
#endif

using namespace hk;

namespace {
using U = std::uint64_t;
struct Cfg { int coll, nlo, nhi, grow, m, order; };
constexpr Cfg CFGS[] = {CONFIGS};
constexpr int NCFG = sizeof(CFGS) / sizeof(CFGS[0]);
constexpr int ZL[] = {ZLIST};
constexpr int NZ = sizeof(ZL) / sizeof(ZL[0]);
constexpr int MAXK = 144;
Cfg G{};
int N = 0;  // peak size (known once chosen)
// ---- model (indexed by insertion index i; key(i) is the dictionary key / list index) ----
bool m_live[MAXK];
Int m_val[MAXK];
int n_live = 0;
int g_zmode = 0;
bool m_zero_valid = false;
Int m_zero = 0;
// ---- mirror of the reduce node's dense leaf order (for REACH LABELS and pattern targeting only, never for the
//      oracle): leaves are appended in insertion order, a removed leaf is replaced by the tail leaf ----
int d2i[MAXK], i2d[MAXK], nd = 0;
bool mirror_ok = true;
bool any_removed = false;
int cap = 0;  // mirrored leaf capacity (monotonic power of two)
// ---- script ----
enum Ph { PH_GROW, PH_T1, PH_RM, PH_SHRINK, PH_T2, PH_TO_ONE, PH_IDLE, PH_TO_EMPTY, PH_REGROW, PH_T3, PH_L_T2, PH_L_IDLE, PH_L_T3, PH_DONE };
int ph = PH_GROW;
int grow_targets[MAXK + 16], n_targets = 0, gi = 0;
int n_inserted = 0;  // insertion indices 0..n_inserted-1 have been used
int pat = 0;
int cyc_ticked[MAXK], n_ticked = 0;   // insertion indices UPDATED (live before and after) in this cycle
int cyc_adds = 0, cyc_removes = 0;
bool g_more = true;
int g_cycles = 0;
// ---- observations ----
bool g_delivered = false;
Int g_last_delivered = 0;
int g_deliveries = 0, g_checks = 0;
bool ok_valid = true, ok_invalid = true, ok_value = true, ok_delivered = true;
bool r_over64 = false, r_over128 = false, r_grown_one_cycle = false, r_grown_across_64 = false, r_skip_caps = false,
     r_tick_word1 = false, r_tick_word2plus = false, r_tick_both_words = false, r_tick_boundary_pair = false, r_all_tick = false,
     r_rm_nontail = false, r_rm_add = false, r_rm_update = false, r_rm_two = false, r_back_to_64 = false,
     r_shrunk_below_64 = false, r_tick_after_shrink = false, r_tick_struct_same_cycle = false,
     r_singleton_zero_wide = false, r_zero_retick_singleton = false, r_empty = false, r_regrown = false, r_tick_after_regrow = false,
     r_list_gap = false, r_idle_cycle = false, r_netted_update = false;
bool was_over64 = false, was_empty_after_wide = false, shrunk = false, regrown = false;

int key_of(int i) { return (G.coll == 0 && G.order == 1) ? (MAXK - 1 - i) : i; }

void mirror_append(int i) { d2i[nd] = i; i2d[i] = nd; nd++; }
void mirror_remove(int i) {
    int l = i2d[i], last = nd - 1;
    if (l != last) { d2i[l] = d2i[last]; i2d[d2i[l]] = l; }
    nd--;
}
// j-th live element: by mirrored dense leaf when the mirror is known, else by rank among the live insertion indices
int pick(int j) {
    if (n_live == 0) return -1;
    j %= n_live;
    if (mirror_ok) return d2i[j];
    for (int i = 0; i < MAXK; i++) if (m_live[i]) { if (j == 0) return i; j--; }
    return -1;
}
bool ticked_already(int i) { for (int t = 0; t < n_ticked; t++) if (cyc_ticked[t] == i) return true; return false; }

template <class Schema, bool DICT> struct CollSrc {
    static constexpr auto name = "coll_src";
    static constexpr bool schedule_on_start = true;
    using OutT = Out<Schema>;
    static void set_i(int i, const OutT &out) {
        Int v = verif_i64("val");
        if constexpr (DICT) out[Int{key_of(i)}].set(v); else out[key_of(i)].set(v);
        if (!m_live[i]) {
            mirror_append(i);
            n_live++; cyc_adds++;
            if (any_removed && cyc_adds > 1) mirror_ok = false;  // slot re-use order of several adds in one cycle is not mirrored
        } else if (!ticked_already(i)) cyc_ticked[n_ticked++] = i;
        m_live[i] = true; m_val[i] = v;
    }
    static void remove_i(int i, const OutT &out) {
        if constexpr (DICT) {
            (void)out.erase(Int{key_of(i)});
            mirror_remove(i);
            m_live[i] = false; n_live--; cyc_removes++; any_removed = true;
        }
    }
    // leaves of tick pattern p, relative to the mirrored capacity: b = first leaf below the first combiner position of the
    // highest bitmap word of the deepest level (capacity 128: position 64 -> leaf 2; capacity 256: position 192 -> leaf 130)
    static void tick_pattern(int p, const OutT &out) {
        int half = cap / 2;                                 // deepest combiner level = positions half-1 .. cap-2
        int wtop = cap >= 128 ? (cap - 2) / 64 : 0;         // highest word holding deepest-level positions
        int b = cap >= 128 ? 2 * (64 * wtop - (half - 1)) : 2;
        int l[8], nl = 0;
        switch (p) {
            case 0: l[nl++] = b; break;                                     // first bit of the top word alone
            case 1: l[nl++] = b - 2; l[nl++] = b; break;                    // positions 64w-1 and 64w: neighbours across the word boundary, same parent
            case 2: l[nl++] = 1; l[nl++] = n_live - 1; break;               // lowest deepest position and the tail
            case 3: l[nl++] = half - 1; l[nl++] = half; break;              // last leaf of the left half, first of the right half (meet at the root only)
            case 4: l[nl++] = b; l[nl++] = b + 1; l[nl++] = b + 3; break;   // both children of one deep combiner + its neighbour
            case 5: break;                                                  // every live element
            default: l[nl++] = 0; l[nl++] = 2; l[nl++] = b; break;          // one deepest-level position in each of three words (capacity 256)
        }
        if (p == 5) {
            for (int j = 0; j < n_live; j++) { int i = pick(j); if (!ticked_already(i)) set_i(i, out); }
            r_all_tick = true;
            return;
        }
        for (int t = 0; t < nl; t++) { int i = pick(l[t]); if (i >= 0 && !ticked_already(i)) set_i(i, out); }
        if (!mirror_ok) {  // dense order unknown: four further distinct elements guarantee a pair other than (0,1) with a live sibling
            const int extra[] = {7, 20, 41, 33};
            for (int t = 0; t < 4; t++) { int i = pick(extra[t]); if (i >= 0 && !ticked_already(i)) set_i(i, out); }
        }
    }
    static void add_upto(int target, const OutT &out) {
        while (n_inserted < target) set_i(n_inserted++, out);
    }
    static bool step(const OutT &out) {
        switch (ph) {
            case PH_GROW: {
                bool last = gi == n_targets;   // the final step goes to N
                int target;
                if (last) {
                    N = G.nlo + verif_choice("n", G.nhi - G.nlo + 1);  // always a decision (also when single-valued): shards split on {cfg, zmode, n, pat}
                    target = N;
                } else target = grow_targets[gi++];
                int before = n_live;
                add_upto(target, out);
                if (before == 0 && target > 64) r_grown_one_cycle = true;
                if (before > 0 && before <= 64 && target > 64) r_grown_across_64 = true;
                if (before > 0 && before < 32 && target > 64) r_skip_caps = true;
                if (last) ph = PH_T1;
                return true;
            }
            case PH_T1:
                pat = verif_choice("pat", (cap < 256 && NPAT > 6) ? 6 : NPAT);  // pattern 6 is new only with capacity 256
                tick_pattern(pat, out);
                ph = DICT ? PH_RM : PH_L_T2;
                return true;
            case PH_RM: {
                int rv = NRM > 1 ? verif_choice("rm", NRM) : 0;
                int half = cap / 2;
                if (rv == 0) { remove_i(pick(0), out); r_rm_nontail = true; }
                else if (rv == 1) { remove_i(pick(2), out); set_i(n_inserted++, out); r_rm_add = true; }
                else if (rv == 2) {
                    int victim = (half < n_live - 1) ? half : half - 1;
                    int upd = pick(5);
                    remove_i(pick(victim), out);
                    set_i(upd, out);
                    r_rm_update = true;
                } else {
                    int a = pick(1), c = pick(3);
                    remove_i(a, out); remove_i(c, out);
                    mirror_ok = false;  // order in which the node processes several removals is not mirrored
                    r_rm_two = true;
                }
                ph = PH_SHRINK;
                return true;
            }
            case PH_SHRINK: {
                int sv = NSHR > 1 ? verif_choice("shrink", NSHR) : 0;
                int todo = n_live - G.m;
                int victims[MAXK], nv = 0;
                if (sv == 0) { for (int j = 0; j < todo; j++) victims[nv++] = pick(j); }                      // head leaves: every hole is refilled from the tail
                else if (sv == 1) { for (int j = 0; j < todo; j++) victims[nv++] = pick(n_live - 1 - j); }    // tail leaves
                else { for (int j = 0; nv < todo && j < n_live; j += 2) victims[nv++] = pick(j);              // every other leaf (then from the tail)
                       for (int j = n_live - 1; nv < todo; j--) { int i = pick(j); bool dup = false; for (int t = 0; t < nv; t++) dup |= victims[t] == i; if (!dup) victims[nv++] = i; } }
                bool tail_only = mirror_ok && sv == 1;
                int upd = -1;  // a survivor updated in the same cycle
                for (int j = 0; j < n_live && upd < 0; j++) { int i = pick(n_live / 2 + j); bool v = false; for (int t = 0; t < nv; t++) v |= victims[t] == i; if (!v) upd = i; }
                for (int t = 0; t < nv; t++) remove_i(victims[t], out);
                if (!tail_only) mirror_ok = false;
                if (upd >= 0) {  // erase + set of a live key in one cycle: netted by the source dictionary, the node sees an update
                    if constexpr (DICT) (void)out.erase(Int{key_of(upd)});
                    set_i(upd, out);
                    r_netted_update = true;
                }
                shrunk = true;
                ph = PH_T2;
                return true;
            }
            case PH_T2:
                tick_pattern(pat, out);
                ph = PH_TO_ONE;
                return true;
            case PH_TO_ONE: {
                int keep = pick(1);
                for (int i = 0; i < MAXK; i++) if (m_live[i] && i != keep) remove_i(i, out);
                mirror_ok = true;  // a single leaf: the dense order is known again
                nd = 0; mirror_append(keep);
                ph = PH_IDLE;
                return true;
            }
            case PH_IDLE:
                r_idle_cycle = true;
                ph = PH_TO_EMPTY;
                return true;
            case PH_TO_EMPTY:
                for (int i = 0; i < MAXK; i++) if (m_live[i]) remove_i(i, out);
                ph = PH_REGROW;
                return true;
            case PH_REGROW:
                for (int i = 0; i < N; i++) set_i(i, out);  // the same keys again
                regrown = true;
                ph = PH_T3;
                return true;
            case PH_T3:
                tick_pattern(pat, out);
                ph = PH_DONE;
                return false;
            // ---- lists ----
            case PH_L_T2:
                tick_pattern((pat + 1) % 6, out);
                if (G.coll == 2) { n_inserted += 2; set_i(n_inserted++, out); r_list_gap = true; }  // dynamic list grows by 3, two of them stay invalid
                ph = PH_L_IDLE;
                return true;
            case PH_L_IDLE:
                r_idle_cycle = true;
                ph = PH_L_T3;
                return true;
            case PH_L_T3:
                tick_pattern(5, out);
                ph = PH_DONE;
                return false;
            default: return false;
        }
    }
    static void eval(NodeScheduler s, State<Int> n, OutT out) {
        Int c = n.get();
        n_ticked = 0; cyc_adds = 0; cyc_removes = 0;
        int live_before = n_live;
        bool more = step(out);
        // ---- end of cycle: mirrored capacity and what the tick pattern reached (labels only) ----
        int need = n_live > 0 ? (int)std::bit_ceil((unsigned)n_live) : 0;
        if (g_zmode != 0 && need < 2) need = 2;
        if (need > cap) cap = need;
        if (cap >= 128 && n_ticked > 0) {
            int half = cap / 2;
            bool w0 = false, w1 = false, w2 = false;
            if (mirror_ok) {
                for (int t = 0; t < n_ticked; t++) {
                    int l = i2d[cyc_ticked[t]];
                    if ((l ^ 1) >= nd) continue;            // unpaired tail leaf: carried higher up
                    int pos = half - 1 + l / 2;             // the deepest combiner over this leaf
                    if (pos < 64) w0 = true; else if (pos < 128) w1 = true; else w2 = true;
                    for (int u = 0; u < n_ticked; u++) {
                        int l2 = i2d[cyc_ticked[u]];
                        if ((l2 ^ 1) < nd && (half - 1 + l2 / 2) == pos + 1 && (pos + 1) % 64 == 0) r_tick_boundary_pair = true;
                    }
                }
            } else if (n_ticked >= 4 && n_live >= 4) {
                w1 = true;  // at most two of the ticked leaves are leaves 0/1 and at most one is an unpaired tail
            }
            if (w1) r_tick_word1 = true;
            if (w2) r_tick_word2plus = true;
            if ((w0 && (w1 || w2)) || (w1 && w2)) r_tick_both_words = true;
            if ((w1 || w2) && shrunk && n_live < 64 && !regrown) r_tick_after_shrink = true;
            if ((w1 || w2) && regrown) r_tick_after_regrow = true;
            if ((w1 || w2) && (cyc_adds > 0 || cyc_removes > 0)) r_tick_struct_same_cycle = true;
        }
        if (cyc_removes > 0 && live_before > 64 && n_live == 64) r_back_to_64 = true;
        (void)c;
        g_cycles++;
        g_more = more;
        n.set(c + 1);
        if (more) s.schedule(MIN_TD);
    }
};
struct ZeroSrc {
    static constexpr auto name = "zero_src";
    static constexpr bool schedule_on_start = true;
    static void eval(NodeScheduler s, State<Int> n, Out<TS<Int>> out) {
        Int c = n.get();
        if (g_zmode != 0 && (c == 0 || g_zmode == 2) && (c == 0 || g_more)) {
            Int z = verif_i64("zero");
            out.set(z);
            m_zero = z; m_zero_valid = true;
            if (n_live == 1 && cap >= 128 && c > 0) r_zero_retick_singleton = true;
        }
        n.set(c + 1);
        if (g_more) s.schedule(MIN_TD);
    }
};
struct Clock {
    static constexpr auto name = "clock";
    static constexpr bool schedule_on_start = true;
    static void eval(NodeScheduler s, State<Int> n, Out<TS<Int>> out) {
        Int c = n.get();
        out.set(c);
        n.set(c + 1);
        if (g_more) s.schedule(MIN_TD);
    }
};
struct AddInts {
    static constexpr auto name = "add";
    static void eval(In<"a", TS<Int>> a, In<"b", TS<Int>> b, Out<TS<Int>> out) { out.set((Int)((U)a.value() + (U)b.value())); }
};
struct Delivered {
    static constexpr auto name = "delivered";
    static void eval(In<"r", TS<Int>> r, Out<TS<Int>> out) {
        g_delivered = true;
        g_last_delivered = r.value();
        g_deliveries++;
        out.set(Int{g_deliveries});
    }
};
struct Checker {
    static constexpr auto name = "checker";
    static void eval(In<"clk", TS<Int>> clk, In<"r", TS<Int>, InputValidity::Unchecked, InputActivity::Passive> r,
                     In<"dep", TS<Int>, InputValidity::Unchecked, InputActivity::Passive> dep) {
        (void)clk; (void)dep;
        int n = 0;
        U sum = 0;
        for (int i = 0; i < MAXK; i++) {
            if (m_live[i]) { n++; sum += (U)m_val[i]; }
        }
        bool has_zero = g_zmode != 0;
        bool exp_valid = n > 0 || (has_zero && m_zero_valid);
        Int exp = (Int)sum;
        if (n == 0) exp = m_zero;
        else if (n == 1 && has_zero) exp = (Int)(sum + (U)m_zero);
        bool valid = r.valid();  // concrete: depends on the shape of the history only
        g_checks++;
        if (exp_valid) {
            ok_valid &= valid;
            if (valid) {
                ok_value &= (r.value() == exp);
                ok_delivered &= g_delivered & (g_last_delivered == exp);
            }
        } else {
            ok_invalid &= !valid;
        }
        if (n > 64) { r_over64 = true; was_over64 = true; if (was_empty_after_wide) r_regrown = true; }
        if (n > 128) r_over128 = true;
        if (n < 64 && n > 1 && was_over64) r_shrunk_below_64 = true;
        if (n == 1 && has_zero && was_over64) r_singleton_zero_wide = true;
        if (n == 0 && was_over64) { r_empty = true; was_empty_after_wide = true; }
    }
};

struct Top {
    static constexpr auto name = "top";
    static void compose(Wiring &w) {
        WiringPortRef d;
        if (G.coll == 0) d = wire<CollSrc<TSD<Int, TS<Int>>, true>>(w).erased();
        else if (G.coll == 1) d = wire<CollSrc<TSL<TS<Int>, TSLW>, false>>(w).erased();
        else d = wire<CollSrc<TSL<TS<Int>>, false>>(w).erased();
        auto z = wire<ZeroSrc>(w);
        auto clk = wire<Clock>(w);
        std::optional<WiringPortRef> zero;
        if (g_zmode != 0) zero = z.erased();
        WiringPortRef r = ho::wire_reduce_tsd(w, Scalar<"func", WiredFn>{FnN<AddInts, 2>::make()}, d, zero);
        Port<TS<Int>> rp{w, r};
        auto t = wire<Delivered>(w, rp);
        wire<Checker>(w, clk, rp, t);
    }
};
}  // namespace

extern "C" int harness_main() {
    register_ho_scalars();
    G = CFGS[verif_choice("cfg", NCFG)];
    if (G.nhi + 4 > MAXK || G.nlo <= 64 || G.m >= 64 || G.m < 3 || (G.coll == 1 && G.nhi + 3 > TSLW) || NPAT > 7 || NRM > 4 || NSHR > 3) {
        verif_fail("C11.wide_harness_configuration");
        return 0;
    }
    g_zmode = ZL[verif_choice("zmode", NZ)];
    // growth schedule (all steps before the final one to N)
    if (G.grow == 1) {
        const int b[] = {1, 2, 3, 5, 9, 17, 33, 64, 65, 128, 129};
        for (int t : b) if (t < G.nlo) grow_targets[n_targets++] = t;
    } else if (G.grow == 2) {
        for (int t = 1; t < G.nlo; t++) grow_targets[n_targets++] = t;
    } else if (G.grow == 3) {
        grow_targets[n_targets++] = 3;
    }
    int max_cycles = n_targets + 12;
    run_sim(build_graph<Top>(), MIN_ST, MIN_ST + TimeDelta{max_cycles + 2});

    verif_assert(ph == PH_DONE && g_checks == g_cycles, "C11.wide_checker_ran_every_cycle");
    verif_assert(ok_invalid, "C11.wide_invalid_when_empty_without_zero");
    verif_assert(ok_valid, "C11.wide_valid_when_elements_or_zero");
    verif_assert(ok_value, "C11.wide_value_equals_fold_of_live_elements");
    verif_assert(ok_delivered, "C11.wide_delivered_value_equals_fold");
    if (r_over64) verif_reach("over_64_live");
    if (r_over128) verif_reach("over_128_live");
    if (r_grown_one_cycle) verif_reach("grown_over_64_in_one_cycle");
    if (r_grown_across_64) verif_reach("grown_incrementally_across_64");
    if (r_skip_caps) verif_reach("grown_skipping_capacities");
    if (r_tick_word1) verif_reach("tick_under_second_word_combiner");
    if (r_tick_word2plus) verif_reach("tick_under_third_or_fourth_word_combiner");
    if (r_tick_both_words) verif_reach("ticks_under_deepest_combiners_of_two_words_same_cycle");
    if (r_tick_boundary_pair) verif_reach("ticks_under_positions_64w_minus_1_and_64w");
    if (r_all_tick) verif_reach("every_element_ticks");
    if (r_rm_nontail) verif_reach("nontail_key_removed_over_64");
    if (r_rm_add) verif_reach("nontail_key_removed_and_new_key_added_same_cycle");
    if (r_rm_update) verif_reach("nontail_key_removed_and_other_key_updated_same_cycle");
    if (r_rm_two) verif_reach("two_nontail_keys_removed_same_cycle");
    if (r_back_to_64) verif_reach("shrunk_to_exactly_64_in_wide_tree");
    if (r_shrunk_below_64) verif_reach("shrunk_below_64");
    if (r_tick_after_shrink) verif_reach("tick_under_second_word_after_shrink_below_64");
    if (r_tick_struct_same_cycle) verif_reach("deep_tick_and_structural_change_same_cycle");
    if (r_singleton_zero_wide) verif_reach("singleton_with_zero_in_wide_tree");
    if (r_zero_retick_singleton) verif_reach("zero_reticks_for_singleton_in_wide_tree");
    if (r_empty) verif_reach("shrunk_to_empty_from_wide");
    if (r_regrown) verif_reach("regrown_over_64_after_empty");
    if (r_tick_after_regrow) verif_reach("tick_under_second_word_after_regrow");
    if (r_list_gap) verif_reach("wide_list_grows_leaving_gaps");
    if (r_netted_update) verif_reach("survivor_erased_and_set_in_shrink_cycle");
    if (r_idle_cycle) verif_reach("idle_cycle");
    verif_log("deliveries", g_deliveries);
    verif_log("cycles", g_cycles);
    verif_reach("end");
    return 0;
}

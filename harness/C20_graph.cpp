// C20 (graph level): record o replay = id on cycle-aligned buffers, through the REAL replay_impl and
// dense_record_impl node structs (record_replay_memory_impl.h) running in a real graph.
//   1. a bounded tick history is produced on a stand-alone real output A (same drivers as C20_delta); the
//      "original recording" is in[c] = capture_delta(inA) for every observable tick, a hole otherwise
//      (this is exactly what dense_record_impl stores per cycle);
//   2. the buffer is seeded under key "in" (testing::set_replay_deltas) and the graph
//      replay_impl<S>("in") -> dense_record_impl("out") runs in simulation from MIN_ST, one cycle per MIN_TD;
//   3. out = testing::get_recorded_deltas("out").
//   symbolic  : all payload values;  enumerated: shape, tick history (see hk_c20.h)
//   oracle    : out has a tick exactly in the cycles where in has one, with an equal delta; nothing after the
//               last cycle of the history.
//   The input class R1 of C20_delta (empty set/dict delta on an already valid collection) is reported under its
//   own id C20.graph_empty_tick_reproduced.
#include "hk_c20.h"

#include <hgraph/lib/std/operators/impl/record_replay_memory_impl.h>
#include <hgraph/lib/testing/record_replay.h>

#include <cstdio>

#ifndef NCYC
#define NCYC 3
#endif
#ifndef SHAPES
#define SHAPES 0x3ff
#endif

using namespace hk;

namespace {
using namespace hk::c20;

template <class S> struct Top {
    static constexpr auto name = "c20_record_replay";
    static void compose(Wiring &w) {
        auto rp = wire<stdlib::replay_impl, S>(w, Str{"in"});
        wire<stdlib::dense_record_impl>(w, rp, Str{"out"});
    }
};

GraphBuilder build_for(int shape) {
    switch (shape) {
        case 0: return build_graph<Top<TS<Int>>>();
        case 1: return build_graph<Top<TSS<Int>>>();
        case 2: return build_graph<Top<TSD<Int, TS<Int>>>>();
        case 3: return build_graph<Top<TSL<TS<Int>, 2>>>();
        case 4: return build_graph<Top<BundleSet>>();
        case 5: return build_graph<Top<TSD<Int, TSS<Int>>>>();
        case 6: return build_graph<Top<BundleDict>>();
        case 7: return build_graph<Top<TSW<Int, 2, 1>>>();
        case 8: return build_graph<Top<TSL<TS<Int>>>>();
        default: return build_graph<Top<TSW<Int, 3, 2>>>();
    }
}
}  // namespace

extern "C" int harness_main() {
    (void)TypeRegistry::instance().register_scalar<Int>("int");
    int shape = verif_choice("shape", NSHAPES);
    if (!((SHAPES >> shape) & 1)) { verif_end_path(); return 0; }
    const auto *schema = shape_schema(shape);
    // wiring + graph compilation do not depend on the history: done before the history is enumerated so that all
    // histories of a shape share it
    GraphBuilder gb = build_for(shape);

    // ---- 1. the original history and its recording
    std::vector<std::optional<Value>> in;
    bool dedup[NCYC] = {};
    int ticks = 0, gaps = 0;
    bool gap_then_tick = false, below_min_recorded = false, unrecorded_tick = false;
    {
        TSOutput A{schema}, B{schema};  // B: shadow copy, only used to classify the known input class R1
        TSInput inA{TSInputBuilderFactory::checked_builder_for(*schema, TSEndpointSchema::peered(schema))};
        inA.view(nullptr, MIN_ST).bind_output(A.view(MIN_ST));
        for (int c = 0; c < NCYC; c++) {
            DateTime t = MIN_ST + TimeDelta{c};
            {
                auto av = A.view(t);
                drive(av, t, false);
            }
            auto ia = inA.view(nullptr, t);
            bool recorded = false;
            if (ia.modified()) {
                Value d = capture_delta(ia);
                if (delta_is_observable(ia, d.view())) {
                    CycleClass cc;
                    auto bv = B.view(t);
                    classify(schema, d.view(), ia, bv, cc);
                    apply_delta(bv, d.view());
                    dedup[c] = cc.dedup;
                    in.emplace_back(std::move(d));
                    recorded = true;
                    if (schema->kind == TSTypeKind::TSW && !ia.valid()) below_min_recorded = true;
                } else {
                    unrecorded_tick = true;
                }
            }
            if (recorded) { ticks++; if (gaps > 0) gap_then_tick = true; }
            else { in.emplace_back(std::nullopt); gaps++; }
        }
    }

    // ---- 2. replay it into a recorder in a real graph
    testing::set_replay_deltas(gb.global_state(), "in", in);
    GraphExecutorBuilder eb;
    eb.graph_builder(std::move(gb)).start_time(MIN_ST).end_time(MIN_ST + TimeDelta{NCYC + 2});
    GraphExecutorValue ex = eb.make_executor();
    ex.view().run();

    // ---- 3. compare the two buffers
    auto out = testing::get_recorded_deltas(ex.view().graph().global_state(), "out");
    bool ok_cycles = true, ok_delta = true, ok_known = true, saw_dedup = false;
    for (int c = 0; c < NCYC; c++) {
        const bool want = in[(std::size_t)c].has_value();
        const bool got = (std::size_t)c < out.size() && out[(std::size_t)c].has_value();
        bool eq = true;
        if (want && got) eq = views_equal(in[(std::size_t)c]->view(), out[(std::size_t)c]->view());
#ifdef C20_DEBUG
        std::fprintf(stderr, "c=%d in=%s out=%s dedup=%d\n", c, want ? in[(std::size_t)c]->view().to_string().c_str() : "-",
                     got ? out[(std::size_t)c]->view().to_string().c_str() : "-", (int)dedup[c]);
#endif
        if (dedup[c]) {
            saw_dedup = true;
            ok_known &= (want == got) & eq;
        } else {
            ok_cycles &= (want == got);
            ok_delta &= eq;
        }
    }
    for (std::size_t c = NCYC; c < out.size(); c++) ok_cycles &= !out[c].has_value();
    // every tick of these histories is a real tick (no invalidation, no scheduling-only notification): the recorder's
    // observability filter must keep all of them, valid or not (a tick window emits before it reaches min_period)
    verif_assert(!unrecorded_tick, "C20.graph_every_tick_is_recorded");
    verif_assert(ok_cycles, "C20.graph_same_cycles");
    verif_assert(ok_delta, "C20.graph_same_delta");
    verif_assert(ok_known, "C20.graph_empty_tick_reproduced");

    if (ticks >= 2) verif_reach("two_ticks");
    if (gap_then_tick) verif_reach("gap_then_tick");
    if (g_removed) verif_reach("key_removed");
    if (g_child_only) verif_reach("child_only_tick");
    if (g_empty_tick) verif_reach("empty_structural_tick");
    if (saw_dedup) verif_reach("class_empty_delta_on_valid_collection");
    if (below_min_recorded && ticks >= 3) verif_reach("window_push_below_min_period_recorded");
    verif_log("shape", shape);
    verif_log("ticks", ticks);
    verif_reach("end");
    return 0;
}

// C01 (dynamic half): within one engine cycle every node is evaluated at most once and never before a node
// whose output it reads (directly, through a TSL structural source, through a reference, across a nested
// boundary); root graph and nested child graph.
//   enumerated: the wiring program (hk_c01.h: NNODES statements over {source, 1-input, 2-input, 3-input with repeated
//               inputs allowed} with inputs chosen among earlier ports, multi-input nodes direct or through a TSL structural source, plus one extra:
//               feedback loop / rank dependency that reorders statements / nested child graph / REF pass-through),
//               which source ticks in which cycle
//   symbolic  : payloads
//   oracle    : observer level - per graph (root, nested) per cycle the evaluated node indices strictly increase;
//               user level    - per cycle no node id runs twice and no consumer runs before one of its producers
//                               that runs in that cycle; every value computed equals the glitch-free model value
//                               (a node that ran early would have read a stale input).
#include "hk_c01.h"

using namespace c01;

namespace {
Prog P;
Built B;
constexpr int OBS_CAP = 4 * MAXEV + 64;
EventLog<OBS_CAP> g_log;

struct Obs : RecordingObserver<OBS_CAP> {
    using RecordingObserver<OBS_CAP>::RecordingObserver;
    void on_before_graph_evaluation(const GraphView &g) override {
        if (g.is_root()) g_cycle++;
        RecordingObserver<OBS_CAP>::on_before_graph_evaluation(g);
    }
};

struct Top {
    static constexpr auto name = "c01_eval";
    static void compose(Wiring &w) {
        wire_base(w, P, B);
        wire_extra(w, P, B);
    }
};
}  // namespace

extern "C" int harness_main() {
    register_c01_scalars();
    choose_base(P);
    choose_extra(P, X_COUNT_EVAL, true);
    verif_assume(!P.cyclic);  // cyclic requests are C01_rank's second family

    GraphBuilder gb = build_graph<Top>();
    const DateTime start = at_us(1000);
    Obs obs{&g_log};
    run_sim(std::move(gb), start, start + TimeDelta{NCYC + 2}, &obs);

    verif_assert(!g_log.overflow && !g_ev_overflow, "C01.log_overflow");

    // ---- observer level: strictly increasing node indices inside every graph evaluation
    bool ok_root = true, ok_nested = true, ok_brackets = true;
    {
        std::int64_t last[2] = {-1, -1};
        bool open[2] = {false, false};
        for (int i = 0; i < g_log.n; i++) {
            const Event &e = g_log.ev[i];
            int d = e.depth;
            if (e.kind == EV_GRAPH_BEGIN) { ok_brackets &= !open[d]; open[d] = true; last[d] = -1; }
            if (e.kind == EV_GRAPH_END) { ok_brackets &= open[d]; open[d] = false; }
            if (e.kind == EV_NODE_BEGIN) {
                ok_brackets &= open[d];
                bool inc = e.node > last[d];
                if (d == 0) ok_root &= inc; else ok_nested &= inc;
                last[d] = e.node;
            }
        }
    }
    verif_assert(ok_brackets, "C01.node_evaluated_outside_graph_evaluation");
    verif_assert(ok_root, "C01.root_node_indices_not_strictly_increasing_in_cycle");
    verif_assert(ok_nested, "C01.nested_node_indices_not_strictly_increasing_in_cycle");

    // ---- user level: at most once, producers first
    bool ok_once = true, ok_order = true;
    bool r_diamond = false, r_multi = false;
    for (int x = 0; x < g_nev; x++)
        for (int y = x + 1; y < g_nev; y++) {
            if (g_ev[x].cycle != g_ev[y].cycle) continue;
            ok_once &= g_ev[x].id != g_ev[y].id;
            ok_order &= !P.reads[g_ev[x].id][g_ev[y].id];  // x ran before y although x reads y
        }
    verif_assert(ok_once, "C01.node_ran_twice_in_cycle");
    verif_assert(ok_order, "C01.consumer_ran_before_producer");

    // ---- value level: glitch-free model, evaluated in statement (= dependency) order per cycle
    bool ok_val = true, ok_due = true, r_after_failure = false;
    {
        Int cur[MAXID];
        bool has[MAXID];
        for (int i = 0; i < P.nuser; i++) { cur[i] = 0; has[i] = false; }
        const int F = P.extra == X_FEEDBACK ? P.n : -1;
        const int R = P.extra == X_REF ? P.n : -1;
        int order[MAXID], no = 0;  // a topological order of the user nodes by reads[][]
        {
            bool done[MAXID] = {};
            for (int round = 0; round < P.nuser; round++)
                for (int i = 0; i < P.nuser; i++) {
                    if (done[i]) continue;
                    bool ready = true;
                    for (int j = 0; j < P.nuser; j++) ready &= !P.reads[i][j] || done[j];
                    if (ready) { done[i] = true; order[no++] = i; }
                }
        }
        const int TA = P.extra == X_TRYEXC ? P.n : -1, TB = P.extra == X_TRYEXC ? P.n + 1 : -1, TC = P.extra == X_TRYEXC ? P.n + 2 : -1;
        const int RC = P.extra == X_REF ? P.n + 1 : -1;
        for (int c = 0; c <= g_cycle; c++) {
            bool ticked[MAXID], ran[MAXID], due[MAXID], dueknown[MAXID];
            for (int i = 0; i < P.nuser; i++) ticked[i] = ran[i] = due[i] = dueknown[i] = false;
            for (int oi = 0; oi < no; oi++) {
                int i = order[oi];
                if (i == F || i == R) continue;  // feedback values are C08's, reference values C13's subject
                const EvalRec *rec = nullptr;
                for (int x = 0; x < g_nev; x++) if (g_ev[x].cycle == c && g_ev[x].id == i) rec = &g_ev[x];
                ran[i] = rec != nullptr;
                if (i < P.n && P.kind[i] == K_SRC) {
                    int k = g_src_index[i];
                    if (c < NCYC && g_tick[k][c]) { cur[i] = g_val[k][c]; has[i] = true; ticked[i] = true; }
                    continue;
                }
                // inputs of i in slot order
                int a = -1, b = -1, c3 = -1;
                if (i < P.n) { a = P.in0[i]; b = P.in1[i]; c3 = P.in2[i]; }
                else if (P.extra == X_NESTED) {
                    if (i == P.n) a = P.xp;
                    if (i == P.n + 1) { a = P.n; b = P.xq; }
                    if (i == P.n + 2) a = P.n + 1;
                } else if (P.extra == X_REF) {
                    if (i == P.n + 1) a = P.xp;  // reads xp through the reference
                } else if (P.extra == X_TRYEXC) {
                    if (i == TA) a = P.xp;
                    if (i == TB) { a = P.xp; b = TA; }
                    if (i == TC) a = TB;
                }
                // a compute node is due in this cycle when one of its inputs ticked (all inputs are active and unchecked);
                // not modelled for the consumers of a reference / of the try_except result bundle
                if (i != RC && i != TC) {
                    dueknown[i] = true;
                    due[i] = (a >= 0 && ticked[a]) || (b >= 0 && ticked[b]) || (c3 >= 0 && ticked[c3]);
                }
                // this node ran: every producer that was due in this cycle must have had its turn (and, by the order
                // oracle above, before this node)
                if (rec != nullptr)
                    for (int j = 0; j < P.nuser; j++)
                        if (P.reads[i][j] && dueknown[j] && due[j] && !ran[j]) ok_due = false;
                if (rec != nullptr) {
                    Int want = (a >= 0 && has[a] ? cur[a] : Int{0}) + (b >= 0 ? 3 * (has[b] ? cur[b] : Int{0}) : Int{0}) +
                               (c3 >= 0 ? 9 * (has[c3] ? cur[c3] : Int{0}) : Int{0}) + node_const(i);
                    ok_val &= rec->value == want;
                    const bool threw_here = i == TB && c == g_throw_cycle;  // the evaluation failed before writing its output
                    if (!threw_here) {
                        cur[i] = rec->value;
                        has[i] = true;
                        ticked[i] = true;
                    }
                    if (i == TB && g_throw_cycle >= 0 && c > g_throw_cycle) r_after_failure = true;
                    if (a >= 0 && b >= 0 && a != b && ticked[a] && ticked[b]) r_multi = true;
                }
            }
        }
    }
    verif_assert(ok_val, "C01.value_read_before_producer_updated");
    verif_assert(ok_due, "C01.consumer_ran_without_due_producer");
    if (r_after_failure) verif_reach("child_cycle_after_captured_failure");

    for (int i = 0; i < P.nuser; i++)
        for (int j = 0; j < P.nuser; j++)
            for (int k = 0; k < P.nuser; k++)
                if (j != k && P.reads[i][j] && P.reads[i][k] && depends(P, j, k)) r_diamond = true;
    if (r_diamond) verif_reach("fan_in_with_unequal_depth");
    if (r_multi) verif_reach("both_inputs_ticked_in_one_cycle");
    if (P.via_tsl) verif_reach("tsl_structural_source");
    if (reads_same_twice(P)) verif_reach("same_producer_read_twice");
    if (P.via_tsl && elements_two_levels_apart(P)) verif_reach("tsl_elements_two_levels_apart");
    if (P.extra == X_FEEDBACK && g_cycle >= 2) verif_reach("feedback_loop_ran");
    if (P.extra == X_RANKDEP || P.extra == X_RANKDEP2) {
        bool reorders = false;
        for (int r = 0; r < P.nrd; r++) reorders |= P.rd[r][0] < P.rd[r][1];
        if (reorders) verif_reach("rank_dependency_reorders_statements");
    }
    if (P.extra == X_NESTED) {
        bool inner = false;
        for (int x = 0; x < g_nev; x++) inner |= g_ev[x].id == P.n + 1;
        if (inner) verif_reach("nested_child_evaluated");
    }
    if (P.extra == X_REF) {
        bool through = false;
        for (int x = 0; x < g_nev; x++) through |= g_ev[x].id == P.n + 1 && g_ev[x].cycle >= 1;
        if (through) verif_reach("read_through_reference_after_first_cycle");
    }
    verif_log("evals", g_nev);
    verif_reach("end");
    return 0;
}

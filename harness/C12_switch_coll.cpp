// C12 (collection-valued outputs): switch_ output follows only the selected branch, which starts fresh.
//   real wire_switch -> compile_switch_branch -> switch_node with branches whose output is a COLLECTION:
//   TSS<Int> or TSD<Int, TS<Int>> (kind enumerated).  Every branch terminal writes through a forwarding endpoint into the
//   ONE output owned by the switch node; on every (re)selection that output has to be reset (switch_node.cpp
//   switch_teardown -> reset_switch_output -> clear_collection), otherwise the consumer sees the union of what the retired
//   instance had published and what the fresh instance publishes.
//   inputs of every branch: cmd (TS<Int>, an ENUMERATED operation code, hash keys must be concrete) and x (TS<Int>, symbolic
//   payload, ticks together with cmd; the TSD element values are computed from it)
//   operation op on element base s:  0 add s | 1 add s+1 | 2 remove s | 3 add s and s+1 | 4 remove s, add s+2
//   branches
//        key 0: apply      applies the held operation (s = 0) at every evaluation (also at selection: sampled inputs)
//        key 1: late       publishes NOTHING in its first evaluation (State), applies the operation from the second one on
//        key 2: shift      applies the operation with s = 1 (contents overlap those of key 0 / key 1 but differ)
//        default (keys 3 and 4, both unmatched): key-consuming; adds element key-2 and applies the operation (s = 0); the
//                 TSD values carry the age of the instance (evaluations so far)
//   enumerated: kind, reload_on_ticked, per cycle key source {no tick, one of KEYS} x cmd {no tick, one of NOPS operations}
//   symbolic  : every payload x (full int64)
//   model     : a fresh instance (empty collection, fresh State) per selection (key change; every key tick when reloading)
//   oracle (clock-driven checker ranked below the switch node, after EVERY engine cycle, + an active consumer Obs):
//        value   : output contents == contents of the selected instance (TSD: element values too); never the union
//        delta   : for an element that is in exactly one of {contents the consumer saw at the end of the previous cycle,
//                  contents now}: added / removed exactly; an element of the retired instance that the fresh instance
//                  publishes again in the selection cycle may be reported (not at all | removed+added | added), but never as
//                  removed only; an element that is in neither is in no delta
//        ticks   : the output ticks when the contents changed (a switch away from published elements ticks even if the new
//                  instance is silent) or (TSD) an element was written; it does not tick when nothing was selected/evaluated
//        evals   : only the selected instance's code runs, a just-selected instance starts from fresh State
//        consumer: the active consumer is evaluated on every such tick and reads the same value / delta
#include "hk_ho.h"
#ifdef C12_DEBUG
#include <cstdio>
#endif

#ifndef CONFIGS     // {kind (0 TSS, 1 TSD), cycles}
#define CONFIGS {0, 3}, {1, 3}
#endif
#ifndef RELOADS     // 1: reload_on_ticked=false only; 2: both
#define RELOADS 2
#endif
#ifndef KEYS        // the key values the key source may tick (3 and 4 fall to the default branch)
#define KEYS 0, 1, 3, 4
#endif
#ifndef NOPS        // operations 0..NOPS-1
#define NOPS 3
#endif

using namespace hk;

namespace {
using U = std::uint64_t;
using SetT = TSS<Int>;
using DictT = TSD<Int, TS<Int>>;
struct Cfg { int kind, ncyc; };
constexpr Cfg CFGS[] = {CONFIGS};
constexpr int NCFG = sizeof(CFGS) / sizeof(CFGS[0]);
constexpr int KEYV[] = {KEYS};
constexpr int NKEYV = sizeof(KEYV) / sizeof(KEYV[0]);
Cfg G{};
int NCYC = 0;
bool g_reload = false;
constexpr int NB = 4;   // branch codes: 0 apply, 1 late, 2 shift, 3 default(keyed)
constexpr int NE = 4;   // element universe 0..3
// ---- script of the current cycle ----
int g_key_tick = -1;    // -1: no tick, else the key value
int g_cmd_tick = -1;    // -1: no tick, else the operation
Int g_xv = 0;
// ---- observations of the current cycle ----
int g_evals[NB];
bool g_fresh_seen[NB];
Int g_obs_cycle = -1;
int g_obs_vm = 0, g_obs_am = 0, g_obs_rm = 0;
int g_checks = 0;

inline Int cyc(DateTime now) { return (now - MIN_ST).count(); }

// what one evaluation of branch `code` does: elements added / set and elements removed
struct Plan { int add, rm; };
inline Plan plan(int code, int op, int keyv, bool first) {
    Plan p{0, 0};
    if (code == 1 && first) return p;
    const int s = code == 2 ? 1 : 0;
    switch (op) {
        case 0: p.add = 1 << s; break;
        case 1: p.add = 1 << (s + 1); break;
        case 2: p.rm = 1 << s; break;
        case 3: p.add = (1 << s) | (1 << (s + 1)); break;
        default: p.rm = 1 << s; p.add = 1 << (s + 2); break;
    }
    if (code == 3) p.add |= 1 << (keyv - 2);
    return p;
}
inline Int elem_value(int code, int e, int keyv, Int x, Int age) {
    return (Int)((U)x + 10 * (U)e + (code == 3 ? 1000 * (U)keyv : 0) + 1000000 * (U)age);
}

template <class K> struct Coll;
template <> struct Coll<SetT> {
    static void put(const Out<SetT> &out, int e, Int) { out.add(Int{e}); }
    static void drop(const Out<SetT> &out, int e) { out.remove(Int{e}); }
    template <class IN> static int mask(const IN &r) { int m = 0; for (Int k : r.values()) m |= 1 << (int)k; return m; }
    template <class IN> static int added(const IN &r) { int m = 0; for (Int k : r.added()) m |= 1 << (int)k; return m; }
    template <class IN> static int removed(const IN &r) { int m = 0; for (Int k : r.removed()) m |= 1 << (int)k; return m; }
    template <class IN> static int modified_elems(const IN &) { return 0; }
};
template <> struct Coll<DictT> {
    static void put(const Out<DictT> &out, int e, Int v) { out[Int{e}].set(v); }
    static void drop(const Out<DictT> &out, int e) { (void)out.erase(Int{e}); }
    template <class R> static int mask_of(R &&range) { int m = 0; for (auto k : range) m |= 1 << (int)k.template checked_as<Int>(); return m; }
    template <class IN> static int mask(const IN &r) { return mask_of(r.keys()); }
    template <class IN> static int added(const IN &r) { return mask_of(r.added_keys()); }
    template <class IN> static int removed(const IN &r) { return mask_of(r.removed_keys()); }
    template <class IN> static int modified_elems(const IN &r) { return mask_of(r.modified_keys()); }
};

template <class K> void run_branch(int code, int keyv, const In<"cmd", TS<Int>> &cmd, const In<"x", TS<Int>> &x, State<Int> &n, const Out<K> &out) {
    const Int age = n.get();
    g_fresh_seen[code] = (age == 0);
    g_evals[code]++;
    n.set(age + 1);
    const Plan p = plan(code, (int)cmd.value(), keyv, age == 0);
    for (int e = 0; e < NE; e++) if (p.rm >> e & 1) Coll<K>::drop(out, e);
    for (int e = 0; e < NE; e++) if (p.add >> e & 1) Coll<K>::put(out, e, elem_value(code, e, keyv, x.value(), age));
}
template <class K> struct BApply {
    static constexpr auto name = "bc_apply";
    static void eval(In<"cmd", TS<Int>> cmd, In<"x", TS<Int>> x, State<Int> n, Out<K> out) { run_branch<K>(0, 0, cmd, x, n, out); }
};
template <class K> struct BLate {
    static constexpr auto name = "bc_late";
    static void eval(In<"cmd", TS<Int>> cmd, In<"x", TS<Int>> x, State<Int> n, Out<K> out) { run_branch<K>(1, 0, cmd, x, n, out); }
};
template <class K> struct BShift {
    static constexpr auto name = "bc_shift";
    static void eval(In<"cmd", TS<Int>> cmd, In<"x", TS<Int>> x, State<Int> n, Out<K> out) { run_branch<K>(2, 0, cmd, x, n, out); }
};
template <class K> struct BKeyed {
    static constexpr auto name = "bc_keyed";
    static constexpr std::array<std::string_view, 3> hk_param_names{"key", "cmd", "x"};
    static void eval(In<"key", TS<Int>> key, In<"cmd", TS<Int>> cmd, In<"x", TS<Int>> x, State<Int> n, Out<K> out) {
        run_branch<K>(3, (int)key.value(), cmd, x, n, out);
    }
};

// ---- scripted sources ----
struct KeySrc {
    static constexpr auto name = "key_src";
    static constexpr bool schedule_on_start = true;
    static void eval(NodeScheduler s, State<Int> n, Out<TS<Int>> out) {
        Int c = n.get();
        int a = verif_choice("key", 1 + NKEYV);
        if (a > 0) { out.set(Int{KEYV[a - 1]}); g_key_tick = KEYV[a - 1]; }
        n.set(c + 1);
        if (c + 1 < NCYC) s.schedule(MIN_TD);
    }
};
struct CmdSrc {
    static constexpr auto name = "cmd_src";
    static constexpr bool schedule_on_start = true;
    static void eval(NodeScheduler s, State<Int> n, Out<TS<Int>> out) {
        Int c = n.get();
        int a = verif_choice("cmd", 1 + NOPS);
        if (a > 0) { out.set(Int{a - 1}); g_cmd_tick = a - 1; }
        n.set(c + 1);
        if (c + 1 < NCYC) s.schedule(MIN_TD);
    }
};
struct XSrc {   // ticks in exactly the cycles in which cmd ticks (wired after CmdSrc)
    static constexpr auto name = "x_src";
    static constexpr bool schedule_on_start = true;
    static void eval(NodeScheduler s, State<Int> n, Out<TS<Int>> out) {
        Int c = n.get();
        if (g_cmd_tick >= 0) {
            Int v = G.kind == 1 ? verif_i64("x") : Int{0};
            out.set(v);
            g_xv = v;
        }
        n.set(c + 1);
        if (c + 1 < NCYC) s.schedule(MIN_TD);
    }
};
struct Clock {
    static constexpr auto name = "clock";
    static constexpr bool schedule_on_start = true;
    static void eval(NodeScheduler s, State<Int> n, Out<TS<Int>> out) {
        Int c = n.get();
        out.set(c);
        n.set(c + 1);
        if (c < NCYC) s.schedule(MIN_TD);   // one trailing cycle: nothing may change any more
    }
};
template <class K> struct Obs {   // the ordinary (active) consumer of the switch output
    static constexpr auto name = "obs";
    static void eval(In<"r", K> r, DateTime now, Out<TS<Int>> out) {
        g_obs_cycle = cyc(now);
        g_obs_vm = Coll<K>::mask(r);
        g_obs_am = Coll<K>::added(r);
        g_obs_rm = Coll<K>::removed(r);
        out.set(g_obs_cycle);
    }
};

// ---- model ----
struct Model {
    int sel = -1;
    int cur_key = -1;
    int has = 0;
    Int val[NE] = {0, 0, 0, 0};
    Int cnt = 0;
    bool cmd_valid = false;
    int op = 0;
    Int x = 0;
} M;
bool ok_value = true, ok_elem_value = true, ok_delta = true, ok_overlap = true, ok_absent = true, ok_must_tick = true, ok_no_tick = true,
     ok_mod_elems = true, ok_evals = true, ok_fresh = true, ok_consumer = true;
int n_switches = 0;
bool visited[8];   // by key value
bool r_reload_same = false, r_default_to_default = false, r_flip = false, r_silent_after_published = false, r_late_first = false,
     r_retired_gone = false, r_overlap = false, r_inst_removed = false, r_late_published = false, r_same_cycle = false,
     r_before_valid = false, r_back = false, r_same_key_no_reload = false, r_switch_from_empty = false, r_removed_on_select = false;

int branch_for(int key) { return key <= 2 ? key : 3; }

template <class K> struct Checker {
    static constexpr auto name = "checker";
    static void eval(In<"clk", TS<Int>> clk, In<"r", K, InputValidity::Unchecked, InputActivity::Passive> r,
                     In<"dep", TS<Int>, InputValidity::Unchecked, InputActivity::Passive> dep, DateTime now) {
        (void)clk; (void)dep;
        const Int c = cyc(now);
        g_checks++;
        // ---- model step ----
        const int prev = M.has;
        if (g_cmd_tick >= 0) { M.op = g_cmd_tick; M.x = g_xv; M.cmd_valid = true; }
        bool switched = false, selected_now = false;
        if (g_key_tick >= 0) {
            const bool change = (M.sel < 0) || g_reload || (g_key_tick != M.cur_key);
            if (change) {
                const int b = branch_for(g_key_tick);
                if (M.sel >= 0) {
                    switched = true;
                    n_switches++;
                    if (prev != 0) {
                        if (g_key_tick == M.cur_key) r_reload_same = true;
                        else if (M.sel == 3 && b == 3) r_default_to_default = true;
                        else if (M.sel != b) r_flip = true;
                    } else {
                        r_switch_from_empty = true;
                    }
                    if (visited[g_key_tick] && g_key_tick != M.cur_key) r_back = true;
                    if (g_cmd_tick >= 0) r_same_cycle = true;
                }
                M.sel = b; M.cur_key = g_key_tick; M.has = 0; M.cnt = 0;
                for (int e = 0; e < NE; e++) M.val[e] = 0;
                visited[g_key_tick] = true;
                selected_now = true;
            } else {
                r_same_key_no_reload = true;
            }
        }
        int exp_evals[NB] = {0, 0, 0, 0};
        bool exp_fresh = false;
        int wrote = 0;
        const bool trig = M.sel >= 0 && M.cmd_valid && (selected_now || g_cmd_tick >= 0 || (M.sel == 3 && g_key_tick >= 0));
        if (selected_now && !M.cmd_valid) r_before_valid = true;
        if (trig) {
            exp_evals[M.sel] = 1;
            exp_fresh = (M.cnt == 0);
            const Plan p = plan(M.sel, M.op, M.cur_key, M.cnt == 0);
            if (!switched && (p.rm & M.has)) r_inst_removed = true;
            if (switched && (p.rm & prev)) r_removed_on_select = true;
            if (M.sel == 1 && M.cnt == 0 && switched && prev != 0) r_late_first = true;
            if (M.sel == 1 && M.cnt > 0 && p.add) r_late_published = true;
            M.has = (M.has & ~p.rm) | p.add;
            for (int e = 0; e < NE; e++) if (p.add >> e & 1) M.val[e] = elem_value(M.sel, e, M.cur_key, M.x, M.cnt);
            wrote = p.add;
            M.cnt++;
        }
        const int cur = M.has;
        if (switched && prev != 0 && wrote == 0) r_silent_after_published = true;
        if (switched && (prev & ~cur)) r_retired_gone = true;
        if (switched && (prev & cur)) r_overlap = true;
        // ---- observation ----
        const bool valid = r.valid();
        const bool mod = r.modified();
        const int vm = valid ? Coll<K>::mask(r) : 0;
        const int am = mod ? Coll<K>::added(r) : 0;
        const int rm = mod ? Coll<K>::removed(r) : 0;
        const int mm = mod ? Coll<K>::modified_elems(r) : 0;
#ifdef C12_DEBUG
        std::fprintf(stderr, "c=%ld sel=%d key=%d switched=%d trig=%d | prev=%d cur=%d wrote=%d | valid=%d mod=%d vm=%d am=%d rm=%d mm=%d obs_c=%ld\n", (long)c, M.sel, M.cur_key, switched, trig, prev, cur, wrote, valid, mod, vm, am, rm, mm, (long)g_obs_cycle);
#endif
        ok_value &= (vm == cur);
        if constexpr (std::is_same_v<K, DictT>) {
            for (int e = 0; e < NE; e++)
                if ((vm >> e & 1) && (cur >> e & 1)) {   // concrete shape
                    auto el = r.at(Int{e});
                    bool ev = el.valid();
                    ok_elem_value &= ev;
                    if (ev) ok_elem_value &= (el.value() == M.val[e]);
                }
            if (mod) ok_mod_elems &= (mm == wrote);
        }
        const int overlap = switched ? (prev & cur) : 0;
        const int absent = ~(prev | cur) & ((1 << NE) - 1);
        const int exact = (prev ^ cur);
        ok_delta &= ((am & exact) == (cur & ~prev)) & ((rm & exact) == (prev & ~cur));
        ok_delta &= (((am | rm) & (prev & cur) & ~overlap) == 0);       // a surviving element of the same instance is in no delta
        ok_overlap &= ((rm & overlap & ~am) == 0);
        ok_absent &= (((am | rm) & absent) == 0);
        const bool must_tick = (cur != prev) || (std::is_same_v<K, DictT> && wrote != 0);
        const bool may_tick = switched || selected_now || trig;
        if (must_tick) ok_must_tick &= mod;
        if (!may_tick) ok_no_tick &= !mod;
        for (int b = 0; b < NB; b++) {
            ok_evals &= (g_evals[b] == exp_evals[b]);
            if (exp_evals[b] == 1 && g_evals[b] == 1) ok_fresh &= (g_fresh_seen[b] == exp_fresh);
        }
        if (mod) ok_consumer &= (g_obs_cycle == c) & (g_obs_vm == vm) & (g_obs_am == am) & (g_obs_rm == rm);
        else ok_consumer &= (g_obs_cycle != c);
        for (int b = 0; b < NB; b++) { g_evals[b] = 0; g_fresh_seen[b] = false; }
        g_key_tick = -1;
        g_cmd_tick = -1;
    }
};

template <class K> void wire_all(Wiring &w) {
    auto cmd = wire<CmdSrc>(w);
    auto x = wire<XSrc>(w);
    auto clk = wire<Clock>(w);
    auto k = wire<KeySrc>(w);
    stdlib::SwitchCases cases;
    cases.cases.push_back(stdlib::SwitchCase{Value{Int{0}}, FnN<BApply<K>, 2, K>::make()});
    cases.cases.push_back(stdlib::SwitchCase{Value{Int{1}}, FnN<BLate<K>, 2, K>::make()});
    cases.cases.push_back(stdlib::SwitchCase{Value{Int{2}}, FnN<BShift<K>, 2, K>::make()});
    cases.default_branch = FnN<BKeyed<K>, 3, K>::make();
    cases.reload_on_ticked = g_reload;
    WiringPortRef s = ho::wire_switch(w, k.erased(), cases, {cmd.erased(), x.erased()}, {}, true);
    Port<K> sp{w, s};
    auto o = wire<Obs<K>>(w, sp);
    wire<Checker<K>>(w, clk, sp, o);
}
struct Top {
    static constexpr auto name = "top";
    static void compose(Wiring &w) {
        if (G.kind == 0) wire_all<SetT>(w);
        else wire_all<DictT>(w);
    }
};
#define KREACH(flag, label) do { if (flag) verif_reach(G.kind == 0 ? "tss:" label : "tsd:" label); } while (0)
}  // namespace

extern "C" int harness_main() {
    register_ho_scalars();
    G = CFGS[NCFG > 1 ? verif_choice("cfg", NCFG) : 0];
    NCYC = G.ncyc;
    g_reload = RELOADS > 1 ? verif_choice("reload", 2) == 1 : false;
    run_sim(build_graph<Top>(), MIN_ST, MIN_ST + TimeDelta{NCYC + 3});
    verif_assert(g_checks == NCYC + 1, "C12.coll_checker_ran_every_cycle");
    verif_assert(ok_value, "C12.coll_contents_equal_selected_instance");
    verif_assert(ok_elem_value, "C12.coll_element_values_equal_selected_instance");
    verif_assert(ok_delta, "C12.coll_delta_equals_change_of_contents");
    verif_assert(ok_overlap, "C12.coll_republished_element_not_reported_removed_only");
    verif_assert(ok_absent, "C12.coll_no_delta_for_element_never_visible");
    verif_assert(ok_must_tick, "C12.coll_output_ticks_when_contents_change");
    verif_assert(ok_no_tick, "C12.coll_output_silent_without_selected_instance_activity");
    verif_assert(ok_mod_elems, "C12.coll_modified_elements_are_those_written");
    verif_assert(ok_evals, "C12.coll_only_selected_instance_evaluates");
    verif_assert(ok_fresh, "C12.coll_selected_instance_starts_fresh");
    verif_assert(ok_consumer, "C12.coll_consumer_sees_same_ticks_and_delta");
    KREACH(n_switches >= 1, "switched");
    KREACH(n_switches >= 2, "two_switches");
    KREACH(r_reload_same, "reload_same_key_after_published_elements");
    KREACH(r_default_to_default, "default_to_default_after_published_elements");
    KREACH(r_flip, "flip_between_branches_after_published_elements");
    KREACH(r_silent_after_published, "new_instance_silent_in_selection_cycle_after_published_elements");
    KREACH(r_late_first, "late_branch_first_evaluation_after_published_elements");
    KREACH(r_late_published, "late_branch_published_in_later_cycle");
    KREACH(r_retired_gone, "retired_element_not_republished");
    KREACH(r_overlap, "retired_element_republished_in_selection_cycle");
    KREACH(r_inst_removed, "instance_removed_own_element");
    KREACH(r_removed_on_select, "new_instance_removes_retired_element_in_selection_cycle");
    KREACH(r_switch_from_empty, "switch_with_nothing_published");
    KREACH(r_same_cycle, "switch_and_input_tick_same_cycle");
    KREACH(r_before_valid, "selected_before_input_valid");
    KREACH(r_back, "returned_to_earlier_key");
    KREACH(r_same_key_no_reload, "same_key_tick_without_reload");
    verif_reach("end");
    return 0;
}

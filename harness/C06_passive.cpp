// C06 (node sharing, input activity): the same definition wired on the same ports with the same scalars, once with an
// ACTIVE and once with a PASSIVE use of input b - `wire<Sum2>(w, a, b)` and `wire<Sum2>(w, a, passive(b))` - must behave as
// two un-shared nodes would: the passive use is evaluated on ticks of a only, the active use on ticks of a or b.
//   enumerated: which of the two is wired first
//   symbolic  : both script sources' emission times (first offset >= 0, gaps >= 1 us) and values, start, window
//   oracle    : each recorder stream equals the un-shared model (sound + complete over the candidate tick times); node count
//               logged and asserted under a separate id
#include "hk.h"

#ifndef NX
#define NX 2
#endif
#ifndef DMAX
#define DMAX 3
#endif
#ifndef WMAX
#define WMAX 5
#endif
#ifdef C06_DEBUG
#include <cstdio>
#endif

using namespace hk;

namespace {
constexpr int MAXO = 2 * NX + 2;
DateTime g_T[2][NX];
Int g_V[2][NX];
DateTime g_start, g_end;
struct Tick { DateTime t; Int v; };
Tick g_rec[2][MAXO];  // 0: active use, 1: passive use
int g_n[2];
bool g_overflow = false;
int g_passive_first = 0;

template <int ID> struct Src {
    static constexpr auto name = "c06p_src";
    static constexpr bool schedule_on_start = true;
    static void eval(NodeScheduler s, State<Int> k, DateTime now, Out<TS<Int>> out) {
        Int i = k.get();
        if (i < NX && now == g_T[ID][i]) { out.set(g_V[ID][i]); i++; k.set(i); }
        if (i < NX) s.schedule(g_T[ID][i]);
    }
};
struct Sum2 {
    static constexpr auto name = "c06p_sum2";
    static void eval(In<"a", TS<Int>> a, In<"b", TS<Int>> b, Out<TS<Int>> out) { out.set(a.value() + 7 * b.value()); }
};
template <int ID> struct Rec {
    static constexpr auto name = "c06p_rec";
    static void eval(In<"a", TS<Int>> a, DateTime now) {
        if (g_n[ID] < MAXO) g_rec[ID][g_n[ID]++] = Tick{now, a.value()}; else g_overflow = true;
    }
};
struct Top {
    static constexpr auto name = "c06p_top";
    static void compose(Wiring &w) {
        auto A = wire<Src<0>>(w);
        auto B = wire<Src<1>>(w);
        Port<TS<Int>> act, pas;
        if (g_passive_first) { pas = wire<Sum2>(w, A, passive(B)); act = wire<Sum2>(w, A, B); }
        else { act = wire<Sum2>(w, A, B); pas = wire<Sum2>(w, A, passive(B)); }
        wire<Rec<0>>(w, act);
        wire<Rec<1>>(w, pas);
    }
};
// value / validity of script sc at time t (last emission with T <= t)
struct Cur { bool valid; Int v; };
Cur cur(int sc, DateTime t) {
    Cur c{false, 0};
    for (int j = 0; j < NX; j++) {
        bool le = g_T[sc][j] <= t;
        c.valid |= le;
        c.v = le ? g_V[sc][j] : c.v;
    }
    return c;
}
}  // namespace

extern "C" int harness_main() {
    g_passive_first = verif_choice("passive_first", 2);
    std::int64_t s0 = verif_range("start", 0, 1000);
    std::int64_t win = verif_range("window", 1, WMAX);
    g_start = at_us(s0);
    g_end = g_start + TimeDelta{win};
    for (int sc = 0; sc < 2; sc++) {
        DateTime t = g_start;
        for (int j = 0; j < NX; j++) {
            t = t + TimeDelta{verif_range(sc == 0 ? "gapa" : "gapb", j == 0 ? 0 : 1, DMAX)};
            g_T[sc][j] = t;
            g_V[sc][j] = verif_range(sc == 0 ? "vala" : "valb", -1000, 1000);
        }
    }
    GraphBuilder gb = build_graph<Top>();
    const std::size_t nodes = gb.node_count();
    run_sim(std::move(gb), g_start, g_end, nullptr);

#ifdef C06_DEBUG
    for (int r = 0; r < 2; r++) for (int i = 0; i < g_n[r]; i++) std::fprintf(stderr, "rec %d t=%ld v=%ld\n", r, (long)us(g_rec[r][i].t), (long)g_rec[r][i].v);
    std::fprintf(stderr, "nodes=%zu\n", nodes);
#endif
    verif_assert(!g_overflow, "C06.log_overflow");
    // un-shared model.  r = 0 (active on a and b): ticks at every emission time of A or B at which both are valid;
    //                   r = 1 (passive on b):      ticks at every emission time of A at which both are valid.
    bool ok[2] = {true, true};
    bool b_only_tick_inside = false;
    for (int r = 0; r < 2; r++) {
        const int nsc = r == 0 ? 2 : 1;  // candidate tick times come from A (and B for the active use)
        DateTime prev = MIN_DT;
        for (int i = 0; i < g_n[r]; i++) {  // soundness: every recorded tick is a candidate, with the model's value
            DateTime t = g_rec[r][i].t;
            bool cand = false;
            for (int sc = 0; sc < nsc; sc++) for (int j = 0; j < NX; j++) cand |= (g_T[sc][j] == t);
            Cur a = cur(0, t), b = cur(1, t);
            ok[r] &= cand & a.valid & b.valid & (g_rec[r][i].v == a.v + 7 * b.v) & (t > prev);
            prev = t;
        }
        for (int sc = 0; sc < nsc; sc++) {  // completeness: every candidate inside the window with both inputs valid ticked
            for (int j = 0; j < NX; j++) {
                DateTime t = g_T[sc][j];
                Cur a = cur(0, t), b = cur(1, t);
                bool found = false;
                for (int i = 0; i < g_n[r]; i++) found |= (g_rec[r][i].t == t);
                ok[r] &= found | !(a.valid & b.valid) | (t >= g_end);
            }
        }
    }
    // situation that distinguishes the two uses: B ticks alone (A valid, A not ticking) inside the window
    for (int j = 0; j < NX; j++) {
        DateTime t = g_T[1][j];
        bool a_ticks = false;
        for (int k = 0; k < NX; k++) a_ticks |= (g_T[0][k] == t);
        if (t < g_end && cur(0, t).valid && !a_ticks) b_only_tick_inside = true;
    }
    if (b_only_tick_inside) verif_reach("b_ticks_alone");
    if (g_n[0] >= 1) verif_reach("active_use_ticked");
    verif_log("nodes", (std::int64_t)nodes);
    verif_assert(ok[0] & ok[1], "C06.passive_variant_not_merged_or_behaviour_preserved");
    // A, B, two Sum2 (differing in input activity), two recorders
    verif_assert(nodes == 6, "C06.passive_variant_stays_distinct");
    verif_reach("end");
    return 0;
}

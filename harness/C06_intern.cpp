// C06 (node sharing): wiring the same definition with equal inputs and equal scalars may share one instance without
// changing any output; nodes that differ in an input, a scalar or a resolved type, and all sink nodes, stay distinct.
//   real Wiring::add_node interning (InstanceKey hash / equality over definition, resolved schemas, input edges, scalars)
//   one graph:  A, B script sources
//               d1 = Scale(p, k=s1), d2 = Scale(q, k=s2)      p, q ENUMERATED in {A, B};  s1, s2 SYMBOLIC scalars
//               Rec0(d1), Rec1(d2)                             recorder sinks
//               Count(d1), Count(d1)                           two IDENTICAL sinks (same definition, same input)
//               g1 = Gen<TS<Int>>(A), g2 = Gen<TS<Bool>>(A), g3 = Gen<TS<Int>>(A)   same definition + input, resolved types differ
//               Rec2(g1), RecB(g2), Rec3(g3)
//   symbolic : the two scalars (flowing through Value::hash / Value::equals of the real InstanceKey), script times and values
//   oracle   : node count == base + (p == q && s1 == s2 ? 1 : 2) (+1 shared Gen<TS<Int>>, +1 Gen<TS<Bool>>); the two identical
//              sinks both run on every tick of d1 (side-effect counter == 2 x ticks); every recorder stream equals the
//              un-shared model (d_i = 1000 * input + s_i at the input's ticks; g = input + 1 / input is odd)
#include "hk.h"

#ifndef NX
#define NX 2
#endif
#ifndef DMAX
#define DMAX 3
#endif
#ifndef WMAX
#define WMAX 5
#endif
#ifndef SMAX
#define SMAX 2
#endif

using namespace hk;

namespace {
constexpr int MAXO = 2 * NX + 2;
constexpr int NREC = 5;  // 0: d1, 1: d2, 2: g1, 3: g3, 4: g2 (bool as 0/1)

DateTime g_T[2][NX];
Int g_V[2][NX];
DateTime g_start, g_end;
struct Tick { DateTime t; Int v; };
Tick g_rec[NREC][MAXO];
int g_n[NREC];
bool g_overflow = false;
int g_count = 0;       // side-effect counter of the identical sinks
int g_scale_evals = 0; // evaluations of Scale nodes (1 per tick when shared, 2 when not)

template <int ID> struct Src {
    static constexpr auto name = "c06i_src";
    static constexpr bool schedule_on_start = true;
    static void eval(NodeScheduler s, State<Int> k, DateTime now, Out<TS<Int>> out) {
        Int i = k.get();
        if (i < NX && now == g_T[ID][i]) { out.set(g_V[ID][i]); i++; k.set(i); }
        if (i < NX) s.schedule(g_T[ID][i]);
    }
};
struct Scale {
    static constexpr auto name = "c06i_scale";
    static void eval(In<"a", TS<Int>> a, Scalar<"k", Int> k, Out<TS<Int>> out) { g_scale_evals++; out.set(1000 * a.value() + k.value()); }
};
struct Gen {  // generic output: resolved at wiring time through wire<Gen, TS<...>>
    static constexpr auto name = "c06i_gen";
    static void eval(In<"a", TS<Int>> a, Out<TsVar<"O">> out) {
        if (static_cast<const TSOutputView &>(out).schema() == schema_descriptor<TS<Int>>::ts_meta()) { Value v{Int{a.value() + 1}}; out.apply(v.view()); }
        else { Value v{Bool{(a.value() & 1) != 0}}; out.apply(v.view()); }
    }
};
template <int ID> struct Rec {
    static constexpr auto name = "c06i_rec";
    static void eval(In<"a", TS<Int>> a, DateTime now) {
        if (g_n[ID] < MAXO) g_rec[ID][g_n[ID]++] = Tick{now, a.value()}; else g_overflow = true;
    }
};
struct RecB {
    static constexpr auto name = "c06i_recb";
    static void eval(In<"a", TS<Bool>> a, DateTime now) {
        if (g_n[4] < MAXO) g_rec[4][g_n[4]++] = Tick{now, a.value() ? Int{1} : Int{0}}; else g_overflow = true;
    }
};
struct Count {
    static constexpr auto name = "c06i_count";
    static void eval(In<"a", TS<Int>> a) { (void)a; g_count++; }
};

int g_p = 0, g_q = 0;
Int g_s1 = 0, g_s2 = 0;

struct Top {
    static constexpr auto name = "c06i_top";
    static void compose(Wiring &w) {
        auto A = wire<Src<0>>(w);
        auto B = wire<Src<1>>(w);
        auto d1 = wire<Scale>(w, g_p == 0 ? A : B, Int{g_s1});
        auto d2 = wire<Scale>(w, g_q == 0 ? A : B, Int{g_s2});
        wire<Rec<0>>(w, d1);
        wire<Rec<1>>(w, d2);
        wire<Count>(w, d1);
        wire<Count>(w, d1);
        auto g1 = wire<Gen, TS<Int>>(w, A).template as<TS<Int>>();
        auto g2 = wire<Gen, TS<Bool>>(w, A).template as<TS<Bool>>();
        auto g3 = wire<Gen, TS<Int>>(w, A).template as<TS<Int>>();
        wire<Rec<2>>(w, g1);
        wire<RecB>(w, g2);
        wire<Rec<3>>(w, g3);
    }
};
}  // namespace

extern "C" int harness_main() {
    g_p = verif_choice("p", 2);
    g_q = verif_choice("q", 2);
    g_s1 = verif_range("s1", 0, SMAX);
    g_s2 = verif_range("s2", 0, SMAX);
    std::int64_t s0 = verif_range("start", 0, 1000);
    std::int64_t win = verif_range("window", 1, WMAX);
    g_start = at_us(s0);
    g_end = g_start + TimeDelta{win};
    for (int sc = 0; sc < 2; sc++) {
        DateTime t = g_start;
        for (int j = 0; j < NX; j++) {
            t = t + TimeDelta{verif_range(sc == 0 ? "gapa" : "gapb", j == 0 ? 0 : 1, DMAX)};
            g_T[sc][j] = t;
            g_V[sc][j] = verif_range(sc == 0 ? "vala" : "valb", -1000, 1000);
        }
    }

    GraphBuilder gb = build_graph<Top>();
    const std::size_t nodes = gb.node_count();
    run_sim(std::move(gb), g_start, g_end, nullptr);

    verif_assert(!g_overflow, "C06.log_overflow");
    // ---- node sharing: exactly when definition, inputs and scalars are all equal
    // base: A, B, Rec0, Rec1, Count, Count, Gen<TS<Int>> (g1 == g3 shared), Gen<TS<Bool>>, Rec2, RecB, Rec3 = 11
    const bool same_input = g_p == g_q;
    Int expected_nodes = 11 + 2 - ((same_input & (g_s1 == g_s2)) ? 1 : 0);
    verif_assert(Int(nodes) == expected_nodes, "C06.shared_iff_same_definition_inputs_and_scalars");

    // ---- un-shared model of every stream
    bool ok_stream = true, ok_count = true;
    int ticks_d1 = 0;
    for (int r = 0; r < NREC; r++) {
        const int sc = r == 0 ? g_p : r == 1 ? g_q : 0;
        int k = 0;
        Int expected_n = 0;
        for (int j = 0; j < NX; j++) {
            expected_n += (g_T[sc][j] < g_end) ? 1 : 0;
            if (k < g_n[r]) {
                Int in = g_V[sc][j];
                Int want = r == 0 ? 1000 * in + g_s1 : r == 1 ? 1000 * in + g_s2 : r == 4 ? (in & 1) : in + 1;
                ok_stream &= (g_rec[r][k].t == g_T[sc][j]) & (g_rec[r][k].v == want);
                k++;
            }
        }
        ok_count &= (Int(g_n[r]) == expected_n);
        if (r == 0) ticks_d1 = g_n[r];
    }
    verif_assert(ok_count, "C06.no_output_tick_lost_or_added_by_sharing");
    verif_assert(ok_stream, "C06.outputs_equal_unshared_model");
    // ---- sinks never merge: both identical Count sinks ran on every tick of d1
    verif_assert(g_count == 2 * ticks_d1, "C06.identical_sinks_stay_distinct");

    if (nodes == 12) verif_reach("scale_nodes_shared");
    if (nodes == 13 && same_input) verif_reach("same_input_different_scalar_distinct");
    if (nodes == 13 && !same_input) verif_reach("different_input_distinct");
    if (ticks_d1 >= 1) verif_reach("sinks_ticked");
    if (g_n[4] >= 1 && g_n[2] >= 1) verif_reach("resolved_types_both_ticked");
    verif_log("nodes", (std::int64_t)nodes);
    verif_log("scale_evals", g_scale_evals);
    verif_reach("end");
    return 0;
}

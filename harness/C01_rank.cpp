// C01 (static half): what Wiring::finish (graph_wiring.cpp build_ranked_graph) compiles from a wiring program.
//   enumerated: the wiring program (hk_c01.h): NNODES statements over {source, 1-input, 2-input}, inputs chosen among
//               earlier ports, 2-input nodes direct or through a TSL structural source, plus one extra: feedback loop,
//               one or two add_rank_dependency requests between arbitrary statements (acyclic or cyclic), nested child
//               graph, REF pass-through, a push source declared last, a declared rank-free pair (input with
//               rank_dependency=false + rank dependency the other way round)
//   oracle    : acyclic program -> finish returns a builder in which every user node appears exactly once, every
//               compiled GraphEdge that is not declared rank-free has source index < target index, every data edge
//               of the program is present, every declared rank dependency is honoured, push sources form the prefix;
//               the same for the nested child builder;
//               cyclic program  -> compose/finish throws (no builder is produced).
#include "hk_c01.h"

using namespace c01;

namespace {
Prog P;
Built B;
GraphBuilder g_child;  // compiled child graph of the nested extra (copied out of the owning node builder)
bool g_have_child = false;

struct Top {
    static constexpr auto name = "c01_rank";
    static void compose(Wiring &w) {
        wire_base(w, P, B);
        wire_extra(w, P, B);
    }
};

// user id of a compiled node: the "id" scalar; -1 for runtime nodes without one
int id_of(const NodeBuilder &nb) {
    const Value &s = nb.scalars();
    if (!s.has_value()) return -1;
    auto bundle = s.view().try_as_bundle();
    if (!bundle.has_value() || !bundle->has_field("id")) return -1;
    return (int)bundle->at("id").checked_as<Int>();
}
bool name_is(const NodeBuilder &nb, const char *n) {
    const auto *schema = nb.type().schema();
    return schema != nullptr && schema->display_name != nullptr && std::string_view{schema->display_name} == n;
}

struct ChildGrab {
    static void visit(void *ctx, ChildGraphInspectionView child) {
        (void)ctx;
        if (child.graph == nullptr) return;
        g_child = *child.graph;
        g_have_child = true;
    }
};

// checks one compiled graph; index_of[id] receives the compiled index of the user nodes found in it
void check_graph(const GraphBuilder &gb, int depth, int index_of[MAXID], bool &ok_once, bool &ok_edges, bool &ok_prefix) {
    const auto &nodes = gb.nodes();
    int seen[MAXID] = {};
    bool past_prefix = false;
    for (std::size_t i = 0; i < nodes.size(); i++) {
        int id = id_of(nodes[i]);
        if (id >= 0 && id < MAXID) { seen[id]++; index_of[id] = (int)i; }
        const auto *schema = nodes[i].type().schema();
        bool push = schema != nullptr && schema->node_kind == NodeKind::PushSource;
        if (!push) past_prefix = true;
        if (push && past_prefix) ok_prefix = false;
    }
    for (int id = 0; id < P.nuser; id++) {
        int want = P.depth_of[id] == depth ? 1 : 0;
        if (seen[id] != want) ok_once = false;
    }
    for (const GraphEdge &e : gb.edges()) {
        std::size_t src = graph_edge_source_node(e.source_node);
        if (src >= nodes.size() || e.target_node >= nodes.size()) { ok_edges = false; continue; }
        bool declared_free = P.extra == X_RANKFREE && name_is(nodes[e.target_node], "c01_pair") && !e.target_path.empty() && e.target_path[0] == 1;
        if (!declared_free && !(src < e.target_node)) ok_edges = false;
    }
}

bool has_edge(const GraphBuilder &gb, int src, int dst) {
    for (const GraphEdge &e : gb.edges())
        if ((int)graph_edge_source_node(e.source_node) == src && (int)e.target_node == dst) return true;
    return false;
}
}  // namespace

extern "C" int harness_main() {
    choose_base(P);
    choose_extra(P, X_COUNT_ALL, false);
    verif_assume(P.extra != X_TRYEXC);  // the try_except child is exercised at run time (C01_eval)

    bool threw = false;
    GraphBuilder gb;
    try {
        gb = build_graph<Top>();
    } catch (const std::exception &) {
        threw = true;
    }

    if (P.cyclic) {
        verif_assert(threw, "C01.cyclic_wiring_not_rejected");
        verif_reach("cyclic_rejected");
        if (P.extra == X_RANKFREE) verif_reach("cyclic_rank_free_pair");
        verif_reach("end");
        return 0;
    }
    verif_assert(!threw, "C01.acyclic_wiring_rejected");
    if (threw) { verif_reach("end"); return 0; }

    bool ok_once = true, ok_edges = true, ok_prefix = true, ok_present = true, ok_rankdep = true, ok_count = true;
    int index_of[MAXID];
    for (int i = 0; i < MAXID; i++) index_of[i] = -1;
    check_graph(gb, 0, index_of, ok_once, ok_edges, ok_prefix);

    int root_users = 0;
    for (int id = 0; id < P.nuser; id++) root_users += P.depth_of[id] == 0 ? 1 : 0;
    ok_count &= (int)gb.nodes().size() == root_users + B.n_runtime_extra;

    // every data edge between two root user nodes is compiled (TSL sources become one edge per element)
    for (int i = 0; i < P.nuser; i++)
        for (int j = 0; j < P.nuser; j++)
            if (P.reads[i][j] && P.depth_of[i] == 0 && P.depth_of[j] == 0 && index_of[i] >= 0 && index_of[j] >= 0) {
                bool through_ref_only = P.extra == X_REF && i == P.n + 1 && j == P.xp;  // reached through R, not an edge of its own
                if (!through_ref_only) ok_present &= has_edge(gb, index_of[j], index_of[i]);
                ok_edges &= index_of[j] < index_of[i];
            }
    for (int r = 0; r < P.nrd; r++) ok_rankdep &= index_of[P.rd[r][1]] < index_of[P.rd[r][0]];

    if (P.extra == X_PUSH) {
        const auto *schema = gb.nodes().empty() ? nullptr : gb.nodes()[0].type().schema();
        ok_prefix &= schema != nullptr && schema->node_kind == NodeKind::PushSource;
        verif_reach("push_source_declared_last");
    }
    if (P.extra == X_RANKFREE) {
        int z = -1;
        for (std::size_t i = 0; i < gb.nodes().size(); i++) if (name_is(gb.nodes()[i], "c01_pair")) z = (int)i;
        ok_rankdep &= z >= 0 && index_of[P.xq] > z && index_of[P.xp] < z;  // the pair's second source was ranked after it, as requested
        ok_present &= z >= 0 && has_edge(gb, index_of[P.xq], z) && has_edge(gb, index_of[P.xp], z);
        verif_reach("rank_free_pair_compiled");
    }
    if (P.extra == X_NESTED) {
        int owner = -1;
        for (std::size_t i = 0; i < gb.nodes().size(); i++) if (name_is(gb.nodes()[i], "c01_nested")) owner = (int)i;
        ok_present &= owner >= 0;
        if (owner >= 0) {
            ok_present &= has_edge(gb, index_of[P.xp], owner) && has_edge(gb, index_of[P.xq], owner) && has_edge(gb, owner, index_of[P.n + 2]);
            gb.nodes()[owner].visit_child_graphs(nullptr, &ChildGrab::visit);
            ok_present &= g_have_child;
            if (g_have_child) {
                int cidx[MAXID];
                for (int i = 0; i < MAXID; i++) cidx[i] = -1;
                bool c_once = true, c_edges = true, c_prefix = true;
                check_graph(g_child, 1, cidx, c_once, c_edges, c_prefix);
                ok_once &= c_once;
                ok_edges &= c_edges && cidx[P.n] >= 0 && cidx[P.n + 1] >= 0 && cidx[P.n] < cidx[P.n + 1] && has_edge(g_child, cidx[P.n], cidx[P.n + 1]);
                ok_count &= g_child.nodes().size() == 2;
                verif_reach("nested_child_checked");
            }
        }
    }
    if (P.extra == X_FEEDBACK) {
        // the loop is broken by the feedback pair: the reader F follows the feedback source, the sink follows F
        int F = index_of[P.n];
        int fsrc = -1, fsink = -1;
        for (std::size_t i = 0; i < gb.nodes().size(); i++) {
            if (id_of(gb.nodes()[i]) >= 0) continue;
            const auto *schema = gb.nodes()[i].type().schema();
            if (schema != nullptr && !schema->has_input()) fsrc = (int)i; else fsink = (int)i;
        }
        ok_present &= fsrc >= 0 && fsink >= 0 && F >= 0 && has_edge(gb, fsrc, F) && has_edge(gb, F, fsink);
        verif_reach("feedback_compiled");
    }

    verif_assert(ok_once, "C01.node_missing_or_duplicated_in_compiled_graph");
    verif_assert(ok_count, "C01.compiled_node_count");
    verif_assert(ok_edges, "C01.edge_source_not_before_target");
    verif_assert(ok_present, "C01.data_edge_missing_from_compiled_graph");
    verif_assert(ok_rankdep, "C01.rank_dependency_not_honoured");
    verif_assert(ok_prefix, "C01.push_sources_not_a_prefix");

    bool reorders = false;
    for (int r = 0; r < P.nrd; r++) reorders |= P.rd[r][0] < P.rd[r][1];
    if (reorders) verif_reach("rank_dependency_reorders_statements");
    if (P.via_tsl) verif_reach("tsl_structural_source");
    if (reads_same_twice(P)) verif_reach("same_producer_read_twice");
    if (P.via_tsl && elements_two_levels_apart(P)) verif_reach("tsl_elements_two_levels_apart");
    if (P.extra == X_REF) verif_reach("ref_pass_through");
    verif_log("nodes", (std::int64_t)gb.nodes().size());
    verif_reach("end");
    return 0;
}

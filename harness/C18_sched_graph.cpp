// C18 (graph level): a scripted node executes a bounded symbolic list of NodeScheduler operations per
// evaluation inside a real graph (simulation executor), next to an input that ticks on its own and a
// second self-scheduling node.  A mirror model of the pending requests decides when the node must run.
//   symbolic : all requested deltas, the ticking source's period
//   enumerated: operation kind / tag per step
//   oracle   : no pending request is ever left in the past (woken at every pending time, at run end too);
//              every evaluation has a cause (input tick or a pending request due now);
//              an evaluation whose only cause is a request that was cancelled before it fell due is
//              reported under its own id (observation O1 in DESIGN.md section 8).
#include "hk.h"

#ifndef NEVALS
#define NEVALS 3
#endif
#ifndef OPS_PER_EVAL
#define OPS_PER_EVAL 2
#endif
#ifndef KMAX
#define KMAX 3
#endif
#ifndef OPS_LATER
#define OPS_LATER OPS_PER_EVAL   // scheduler actions in the second and later evaluations
#endif
#ifndef WIN
#define WIN 7
#endif

using namespace hk;

namespace {
constexpr int MAXU = NEVALS * OPS_PER_EVAL + 1;
struct Model {
    bool has[2] = {false, false};
    DateTime tag_t[2];
    int nu = 0;
    DateTime u[MAXU];
    bool any() const { return has[0] | has[1] | (nu > 0); }
    DateTime min_time() const {
        DateTime m = MAX_DT;
        for (int i = 0; i < 2; i++) m = (has[i] & (tag_t[i] < m)) ? tag_t[i] : m;
        for (int i = 0; i < nu; i++) m = (u[i] < m) ? u[i] : m;
        return m;
    }
    bool due(DateTime t) const {
        bool d = false;
        for (int i = 0; i < 2; i++) d |= has[i] & (tag_t[i] == t);
        for (int i = 0; i < nu; i++) d |= (u[i] == t);
        return d;
    }
    bool any_before(DateTime t) const {
        bool d = false;
        for (int i = 0; i < 2; i++) d |= has[i] & (tag_t[i] < t);
        for (int i = 0; i < nu; i++) d |= (u[i] < t);
        return d;
    }
    void add_untagged(DateTime t) {
        for (int i = 0; i < nu; i++) if (u[i] == t) return;
        if (nu < MAXU) u[nu++] = t;
    }
    void remove_untagged_at(int i) { u[i] = u[nu - 1]; nu--; }
    void remove_earliest() {
        if (!any()) return;
        DateTime m = min_time();
        for (int i = 0; i < nu; i++) if (u[i] == m) { remove_untagged_at(i); return; }
        if (has[0] && tag_t[0] == m) { has[0] = false; return; }
        has[1] = false;
    }
    void consume_due(DateTime now) {
        for (int i = 0; i < 2; i++) if (has[i] && tag_t[i] <= now) has[i] = false;
        for (int i = 0; i < nu;) { if (u[i] <= now) remove_untagged_at(i); else i++; }
    }
};
const char *TAGS[2] = {"a", "b"};

Model g_m;
DateTime g_cancelled[MAXU + 4];  // times that were requested and later cancelled while still in the future
int g_ncancel = 0;
DateTime g_tick_times[NEVALS + 2];
int g_nticks = 0;
int g_evals = 0;
bool ok_missed = true, ok_cause = true, ok_cause_strict = true, ok_queries = true;
std::int64_t g_period;

DateTime g_now;
// only a request that still lay in the future when it was cancelled counts as 'cancelled before it fell due'
void note_cancel(DateTime t) { if (t > g_now && g_ncancel < MAXU + 4) g_cancelled[g_ncancel++] = t; }

struct Tick {
    static constexpr auto name = "tick";
    static constexpr bool schedule_on_start = true;
    static void eval(NodeScheduler s, State<Int> n, DateTime now, Out<TS<Int>> out) {
        if (g_nticks < NEVALS + 2) g_tick_times[g_nticks++] = now;
        out.set(n.get());
        n.set(n.get() + 1);
        if (n.get() < 2) s.schedule(TimeDelta{g_period});
    }
};
struct Other {  // a second scheduling node: its wake-ups must not disturb the scripted node's
    static constexpr auto name = "other";
    static constexpr bool schedule_on_start = true;
    static void eval(NodeScheduler s, State<Int> n, Out<TS<Int>> out) {
        out.set(n.get());
        n.set(n.get() + 1);
        if (n.get() < 3) s.schedule(TimeDelta{2});
    }
};
struct Ops {
    static constexpr auto name = "ops";
    static void eval(In<"t", TS<Int>> t, NodeScheduler s, DateTime now, Out<TS<Int>> out) {
        g_evals++;
        bool ticked = t.modified();
        bool due = g_m.due(now);
        bool was_cancelled = false;
        for (int i = 0; i < g_ncancel; i++) was_cancelled |= (g_cancelled[i] == now);
        ok_missed &= !g_m.any_before(now);          // a pending request in the past was never honoured
        ok_cause &= ticked | due | was_cancelled;   // ran without any cause at all
        ok_cause_strict &= ticked | due;            // ran only because of a request cancelled earlier (O1)
        ok_queries &= (s.is_scheduled_now() == due);
        g_now = now;
        if (g_evals <= NEVALS) {
            for (int k = 0; k < (g_evals == 1 ? OPS_PER_EVAL : OPS_LATER); k++) {
                // one enumerated action: 0-2 schedule(delta, tag none/a/b); 3 un_schedule(); 4-5 un_schedule(a/b);
                // 6-7 pop_tag(a/b); 8 reset; 9 nothing
                int act = verif_choice("act", 10);
                int op = act <= 2 ? 0 : act <= 5 ? 1 : act <= 7 ? 2 : act == 8 ? 3 : 4;
                int tg = act <= 2 ? act : act <= 5 ? act - 3 : act <= 7 ? act - 5 : 0;
                std::optional<std::string> tag;
                if (tg) tag = TAGS[tg - 1];
                switch (op) {
                    case 0: {  // schedule(delta[, tag]) - past/now requests must be ignored
                        std::int64_t d = verif_range("d", -1, KMAX);
                        s.schedule(TimeDelta{d}, tag);
                        if (d > 0) {
                            DateTime when = now + TimeDelta{d};
                            if (tg) { if (g_m.has[tg - 1]) { note_cancel(g_m.tag_t[tg - 1]); verif_reach("tag_replaced"); } g_m.has[tg - 1] = true; g_m.tag_t[tg - 1] = when; }
                            else g_m.add_untagged(when);
                        } else verif_reach("ignored_past_or_now");
                        break;
                    }
                    case 1:  // un_schedule(tag) / un_schedule()
                        if (tg) { s.un_schedule(std::string{TAGS[tg - 1]}); if (g_m.has[tg - 1]) { note_cancel(g_m.tag_t[tg - 1]); verif_reach("cancel_tag"); } g_m.has[tg - 1] = false; }
                        else { s.un_schedule(); if (g_m.any()) { note_cancel(g_m.min_time()); verif_reach("cancel_earliest"); } g_m.remove_earliest(); }
                        break;
                    case 2: {  // pop_tag
                        int ti = tg ? tg - 1 : 0;
                        DateTime got = s.pop_tag(TAGS[ti]);
                        ok_queries &= (got == (g_m.has[ti] ? g_m.tag_t[ti] : MIN_DT));
                        if (g_m.has[ti]) note_cancel(g_m.tag_t[ti]);
                        g_m.has[ti] = false;
                        break;
                    }
                    case 3:  // reset
                        for (int i = 0; i < 2; i++) if (g_m.has[i]) note_cancel(g_m.tag_t[i]);
                        for (int i = 0; i < g_m.nu; i++) note_cancel(g_m.u[i]);
                        s.reset();
                        g_m = Model{};
                        break;
                    default: break;  // 4,5: nothing
                }
                ok_queries &= (s.is_scheduled() == g_m.any());
                ok_queries &= (s.next_scheduled_time() == (g_m.any() ? g_m.min_time() : MIN_DT));
            }
        }
        // the runtime consumes the events that fired this cycle after the evaluation (node.cpp evaluate_impl)
        g_m.consume_due(now);
        out.set(g_evals);
    }
};
struct Top {
    static constexpr auto name = "top";
    static void compose(Wiring &w) {
        auto t = wire<Tick>(w);
        wire<Other>(w);
        wire<Ops>(w, t);
    }
};
}  // namespace

extern "C" int harness_main() {
    g_period = verif_range("period", 1, KMAX);
    DateTime start = MIN_ST, end = MIN_ST + TimeDelta{WIN};
    run_sim(build_graph<Top>(), start, end);
    // requests still pending at the end of the run must lie at or beyond the end time
    ok_missed &= !g_m.any_before(end);
    verif_assert(ok_missed, "C18.woken_at_every_pending_time");
    verif_assert(ok_cause, "C18.no_evaluation_without_cause");
    verif_assert(ok_cause_strict, "C18.no_wake_at_cancelled_time");
    verif_assert(ok_queries, "C18.queries_agree_in_graph");
    if (g_evals >= 3) verif_reach("three_evals");
    verif_log("evals", g_evals);
    verif_reach("end");
    return 0;
}

// C10: map_ runs one isolated instance per key and mirrors the key set.
//   real wire_map -> compile_map_child -> map_node (map_node.cpp, mapped_child_bindings.h,
//   mapped_key_source.h) over a scripted TSD<Int,TS<Int>> source, the mapped function being a
//   hand-made WiredFn over a static node from the vocabulary below.
//   enumerated: the mapped function FUNC, the key history (per cycle and key: none / set / remove /
//               remove+re-add / [phantom add] / [add+remove]; BULK further keys acted on as a group),
//               the cycles in which the broadcast argument ticks
//   symbolic  : every element value and broadcast value (full int64)
//   model     : one independent instance per key of the source key set, created fresh when the key
//               appears, destroyed when it disappears
//   oracle    : after every engine cycle (clock-driven checker ranked below the map node), for every key:
//                 output has the key  ==> the source has the key;  instance produced a value ==> output has the key
//                 element valid       <=> the model instance has produced a value
//                 element value       ==  the model instance's last value
//                 element ticked      <=> the model instance wrote in this cycle
//               no other VALID elements in the output; a consumer activated by the map output ran in every
//               cycle in which an element ticked or a valid element disappeared.
//               Keys that entered the source key set without a valid element while the map was already primed are
//               checked under the single id C10.late_valid_key_gets_instance (finding M1, notes/C10.md).
#include "hk_ho.h"

// One binary covers several configurations {NKEYS, BULK, NCYC, EXTRA_OPS, FMASK} (enumerated first, so shards split on them):
//   NKEYS individually scripted keys; BULK further keys acted on as one group; NCYC cycles in which the source acts;
//   EXTRA_OPS 1: an absent key may also be created without a value (phantom) or be added and removed within one cycle;
//   FMASK bit set of the mapped functions explored: bit 0 inc, 1 running sum, 2 key-consuming, 3 self-scheduling,
//         4 broadcast argument, 5 late (silent first tick), 6 sampler (timer armed in the node's start hook, PASSIVE element input)
//   PRE (optional 6th field): PRE further keys are all added in cycle 0 (no choice) and all updated again in the last source
//         cycle, so with PRE = 8 / 16 the scripted keys are the 9th.. / 17th.. simultaneously held keys and arrive (also) AFTER the
//         map's first evaluation: the key-slot store grows 8 -> 16 -> 32 under a running map; the old keys tick after the growth
#ifndef CONFIGS
#define CONFIGS {3, 0, 3, 0, 10}, {2, 0, 3, 0, 127}, {1, 4, 3, 0, 127}, {2, 0, 3, 1, 99}
#endif

using namespace hk;

namespace {
using U = std::uint64_t;
struct Cfg { int nkeys, bulk, ncyc, extra, fmask, pre; };   // pre: optional 6th field, 0 when omitted
constexpr Cfg CFGS[] = {CONFIGS};
constexpr int NCFG = sizeof(CFGS) / sizeof(CFGS[0]);
constexpr int MAXK = 32;
Cfg G{};
int NKEYS = 0, BULK = 0, NB = 0, PRE = 0, NK = 0, NCYC = 0;   // keys: [0,NKEYS) scripted, [NKEYS,NB) bulk, [NB,NK) preloaded
using Dict = TSD<Int, TS<Int>>;
enum { A_NONE = 0, A_SET, A_REMOVE, A_READD, A_PHANTOM, A_ADDREMOVE };

int g_func = 0;
// ---- script of the current cycle (filled by the source, consumed by the checker) ----
int g_act[MAXK];
Int g_v[MAXK];
bool g_btick = false;
Int g_bv = 0;
// ---- source-side bookkeeping ----
bool s_present[MAXK];   // key in the source key set (with or without value)
// ---- model of the per-key instances ----
struct Inst {
    bool exists = false;
    bool x_valid = false;
    Int x = 0;
    Int sum = 0;
    Int cnt = 0;
    Int pending = -1;   // cycle of the pending self-scheduled wake-up
    bool armed = false; // sampler: the start hook has run
    Int wakes = 0;
    bool out_valid = false;
    Int out = 0;
};
Inst m_inst[MAXK];
bool m_b_valid = false;
Int m_b = 0;
// ---- observations ----
Int g_obs_cycle = -1;
int g_obs_runs = 0;
int g_checks = 0;
bool ok_keys = true, ok_valid = true, ok_value = true, ok_ticks = true, ok_foreign = true, ok_notified = true;
bool r_removed = false, r_readd = false, r_fresh = false, r_phantom = false, r_three = false, r_five = false, r_wake = false,
     r_wake_dropped = false, r_bcast = false, r_silent = false, r_slot_reuse = false, r_stale_invalid = false, r_start_timer = false;
bool ever_removed = false;
// slot-store growth under a running map
int prev_n_exist = 0;
bool m_grown[MAXK], was_grown[MAXK];
bool r_grow9 = false, r_grow17 = false, r_grown_tick = false, r_grown_readd = false, r_old_tick_after_growth = false, r_grown_removed = false;
bool had_state[MAXK];
bool m_late[MAXK];        // key is in the late-valid situation (finding M1)
bool g_src_ticked = false; // the source dictionary ticked in an earlier cycle: the map is primed
bool ok_late = true, r_late_valid = false;

inline Int cyc(DateTime now) { return (now - MIN_ST).count(); }

// ---- the mapped functions ----
struct FInc {
    static constexpr auto name = "f_inc";
    static void eval(In<"x", TS<Int>> x, Out<TS<Int>> out) { out.set((Int)((U)x.value() + 1)); }
};
struct FSum {
    static constexpr auto name = "f_sum";
    static void eval(In<"x", TS<Int>> x, State<Int> s, Out<TS<Int>> out) {
        Int n = (Int)((U)s.get() + (U)x.value());
        s.set(n);
        out.set(n);
    }
};
struct FKeyed {
    static constexpr auto name = "f_keyed";
    static void eval(In<"key", TS<Int>> key, In<"x", TS<Int>> x, Out<TS<Int>> out) {
        out.set((Int)((U)key.value() * 1000 + (U)x.value()));
    }
};
struct FSched {
    static constexpr auto name = "f_sched";
    static void eval(In<"x", TS<Int>> x, State<Int> wakes, NodeScheduler s, Out<TS<Int>> out) {
        if (x.modified()) {
            s.schedule(MIN_TD);
        } else {
            wakes.set(wakes.get() + 1);
        }
        out.set((Int)((U)x.value() + 100 * (U)wakes.get()));
    }
};
struct FBcast {
    static constexpr auto name = "f_bcast";
    static void eval(In<"x", TS<Int>> x, In<"b", TS<Int>> b, Out<TS<Int>> out) { out.set((Int)((U)x.value() + (U)b.value())); }
};
struct FLate {
    static constexpr auto name = "f_late";
    static void eval(In<"x", TS<Int>> x, State<Int> cnt, Out<TS<Int>> out) {
        cnt.set(cnt.get() + 1);
        if (cnt.get() >= 2) out.set((Int)((U)x.value() + 7));
    }
};

// Per-key sampler: its only element input is PASSIVE, its timer is armed in the start hook, so the child is NOT due in
// the cycle its key appears; the map must pick the child's future deadline up although it did not evaluate the child.
// Samples twice (one and two cycles after creation): x + 1000 * n.
struct FSampler {
    static constexpr auto name = "f_sampler";
    static void start(NodeScheduler s) { s.schedule(MIN_TD); }
    static void eval(In<"x", TS<Int>, InputActivity::Passive> x, State<Int> n, NodeScheduler s, Out<TS<Int>> out) {
        n.set(n.get() + 1);
        if (n.get() < 2) s.schedule(MIN_TD);
        out.set((Int)((U)x.value() + 1000 * (U)n.get()));
    }
};

// ---- scripted sources ----
struct DictSrc {
    static constexpr auto name = "dict_src";
    static constexpr bool schedule_on_start = true;
    using OutT = Out<Dict>;
    static void do_set(int k, const OutT &out) {
        Int v = verif_i64("val");
        out[Int{k}].set(v);
        g_v[k] = v;
        s_present[k] = true;
    }
    static void apply_key(int k, const OutT &out) {
        bool present = s_present[k];
        int nopt = present ? 4 : (G.extra ? 4 : 2);
        int a = verif_choice("act", nopt);
        if (a == 0) return;
        if (!present) {
            if (a == 1) { do_set(k, out); g_act[k] = A_SET; }
            else if (a == 2) { (void)out[Int{k}]; s_present[k] = true; g_act[k] = A_PHANTOM; }
            else { Int v = verif_i64("val"); out[Int{k}].set(v); (void)out.erase(Int{k}); g_act[k] = A_ADDREMOVE; }
            return;
        }
        if (a == 1) { do_set(k, out); g_act[k] = A_SET; }
        else if (a == 2) { (void)out.erase(Int{k}); s_present[k] = false; g_act[k] = A_REMOVE; }
        else { (void)out.erase(Int{k}); do_set(k, out); g_act[k] = A_READD; }
    }
    static void apply_bulk(const OutT &out) {
        if (BULK == 0) return;
        bool present = s_present[NKEYS];
        int a = verif_choice("bulk", present ? 3 : 2);
        if (a == 1) for (int k = NKEYS; k < NB; k++) { do_set(k, out); g_act[k] = A_SET; }
        if (a == 2) for (int k = NB - 1; k >= NKEYS; k--) { (void)out.erase(Int{k}); s_present[k] = false; g_act[k] = A_REMOVE; }
    }
    static void eval(NodeScheduler s, State<Int> n, OutT out) {
        Int c = n.get();
        for (int k = 0; k < NKEYS; k++) apply_key(k, out);
        apply_bulk(out);
        if (PRE > 0 && (c == 0 || c == NCYC - 1)) for (int k = NB; k < NK; k++) { do_set(k, out); g_act[k] = A_SET; }
        n.set(c + 1);
        if (c + 1 < NCYC) s.schedule(MIN_TD);
    }
};
struct BSrc {
    static constexpr auto name = "b_src";
    static constexpr bool schedule_on_start = true;
    static void eval(NodeScheduler s, State<Int> n, Out<TS<Int>> out) {
        Int c = n.get();
        if (g_func == 4 && verif_choice("btick", 2) == 1) {
            Int b = verif_i64("bval");
            out.set(b);
            g_btick = true; g_bv = b;
        }
        n.set(c + 1);
        if (c + 1 < NCYC) s.schedule(MIN_TD);
    }
};
struct Clock {
    static constexpr auto name = "clock";
    static constexpr bool schedule_on_start = true;
    static void eval(NodeScheduler s, State<Int> n, Out<TS<Int>> out) {
        Int c = n.get();
        out.set(c);
        n.set(c + 1);
        if (c < NCYC) s.schedule(MIN_TD);   // one cycle more than the sources: pending wake-ups
    }
};
// activated only by the map output
struct Obs {
    static constexpr auto name = "obs";
    static void eval(In<"m", Dict> m, DateTime now, Out<TS<Int>> out) {
        (void)m;
        g_obs_cycle = cyc(now);
        g_obs_runs++;
        out.set(Int{g_obs_runs});
    }
};

// model transition of one instance for one cycle; returns whether the instance wrote its output
bool step_instance(int k, Int c) {
    Inst &i = m_inst[k];
    int a = g_act[k];
    if (a == A_REMOVE) {
        if (i.pending >= c) r_wake_dropped = true;
        if (i.cnt > 0) had_state[k] = true;
        i = Inst{};
        r_removed = true; ever_removed = true;
        return false;
    }
    if (a == A_ADDREMOVE) return false;
    bool tick = false;
    if (a == A_READD) {
        // erase + set of a live key within ONE cycle is netted by the source dictionary (no key-set delta, see
        // docs .../plans_and_ops/time_series.rst "structural collection changes are netted"): the map sees a plain
        // update of a key that never left, so the instance continues.
        r_readd = true;
        tick = true;
    }
    if (a == A_PHANTOM) {
        i = Inst{}; i.exists = true; r_phantom = true;
        // A valueless key is published to the key-set delta only when its element validates.  A map that is already primed
        // therefore starts the instance in that later cycle (m_late), an unprimed one starts it now (rebuild over all live slots).
        if (g_func == 6 && !m_late[k]) { i.pending = c + 1; i.armed = true; }
        return false;
    }
    if (a == A_SET) {
        if (!i.exists) {
            if (ever_removed) r_slot_reuse = true;
            if (had_state[k]) r_fresh = true;
            i = Inst{}; i.exists = true;
            if (g_func == 6) { i.pending = c + 1; i.armed = true; }   // timer armed in the start hook
        }
        tick = true;
    }
    if (!i.exists) return false;
    if (tick && g_func == 6 && !i.armed) { i.pending = c + 1; i.armed = true; }   // late-valid key: instance starts at publication
    if (tick) { i.x = g_v[k]; i.x_valid = true; }
    bool wake = (i.pending == c);
    if (wake) i.pending = -1;
    switch (g_func) {
        case 0:
            if (!tick) return false;
            i.out = (Int)((U)i.x + 1); i.out_valid = true; i.cnt++;
            return true;
        case 1:
            if (!tick) return false;
            i.sum = (Int)((U)i.sum + (U)i.x); i.out = i.sum; i.out_valid = true; i.cnt++;
            return true;
        case 2:
            if (!tick) return false;
            i.out = (Int)((U)k * 1000 + (U)i.x); i.out_valid = true; i.cnt++;
            return true;
        case 3:
            if (!tick && !wake) return false;
            if (tick) { i.pending = c + 1; }
            else { i.wakes++; r_wake = true; }
            i.out = (Int)((U)i.x + 100 * (U)i.wakes); i.out_valid = true; i.cnt++;
            return true;
        case 4:
            if (!(tick || g_btick) || !i.x_valid || !m_b_valid) return false;
            i.out = (Int)((U)i.x + (U)m_b); i.out_valid = true; i.cnt++;
            if (g_btick && !tick) r_bcast = true;
            return true;
        case 5:
            if (!tick) return false;
            i.cnt++;
            if (i.cnt < 2) { r_silent = true; return false; }
            i.out = (Int)((U)i.x + 7); i.out_valid = true;
            return true;
        default:   // 6 sampler: ticks of x are passive; only the timer evaluates the node, and only with a valid x
            if (!wake || !i.x_valid) return false;
            i.cnt++;
            if (i.cnt == 1) r_start_timer = true;
            if (i.cnt < 2) i.pending = c + 1;
            i.out = (Int)((U)i.x + 1000 * (U)i.cnt); i.out_valid = true;
            return true;
    }
}

// evaluated every cycle (clock), ranked below the map node and the Obs consumer
struct Checker {
    static constexpr auto name = "checker";
    static void eval(In<"clk", TS<Int>> clk, In<"m", Dict, InputValidity::Unchecked, InputActivity::Passive> m,
                     In<"dep", TS<Int>, InputValidity::Unchecked, InputActivity::Passive> dep, DateTime now) {
        (void)clk; (void)dep;
        Int c = cyc(now);
        g_checks++;
        if (g_btick) { m_b = g_bv; m_b_valid = true; }
        int n_exist = 0, n_valid = 0, n_late_valid_out = 0;
        bool any_event = false, any_action = false;
        const bool bound = m.valid() || m.bound();
        for (int k = 0; k < NK; k++) {
            any_action |= (g_act[k] != A_NONE);
            // "late-valid key" situation (finding M1, notes/C10.md): the key enters the source key set WITHOUT a valid
            // element while the map is already primed (the source dictionary has ticked in an earlier cycle); it stays
            // in that situation until the key is removed.  Every check for such a key goes to one dedicated assert id.
            if (g_act[k] == A_PHANTOM) m_late[k] = g_src_ticked;
            if (g_act[k] == A_REMOVE) m_late[k] = false;
            const bool late = m_late[k];
            bool removed_now = (g_act[k] == A_REMOVE) && m_inst[k].out_valid;   // a valid element disappears
            const int act = g_act[k];
            const bool was = m_inst[k].exists;
            bool wrote = step_instance(k, c);
            const Inst &i = m_inst[k];
            if (g_src_ticked && prev_n_exist >= 8 && !was && i.exists) {   // instance created while >= 8 keys were held, map already primed
                if (was_grown[k]) r_grown_readd = true;
                m_grown[k] = true;
            }
            if (m_grown[k] && was && act == A_SET && wrote) r_grown_tick = true;
            if (m_grown[k] && was && !i.exists) { m_grown[k] = false; was_grown[k] = true; r_grown_removed = true; }
            if (k >= NB && was && wrote && prev_n_exist > 8) r_old_tick_after_growth = true;
            bool has = bound && m.contains(Int{k});   // concrete: shape only
            bool v = false;
            if (late) {
                // what the statement demands: once the source element is valid, the key has an instance whose output
                // is the isolated function's
                if (i.out_valid) r_late_valid = true;
                if (has) {
                    auto e = m.at(Int{k});
                    v = e.valid();
                    if (v && i.out_valid) ok_late &= (e.value() == i.out);
                }
                ok_late &= (v == i.out_valid);
                if (v) n_late_valid_out++;
                continue;
            }
            any_event |= wrote | removed_now;
            if (i.exists) n_exist++;
            if (i.out_valid) n_valid++;
            if (has) {
                auto e = m.at(Int{k});
                v = e.valid();
                if (v && i.out_valid) ok_value &= (e.value() == i.out);
                ok_ticks &= (e.modified() == wrote);
            }
            // The statement restricts the mirrored key set to children whose output is valid: an element that is present
            // but invalid is left open (observed on the unchanged tree: see notes/C10.md, "stale invalid element").
            ok_keys &= (!v || i.exists) && (!i.out_valid || has);
            ok_valid &= (v == i.out_valid);
            if (has && !i.exists) r_stale_invalid = true;
        }
        int vsz = 0;
        if (bound) for (auto key : m.valid_keys()) { (void)key; vsz++; }
        ok_foreign &= (vsz - n_late_valid_out == n_valid);
        if (any_event) ok_notified &= (g_obs_cycle == c);
        if (n_valid >= 3) r_three = true;
        if (n_valid >= 5) r_five = true;
        if (g_src_ticked && prev_n_exist <= 8 && n_exist > 8) r_grow9 = true;
        if (g_src_ticked && prev_n_exist <= 16 && n_exist > 16) r_grow17 = true;
        prev_n_exist = n_exist;
        if (any_action) g_src_ticked = true;
        for (int k = 0; k < NK; k++) g_act[k] = A_NONE;
        g_btick = false;
    }
};

template <class F, std::size_t ARITY> WiringPortRef map_over(Wiring &w, std::vector<WiringPortRef> args) {
    return ho::wire_map(w, Scalar<"func", WiredFn>{FnN<F, ARITY>::make()}, "", std::move(args), std::nullopt, true);
}

struct Top {
    static constexpr auto name = "top";
    static void compose(Wiring &w) {
        auto d = wire<DictSrc>(w);
        auto b = wire<BSrc>(w);
        auto clk = wire<Clock>(w);
        WiringPortRef m;
        switch (g_func) {
            case 0: m = map_over<FInc, 1>(w, {d.erased()}); break;
            case 1: m = map_over<FSum, 1>(w, {d.erased()}); break;
            case 2: m = map_over<FKeyed, 2>(w, {d.erased()}); break;   // arity = args + 1: the key is the leading parameter
            case 3: m = map_over<FSched, 1>(w, {d.erased()}); break;
            case 4: m = map_over<FBcast, 2>(w, {d.erased(), b.erased()}); break;
            case 5: m = map_over<FLate, 1>(w, {d.erased()}); break;
            default: m = map_over<FSampler, 1>(w, {d.erased()}); break;
        }
        Port<Dict> mp{w, m};
        auto o = wire<Obs>(w, mp);
        wire<Checker>(w, clk, mp, o);
    }
};
}  // namespace

extern "C" int harness_main() {
    register_ho_scalars();
    G = CFGS[NCFG > 1 ? verif_choice("cfg", NCFG) : 0];
    NKEYS = G.nkeys; BULK = G.bulk; NB = NKEYS + BULK; PRE = G.pre; NK = NB + PRE; NCYC = G.ncyc;
    if (NK > MAXK) { verif_fail("C10.harness_configuration"); return 0; }
    {
        int funcs[7], nf = 0;
        for (int f = 0; f < 7; f++) if (G.fmask & (1 << f)) funcs[nf++] = f;
        if (nf == 0) { verif_fail("C10.harness_configuration"); return 0; }
        g_func = funcs[nf > 1 ? verif_choice("func", nf) : 0];
    }
    run_sim(build_graph<Top>(), MIN_ST, MIN_ST + TimeDelta{NCYC + 3});

    verif_assert(g_checks == NCYC + 1, "C10.checker_ran_every_cycle");
    verif_assert(ok_keys, "C10.output_keys_mirror_source_keys");
    verif_assert(ok_foreign, "C10.no_foreign_output_keys");
    verif_assert(ok_valid, "C10.element_valid_iff_instance_produced");
    verif_assert(ok_value, "C10.element_value_equals_isolated_instance");
    verif_assert(ok_ticks, "C10.element_ticks_iff_instance_wrote");
    verif_assert(ok_notified, "C10.consumer_notified");
    verif_assert(ok_late, "C10.late_valid_key_gets_instance");
    if (r_removed) verif_reach("key_removed");
    if (r_readd) verif_reach("key_removed_and_readded_same_cycle");
    if (r_fresh) verif_reach("key_with_state_removed_and_added_later");
    if (r_slot_reuse) verif_reach("key_added_after_a_removal");
    if (r_phantom) verif_reach("phantom_key");
    if (r_three) verif_reach("three_valid");
    if (r_five) verif_reach("five_valid");
    if (r_wake) verif_reach("self_scheduled_wakeup");
    if (r_wake_dropped) verif_reach("removed_with_pending_wakeup");
    if (r_bcast) verif_reach("broadcast_tick_alone");
    if (r_silent) verif_reach("live_key_without_valid_output");
    if (r_late_valid) verif_reach("late_valid_key_after_map_primed");
    if (r_start_timer) verif_reach("child_timer_armed_in_start_not_due_at_creation");
    if (r_grow9) verif_reach("ninth_key_added_after_first_evaluation");
    if (r_grow17) verif_reach("seventeenth_key_added_after_first_evaluation");
    if (r_grown_tick) verif_reach("key_added_after_growth_ticks_in_later_cycle");
    if (r_grown_removed) verif_reach("key_added_after_growth_removed");
    if (r_grown_readd) verif_reach("key_added_after_growth_removed_and_added_again");
    if (r_old_tick_after_growth) verif_reach("old_keys_tick_after_growth");
    if (r_stale_invalid) verif_reach("observed_stale_invalid_element_for_absent_key");
    verif_log("obs_runs", g_obs_runs);
    verif_reach("end");
    return 0;
}

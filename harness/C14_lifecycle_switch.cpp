// C14 (switch_ branches): every started node of every switch_ branch graph is stopped exactly once, whatever fails.
//   Root graph:  valsrc, keysrc(R0) -> switch_( key 0 / key 1: branch graph kidA -> kidB )  -> sink(R1)
//   (real wire_switch -> compile_switch_branch -> switch_node: activate_branch / switch_teardown / switch_node_stop)
//   keysrc is a scripted TS<Int> key source: per cycle {no tick, key 0, key 1}; a key change (or, with reload_on_ticked,
//   any key tick) retires the running branch graph and starts a new one while the run goes on.  valsrc ticks a symbolic
//   payload every cycle, so the live branch evaluates every cycle.
//   Each start of a branch graph is one INSTANCE (numbered in creation order); its two nodes have start/eval/stop hooks.
//   enumerated: key tick per cycle, reload_on_ticked, fault descriptors (instance or root node, node A/B, phase), cleanup_on_error
//   symbolic  : the occurrence (evaluation count) of an evaluate fault, payload values
//   oracle    : per instance node: started => exactly one stop (by run() return when clean-up is on, by executor release
//               otherwise); not started => no stop; no evaluation before start / after stop; inside an instance start A,B
//               and stop B,A; the root sink stops before, the root source after, the branch stop of
//               the shutdown; the first exception reaches the
//               caller, with its text and naming the switch node.
#include "hk.h"

#include <hgraph/lib/std/operators/impl/higher_order_impl.h>

#include <string>

#ifndef NCYC
#define NCYC 3
#endif
#ifndef NFAULT
#define NFAULT 1
#endif

using namespace hk;
namespace ho = hgraph::stdlib::higher_order_impl_detail;

namespace {
constexpr int MAXINST = NCYC;              // at most one activation per cycle
constexpr int NROOT = 2;                   // R0 keysrc, R1 sink
constexpr int NN = 2 * MAXINST + NROOT;    // scripted node slots: inst*2+{0,1}, then roots
constexpr int R0 = 2 * MAXINST, R1 = 2 * MAXINST + 1;
enum Phase : int { PH_START = 0, PH_EVAL = 1, PH_STOP = 2 };
const char *const PHASE_WORD[3] = {"start", "evaluate", "stop"};

struct Fault { int node; int phase; std::int64_t occ; };   // node == NN: none
Fault g_fault[NFAULT];

enum SeqKind : int { SQ_START_BEGIN = 1, SQ_START_DONE, SQ_EVAL, SQ_STOP, SQ_RUN_RETURN, SQ_RELEASED };
struct Seq { int kind; int node; bool in_root_eval; };
constexpr int SEQCAP = 16 + NN * (4 + NCYC);
Seq g_seq[SEQCAP];
int g_nseq = 0;
bool g_seq_overflow = false;
bool g_in_root_eval = false;                // set by the observer while a root node (i.e. the switch node, for branch events) evaluates
void seq(int kind, int node) { if (g_nseq < SEQCAP) g_seq[g_nseq++] = Seq{kind, node, g_in_root_eval}; else g_seq_overflow = true; }

std::int64_t g_count[NN][3];
int g_first_node = -1, g_first_phase = -1, g_throws = 0;
bool g_first_in_root_eval = false;
int g_next_inst = 0;
bool g_inst_overflow = false;
int g_op[NCYC];                            // 0 no key tick, 1 key 0, 2 key 1
bool g_reload = false;
std::int64_t g_val[NCYC];
std::int64_t g_stops_at_return[NN];

void hook(int id, int phase) {
    std::int64_t k = g_count[id][phase]++;
    seq(phase == PH_START ? SQ_START_BEGIN : phase == PH_EVAL ? SQ_EVAL : SQ_STOP, id);
    for (int f = 0; f < NFAULT; f++) {
        if (g_fault[f].node == id && g_fault[f].phase == phase && g_fault[f].occ == k) {
            if (g_throws++ == 0) { g_first_node = id; g_first_phase = phase; g_first_in_root_eval = g_in_root_eval; }
            throw std::runtime_error(std::string("boom_") + char('a' + id) + "_" + PHASE_WORD[phase]);
        }
    }
    if (phase == PH_START) seq(SQ_START_DONE, id);
}

struct ValSrc {
    static constexpr auto name = "valsrc";
    static constexpr bool schedule_on_start = true;
    static void eval(NodeScheduler s, State<Int> n, Out<TS<Int>> out) {
        Int c = n.get();
        n.set(c + 1);
        if (c + 1 < NCYC) s.schedule(MIN_TD);
        out.set(g_val[c]);
    }
};
struct KeySrc {
    static constexpr auto name = "keysrc";
    static constexpr bool schedule_on_start = true;
    static void start() { hook(R0, PH_START); }
    static void stop() { hook(R0, PH_STOP); }
    static void eval(NodeScheduler s, State<Int> n, Out<TS<Int>> out) {
        Int c = n.get();
        n.set(c + 1);
        if (c + 1 < NCYC) s.schedule(MIN_TD);
        hook(R0, PH_EVAL);
        int op = g_op[c];
        if (op == 1) out.set(Int{0});
        if (op == 2) out.set(Int{1});
    }
};
// Child nodes.  The instance number is taken at kidA's start and kept in the node State of both nodes.
struct KidA {
    static constexpr auto name = "kidA";
    static void start(State<Int> inst) {
        int i = g_next_inst < MAXINST ? g_next_inst : MAXINST - 1;
        if (g_next_inst >= MAXINST) g_inst_overflow = true;
        g_next_inst++;
        inst.set(Int{i});
        hook(2 * i, PH_START);
    }
    static void stop(State<Int> inst) { hook(2 * (int)inst.get(), PH_STOP); }
    static void eval(In<"a", TS<Int>> a, Out<TS<Int>> out, State<Int> inst) {
        hook(2 * (int)inst.get(), PH_EVAL);
        out.set(a.value() + 1);
    }
};
struct KidB {
    static constexpr auto name = "kidB";
    static void start(State<Int> inst) {
        int i = g_next_inst - 1 < MAXINST ? g_next_inst - 1 : MAXINST - 1;   // kidA of the same child graph started just before
        inst.set(Int{i});
        hook(2 * i + 1, PH_START);
    }
    static void stop(State<Int> inst) { hook(2 * (int)inst.get() + 1, PH_STOP); }
    static void eval(In<"a", TS<Int>> a, Out<TS<Int>> out, State<Int> inst) {
        hook(2 * (int)inst.get() + 1, PH_EVAL);
        out.set(a.value() + 1);
    }
};
struct Sink {
    static constexpr auto name = "sink";
    static void start() { hook(R1, PH_START); }
    static void stop() { hook(R1, PH_STOP); }
    static void eval(In<"a", TS<Int>> a, State<Int> acc) {
        hook(R1, PH_EVAL);
        acc.set(acc.get() + 1);
    }
};

struct KidFn {   // WiredFn for the child graph  x -> kidA -> kidB
    static CompiledSubGraph compile(const void *, Wiring *parent, std::span<const TSValueTypeMetaData *const> s) {
        Wiring cw = parent ? parent->child_wiring() : Wiring{WiringKind::SubGraph};
        Port<TS<Int>> x{cw, WiringPortRef::boundary_source(0, {}, s[0])};
        auto a = wire<KidA>(cw, x);
        auto b = wire<KidB>(cw, a);
        return std::move(cw).finish_subgraph(b.erased(), {s[0]});
    }
    static WiringPortRef wire_(const void *, Wiring &w, std::span<const WiringPortRef> a) {
        return wire<KidB>(w, wire<KidA>(w, Port<TS<Int>>{w, a[0]})).erased();
    }
    static const TSValueTypeMetaData *out(const void *) { return schema_descriptor<TS<Int>>::ts_meta(); }
    static WiredFn make() {
        static WiredFnOps ops{.wire = &wire_, .compile = &compile, .output_schema = &out};
        WiredFn f; f.ops = &ops; f.arity = 1; f.has_output = true; f.identity = &typeid(KidFn);
        return f;
    }
};

template <bool RELOAD> struct Top {
    static constexpr auto name = "top";
    static void compose(Wiring &w) {
        auto v = wire<ValSrc>(w);
        auto k = wire<KeySrc>(w);
        stdlib::SwitchCases cases;
        cases.cases.push_back(stdlib::SwitchCase{Value{Int{0}}, KidFn::make()});
        cases.cases.push_back(stdlib::SwitchCase{Value{Int{1}}, KidFn::make()});
        cases.reload_on_ticked = RELOAD;
        WiringPortRef m = ho::wire_switch(w, k.erased(), cases, {v.erased()}, {}, true);
        wire<Sink>(w, Port<TS<Int>>{w, m});
    }
};

constexpr int LOGCAP = 64 + 32 * NCYC;
EventLog<LOGCAP> g_log;
struct Obs : RecordingObserver<LOGCAP> {
    using RecordingObserver<LOGCAP>::RecordingObserver;
    void on_before_node_evaluation(const NodeView &n) override {
        RecordingObserver<LOGCAP>::on_before_node_evaluation(n);
        if (n.graph().is_root()) g_in_root_eval = true;
    }
    void on_after_node_evaluation(const NodeView &n) override {
        RecordingObserver<LOGCAP>::on_after_node_evaluation(n);
        if (n.graph().is_root()) g_in_root_eval = false;
    }
};
}  // namespace

extern "C" int harness_main() {
    auto &reg = TypeRegistry::instance();
    reg.register_scalar<WiredFn>("fn");
    reg.register_scalar<stdlib::SwitchCases>("switch_cases");
    GraphBuilder gb0 = build_graph<Top<false>>();
    GraphBuilder gb1 = build_graph<Top<true>>();
    // ---- key script
    g_reload = verif_bool("reload_on_ticked");
    int creations = 0, cur = -1;
    for (int c = 0; c < NCYC; c++) {
        int op = c == 0 ? 1 + verif_choice("op", 2) : verif_choice("op", 3);
        if (op != 0 && (g_reload || cur != op)) { cur = op; creations++; }
        g_op[c] = op;
        g_val[c] = verif_range("val", 0, 1000);
    }
    GraphBuilder gb = g_reload ? std::move(gb1) : std::move(gb0);
    // ---- faults: a node of an instance that will exist, or a root node
    for (int f = 0; f < NFAULT; f++) {
        int sel = verif_choice("fault_node", 2 * creations + NROOT + 1);   // last: none
        int node = sel < 2 * creations ? sel : sel - 2 * creations + R0;   // roots, then NN (= R1 + 1) for none
        int phase = node == NN ? 0 : verif_choice("fault_phase", 3);
        std::int64_t occ = 0;
        if (node != NN && phase == PH_EVAL) occ = verif_range("fault_occ", 0, NCYC - 1);
        g_fault[f] = Fault{node, phase, occ};
        if (f > 0) verif_assume(g_fault[f - 1].node * 3 + g_fault[f - 1].phase <= node * 3 + phase);
    }
    bool cleanup = verif_bool("cleanup_on_error");

    Obs obs{&g_log};
    bool threw = false;
    std::string msg;
    {
        GraphExecutorBuilder eb;
        eb.graph_builder(std::move(gb)).start_time(MIN_ST).end_time(MIN_ST + TimeDelta{1000}).cleanup_on_error(cleanup);
        eb.add_lifecycle_observer(&obs);
        GraphExecutorValue ex = eb.make_executor();
        try {
            ex.view().run();
        } catch (const std::exception &e) {
            threw = true;
            msg = e.what();
        }
        seq(SQ_RUN_RETURN, -1);
        for (int i = 0; i < NN; i++) g_stops_at_return[i] = g_count[i][PH_STOP];
    }   // executor released here
    seq(SQ_RELEASED, -1);

    // ---- oracle
    verif_assert(!g_seq_overflow && !g_log.overflow && !g_inst_overflow, "C14.log_overflow");
    bool ok_eval_window = true, ok_inner_order = true, ok_root_order = true;
    bool started[NN] = {}, stopped[NN] = {};
    bool sink_stopped = false, src_stopped = false;
    for (int i = 0; i < g_nseq; i++) {
        int k = g_seq[i].kind, n = g_seq[i].node;
        if (k == SQ_START_BEGIN && n < R0 && (n & 1)) ok_inner_order &= started[n - 1];             // B starts after A
        if (k == SQ_START_BEGIN && n < R0) ok_root_order &= g_seq[i].in_root_eval;                     // branches are started by the evaluating switch node
        if (k == SQ_START_DONE) started[n] = true;
        if (k == SQ_EVAL) ok_eval_window &= started[n] && !stopped[n];
        if (k == SQ_STOP) {
            if (n < R0 && !(n & 1)) ok_inner_order &= stopped[n + 1] || !started[n + 1];              // A stops after B
            // a branch stop outside the switch node's own evaluation belongs to the
            // shutdown: after the sink (started last), before the source (started first)
            if (n < R0 && !g_seq[i].in_root_eval) ok_root_order &= !src_stopped && (sink_stopped || !started[R1]);
            if (n == R0) ok_root_order &= sink_stopped || !started[R1];
            if (n == R1) sink_stopped = true;
            if (n == R0) src_stopped = true;
            stopped[n] = true;
        }
    }
    bool ok_once_final = true, ok_once_return = true, ok_not_started_not_stopped = true;
    for (int i = 0; i < NN; i++) {
        std::int64_t want = started[i] ? 1 : 0;
        ok_once_final &= (g_count[i][PH_STOP] == want);
        if (cleanup) ok_once_return &= (g_stops_at_return[i] == want);
        ok_not_started_not_stopped &= started[i] || g_count[i][PH_STOP] == 0;
        verif_assert(g_count[i][PH_START] <= 1, "C14.started_at_most_once");
    }
    verif_assert(ok_eval_window, "C14.no_eval_before_start_or_after_stop");
    verif_assert(ok_inner_order, "C14.child_graph_start_order_and_reverse_stop_order");
    verif_assert(ok_not_started_not_stopped, "C14.failed_start_not_stopped");
    verif_assert(ok_once_final, "C14.every_started_node_stopped_exactly_once");
    verif_assert(ok_root_order, "C14.shutdown_stops_sink_then_children_then_source");
    verif_assert(ok_once_return, "C14.stopped_by_run_return_when_cleanup_on");

    verif_assert(threw == (g_throws > 0), "C14.error_reaches_caller_iff_thrown");
    if (threw && g_throws > 0) {
        std::string want = std::string("boom_") + char('a' + g_first_node) + "_" + PHASE_WORD[g_first_phase];
        verif_assert(msg.find(want) != std::string::npos, "C14.caller_gets_first_error");
        const char *label = g_first_node == R0 ? "keysrc" : g_first_node == R1 ? "sink" : "switch";
        verif_assert(msg.find(label) != std::string::npos, "C14.error_names_failing_node");
    }

    int retired_in_run = 0;
    for (int i = 0; i < g_nseq; i++) {
        if (g_seq[i].kind == SQ_STOP && g_seq[i].node == R1) break;
        if (g_seq[i].kind == SQ_STOP && g_seq[i].node < R0 && !(g_seq[i].node & 1)) retired_in_run++;
    }
    bool child_fault = g_first_node >= 0 && g_first_node < R0;
    if (g_throws == 0) verif_reach("clean_run");
    if (g_throws == 0 && retired_in_run > 0) verif_reach("branch_retired_during_run");
    if (g_throws == 0 && g_next_inst >= 3) verif_reach("three_instances");
    if (g_throws == 0 && g_reload && retired_in_run > 0) verif_reach("reload_same_key_restarts_branch");
    if (child_fault && g_first_phase == PH_START && g_first_node >= 2) verif_reach("incoming_branch_start_fault");
    if (child_fault && g_first_phase == PH_START && g_first_node >= 2 && (g_first_node & 1)) verif_reach("incoming_branch_second_node_start_fault");
    if (child_fault && g_first_phase == PH_START && g_first_node < 2) verif_reach("first_branch_start_fault");
    if (child_fault && g_first_phase == PH_EVAL) verif_reach("branch_eval_fault");
    if (child_fault && g_first_phase == PH_STOP && g_first_in_root_eval) verif_reach("outgoing_branch_stop_fault_at_switch_over");
    if (child_fault && g_first_phase == PH_STOP && !g_first_in_root_eval) verif_reach("branch_stop_fault_at_shutdown");
    if (g_first_node >= R0 && g_first_node < NN) verif_reach("root_fault_with_live_branch");
    verif_log("throws", g_throws);
    verif_log("instances", g_next_inst);
    verif_reach("end");
    return 0;
}

"""Exact-match, semantics-preserving source rewrites applied to a scratch copy of a TU at
build time (never to /repo) so that clang 14 + libstdc++ 12 can lower it.  If a rule's
anchor text is gone the TU is compiled unpatched."""

RULES = [
    dict(
        name="graph_wiring.build_services: structured binding captured by lambda (P1091, clang>=16)",
        file="src/hgraph/types/graph_wiring.cpp",
        old="""    for (const auto &[path, _kind] : clients) {
      if (impl_->built_service_paths.contains(path) ||
          impl_->service_candidate_paths.contains(path)) {""",
        new="""    for (const auto &verif_client_entry : clients) {
      const auto &path = verif_client_entry.first;
      if (impl_->built_service_paths.contains(path) ||
          impl_->service_candidate_paths.contains(path)) {""",
    ),
    dict(
        name="reduce_node: std::ranges::unique(v).begin() (libstdc++12 ranges x clang14 concepts)",
        file="src/hgraph/runtime/reduce_node.cpp",
        old="const auto unique_end = std::ranges::unique(storage.structural_positions).begin();",
        new="const auto unique_end = std::unique(storage.structural_positions.begin(), storage.structural_positions.end());",
    ),
]

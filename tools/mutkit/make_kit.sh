#!/bin/sh
# assembles the stand-alone kit handed to independent seeding agents (nothing about the checks is in it)
set -e
V=$(cd "$(dirname "$0")/../.." && pwd)
K=${1:-/tmp/mutkit}
mkdir -p "$K/lib" "$K/compat" "$K/hk" "$K/.cache"
cp "$V/tools/mutkit/build.py" "$V/tools/mutkit/README.md" "$V/tools/mutkit/example_demo.cpp" "$K/"
cp "$V/lib/vbuild.py" "$K/lib/vbuild.py"
cp "$V/compat/compat_rules.py" "$K/compat/"
[ -d "$K/.cache/build" ] || { [ -d "$V/.cache/build" ] && cp -r "$V/.cache/build" "$K/.cache/build" || true; }
echo "kit at $K"

// C02 demo: a "delay by 3" node (an input plus a NodeScheduler) must get every wake-up it asked for,
// also when a new input tick arrives while an earlier wake-up is still pending.
// Source emits at +0, +1 and +10 us; the delay node asks for +3, +4 and +13 us.
// Expected root cycles: 0 1 3 4 10 13 ; expected alarm firings: 3 4 13.
// exit 0 = property holds in this scenario, 1 = violated.
#include <hgraph/runtime/runtime.h>
#include <hgraph/runtime/lifecycle_observer.h>
#include <hgraph/types/graph_wiring.h>
#include <hgraph/types/static_node.h>
#include <algorithm>
#include <cstdio>
#include <vector>
using namespace hgraph;
using Int = std::int64_t;

static std::vector<long> g_requested;  // wake-up times requested by the delay node (us offsets)
static std::vector<long> g_fired;      // times at which the delay node saw its alarm due
static std::vector<long> g_sink;       // times at which the sink saw the delayed output tick

static long kEmitAt[] = {0, 1, 10};  // `demo apart` uses 0 5 10 (no overlap: passes with or without the change)

struct Src { static constexpr auto name = "src"; static constexpr bool schedule_on_start = true;
  static void eval(NodeScheduler s, State<Int> n, Out<TS<Int>> out, DateTime now) {
    const Int i = n.get(); out.set(i); n.set(i + 1);
    if (i + 1 < 3) s.schedule(MIN_ST + TimeDelta{kEmitAt[i + 1]});
  } };
struct Delay3 { static constexpr auto name = "delay3";
  static void eval(In<"a", TS<Int>> a, NodeScheduler s, DateTime now, Out<TS<Int>> out) {
    if (s.is_scheduled_now()) { g_fired.push_back((long)(now - MIN_ST).count()); out.set((now - MIN_ST).count()); }
    if (a.modified()) { s.schedule(TimeDelta{3}); g_requested.push_back((long)(now - MIN_ST).count() + 3); }
  } };
struct Sink { static constexpr auto name = "sink";
  static void eval(In<"a", TS<Int>> a, DateTime now) { g_sink.push_back((long)(now - MIN_ST).count()); } };
struct Top { static constexpr auto name = "top";
  static void compose(Wiring &w) { auto s = wire<Src>(w); auto d = wire<Delay3>(w, s); wire<Sink>(w, d); } };

struct CycleObserver : LifecycleObserver {
  std::vector<long> times; int depth = 0;
  void on_before_graph_evaluation(const GraphView &g) override { times.push_back((long)(g.evaluation_time() - MIN_ST).count()); }
};

static void show(const char *what, const std::vector<long> &v) { std::printf("%s:", what); for (long x : v) std::printf(" %ld", x); std::printf("\n"); }

int main(int argc, char **) {
  if (argc > 1) { kEmitAt[1] = 5; }
  CycleObserver obs;
  GraphBuilder gb = build_graph<Top>();
  GraphExecutorBuilder eb;
  eb.graph_builder(std::move(gb)).start_time(MIN_ST).end_time(MIN_ST + TimeDelta{100}).add_lifecycle_observer(&obs);
  GraphExecutorValue ex = eb.make_executor();
  bool threw = false;
  try { ex.view().run(); } catch (const std::exception &e) { threw = true; std::printf("run threw: %.120s\n", e.what()); }
  show("root cycle times      ", obs.times);
  show("requested wake-ups    ", g_requested);
  show("alarm seen due at     ", g_fired);
  show("sink ticks at         ", g_sink);
  std::vector<long> want_cycles, want_fired;
  for (long e : kEmitAt) { want_cycles.push_back(e); want_cycles.push_back(e + 3); want_fired.push_back(e + 3); }
  std::sort(want_cycles.begin(), want_cycles.end());
  show("expected cycle times  ", want_cycles);
  bool ok = !threw && obs.times == want_cycles && g_fired == want_fired && g_sink == want_fired && g_requested == want_fired;
  for (long r : g_requested) { bool hit = false; for (long t : obs.times) hit = hit || t == r; if (!hit) std::printf("requested wake-up at +%ld was never honoured by a cycle\n", r); }
  std::printf(ok ? "PASS\n" : "FAIL\n");
  return ok ? 0 : 1;
}

#!/usr/bin/env python3
"""Stand-alone build kit for hhenson/hgraph's C++ runtime in this sandbox (clang 14, no network).

  python3 /tmp/mutkit/build.py demo <repo-worktree> <demo.cpp> -o <exe>

compiles every runtime / wiring translation unit of <repo-worktree> (content-hash cache under
/tmp/mutkit/.cache: only TUs whose dependency closure changed are recompiled, ~3 min cold on 16 cores,
seconds afterwards), compiles <demo.cpp> against the worktree's headers and links it into <exe>.
The Python bridge, temporal.cpp, time_zone_provider.cpp, json_codec.cpp and the templated stdlib operator
TUs (everything in lib/std/operators except higher_order_impl.cpp) are not compiled: calling into them aborts.
"""
import os, re, subprocess, sys, time
from concurrent.futures import ThreadPoolExecutor

def main():
    if len(sys.argv) < 6 or sys.argv[1] != "demo" or "-o" not in sys.argv:
        print(__doc__); return 2
    wt, demo = os.path.abspath(sys.argv[2]), os.path.abspath(sys.argv[3])
    exe = os.path.abspath(sys.argv[sys.argv.index("-o") + 1])
    os.environ["VERIF_REPO"] = wt
    sys.path.insert(0, os.path.join(os.path.dirname(os.path.abspath(__file__)), "lib"))
    import vbuild
    log = lambda s: print("[kit] " + s, flush=True)
    with vbuild.Lock():
        ok, bad = vbuild.build_repo(log)
        for b in bad:
            log("NOT COMPILABLE: %s\n%s" % (b["name"], b.get("log", "")[-3000:]))
        if bad:
            return 1
        h = vbuild.sha("\n".join(sorted(r["key"] for r in ok)).encode())[:32]
        rt = os.path.join(vbuild.OBJ, "runtime-native-" + h + ".o")
        if not os.path.exists(rt):
            olds = sorted((fn for fn in os.listdir(vbuild.OBJ) if fn.startswith("runtime-native-")), key=lambda fn: os.path.getmtime(os.path.join(vbuild.OBJ, fn)))
            for fn in olds[:-6]:
                try: os.unlink(os.path.join(vbuild.OBJ, fn))
                except OSError: pass
            with ThreadPoolExecutor(max_workers=vbuild.JOBS) as ex:
                objs = list(ex.map(lambda r: vbuild.native_object(r["bc"]), ok))
            subprocess.run(["ld", "-r", "-o", rt + ".tmp%d" % os.getpid()] + objs, check=True)
            os.replace(rt + ".tmp%d" % os.getpid(), rt)
        d = vbuild.compile_aux(demo, "demo:" + demo)
        if not d["ok"]:
            print(d.get("log", "")[-6000:]); return 1
        dobj = vbuild.native_object(d["bc"])
    arrow = os.path.join(vbuild.SITE, "pyarrow")
    base = [vbuild.CLANGXX, "-o", exe, dobj, rt, "-L" + arrow, "-l:libarrow.so.2500", "-l:libarrow_compute.so.2500", "-l:libarrow_acero.so.2500",
            "-Wl,-rpath," + arrow, "-pthread", "-ldl", "-Wl,--gc-sections"]
    stubs = exe + "_missing_stubs.cpp"
    if os.path.exists(stubs): os.unlink(stubs)
    for attempt in range(3):
        cmd = base + ([stubs] if os.path.exists(stubs) else [])
        p = subprocess.run(cmd, stdout=subprocess.PIPE, stderr=subprocess.STDOUT, text=True)
        if p.returncode == 0:
            log("built " + exe); return 0
        p2 = subprocess.run(cmd + ["-Wl,--no-demangle"], stdout=subprocess.PIPE, stderr=subprocess.STDOUT, text=True)
        mangled = sorted(set(re.findall(r"undefined reference to `([^']+)'", p2.stdout)))
        if not mangled:
            print(p.stdout[-4000:]); return 1
        with open(stubs, "a") as f:
            if attempt == 0: f.write("#include <cstdio>\n#include <cstdlib>\n")
            for i, m in enumerate(mangled):
                f.write('extern "C" void kit_missing_%d_%d() __asm__("%s");\n' % (attempt, i, m))
                f.write('extern "C" void kit_missing_%d_%d(){ std::fprintf(stderr,"ABORT call into a TU that is not compiled in this kit: %s\\n"); std::abort(); }\n' % (attempt, i, m))
    print("link failed"); return 1

if __name__ == "__main__":
    sys.exit(main())

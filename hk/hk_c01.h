// C01 harness kit: an enumerated family of wiring programs over a small node vocabulary, wired through the
// real Wiring API, plus the harness-side description of each program (who reads whom) used by the oracles
// of C01_rank (static: compiled node order / edges) and C01_eval (dynamic: evaluation order per cycle).
#pragma once
#include <hgraph/lib/std/operators/control.h>
#include <hgraph/lib/std/operators/impl/higher_order_impl.h>
#include <hgraph/runtime/node_error.h>
#include <hgraph/runtime/push_source_node.h>

#include "hk.h"
#include "hk_nested.h"

#ifndef NNODES
#define NNODES 4
#endif
#ifndef MAXSRC
#define MAXSRC 2
#endif
#ifndef NCYC
#define NCYC 2
#endif
#ifndef VMAX
#define VMAX 1000
#endif
#ifndef ADD3_ANY  // 3-input node (inputs with repetition): 0 = only as the last statement, 1 = at any statement
#define ADD3_ANY 0
#endif
#ifndef RD2_FULL  // two-rank-dependency family: all ordered pairs of pairs (small NNODES) or only chains a2 -> a1 -> b1
#define RD2_FULL (NNODES <= 4)
#endif

namespace c01 {
using namespace hk;

constexpr int MAXID = NNODES + 6;  // user node ids: base program + nodes added by the extras
enum Kind : int { K_SRC = 0, K_ADD1, K_ADD2, K_ADD3 };
enum Extra : int {
    X_NONE = 0,
    X_FEEDBACK,   // F = add2(last, fb()); fb(F)                                  (stdlib::feedback source + sink)
    X_RANKDEP,    // add_rank_dependency(node rd_node, depends_on rd_on), acyclic
    X_NESTED,     // child graph {A = add1(p); B = add2(A, q)} behind single_nested_graph_node, C = add1(nested out)
    X_REF,        // R = ref_copy(p) (REF in, REF out), C = add1(R)                 (C reads p through the reference)
    X_TRYEXC,     // child graph {A = add1(x); B = throwing_add2(x, A)} wrapped by the real wire_try_except; C reads its "out" field;
                  // B throws in one enumerated evaluation, the error is captured and the run continues   [C01_eval only]
    X_COUNT_EVAL,  // extras used when the graph is run (C01_eval); the ones below are static only (C01_rank)
    X_RANKDEP2 = X_COUNT_EVAL,  // two rank dependencies (any direction, possibly cyclic)
    X_PUSH,       // a push source declared last (must be ranked into the prefix)
    X_RANKFREE,   // a 2-input node whose second input is declared rank_dependency=false, its source ranked after it
    X_COUNT_ALL
};

struct Prog {
    int n = 0;
    int kind[NNODES];
    int in0[NNODES], in1[NNODES], in2[NNODES];
    bool via_tsl = false;  // 2-input nodes take their inputs as one TSL<TS<Int>,2> structural source
    int extra = X_NONE;
    int xp = 0, xq = 0;    // extra operands (node ids)
    int rd[2][2] = {{-1, -1}, {-1, -1}};  // rank dependencies {node, depends_on}
    int nrd = 0;
    // derived description
    int nuser = 0;                 // number of user node ids
    bool reads[MAXID][MAXID];      // reads[i][j]: node i reads the output of node j in the same cycle (data edge)
    bool rankafter[MAXID][MAXID];  // declared layout-only dependency: i must be ranked after j
    bool rankfree[MAXID][MAXID];   // data edge declared rank-free (no ordering obligation)
    int depth_of[MAXID];           // 0 root graph, 1 nested child graph
    int nsrc = 0;
    bool cyclic = false;           // the declared dependencies contain a cycle (must be rejected)
};

inline void prog_init(Prog &p) {
    for (int i = 0; i < MAXID; i++) {
        p.depth_of[i] = 0;
        for (int j = 0; j < MAXID; j++) p.reads[i][j] = p.rankafter[i][j] = p.rankfree[i][j] = false;
    }
}

// does i depend (transitively, through ordering edges) on j ?
inline bool depends(const Prog &p, int i, int j) {
    bool seen[MAXID] = {};
    int stack[MAXID * MAXID + 1], sp = 0;
    stack[sp++] = i;
    while (sp) {
        int x = stack[--sp];
        for (int y = 0; y < p.nuser; y++) {
            bool e = (p.reads[x][y] && !p.rankfree[x][y]) || p.rankafter[x][y];
            if (!e) continue;
            if (y == j) return true;
            if (!seen[y]) { seen[y] = true; stack[sp++] = y; }
        }
    }
    return false;
}

// ---- enumerate one program (concrete on every path)
inline void choose_base(Prog &p) {
    prog_init(p);
    p.n = NNODES;
    p.kind[0] = K_SRC;
    p.nsrc = 1;
    for (int i = 1; i < p.n; i++) {
        int k = verif_choice("kind", (ADD3_ANY || i == p.n - 1) ? 4 : 3);
        if (k == K_SRC) { verif_assume(p.nsrc < MAXSRC); p.nsrc++; }
        p.kind[i] = k;
        p.in0[i] = p.in1[i] = p.in2[i] = -1;
        if (k == K_ADD1) p.in0[i] = verif_choice("in0", i);
        if (k == K_ADD2) {
            verif_assume(i >= 2);
            p.in0[i] = verif_choice("in0", i);
            p.in1[i] = verif_choice("in1", i);
            verif_assume(p.in0[i] < p.in1[i]);  // symmetric duplicates and same-port fan-in pruned
        }
        if (p.in0[i] >= 0) p.reads[i][p.in0[i]] = true;
        if (k == K_ADD3) {  // three inputs among the earlier ports, repetition allowed (slot order non-decreasing)
            p.in0[i] = verif_choice("in0", i);
            p.in1[i] = verif_choice("in1", i);
            p.in2[i] = verif_choice("in2", i);
            verif_assume(p.in0[i] <= p.in1[i] && p.in1[i] <= p.in2[i]);
            p.reads[i][p.in0[i]] = true;
        }
        if (p.in1[i] >= 0) p.reads[i][p.in1[i]] = true;
        if (p.in2[i] >= 0) p.reads[i][p.in2[i]] = true;
    }
    p.nuser = p.n;
}
inline bool has_add2(const Prog &p) {
    for (int i = 1; i < p.n; i++) if (p.kind[i] == K_ADD2 || p.kind[i] == K_ADD3) return true;
    return p.extra == X_NESTED;
}

// ---- node vocabulary.  Every node logs (id, value) through on_eval when its user code runs.
struct EvalRec { int id; int cycle; Int value; };
constexpr int MAXEV = (MAXID + 2) * (NCYC + 4);
inline EvalRec g_ev[MAXEV];
inline int g_nev = 0;
inline bool g_ev_overflow = false;
inline int g_cycle = -1;  // index of the current root engine cycle (bumped by the observer)
inline bool g_tick[MAXSRC][NCYC + 1];
inline Int g_val[MAXSRC][NCYC + 1];
inline int g_src_index[MAXID];  // node id -> source ordinal

inline void on_eval(Int id, Int value) {
    if (g_nev < MAXEV) g_ev[g_nev++] = EvalRec{(int)id, g_cycle, value}; else g_ev_overflow = true;
}
inline Int node_const(Int id) { return 1000000 * (id + 1); }

struct CSrc {
    static constexpr auto name = "c01_src";
    static constexpr bool schedule_on_start = true;
    static void eval(NodeScheduler s, State<Int> n, Scalar<"id", Int> id, Out<TS<Int>> out) {
        Int j = n.get();
        int k = g_src_index[id.value()];
        if (j < NCYC) {
            bool tick = verif_bool("tick");
            g_tick[k][j] = tick;
            Int v = 0;
            if (tick) {
                v = verif_range("val", -VMAX, VMAX);
                g_val[k][j] = v;
                out.set(v);
            }
            on_eval(id.value(), v);
        }
        if (j + 1 < NCYC) s.schedule(TimeDelta{1});
        n.set(j + 1);
    }
};
struct CAdd1 {
    static constexpr auto name = "c01_add1";
    static void eval(In<"a", TS<Int>, InputValidity::Unchecked> a, Scalar<"id", Int> id, Out<TS<Int>> out) {
        Int v = (a.valid() ? a.value() : Int{0}) + node_const(id.value());
        out.set(v);
        on_eval(id.value(), v);
    }
};
struct CAdd2 {
    static constexpr auto name = "c01_add2";
    static void eval(In<"a", TS<Int>, InputValidity::Unchecked> a, In<"b", TS<Int>, InputValidity::Unchecked> b, Scalar<"id", Int> id,
                     Out<TS<Int>> out) {
        Int v = (a.valid() ? a.value() : Int{0}) + 3 * (b.valid() ? b.value() : Int{0}) + node_const(id.value());
        out.set(v);
        on_eval(id.value(), v);
    }
};
struct CAddL {
    static constexpr auto name = "c01_addl";
    static void eval(In<"l", TSL<TS<Int>, 2>, InputValidity::Unchecked> l, Scalar<"id", Int> id, Out<TS<Int>> out) {
        Int v = (l[0].valid() ? l[0].value() : Int{0}) + 3 * (l[1].valid() ? l[1].value() : Int{0}) + node_const(id.value());
        out.set(v);
        on_eval(id.value(), v);
    }
};
struct CAdd3 {
    static constexpr auto name = "c01_add3";
    static void eval(In<"a", TS<Int>, InputValidity::Unchecked> a, In<"b", TS<Int>, InputValidity::Unchecked> b, In<"c", TS<Int>, InputValidity::Unchecked> c,
                     Scalar<"id", Int> id, Out<TS<Int>> out) {
        Int v = (a.valid() ? a.value() : Int{0}) + 3 * (b.valid() ? b.value() : Int{0}) + 9 * (c.valid() ? c.value() : Int{0}) + node_const(id.value());
        out.set(v);
        on_eval(id.value(), v);
    }
};
struct CAddL3 {
    static constexpr auto name = "c01_addl3";
    static void eval(In<"l", TSL<TS<Int>, 3>, InputValidity::Unchecked> l, Scalar<"id", Int> id, Out<TS<Int>> out) {
        Int v = (l[0].valid() ? l[0].value() : Int{0}) + 3 * (l[1].valid() ? l[1].value() : Int{0}) + 9 * (l[2].valid() ? l[2].value() : Int{0}) +
                node_const(id.value());
        out.set(v);
        on_eval(id.value(), v);
    }
};
struct CRef {
    static constexpr auto name = "c01_ref";
    static void eval(In<"ref", REF<TS<Int>>> ref, Scalar<"id", Int> id, Out<REF<TS<Int>>> out) {
        out.set(ref.value());
        on_eval(id.value(), 0);
    }
};
inline int g_try_base = 0;       // id of A in the try_except child (B = +1, outer consumer C = +2)
inline bool g_thrown = false;    // B has thrown (it throws at most once per run)
inline int g_throw_cycle = -1;   // root cycle in which B threw
struct CThrow2 {
    static constexpr auto name = "c01_throw2";
    static void eval(In<"a", TS<Int>, InputValidity::Unchecked> a, In<"b", TS<Int>, InputValidity::Unchecked> b, Scalar<"id", Int> id,
                     Out<TS<Int>> out) {
        Int v = (a.valid() ? a.value() : Int{0}) + 3 * (b.valid() ? b.value() : Int{0}) + node_const(id.value());
        on_eval(id.value(), v);
        if (!g_thrown && verif_bool("throw")) {
            g_thrown = true;
            g_throw_cycle = g_cycle;
            throw std::runtime_error("c01 scripted failure");
        }
        out.set(v);
    }
};
using TryIntResult = UnNamedTSB<Field<"exception", TS<NodeError>>, Field<"out", TS<Int>>>;
struct CTryOut {
    static constexpr auto name = "c01_tryout";
    static void eval(In<"r", TryIntResult, InputValidity::Unchecked> r, Scalar<"id", Int> id, Out<TS<Int>> out) {
        auto field = r.template field<"out">();
        Int v = (field.valid() ? field.value() : Int{0}) + node_const(id.value());
        out.set(v);
        on_eval(id.value(), v);
    }
};
struct TryFn {  // WiredFn for  x -> A = add1(x) -> B = throwing_add2(x, A)
    static WiringPortRef body(Wiring &w, const WiringPortRef &x) {
        WiringPortRef A = wire<CAdd1>(w, Port<void>{w, x}, Int{g_try_base}).erased();
        return wire<CThrow2>(w, Port<void>{w, x}, Port<void>{w, A}, Int{g_try_base + 1}).erased();
    }
    static CompiledSubGraph compile(const void *, Wiring *parent, std::span<const TSValueTypeMetaData *const> s) {
        Wiring cw = parent ? parent->child_wiring() : Wiring{WiringKind::SubGraph};
        WiringPortRef out = body(cw, WiringPortRef::boundary_source(0, {}, s[0]));
        return std::move(cw).finish_subgraph(out, {s[0]});
    }
    static WiringPortRef wire_(const void *, Wiring &w, std::span<const WiringPortRef> a) { return body(w, a[0]); }
    static const TSValueTypeMetaData *out(const void *) { return schema_descriptor<TS<Int>>::ts_meta(); }
    static WiredFn make() {
        static WiredFnOps ops{.wire = &wire_, .compile = &compile, .output_schema = &out};
        WiredFn f;
        f.ops = &ops;
        f.arity = 1;
        f.has_output = true;
        f.identity = &typeid(TryFn);
        return f;
    }
};
inline void register_c01_scalars() {
    auto &reg = TypeRegistry::instance();
    reg.register_scalar<WiredFn>("fn");
    reg.register_scalar<stdlib::SwitchCases>("switch_cases");
}
struct push_tag {};
struct rankfree_tag {};

struct Built {
    WiringPortRef port[MAXID];
    const WiringInstance *inst[MAXID] = {};
    const WiringInstance *nested_inst = nullptr;
    const WiringInstance *fb_source = nullptr;
    int n_runtime_extra = 0;  // runtime nodes that carry no user id (feedback source/sink, nested owner, push source)
};

inline Port<TS<Int>> tsp(Wiring &w, const WiringPortRef &r) { return Port<TS<Int>>{w, r}; }

inline WiringPortRef wire_add2(Wiring &w, bool via_tsl, const WiringPortRef &a, const WiringPortRef &b, Int id) {
    if (via_tsl) return wire<CAddL>(w, {a, b}, id).erased();
    return wire<CAdd2>(w, Port<void>{w, a}, Port<void>{w, b}, id).erased();
}

inline WiringPortRef wire_add3(Wiring &w, bool via_tsl, const WiringPortRef &a, const WiringPortRef &b, const WiringPortRef &c, Int id) {
    if (via_tsl) return wire<CAddL3>(w, {a, b, c}, id).erased();
    return wire<CAdd3>(w, Port<void>{w, a}, Port<void>{w, b}, Port<void>{w, c}, id).erased();
}
// the base program reads one producer through two inputs of one node
inline bool reads_same_twice(const Prog &p) {
    for (int i = 1; i < p.n; i++)
        if (p.kind[i] == K_ADD3 && (p.in0[i] == p.in1[i] || p.in1[i] == p.in2[i])) return true;
    return false;
}
// a multi-input node whose (TSL) elements sit at least two levels apart below a common ancestor chain
inline bool elements_two_levels_apart(const Prog &p) {
    for (int i = 1; i < p.n; i++) {
        int ins[3] = {p.in0[i], p.in1[i], p.in2[i]};
        for (int x = 0; x < 3; x++)
            for (int y = 0; y < 3; y++) {
                if (ins[x] < 0 || ins[y] < 0 || ins[x] == ins[y]) continue;
                for (int m = 0; m < p.n; m++)
                    if (m != ins[x] && m != ins[y] && depends(p, ins[y], m) && depends(p, m, ins[x])) return true;
            }
    }
    return false;
}

// Wire the base program into w (statement order = id order); fills b.
inline void wire_base(Wiring &w, const Prog &p, Built &b) {
    int ns = 0;
    for (int i = 0; i < p.n; i++) {
        if (p.kind[i] == K_SRC) { g_src_index[i] = ns++; b.port[i] = wire<CSrc>(w, Int{i}).erased(); }
        if (p.kind[i] == K_ADD1) b.port[i] = wire<CAdd1>(w, Port<void>{w, b.port[p.in0[i]]}, Int{i}).erased();
        if (p.kind[i] == K_ADD2) b.port[i] = wire_add2(w, p.via_tsl, b.port[p.in0[i]], b.port[p.in1[i]], Int{i});
        if (p.kind[i] == K_ADD3) b.port[i] = wire_add3(w, p.via_tsl, b.port[p.in0[i]], b.port[p.in1[i]], b.port[p.in2[i]], Int{i});
        b.inst[i] = b.port[i].peered_node();
    }
}

// ---- extras
struct CPair {  // the rank-free pair consumer (no id scalar: identified by its name in the compiled graph)
    static constexpr auto name = "c01_pair";
    static void eval(In<"a", TS<Int>, InputValidity::Unchecked> a, In<"b", TS<Int>, InputValidity::Unchecked> b, Out<TS<Int>> out) {
        out.set((a.valid() ? a.value() : Int{0}) + (b.valid() ? b.value() : Int{0}));
    }
};

inline void add_rd(Prog &p, int node, int on) {
    // a dependency of `node` on `on` closes a cycle iff `on` already depends on `node`
    if (node == on || depends(p, on, node)) p.cyclic = true;
    p.rd[p.nrd][0] = node;
    p.rd[p.nrd][1] = on;
    p.nrd++;
    p.rankafter[node][on] = true;
}

// reorder_only: keep only rank dependencies that contradict statement order (an earlier statement must follow a later one)
inline void choose_extra(Prog &p, int nextras, bool reorder_only) {
    p.extra = verif_choice("extra", nextras);
    const int n = p.n;
    // programs with a 3-input node are combined only with the order-relevant extras (keeps the family within the quick budget)
    for (int i = 1; i < n; i++)
        if (p.kind[i] == K_ADD3) verif_assume(p.extra == X_NONE || p.extra == X_RANKDEP);
    switch (p.extra) {
        case X_FEEDBACK: {
            p.xp = verif_choice("xp", n);
            int F = p.nuser++;
            p.reads[F][p.xp] = true;
            break;
        }
        case X_RANKDEP:
        case X_RANKDEP2: {
            int k = p.extra == X_RANKDEP ? 1 : 2;
            for (int r = 0; r < k; r++) {
                int a = verif_choice("rd_node", n), b = verif_choice("rd_on", n);
                if (r == 1) verif_assume(a != p.rd[0][0] || b != p.rd[0][1]);
                if (r == 1 && !RD2_FULL) verif_assume(b == p.rd[0][0]);
                if (reorder_only) verif_assume(a < b);
                add_rd(p, a, b);
            }
            break;
        }
        case X_NESTED: {
            p.xp = verif_choice("xp", n);
            p.xq = verif_choice("xq", n);
            int A = p.nuser++, B = p.nuser++, C = p.nuser++;
            p.reads[A][p.xp] = true;
            p.reads[B][A] = true;
            p.reads[B][p.xq] = true;
            p.reads[C][B] = true;
            p.depth_of[A] = p.depth_of[B] = 1;
            break;
        }
        case X_TRYEXC: {
            p.xp = verif_choice("xp", n);
            int A = p.nuser++, B = p.nuser++, C = p.nuser++;
            p.reads[A][p.xp] = true;
            p.reads[B][p.xp] = true;
            p.reads[B][A] = true;
            p.reads[C][B] = true;
            p.depth_of[A] = p.depth_of[B] = 1;
            break;
        }
        case X_REF: {
            p.xp = verif_choice("xp", n);
            int R = p.nuser++, C = p.nuser++;
            p.reads[R][p.xp] = true;
            p.reads[C][R] = true;
            p.reads[C][p.xp] = true;
            break;
        }
        case X_PUSH: break;
        case X_RANKFREE: {
            p.xp = verif_choice("xp", n);
            p.xq = verif_choice("xq", n);
            // Z = pair(xp, xq[rank-free]); xq must be ranked after Z.  Cyclic iff xp is or depends on xq.
            if (p.xp == p.xq || depends(p, p.xp, p.xq)) p.cyclic = true;
            break;
        }
        default: break;
    }
    if (has_add2(p)) p.via_tsl = verif_bool("via_tsl");
}

inline void wire_extra(Wiring &w, const Prog &p, Built &b) {
    const int n = p.n;
    switch (p.extra) {
        case X_FEEDBACK: {
            // the feedback source must exist before its reader: created here, after the base program
            auto fb = stdlib::feedback<TS<Int>>(w);
            b.fb_source = fb().erased().peered_node();
            WiringPortRef f = wire<CAdd2>(w, Port<void>{w, b.port[p.xp]}, Port<void>{w, fb().erased()}, Int{n}).erased();
            fb(tsp(w, f));
            b.port[n] = f;
            b.inst[n] = f.peered_node();
            b.n_runtime_extra = 2;
            break;
        }
        case X_RANKDEP:
        case X_RANKDEP2:
            for (int r = 0; r < p.nrd; r++) w.add_rank_dependency(b.inst[p.rd[r][0]], b.inst[p.rd[r][1]]);
            break;
        case X_NESTED: {
            const bool via = p.via_tsl;
            auto out = nested_call(w, "c01_nested", std::type_index(typeid(Prog)), {b.port[p.xp], b.port[p.xq]},
                                   [n, via](Wiring &cw, std::span<const WiringPortRef> in) -> std::optional<WiringPortRef> {
                                       WiringPortRef A = wire<CAdd1>(cw, Port<void>{cw, in[0]}, Int{n}).erased();
                                       return wire_add2(cw, via, A, in[1], Int{n + 1});
                                   });
            b.nested_inst = out->peered_node();
            b.port[n + 2] = wire<CAdd1>(w, Port<void>{w, *out}, Int{n + 2}).erased();
            b.inst[n + 2] = b.port[n + 2].peered_node();
            b.n_runtime_extra = 1;
            break;
        }
        case X_TRYEXC: {
            namespace ho = hgraph::stdlib::higher_order_impl_detail;
            g_try_base = n;
            WiringPortRef r = ho::wire_try_except(w, TryFn::make(), {b.port[p.xp]}, {}, ErrorCaptureOptions{});
            b.nested_inst = r.peered_node();
            b.port[n + 2] = wire<CTryOut>(w, Port<TryIntResult>{w, r}, Int{n + 2}).erased();
            b.inst[n + 2] = b.port[n + 2].peered_node();
            b.n_runtime_extra = 1;
            break;
        }
        case X_REF: {
            WiringPortRef r = wire<CRef>(w, Port<void>{w, b.port[p.xp]}, Int{n}).erased();
            b.port[n] = r;
            b.inst[n] = r.peered_node();
            b.port[n + 1] = wire<CAdd1>(w, Port<void>{w, r}, Int{n + 1}).erased();
            b.inst[n + 1] = b.port[n + 1].peered_node();
            break;
        }
        case X_PUSH: {
            const auto *ts_int = schema_descriptor<TS<Int>>::ts_meta();
            NodeBuilder nb = make_push_source_node(*ts_int, make_push_source_queue_policy(*ts_int, 1), [](PushSourceSender) {});
            (void)w.add_node(std::type_index(typeid(push_tag)), std::move(nb), std::span<const WiringPortRef>{}, Value{});
            b.n_runtime_extra = 1;
            break;
        }
        case X_RANKFREE: {
            namespace gd = hgraph::graph_wiring_detail;
            const auto *ts_int = schema_descriptor<TS<Int>>::ts_meta();
            std::array<WiringPortRef, 2> sources{gd::adapt_source_for_input(w, ts_int, b.port[p.xp]), gd::adapt_source_for_input(w, ts_int, b.port[p.xq])};
            std::array<WiringInputRef, 2> inputs{{WiringInputRef{.source = sources[0]}, WiringInputRef{.source = sources[1], .rank_dependency = false}}};
            NodeBuilder nb = gd::build_node_builder<CPair>();
            nb.input_endpoint(gd::input_endpoint_for_sources(nb.type().schema()->input_schema, std::span<const WiringPortRef>{sources.data(), sources.size()}));
            WiringPortRef z = w.add_node(std::type_index(typeid(rankfree_tag)), std::move(nb), std::span<const WiringInputRef>{inputs.data(), inputs.size()}, Value{});
            w.add_rank_dependency(b.inst[p.xq], z.peered_node());
            b.n_runtime_extra = 1;
            break;
        }
        default: break;
    }
}
}  // namespace c01

// Native implementation of the harness API: replays a model produced by symx against the real
// build (same clang, same flags, same tree).  Reads "name#k value" lines from $VERIF_INPUT,
// writes the trace to $VERIF_TRACE (or stdout).
// Exit codes: 0 ok, 1 an assertion failed, 4 an assumption failed (model does not fit), 5 crash.
#include "verif.h"

#include <csignal>
#include <cstdio>
#include <cstdlib>
#include <cstring>
#include <exception>
#include <map>
#include <string>
#include <unistd.h>

namespace {
std::map<std::string, long long> g_inputs;
std::map<std::string, int> g_count;
FILE *g_trace = nullptr;
int g_failed = 0;
long long g_clock = 1700000000000000000LL;
bool g_init = false;

void init() {
    if (g_init) return;
    g_init = true;
    const char *tp = getenv("VERIF_TRACE");
    g_trace = tp ? fopen(tp, "w") : stdout;
    if (!g_trace) g_trace = stdout;
    if (const char *ip = getenv("VERIF_INPUT")) {
        if (FILE *f = fopen(ip, "r")) {
            char name[512];
            long long v;
            while (fscanf(f, "%500s %lld", name, &v) == 2) g_inputs[name] = v;
            fclose(f);
        }
    }
}
void finish(int code) {
    if (g_trace) fflush(g_trace);
    _exit(code);
}
void on_signal(int sig) {
    if (g_trace) { fprintf(g_trace, "CRASH signal %d\n", sig); fflush(g_trace); }
    _exit(5);
}
}  // namespace

extern "C" {
std::int64_t verif_i64(const char *name) {
    init();
    int k = g_count[name]++;
    auto it = g_inputs.find(std::string(name) + "#" + std::to_string(k));
    return it == g_inputs.end() ? 0 : it->second;
}
void verif_assume(bool c) {
    init();
    if (!c) { fprintf(g_trace, "ASSUME-FAILED\n"); finish(4); }
}
void verif_assert(bool c, const char *id) {
    init();
    if (!c) { fprintf(g_trace, "F %s\n", id); g_failed++; }
}
void verif_fail(const char *id) {
    init();
    fprintf(g_trace, "F %s\n", id);
    g_failed++;
}
void verif_reach(const char *label) { init(); fprintf(g_trace, "R %s\n", label); }
void verif_log(const char *label, std::int64_t v) { init(); fprintf(g_trace, "L %s %lld\n", label, (long long)v); }
std::int64_t verif_concretize(std::int64_t v) { return v; }
void verif_end_path(void) { init(); finish(g_failed ? 1 : 0); }
std::int64_t verif_clock_ns(void) { return g_clock; }
void verif_clock_set_ns(std::int64_t ns) { g_clock = ns; }
int verif_spawn(void (*)(void *), void *) { init(); fprintf(g_trace, "CRASH native replay of threaded harness not supported\n"); finish(6); return 0; }
void verif_join(int) {}
void verif_yield(void) {}

std::int64_t verif_clock_hook(void) __attribute__((weak));
// interpose the clocks the runtime reads (the executable's definition wins over libstdc++.so)
std::int64_t verif_native_clock_now() __asm__("_ZNSt6chrono3_V212system_clock3nowEv");
std::int64_t verif_native_clock_now() {
    if (verif_clock_hook) return verif_clock_hook();
    long long now = g_clock;
    g_clock += 1000;
    return now;
}
std::int64_t verif_native_steady_now() __asm__("_ZNSt6chrono3_V212steady_clock3nowEv");
std::int64_t verif_native_steady_now() { return verif_native_clock_now(); }

int harness_main();
}

int main() {
    init();
    signal(SIGSEGV, on_signal);
    signal(SIGABRT, on_signal);
    signal(SIGBUS, on_signal);
    signal(SIGFPE, on_signal);
    signal(SIGILL, on_signal);
    try {
        harness_main();
    } catch (const std::exception &e) {
        fprintf(g_trace, "CRASH uncaught exception: %s\n", e.what());
        finish(5);
    } catch (...) {
        fprintf(g_trace, "CRASH uncaught exception\n");
        finish(5);
    }
    finish(g_failed ? 1 : 0);
    return 0;
}

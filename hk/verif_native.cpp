// Native implementation of the harness API: replays a model produced by symx against the real
// build (same clang, same flags, same tree).  Reads "name#k value" lines from $VERIF_INPUT,
// writes the trace to $VERIF_TRACE (or stdout).
// Exit codes: 0 ok, 1 an assertion failed, 4 an assumption failed (model does not fit), 5 crash.
#include "verif.h"

#include <csignal>
#include <cstdio>
#include <cstdlib>
#include <cstring>
#include <exception>
#include <map>
#include <string>
#include <unistd.h>
#include <dlfcn.h>
#include <pthread.h>
#include <cerrno>
#include <ctime>

namespace {
std::map<std::string, long long> g_inputs;
std::map<std::string, int> g_count;
FILE *g_trace = nullptr;
int g_failed = 0;
long long g_clock = 1700000000000000000LL;
long long g_step_lo = 1000, g_step_hi = 1000, g_late_max = 0;
void *g_wait_cv = nullptr;
bool g_notified = false;
bool g_init = false;

void init() {
    if (g_init) return;
    g_init = true;
    const char *tp = getenv("VERIF_TRACE");
    g_trace = tp ? fopen(tp, "w") : stdout;
    if (!g_trace) g_trace = stdout;
    if (const char *ip = getenv("VERIF_INPUT")) {
        if (FILE *f = fopen(ip, "r")) {
            char name[512];
            long long v;
            while (fscanf(f, "%500s %lld", name, &v) == 2) g_inputs[name] = v;
            fclose(f);
        }
    }
}
thread_local bool t_harness_thread = false;
template <class F> F real_fn(const char *name) { return reinterpret_cast<F>(dlsym(RTLD_NEXT, name)); }
void finish(int code) {
    if (g_trace) fflush(g_trace);
    _exit(code);
}
void on_signal(int sig) {
    if (g_trace) { fprintf(g_trace, "CRASH signal %d\n", sig); fflush(g_trace); }
    _exit(5);
}
}  // namespace

extern "C" {
std::int64_t verif_i64(const char *name) {
    init();
    int k = g_count[name]++;
    auto it = g_inputs.find(std::string(name) + "#" + std::to_string(k));
    return it == g_inputs.end() ? 0 : it->second;
}
void verif_assume(bool c) {
    init();
    if (!c) { fprintf(g_trace, "ASSUME-FAILED\n"); finish(4); }
}
void verif_assert(bool c, const char *id) {
    init();
    if (!c) { fprintf(g_trace, "F %s\n", id); g_failed++; }
}
void verif_fail(const char *id) {
    init();
    fprintf(g_trace, "F %s\n", id);
    g_failed++;
}
void verif_reach(const char *label) { init(); fprintf(g_trace, "R %s\n", label); }
void verif_log(const char *label, std::int64_t v) { init(); fprintf(g_trace, "L %s %lld\n", label, (long long)v); }
std::int64_t verif_concretize(std::int64_t v) { return v; }
void verif_end_path(void) { init(); finish(g_failed ? 1 : 0); }
std::int64_t verif_clock_ns(void) { return g_clock; }
void verif_clock_set_ns(std::int64_t ns) { g_clock = ns; }
int verif_spawn(void (*)(void *), void *) { init(); fprintf(g_trace, "CRASH native replay of threaded harness not supported\n"); finish(6); return 0; }
void verif_join(int) {}
void verif_yield(void) {}

void verif_clock_config(std::int64_t lo, std::int64_t hi, std::int64_t late) { g_step_lo = lo; g_step_hi = hi; g_late_max = late; }
static std::int64_t ranged_input(const char *name, std::int64_t lo, std::int64_t hi) {
    int k = g_count[name]++;
    auto it = g_inputs.find(std::string(name) + "#" + std::to_string(k));
    std::int64_t v = it == g_inputs.end() ? lo : it->second;
    if (v < lo || v > hi) { fprintf(g_trace, "ASSUME-FAILED\n"); finish(4); }
    return v;
}
// interpose the clocks the runtime reads (the executable's definition wins over libstdc++.so)
std::int64_t verif_native_clock_now() __asm__("_ZNSt6chrono3_V212system_clock3nowEv");
std::int64_t verif_native_clock_now() {
    init();
    long long now = g_clock;
    g_clock += g_step_hi > g_step_lo ? ranged_input("clk", g_step_lo, g_step_hi) : g_step_lo;
    return now;
}
std::int64_t verif_native_steady_now() __asm__("_ZNSt6chrono3_V212steady_clock3nowEv");
std::int64_t verif_native_steady_now() { return verif_native_clock_now(); }

void verif_wait_hook(void) __attribute__((weak));
// Single-threaded model of condition waits, identical to symx's: release the mutex, let the environment act
// through verif_wait_hook, then return notified or time out with the virtual clock moved to the deadline.
static int native_wait(pthread_cond_t *cond, pthread_mutex_t *mutex, const struct timespec *abstime) {
    init();
    long long late = (abstime && g_late_max > 0) ? 1000 * ranged_input("late", 0, g_late_max) : 0;  // drawn at entry, like symx
    g_wait_cv = cond;
    g_notified = false;
    pthread_mutex_unlock(mutex);
    if (verif_wait_hook) verif_wait_hook();
    pthread_mutex_lock(mutex);
    g_wait_cv = nullptr;
    if (g_notified) { g_notified = false; return 0; }
    if (!abstime) { fprintf(g_trace, "CRASH deadlock: untimed condition wait that nobody can notify\n"); finish(5); }
    long long deadline = (long long)abstime->tv_sec * 1000000000LL + abstime->tv_nsec;
    g_clock = (g_clock > deadline ? g_clock : deadline) + late;
    return ETIMEDOUT;
}
// Only waits issued by the harness thread are modelled; any other thread in the process (e.g. libarrow's
// jemalloc background thread) gets the real implementation.
int pthread_cond_clockwait(pthread_cond_t *c, pthread_mutex_t *m, clockid_t k, const struct timespec *t) {
    if (!t_harness_thread) return real_fn<int (*)(pthread_cond_t *, pthread_mutex_t *, clockid_t, const struct timespec *)>("pthread_cond_clockwait")(c, m, k, t);
    return native_wait(c, m, t);
}
int pthread_cond_timedwait(pthread_cond_t *c, pthread_mutex_t *m, const struct timespec *t) {
    if (!t_harness_thread) return real_fn<int (*)(pthread_cond_t *, pthread_mutex_t *, const struct timespec *)>("pthread_cond_timedwait")(c, m, t);
    return native_wait(c, m, t);
}
int pthread_cond_wait(pthread_cond_t *c, pthread_mutex_t *m) {
    if (!t_harness_thread) return real_fn<int (*)(pthread_cond_t *, pthread_mutex_t *)>("pthread_cond_wait")(c, m);
    return native_wait(c, m, nullptr);
}
int pthread_cond_broadcast(pthread_cond_t *c) {
    if (t_harness_thread && g_wait_cv == c) g_notified = true;
    return real_fn<int (*)(pthread_cond_t *)>("pthread_cond_broadcast")(c);
}
int pthread_cond_signal(pthread_cond_t *c) {
    if (t_harness_thread && g_wait_cv == c) g_notified = true;
    return real_fn<int (*)(pthread_cond_t *)>("pthread_cond_signal")(c);
}

int harness_main();
}

int main() {
    t_harness_thread = true;
    init();
    signal(SIGSEGV, on_signal);
    signal(SIGABRT, on_signal);
    signal(SIGBUS, on_signal);
    signal(SIGFPE, on_signal);
    signal(SIGILL, on_signal);
    try {
        harness_main();
    } catch (const std::exception &e) {
        fprintf(g_trace, "CRASH uncaught exception: %s\n", e.what());
        finish(5);
    } catch (...) {
        fprintf(g_trace, "CRASH uncaught exception\n");
        finish(5);
    }
    finish(g_failed ? 1 : 0);
    return 0;
}

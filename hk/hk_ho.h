// Harness kit for the higher-order operators (map_/reduce/switch_): hand-made WiredFn values over
// static nodes, so that the REAL non-template wiring bodies of
// <hgraph/lib/std/operators/impl/higher_order_impl.h> (wire_map / wire_reduce_tsd / wire_switch ->
// compile_map_child / compile_switch_branch -> map_node / reduce_node / switch_node) can be driven
// without the operator front door (fn<X>() / wire<stdlib::op> crash the clang-14 frontend).
#pragma once
#include "hk.h"

#include <hgraph/lib/std/operators/impl/higher_order_impl.h>

#include <array>
#include <string_view>

namespace hk {
namespace ho = hgraph::stdlib::higher_order_impl_detail;

// Must run once before any wiring that stores a WiredFn / SwitchCases scalar.
inline void register_ho_scalars() {
    auto &reg = TypeRegistry::instance();
    reg.register_scalar<WiredFn>("fn");
    reg.register_scalar<stdlib::SwitchCases>("switch_cases");
}

// WiredFn for a static node N with ARITY time-series inputs of schema TS<Int> (or the schemas
// handed in by the higher-order wiring - the boundary ports take the schema they are given) and one
// output of schema OUT.  PARAM names are reported through ops.param_names so that map_'s key_arg
// resolution can find a parameter by name.
template <class N, std::size_t ARITY, class OUT = TS<Int>> struct FnN {
    template <std::size_t... I>
    static auto wire_idx(Wiring &cw, std::span<const WiringPortRef> a, std::index_sequence<I...>) {
        return wire<N>(cw, Port<void>{cw, a[I]}...);
    }
    static CompiledSubGraph compile(const void *, Wiring *parent, std::span<const TSValueTypeMetaData *const> s) {
        Wiring cw = parent ? parent->child_wiring() : Wiring{WiringKind::SubGraph};
        std::array<WiringPortRef, ARITY> ports;
        std::vector<const TSValueTypeMetaData *> schemas;
        for (std::size_t i = 0; i < ARITY; i++) {
            ports[i] = WiringPortRef::boundary_source(i, {}, s[i]);
            schemas.push_back(s[i]);
        }
        auto out = wire_idx(cw, std::span<const WiringPortRef>{ports.data(), ports.size()}, std::make_index_sequence<ARITY>{});
        return std::move(cw).finish_subgraph(out.erased(), std::move(schemas));
    }
    static WiringPortRef wire_(const void *, Wiring &w, std::span<const WiringPortRef> a) {
        return wire_idx(w, a, std::make_index_sequence<ARITY>{}).erased();
    }
    static const TSValueTypeMetaData *out(const void *) { return schema_descriptor<OUT>::ts_meta(); }
    // N may declare `static constexpr std::array<std::string_view, ARITY> hk_param_names{...}`; switch_ detects a
    // key-consuming branch by its first parameter being named "key".
    static std::span<const std::string_view> names(const void *) {
        if constexpr (requires { N::hk_param_names; }) return std::span<const std::string_view>{N::hk_param_names.data(), N::hk_param_names.size()};
        else return {};
    }
    static WiredFn make() {
        static WiredFnOps ops{.wire = &wire_, .compile = &compile, .param_names = &names, .output_schema = &out};
        WiredFn f;
        f.ops = &ops;
        f.arity = ARITY;
        f.has_output = true;
        f.identity = &typeid(N);
        return f;
    }
};

// WiredFn for a hand-written sub-graph: W::wire(Wiring&, std::span<const WiringPortRef>) -> WiringPortRef wires any
// number of nodes over the ARITY boundary ports and returns the output port.
template <class W, std::size_t ARITY, class OUT = TS<Int>> struct FnW {
    static CompiledSubGraph compile(const void *, Wiring *parent, std::span<const TSValueTypeMetaData *const> s) {
        Wiring cw = parent ? parent->child_wiring() : Wiring{WiringKind::SubGraph};
        std::array<WiringPortRef, ARITY> ports;
        std::vector<const TSValueTypeMetaData *> schemas;
        for (std::size_t i = 0; i < ARITY; i++) {
            ports[i] = WiringPortRef::boundary_source(i, {}, s[i]);
            schemas.push_back(s[i]);
        }
        WiringPortRef out = W::wire(cw, std::span<const WiringPortRef>{ports.data(), ports.size()});
        return std::move(cw).finish_subgraph(out, std::move(schemas));
    }
    static WiringPortRef wire_(const void *, Wiring &w, std::span<const WiringPortRef> a) { return W::wire(w, a); }
    static const TSValueTypeMetaData *out(const void *) { return schema_descriptor<OUT>::ts_meta(); }
    static WiredFn make() {
        static WiredFnOps ops{.wire = &wire_, .compile = &compile, .output_schema = &out};
        WiredFn f;
        f.ops = &ops;
        f.arity = ARITY;
        f.has_output = true;
        f.identity = &typeid(W);
        return f;
    }
};
}  // namespace hk

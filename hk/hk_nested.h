// Harness kit: nest a hand-composed sub-graph behind a real single_nested_graph_node.
// `nested_<G>` / `compile_subgraph<G>` crash the clang-14 frontend, so this mirrors their non-template
// steps (subgraph_wiring.h build_subgraph_call + nested_): adapt outer sources, give the child wiring
// boundary placeholders, Wiring::finish_subgraph, un-named TSB input over the boundary args,
// Wiring::add_node(deferred builder) with single_nested_graph_node.
#pragma once
#include <hgraph/runtime/nested_graph_node.h>
#include <hgraph/types/subgraph_wiring.h>

#include "hk.h"

namespace hk {

// compose(child_wiring, boundary_ports) -> optional output port of the child graph
template <class F>
inline std::optional<WiringPortRef> nested_call(Wiring &w, const char *name, std::type_index id, std::vector<WiringPortRef> outer, F &&compose,
                                                Value scalars = {}) {
    namespace gd = hgraph::graph_wiring_detail;
    namespace sw = hgraph::subgraph_wiring_detail;
    std::vector<WiringPortRef> inputs, shapes;
    std::vector<const TSValueTypeMetaData *> schemas;
    for (auto &src : outer) {
        const TSValueTypeMetaData *expected = src.schema;
        WiringPortRef ref = gd::adapt_source_for_input(w, expected, src);
        shapes.push_back(sw::boundary_shape(ref, inputs.size(), {}));
        schemas.push_back(expected);
        inputs.push_back(std::move(ref));
    }
    Wiring cw = w.child_wiring();
    std::optional<WiringPortRef> child_out = compose(cw, std::span<const WiringPortRef>{shapes.data(), shapes.size()});
    CompiledSubGraph compiled = std::move(cw).finish_subgraph(child_out, std::move(schemas));
    compiled.graph_builder.label(std::string{name});
    for (WiringPortRef &captured : compiled.captured_inputs) inputs.push_back(std::move(captured));
    compiled.captured_inputs.clear();

    const TSValueTypeMetaData *input_schema = nullptr;
    if (!compiled.input_schemas.empty()) {
        std::vector<std::pair<std::string, const TSValueTypeMetaData *>> fields;
        for (std::size_t i = 0; i < compiled.input_schemas.size(); ++i) fields.emplace_back(std::to_string(i), compiled.input_schemas[i]);
        input_schema = TypeRegistry::instance().un_named_tsb(fields);
    }
    WiringNodeSchema node_schema;
    node_schema.input = input_schema;
    node_schema.output = compiled.output_schema;
    const bool has_out = compiled.output_schema != nullptr;
    WiringPortRef out = w.add_node(id, node_schema, std::span<const WiringPortRef>{inputs.data(), inputs.size()}, std::move(scalars), [&]() {
        NodeTypeMetaData meta;
        meta.display_name = name;
        meta.input_schema = input_schema;
        meta.output_schema = compiled.output_schema;
        SingleNestedGraphNodeSpec spec;
        spec.graph_builder = std::move(compiled.graph_builder);
        spec.input_bindings = std::move(compiled.input_bindings);
        spec.output_binding = compiled.output_binding;
        NodeBuilder builder = single_nested_graph_node(std::move(meta), std::move(spec));
        builder.input_endpoint(gd::input_endpoint_for_sources(input_schema, std::span<const WiringPortRef>{inputs.data(), inputs.size()}));
        return builder;
    });
    if (!has_out) return std::nullopt;
    return out;
}

// One-input convenience form: G has `static constexpr auto name` and `static Port<R> compose(Wiring&, Port<S>)`;
// the body is compiled as a child graph and owned by one single_nested_graph_node in `w`.
template <class G, class S> inline auto nested1(Wiring &w, Port<S> s) {
    using R = decltype(G::compose(w, s));
    auto out = nested_call(w, G::name, std::type_index(typeid(G)), {s.erased()}, [](Wiring &cw, std::span<const WiringPortRef> in) -> std::optional<WiringPortRef> {
        return G::compose(cw, Port<S>{cw, in[0]}).erased();
    });
    return R{w, std::move(*out)};
}
// Two-input form: `static Port<R> compose(Wiring&, Port<S0>, Port<S1>)`.
template <class G, class S0, class S1> inline auto nested2(Wiring &w, Port<S0> a, Port<S1> b) {
    using R = decltype(G::compose(w, a, b));
    auto out = nested_call(w, G::name, std::type_index(typeid(G)), {a.erased(), b.erased()}, [](Wiring &cw, std::span<const WiringPortRef> in) -> std::optional<WiringPortRef> {
        return G::compose(cw, Port<S0>{cw, in[0]}, Port<S1>{cw, in[1]}).erased();
    });
    return R{w, std::move(*out)};
}
}  // namespace hk

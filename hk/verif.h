// Harness API shared by the symbolic engine (symx intercepts these by name) and the native
// replay runtime (hk/verif_native.cpp implements them by reading a model file).
#pragma once
#include <cstdint>

extern "C" {
// A fresh 64-bit symbolic input. Named "<name>#<k>" where k counts calls with that name on
// the current path (deterministic, so native replay hands out the same values in order).
std::int64_t verif_i64(const char *name);
// Constrain the current path; an unsatisfiable assumption silently ends the path.
void verif_assume(bool cond);
// The property: reported (with a model) when pc && !cond is satisfiable.
void verif_assert(bool cond, const char *id);
// Unconditional failure of the property on this path.
void verif_fail(const char *id);
// Vacuity guard: counts paths that reach this label; keeps one witness model per label.
void verif_reach(const char *label);
// Trace record used for the symbolic-vs-native differential (value may be symbolic).
void verif_log(const char *label, std::int64_t value);
// Fork over every feasible value of v (bounded) so that it is concrete afterwards.
std::int64_t verif_concretize(std::int64_t v);
// End this path normally right here (used after the interesting part of a harness).
void verif_end_path(void);
// Cooperative threads (symx: interpreter threads scheduled at synchronisation points).
int verif_spawn(void (*fn)(void *), void *arg);
void verif_join(int tid);
void verif_yield(void);
// Virtual wall clock (nanoseconds since epoch) used to stub system_clock/steady_clock.
std::int64_t verif_clock_ns(void);
void verif_clock_set_ns(std::int64_t ns);
// Every read of system_clock/steady_clock returns the virtual clock and then advances it by a fresh symbolic
// input "clk#k" in [step_lo, step_hi] ns (a fixed step when lo == hi; default 1000).  A timed condition wait
// draws "late#k" in [0, late_max_us] at entry (enumerated); if it runs into its deadline the clock moves to
// max(clock, deadline) + late microseconds.  Symbolic deadlines are made concrete by solver-driven enumeration.
void verif_clock_config(std::int64_t step_lo, std::int64_t step_hi, std::int64_t late_max_us);
// Optional, defined by a harness: called while the (single) thread waits on a condition variable with the
// mutex released - the environment's chance to push a value or request a stop "while the loop is waiting".
void verif_wait_hook(void);
}

static inline std::int64_t verif_range(const char *name, std::int64_t lo, std::int64_t hi) {
    std::int64_t v = verif_i64(name);
    verif_assume(v >= lo);
    verif_assume(v <= hi);
    return v;
}
// Enumerated choice in [0, n): concrete on every path after the call.
static inline int verif_choice(const char *name, int n) {
    return (int)verif_concretize(verif_range(name, 0, n - 1));
}
static inline bool verif_bool(const char *name) { return verif_choice(name, 2) != 0; }
// Symbolic boolean that is NOT forked eagerly.
static inline bool verif_sbool(const char *name) { return verif_range(name, 0, 1) != 0; }

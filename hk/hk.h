// Harness kit: common includes, event log + recording LifecycleObserver, helpers.
#pragma once
#include <hgraph/runtime/runtime.h>
#include <hgraph/runtime/lifecycle_observer.h>
#include <hgraph/types/graph_wiring.h>
#include <hgraph/types/static_node.h>

#include "verif.h"

namespace hk {
using namespace hgraph;
using Int = std::int64_t;

inline std::int64_t us(DateTime t) { return (t - MIN_ST).count(); }
inline DateTime at_us(std::int64_t v) { return MIN_ST + TimeDelta{v}; }

// Fixed-capacity event log (no allocation, cheap to execute symbolically).
enum EvKind : int { EV_GRAPH_BEGIN = 1, EV_GRAPH_END, EV_NODE_BEGIN, EV_NODE_END, EV_START_NODE, EV_STOP_NODE, EV_START_FAIL, EV_STOP_FAIL, EV_USER };
struct Event { int kind; int depth; std::int64_t node; DateTime t; std::int64_t a; };
template <int CAP> struct EventLog {
    Event ev[CAP];
    int n = 0;
    bool overflow = false;
    void add(int kind, int depth, std::int64_t node, DateTime t, std::int64_t a = 0) {
        if (n < CAP) ev[n++] = Event{kind, depth, node, t, a}; else overflow = true;
    }
};

inline int graph_depth(const GraphView &g) {
    // depth is only used as a label: 0 root, 1 any nested graph
    return g.is_root() ? 0 : 1;
}

template <int CAP> struct RecordingObserver : LifecycleObserver {
    EventLog<CAP> *log;
    explicit RecordingObserver(EventLog<CAP> *l) : log(l) {}
    void on_before_graph_evaluation(const GraphView &g) override { log->add(EV_GRAPH_BEGIN, graph_depth(g), -1, g.evaluation_time()); }
    void on_after_graph_evaluation(const GraphView &g) override { log->add(EV_GRAPH_END, graph_depth(g), -1, g.evaluation_time()); }
    void on_before_node_evaluation(const NodeView &n) override { log->add(EV_NODE_BEGIN, graph_depth(n.graph()), (std::int64_t)n.node_index(), n.graph().evaluation_time()); }
    void on_after_node_evaluation(const NodeView &n) override { log->add(EV_NODE_END, graph_depth(n.graph()), (std::int64_t)n.node_index(), n.graph().evaluation_time()); }
    void on_after_start_node(const NodeView &n) override { log->add(EV_START_NODE, graph_depth(n.graph()), (std::int64_t)n.node_index(), n.graph().evaluation_time()); }
    void on_after_stop_node(const NodeView &n) override { log->add(EV_STOP_NODE, graph_depth(n.graph()), (std::int64_t)n.node_index(), n.graph().evaluation_time()); }
    void on_start_node_failed(const NodeView &n) override { log->add(EV_START_FAIL, graph_depth(n.graph()), (std::int64_t)n.node_index(), n.graph().evaluation_time()); }
    void on_stop_node_failed(const NodeView &n) override { log->add(EV_STOP_FAIL, graph_depth(n.graph()), (std::int64_t)n.node_index(), n.graph().evaluation_time()); }
};

// Run a built graph in simulation between start and end (exclusive) with an observer.
inline void run_sim(GraphBuilder gb, DateTime start, DateTime end, LifecycleObserver *obs = nullptr) {
    GraphExecutorBuilder eb;
    eb.graph_builder(std::move(gb)).start_time(start).end_time(end);
    if (obs) eb.add_lifecycle_observer(obs);
    GraphExecutorValue ex = eb.make_executor();
    ex.view().run();
}
}  // namespace hk

// C20 harness kit: schema shapes and producer-side history drivers shared by C20_delta (unit) and C20_graph.
//   A history is created by mutating a stand-alone real TSOutput through the ordinary output mutation API
//   (what a producer node does), one batch per cycle: TS leaves / window pushes tick or not with symbolic
//   payloads; keyed collections receive key-set primitives over the concrete key universe {1..NKEYS}.
#pragma once
#include "hk.h"

#include <hgraph/types/time_series/ts_delta.h>
#include <hgraph/types/time_series/ts_input.h>
#include <hgraph/types/time_series/ts_output.h>

#ifndef NPRIM
#define NPRIM 2  // key-set primitives per root-level keyed collection per cycle (nested collections: 1)
#endif
#ifndef NPRIM5
#define NPRIM5 1  // primitives per cycle at the root of the nested TSD<int,TSS<int>> shape
#endif
#ifndef NKEYS
#define NKEYS 2  // concrete key universe {1..NKEYS}
#endif
#ifndef VMAX
#define VMAX 1000
#endif

namespace hk::c20 {
using namespace hk;
using BundleSet = TSB<"C20BundleSet", Field<"a", TS<Int>>, Field<"s", TSS<Int>>>;
using BundleDict = TSB<"C20BundleDict", Field<"d", TSD<Int, TS<Int>>>, Field<"x", TS<Int>>>;
constexpr int NSHAPES = 10;

inline const TSValueTypeMetaData *shape_schema(int shape) {
    switch (shape) {
        case 0: return schema_descriptor<TS<Int>>::ts_meta();
        case 1: return schema_descriptor<TSS<Int>>::ts_meta();
        case 2: return schema_descriptor<TSD<Int, TS<Int>>>::ts_meta();
        case 3: return schema_descriptor<TSL<TS<Int>, 2>>::ts_meta();
        case 4: return schema_descriptor<BundleSet>::ts_meta();
        case 5: return schema_descriptor<TSD<Int, TSS<Int>>>::ts_meta();
        case 6: return schema_descriptor<BundleDict>::ts_meta();
        case 7: return schema_descriptor<TSW<Int, 2, 1>>::ts_meta();
        case 8: return schema_descriptor<TSL<TS<Int>>>::ts_meta();  // dynamic list
        default: return schema_descriptor<TSW<Int, 3, 2>>::ts_meta();  // tick window that is invalid below 2 elements
    }
}

inline bool g_empty_tick = false;   // a collection got an empty tick (touch / no-op add / no-op remove) while already valid
inline bool g_readd = false;        // a key removed and re-added in one cycle
inline bool g_add_remove = false;   // a key added and removed again in one cycle
inline bool g_removed = false;      // a live key removed
inline bool g_child_only = false;   // only a child of an existing TSD key / TSB field / TSL element ticked

inline Value key_value(int k) { return Value{Int{k}}; }
inline Int sym_val() { return verif_range("v", -VMAX, VMAX); }

// ---- drivers: ordinary producer-side mutation of A (never through apply_delta) -------------------
inline void drive(const TSOutputView &out, DateTime t, bool nested);

inline void drive_ts(const TSOutputView &out, DateTime t) {
    Value v{sym_val()};
    auto m = out.begin_mutation(t);
    (void)m.copy_value_from(v.view());
}

// key-set primitives on a TSS: 0 none, 1..NKEYS add k, NKEYS+1..2NKEYS remove k, 2NKEYS+1 touch
// (must: the first primitive is not "none" - the element of a TSD key always ticks when it is upserted)
inline void drive_tss(const TSOutputView &out, DateTime t, int nprim, bool must = false) {
    auto set = out.as_set();
    bool added_now[NKEYS + 1] = {}, removed_now[NKEYS + 1] = {};
    for (int p = 0; p < nprim; p++) {
        int op = (must && p == 0) ? 1 + verif_choice("sop1", 2 * NKEYS + 1) : verif_choice("sop", 2 * NKEYS + 2);
        if (op == 0) break;
        bool was_valid = out.valid();
        auto m = set.begin_mutation(t);
        if (op <= NKEYS) {
            int k = op;
            Value kv = key_value(k);
            bool did = m.add(kv.view());
            if (did && removed_now[k]) g_readd = true;
            if (did) added_now[k] = true;
            if (!did && was_valid) g_empty_tick = true;
        } else if (op <= 2 * NKEYS) {
            int k = op - NKEYS;
            Value kv = key_value(k);
            bool did = m.remove(kv.view());
            if (did && added_now[k]) g_add_remove = true;
            if (did && !added_now[k]) g_removed = true;
            if (did) removed_now[k] = true;
            if (!did && was_valid) g_empty_tick = true;
        } else {
            m.touch();
            if (was_valid) g_empty_tick = true;
        }
    }
}

// TSD primitives: 0 none, 1..NKEYS upsert k (element driven recursively), NKEYS+1..2NKEYS erase k, 2NKEYS+1 touch
inline void drive_tsd(const TSOutputView &out, DateTime t, int nprim) {
    auto dict = out.as_dict();
    const bool child_is_set = out.schema()->element_ts()->kind == TSTypeKind::TSS;
    bool removed_now[NKEYS + 1] = {}, added_now[NKEYS + 1] = {};
    for (int p = 0; p < nprim; p++) {
        int op = verif_choice("dop", 2 * NKEYS + 2);
        if (op == 0) break;
        bool was_valid = out.valid();
        auto m = dict.begin_mutation(t);
        if (op <= NKEYS) {
            int k = op;
            Value kv = key_value(k);
            bool existed = dict.contains(kv.view());
            if (existed) g_child_only = true;
            if (!existed && removed_now[k]) g_readd = true;
            if (!existed) added_now[k] = true;
            auto child = m.at(kv.view());
            TSOutputView cv{out.output(), child, t};
            if (child_is_set) drive_tss(cv, t, 1, true); else drive_ts(cv, t);
        } else if (op <= 2 * NKEYS) {
            int k = op - NKEYS;
            Value kv = key_value(k);
            bool did = m.erase(kv.view());
            if (did && added_now[k]) g_add_remove = true;
            if (did && !added_now[k]) g_removed = true;
            if (did) removed_now[k] = true;
        } else {
            m.touch();
            if (was_valid) g_empty_tick = true;
        }
    }
}

inline void drive_indexed(const TSOutputView &out, DateTime t) {
    const std::size_t n = out.data_view().indexed_child_count();
    bool was_valid = out.valid();
    int ticked = 0;
    for (std::size_t i = 0; i < n; i++) {
        auto child = out.indexed_child_at(i);
        const auto ck = child.schema()->kind;
        if (ck == TSTypeKind::TS) {
            if (!verif_bool("child")) continue;
            drive_ts(child, t);
            ticked++;
        } else {
            drive(child, t, true);
            if (child.modified()) ticked++;
        }
    }
    if (was_valid && ticked == 1) g_child_only = true;
}

inline void drive_dynamic_list(const TSOutputView &out, DateTime t) {
    // dynamic TSL<TS<int>>: tick element 0 and/or 1 (the list grows on first access; no holes)
    int which = verif_choice("elems", 4);
    auto list = out.as_list();
    for (std::size_t i = 0; i < 2; i++) {
        if (!((which >> i) & 1)) continue;
        if (i > list.size()) continue;
        auto child = list.at(i);
        drive_ts(child, t);
    }
}

inline void drive_window(const TSOutputView &out, DateTime t) {
    if (!verif_bool("tick")) return;
    Value v{sym_val()};
    auto w = out.as_window();
    w.begin_mutation(t).push(v.view());
}

inline void drive(const TSOutputView &out, DateTime t, bool nested) {
    const auto *schema = out.schema();
    switch (schema->kind) {
        case TSTypeKind::TS:
            if (verif_bool("tick")) drive_ts(out, t);
            break;
        case TSTypeKind::TSS: drive_tss(out, t, nested ? 1 : NPRIM); break;
        case TSTypeKind::TSD: drive_tsd(out, t, nested ? 1 : (schema->element_ts()->kind == TSTypeKind::TSS ? NPRIM5 : NPRIM)); break;
        case TSTypeKind::TSW: drive_window(out, t); break;
        case TSTypeKind::TSL:
            if (schema->fixed_size() == 0) { drive_dynamic_list(out, t); break; }
            drive_indexed(out, t);
            break;
        default: drive_indexed(out, t); break;
    }
}


inline bool set_delta_empty(const ValueView &d) {
    auto b = d.as_bundle();
    return b.at(0).as_indexed_view().size() == 0 && b.at(1).as_indexed_view().size() == 0;
}
inline bool dict_delta_empty(const ValueView &d) {
    auto b = d.as_bundle();
    return b.at(0).as_indexed_view().size() == 0 && b.at(1).as_map().size() == 0;
}
inline bool views_equal(const ValueView &a, const ValueView &b) {
    if (a.has_value() != b.has_value()) return false;
    if (!a.has_value()) return true;
    return a.equals(b);
}

// ---- classification of the two reported input classes --------------------------------------------
struct CycleClass {
    bool dedup = false;     // d carries an empty set/dict delta for a position that ticked in A and is already valid in B
    bool validate = false;  // d carries an empty set/dict delta for a TSB field that never ticked in A (invalid in A and in B)
};
inline void classify(const TSValueTypeMetaData *schema, const ValueView &d, const TSInputView &a, const TSOutputView &bpre, CycleClass &cc) {
    if (!d.has_value()) return;
    switch (schema->kind) {
        case TSTypeKind::TSS:
            if (a.modified() && bpre.valid() && set_delta_empty(d)) cc.dedup = true;
            break;
        case TSTypeKind::TSD: {
            if (a.modified() && bpre.valid() && dict_delta_empty(d)) cc.dedup = true;
            auto bundle = d.as_bundle();
            auto removed = bundle.at(0).as_indexed_view();
            auto modified = bundle.at(1).as_map();
            auto da = a.as_dict();
            auto db = bpre.as_dict();
            for (int k = 1; k <= NKEYS; k++) {
                Value kv = key_value(k);
                if (!modified.contains(kv.view()) || !db.contains(kv.view()) || !da.contains(kv.view())) continue;
                bool re_created = false;
                for (std::size_t i = 0; i < removed.size(); i++) re_created |= removed.at(i).equals(kv.view());
                if (re_created) continue;
                auto ca = da.at(kv.view());
                auto cb = db.at(kv.view());
                classify(schema->element_ts(), modified.at(kv.view()), ca, cb, cc);
            }
            break;
        }
        case TSTypeKind::TSB: {
            auto bundle = d.as_bundle();
            for (std::size_t i = 0; i < schema->field_count(); i++) {
                const auto *fs = schema->fields()[i].type;
                auto ca = a.indexed_child_at(i);
                auto cb = bpre.indexed_child_at(i);
                auto fd = bundle.at(i);
                if (!fd.has_value()) continue;
                const bool coll = fs->kind == TSTypeKind::TSS || fs->kind == TSTypeKind::TSD;
                if (coll && !ca.valid() && !ca.modified() && !cb.valid()) { cc.validate = true; continue; }
                if (ca.modified()) classify(fs, fd, ca, cb, cc);
            }
            break;
        }
        default: break;
    }
}

}  // namespace hk::c20

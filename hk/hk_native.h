// Harness kit: a NATIVE-callback compute node (NodeBuilder::native - the registration path of non-static nodes:
// Python nodes, low-level C++ nodes) with two TS<Int> inputs a (slot 0) and b (slot 1), a TS<Int> output and a
// NodeScheduler.  Its readiness is decided by node.cpp ready_to_evaluate from NodeTypeMetaData::valid_inputs
// (static nodes never take that path: they gate inside their evaluate callback and are always "ready" for
// node.cpp evaluate_impl), so it is the subject for everything in evaluate_impl that depends on `do_eval`:
// the scheduler tail (advance / re-arm) of an evaluation that did not run user code.
//   The harness supplies the behaviour through hooks; the node logs every user-code run and keeps a pointer to its
//   NodeSchedulerState so that an observer can probe the scheduler's queries between cycles.
#pragma once
#include "hk.h"

namespace hkn {
using namespace hk;

struct Hooks {
    void (*on_start)(const NodeScheduler &s, DateTime now) = nullptr;                                     // inside callbacks.start
    void (*on_eval)(const NodeScheduler &s, DateTime now, Int a, bool a_mod, Int b, bool b_mod) = nullptr;  // inside callbacks.evaluate
};
inline Hooks g_hooks;
inline NodeSchedulerState *g_sched_state = nullptr;  // the node's persistent scheduler state (valid while the graph lives)
inline bool g_started = false;
inline bool g_stopped = false;

struct native_ab_tag {};

inline NodeScheduler scheduler_of(const NodeView &view, DateTime t) {
    return NodeScheduler{view.scheduler_state(), view.graph_value(), view.node_index(), t, view.started()};
}

// a: active (unless a_active=false), b: active iff b_active; both required valid (valid_inputs = {0,1}).
inline NodeBuilder native_ab_builder(bool b_active) {
    const auto *ts_int = schema_descriptor<TS<Int>>::ts_meta();
    NodeTypeMetaData schema;
    schema.display_name = "native_ab";
    schema.input_schema = TypeRegistry::instance().un_named_tsb({{"a", ts_int}, {"b", ts_int}});
    schema.output_schema = ts_int;
    schema.node_kind = NodeKind::Compute;
    schema.uses_scheduler = true;
    schema.active_inputs = b_active ? std::vector<std::size_t>{0, 1} : std::vector<std::size_t>{0};
    schema.valid_inputs = std::vector<std::size_t>{0, 1};

    NodeCallbacks cb;
    cb.start = [](const NodeView &view, DateTime t) {
        g_sched_state = &view.scheduler_state();
        g_started = true;
        if (g_hooks.on_start) g_hooks.on_start(scheduler_of(view, t), t);
    };
    cb.evaluate = [](const NodeView &view, DateTime t) {
        auto root = view.input(t);
        auto bundle = root.as_bundle();
        auto a = bundle[0];
        auto b = bundle[1];
        Int av = a.valid() ? a.value().checked_as<Int>() : Int{-7777777};
        Int bv = b.valid() ? b.value().checked_as<Int>() : Int{-7777777};
        if (g_hooks.on_eval) g_hooks.on_eval(scheduler_of(view, t), t, av, a.modified(), bv, b.modified());
        auto mutation = view.output(t).begin_mutation(t);
        (void)mutation.move_value_from(Value{Int{av + 2 * bv}});
    };
    cb.stop = [](const NodeView &, DateTime) { g_stopped = true; };
    return NodeBuilder::native(std::move(schema), std::move(cb));
}

inline Port<TS<Int>> wire_native_ab(Wiring &w, Port<TS<Int>> a, Port<TS<Int>> b, bool b_active = false) {
    namespace gd = hgraph::graph_wiring_detail;
    const auto *ts_int = schema_descriptor<TS<Int>>::ts_meta();
    std::vector<WiringPortRef> inputs;
    inputs.push_back(gd::adapt_source_for_input(w, ts_int, a.erased()));
    inputs.push_back(gd::adapt_source_for_input(w, ts_int, b.erased()));
    NodeBuilder nb = native_ab_builder(b_active);
    nb.input_endpoint(gd::input_endpoint_for_sources(nb.type().schema()->input_schema, std::span<const WiringPortRef>{inputs.data(), inputs.size()}));
    WiringPortRef out = w.add_node(std::type_index(typeid(native_ab_tag)), std::move(nb), inputs, Value{});
    return Port<TS<Int>>{w, std::move(out)};
}
}  // namespace hkn

// ---------------------------------------------------------------------------------------------------------------
// Shared scenario for C03_native_gate / C18_sched_native: two scripted sources a, b (each emits g_n[k] values:
// first at start+off, then after symbolic gaps) feed the native node; the node asks for a wake-up at start+d0
// in start() and, in its first run, for another one rd later (rd == 0: none).  Everything that happened is
// recorded; the harnesses compare it with their models.
#ifndef NEMIT
#define NEMIT 2
#endif
#ifndef OMAX
#define OMAX 3
#endif
#ifndef GMAX
#define GMAX 3
#endif
#ifndef DMAX
#define DMAX 6
#endif
#ifndef RDMAX
#define RDMAX 3
#endif
#ifndef VMAX
#define VMAX 1000
#endif

namespace hkn {
constexpr int WIN = OMAX + GMAX * (NEMIT - 1) + DMAX + RDMAX + 2;
constexpr int MAXREQ = 2;
constexpr int MAXRUN = 2 * NEMIT + MAXREQ + 2;
constexpr int MAXCYC = 2 * NEMIT + MAXREQ + 4;

struct Emit { DateTime t; Int v; };
struct Req { DateTime issued, when; };
struct Run { DateTime t; Int a, b; bool a_mod, b_mod, sched_now, is_sched; DateTime next; int nreq_before; };
struct Probe { DateTime now; bool is_sched; DateTime next; int nreq_before; };

inline int g_n[2];               // emissions of source k (enumerated)
inline Int g_off[2];             // first emission offset from start (symbolic, 0..OMAX)
inline Int g_gap[2][NEMIT];      // later gaps (symbolic, 1..GMAX)
inline Int g_val[2][NEMIT];      // payloads (symbolic)
inline Int g_d0 = 0, g_rd = 0;   // wake-up requested in start() at start+d0; in the first run at now+rd (0: none)
inline bool g_b_active = false;
inline Emit g_emit[2][NEMIT];
inline int g_nemit[2] = {0, 0};
inline Req g_req[MAXREQ];
inline int g_nreq = 0;
inline Run g_run[MAXRUN];
inline int g_nrun = 0;
inline DateTime g_nodeev[MAXCYC];  // times at which the graph evaluated the native node (user code may or may not have run)
inline int g_nnodeev = 0;
inline Probe g_probe[MAXCYC];      // scheduler queries after every root cycle
inline int g_nprobe = 0;
inline bool g_overflow = false;
inline std::size_t g_node_index = static_cast<std::size_t>(-1);
inline bool g_threw = false;

struct NSrc {
    static constexpr auto name = "native_src";
    static void start(NodeScheduler s, Scalar<"id", Int> id) {
        int k = (int)id.value();
        if (g_n[k] > 0) s.schedule(s.now() + TimeDelta{g_off[k]});
    }
    static void eval(NodeScheduler s, State<Int> n, Scalar<"id", Int> id, Out<TS<Int>> out, DateTime now) {
        int k = (int)id.value();
        Int j = n.get();
        if (j < g_n[k]) {
            out.set(g_val[k][j]);
            g_emit[k][g_nemit[k]++] = Emit{now, g_val[k][j]};
            if (j + 1 < g_n[k]) s.schedule(TimeDelta{g_gap[k][j + 1]});
        }
        n.set(j + 1);
    }
};
struct NSink {
    static constexpr auto name = "native_sink";
    static void eval(In<"x", TS<Int>> x, State<Int> acc) { acc.set(acc.get() + x.value()); }
};

inline void scenario_on_start(const NodeScheduler &s, DateTime now) {
    s.schedule(now + TimeDelta{g_d0});
    g_req[g_nreq++] = Req{now, now + TimeDelta{g_d0}};
}
inline void scenario_on_eval(const NodeScheduler &s, DateTime now, Int a, bool a_mod, Int b, bool b_mod) {
    if (g_nrun < MAXRUN) g_run[g_nrun] = Run{now, a, b, a_mod, b_mod, s.is_scheduled_now(), s.is_scheduled(), s.next_scheduled_time(), g_nreq}; else g_overflow = true;
    if (g_nrun == 0 && g_rd > 0) {
        s.schedule(TimeDelta{g_rd});
        g_req[g_nreq++] = Req{now, now + TimeDelta{g_rd}};
    }
    g_nrun++;
}

struct ScenarioObserver : LifecycleObserver {
    void on_before_node_evaluation(const NodeView &n) override {
        if (!n.graph().is_root() || n.node_index() != g_node_index) return;
        if (g_nnodeev < MAXCYC) g_nodeev[g_nnodeev++] = n.graph().evaluation_time(); else g_overflow = true;
    }
    void on_after_graph_evaluation(const GraphView &g) override {
        if (!g.is_root() || g_sched_state == nullptr) return;
        DateTime now = g.evaluation_time();
        NodeScheduler q{*g_sched_state, nullptr, 0, now};
        if (g_nprobe < MAXCYC) g_probe[g_nprobe++] = Probe{now, q.is_scheduled(), q.next_scheduled_time(), g_nreq}; else g_overflow = true;
    }
};

struct ScenarioTop {
    static constexpr auto name = "native_scenario";
    static void compose(Wiring &w) {
        auto a = wire<NSrc>(w, Int{0});
        auto b = wire<NSrc>(w, Int{1});
        auto g = wire_native_ab(w, a, b, g_b_active);
        wire<NSink>(w, g);
    }
};

// choose inputs, build and run.  Returns the start time; window end = start + WIN.
inline DateTime run_scenario() {
    g_b_active = verif_bool("b_active");
    for (int k = 0; k < 2; k++) g_n[k] = verif_choice("nemit", NEMIT + 1);
    for (int k = 0; k < 2; k++) {
        g_off[k] = verif_range("off", 0, OMAX);
        for (int j = 0; j < NEMIT; j++) {
            g_gap[k][j] = verif_range("gap", 1, GMAX);
            g_val[k][j] = verif_range("val", -VMAX, VMAX);
        }
    }
    g_d0 = verif_range("d0", 1, DMAX);
    g_rd = verif_range("rd", 0, RDMAX);
    g_hooks.on_start = &scenario_on_start;
    g_hooks.on_eval = &scenario_on_eval;
    const DateTime start = at_us(1000);
    ScenarioObserver obs;
    try {
        GraphBuilder gb = build_graph<ScenarioTop>();
        // the native node's index: the only node named native_ab
        for (std::size_t i = 0; i < gb.nodes().size(); i++) {
            const auto *schema = gb.nodes()[i].type().schema();
            if (schema != nullptr && schema->display_name != nullptr && std::string_view{schema->display_name} == "native_ab") g_node_index = i;
        }
        run_sim(std::move(gb), start, start + TimeDelta{WIN}, &obs);
    } catch (const std::exception &) {
        g_threw = true;
    }
    return start;
}

// ---- model helpers (branch-free over symbolic times)
inline bool emitted_at(int k, DateTime t) {
    bool r = false;
    for (int j = 0; j < g_nemit[k]; j++) r |= g_emit[k][j].t == t;
    return r;
}
inline bool valid_at(int k, DateTime t) {  // source k has written at or before t
    bool r = false;
    for (int j = 0; j < g_nemit[k]; j++) r |= g_emit[k][j].t <= t;
    return r;
}
inline Int latest_at(int k, DateTime t) {  // emissions of one source are in increasing time order
    Int v = -7777777;
    for (int j = 0; j < g_nemit[k]; j++) v = (g_emit[k][j].t <= t) ? g_emit[k][j].v : v;
    return v;
}
inline bool wake_due_at(DateTime t) {  // a request made strictly before t for exactly t
    bool r = false;
    for (int i = 0; i < g_nreq; i++) r |= (g_req[i].when == t) & (g_req[i].issued < t);
    return r;
}
inline bool ran_at(DateTime t) {
    bool r = false;
    for (int i = 0; i < g_nrun && i < MAXRUN; i++) r |= g_run[i].t == t;
    return r;
}
inline bool node_evaluated_at(DateTime t) {
    bool r = false;
    for (int i = 0; i < g_nnodeev; i++) r |= g_nodeev[i] == t;
    return r;
}
}  // namespace hkn

// hk_c09 (`hk_nested` of DESIGN.md C09): wire a sub-graph definition G as a NESTED child graph, mirroring
// subgraph_wiring.h `nested_<G>` (build_subgraph_call + compile_subgraph_impl + nested_), whose own template body
// crashes the clang-14 frontend.  Everything that does real work is the repository's code:
//   graph_wiring_detail::adapt_source_for_input, subgraph_wiring_detail::boundary_shape,
//   Wiring::child_wiring, WiringPortRef::boundary_source shapes, G::compose, Wiring::finish_subgraph,
//   single_nested_graph_node, graph_wiring_detail::input_endpoint_for_sources, Wiring::add_node (factory overload).
// Mirrored step by step (differences: Port parameters only - no Scalar parameters, so the interning scalar bundle
// is the empty Value; the pack is expanded through helper functions instead of folds over nested lambdas):
//   1. collect the outer sources, adapt them for the declared schema, derive the boundary shapes
//   2. compile G against a child wiring whose Port parameters carry those shapes; finish_subgraph
//      (label = G::name); move captured outer sources and external service inputs behind the declared inputs
//   3. outer node input TSB {"0": s0, "1": s1, ...} over compiled.input_schemas
//   4. add_node(nested marker, {input, output}, inputs, scalars, factory -> single_nested_graph_node(meta, spec)
//      + input_endpoint_for_sources)
#pragma once
#include <hgraph/runtime/nested_graph_node.h>
#include <hgraph/types/graph_wiring.h>
#include <hgraph/types/metadata/type_registry.h>
#include <hgraph/types/static_node.h>
#include <hgraph/types/subgraph_wiring.h>

#include <string>
#include <typeindex>
#include <utility>
#include <vector>

namespace hk::c09 {
using namespace hgraph;

template <class G> struct nested_marker {};

namespace detail {
struct Plan {
    std::vector<WiringPortRef> inputs;
    std::vector<WiringPortRef> shapes;
    std::vector<const TSValueTypeMetaData *> input_schemas;
};
// ParamS: the schema G::compose declares for this Port parameter; ArgS: the schema of the supplied outer port
// (they differ e.g. for a REF<TS<..>> boundary fed by a plain TS source: adapt_source_for_input inserts the adapter).
template <class ParamS, class ArgS> inline int add_input(Wiring &w, Plan &p, const Port<ArgS> &arg) {
    const auto *expected = schema_descriptor<ParamS>::ts_meta();
    WiringPortRef ref = graph_wiring_detail::adapt_source_for_input(w, expected, arg.erased());
    p.shapes.push_back(subgraph_wiring_detail::boundary_shape(ref, p.inputs.size(), {}));
    p.inputs.push_back(std::move(ref));
    p.input_schemas.push_back(expected);
    return 0;
}
template <class G, class... ParamS, std::size_t... I>
inline auto call_compose(Wiring &cw, const Plan &p, std::index_sequence<I...>) {
    return G::compose(cw, Port<ParamS>{cw, p.shapes[I]}...);
}
}  // namespace detail

// G: sub-graph definition; OutS: schema of G's returned port; ParamS...: schemas of G::compose's Port parameters.
template <class G, class OutS, class... ParamS> struct nested_fn {
    template <class... ArgS> static Port<OutS> call(Wiring &w, const Port<ArgS> &...args) {
        static_assert(sizeof...(ArgS) == sizeof...(ParamS), "one outer port per Port parameter");
        detail::Plan plan;
        [[maybe_unused]] int expand[] = {0, detail::add_input<ParamS, ArgS>(w, plan, args)...};

        Wiring cw = w.child_wiring();
        auto out = detail::call_compose<G, ParamS...>(cw, plan, std::index_sequence_for<ParamS...>{});
        CompiledSubGraph compiled = std::move(cw).finish_subgraph(out.erased(), std::move(plan.input_schemas));
        compiled.graph_builder.label(std::string{G::name});

        std::vector<WiringPortRef> inputs = std::move(plan.inputs);
        for (WiringPortRef &captured : compiled.captured_inputs) inputs.push_back(std::move(captured));
        compiled.captured_inputs.clear();
        for (NestedServiceInput &external : compiled.external_service_inputs)
            inputs.push_back(subgraph_wiring_detail::materialize_external_service_input(w, std::move(external)));
        compiled.external_service_inputs.clear();

        const TSValueTypeMetaData *input_schema = nullptr;
        if (!compiled.input_schemas.empty()) {
            std::vector<std::pair<std::string, const TSValueTypeMetaData *>> fields;
            fields.reserve(compiled.input_schemas.size());
            for (std::size_t i = 0; i < compiled.input_schemas.size(); ++i)
                fields.emplace_back(std::to_string(i), compiled.input_schemas[i]);
            input_schema = TypeRegistry::instance().un_named_tsb(fields);
        }

        WiringNodeSchema node_schema;
        node_schema.input = input_schema;
        node_schema.output = compiled.output_schema;

        WiringPortRef ref = w.add_node(
            std::type_index(typeid(nested_marker<G>)), node_schema,
            std::span<const WiringPortRef>{inputs.data(), inputs.size()}, Value{},
            [&]() {
                NodeTypeMetaData meta;
                meta.display_name = G::name;
                meta.input_schema = input_schema;
                meta.output_schema = compiled.output_schema;

                SingleNestedGraphNodeSpec spec;
                spec.graph_builder = std::move(compiled.graph_builder);
                spec.input_bindings = std::move(compiled.input_bindings);
                spec.output_binding = compiled.output_binding;

                NodeBuilder builder = single_nested_graph_node(std::move(meta), std::move(spec));
                builder.input_endpoint(graph_wiring_detail::input_endpoint_for_sources(
                    input_schema, std::span<const WiringPortRef>{inputs.data(), inputs.size()}));
                return builder;
            });
        return Port<OutS>{w, std::move(ref)};
    }
};

// parameter schemas == argument schemas (deduced)
template <class G, class OutS, class... S> Port<OutS> nested_call(Wiring &w, const Port<S> &...args) {
    return nested_fn<G, OutS, S...>::call(w, args...);
}

// convenience: (TS<Int>...) -> TS<Int> sub-graphs
using IntTS = TS<std::int64_t>;
template <class G> Port<IntTS> nested0(Wiring &w) { return nested_call<G, IntTS>(w); }
template <class G> Port<IntTS> nested1(Wiring &w, const Port<IntTS> &a) { return nested_call<G, IntTS>(w, a); }
template <class G> Port<IntTS> nested2(Wiring &w, const Port<IntTS> &a, const Port<IntTS> &b) { return nested_call<G, IntTS>(w, a, b); }
}  // namespace hk::c09

// Harness kit for unit-level time-series endpoint harnesses (C04 / C05): schemas over int64,
// standalone TSOutput / TSInput construction, small read/write helpers.  No graph, no nodes.
#pragma once
#include <hgraph/types/metadata/type_registry.h>
#include <hgraph/types/time_series/ts_input.h>
#include <hgraph/types/time_series/ts_output.h>
#include <hgraph/types/value/value.h>

#include <cstdint>
#include <type_traits>

#include "verif.h"

namespace hkts {
using namespace hgraph;
using I64 = std::int64_t;
static_assert(std::is_same_v<hgraph::Int, std::int64_t>);

struct Schemas {
    const ValueTypeMetaData *i64 = nullptr;
    const ValueTypeMetaData *boolean = nullptr;
    const TSValueTypeMetaData *ts = nullptr;       // TS<int>
    const TSValueTypeMetaData *sig = nullptr;      // SIGNAL
    const TSValueTypeMetaData *tss = nullptr;      // TSS<int>
    const TSValueTypeMetaData *tsd = nullptr;      // TSD<int, TS<int>>
    const TSValueTypeMetaData *tsb = nullptr;      // TSB{a: TS<int>, b: TS<int>}
    const TSValueTypeMetaData *tsl2 = nullptr;     // TSL<TS<int>, 2>
    const TSValueTypeMetaData *tsl_dyn = nullptr;  // TSL<TS<int>> (dynamic)
    const TSValueTypeMetaData *tsd_tsb = nullptr;  // TSD<int, TSB{a,b}>
    const TSValueTypeMetaData *tsd_tss = nullptr;  // TSD<int, TSS<int>>
};
inline const Schemas &schemas() {
    static Schemas s = [] {
        Schemas r;
        auto &reg = TypeRegistry::instance();
        r.i64 = reg.register_scalar<Int>("int");
        r.boolean = reg.register_scalar<bool>("bool");
        r.ts = reg.ts(r.i64);
        r.sig = reg.signal();
        r.tss = reg.tss(r.i64);
        r.tsd = reg.tsd(r.i64, r.ts);
        r.tsb = reg.tsb("VerifAB", {{"a", r.ts}, {"b", r.ts}});
        r.tsl2 = reg.tsl(r.ts, 2);
        r.tsl_dyn = reg.tsl(r.ts, 0);
        r.tsd_tsb = reg.tsd(r.i64, r.tsb);
        r.tsd_tss = reg.tsd(r.i64, r.tss);
        return r;
    }();
    return s;
}

// A consumer endpoint: TSInput with a non-peered root TSB{x: S} whose field x is a peered terminal
// (the shape every node input has).  view(t) returns the bindable position x at evaluation time t.
struct Consumer {
    TSInput input;
    Notifiable *notifier = nullptr;
    static const TSValueTypeMetaData *root_schema(const TSValueTypeMetaData *s, const char *name) {
        return TypeRegistry::instance().tsb(name, {{"x", s}});
    }
    Consumer(const TSValueTypeMetaData *s, const char *root_name, Notifiable *n = nullptr)
        : input(TSInputBuilderFactory::checked_builder_for(
              *root_schema(s, root_name),
              TSEndpointSchema::non_peered(root_schema(s, root_name), {TSEndpointSchema::peered(s)}))),
          notifier(n) {}
    TSInputView view(DateTime t) {
        auto root = input.view(notifier, t);
        auto bundle = root.as_bundle();
        return bundle.field("x");
    }
};

struct CountingNotifiable : Notifiable {
    int count = 0;
    DateTime last = MIN_DT;
    void notify(DateTime t) override { count++; last = t; }
};

// Reach labels are recorded while the path runs and emitted at its end, after every symbolic input has been
// drawn, so that the witness model kept for a label replays natively as a complete run.
struct ReachLog {
    const char *labels[64];
    int n = 0;
    void mark(const char *label) {
        for (int i = 0; i < n; i++) if (labels[i] == label) return;
        if (n < 64) labels[n++] = label;
    }
    void flush() { for (int i = 0; i < n; i++) verif_reach(labels[i]); n = 0; }
};

inline I64 as_i64(const ValueView &v) { return v.checked_as<Int>(); }

// write a TS<int> position (producer side)
inline bool write_i64(const TSOutputView &pos, DateTime t, I64 v) {
    Value wrapped{Int{v}};
    auto m = pos.begin_mutation(t);
    return m.copy_value_from(wrapped.view());
}
inline bool invalidate(const TSOutputView &pos, DateTime t) {
    auto m = pos.begin_mutation(t);
    return m.invalidate();
}
}  // namespace hkts

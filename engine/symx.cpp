// symx: bounded symbolic executor for LLVM 14 IR, z3 back end.  See DESIGN.md section 3.2.
#include "symx.h"

#include <llvm/ADT/DenseMap.h>
#include <llvm/Demangle/Demangle.h>
#include <llvm/Linker/Linker.h>
#include <sys/resource.h>
#include <unistd.h>

#include <algorithm>
#include <cmath>
#include <cstdio>
#include <cstdlib>
#include <fstream>
#include <iostream>
#include <sstream>

using namespace llvm;

namespace symx {

z3::context *ZC = nullptr;

// ------------------------------------------------------------------ values
z3::expr bv_const_u128(u128 v, unsigned w) {
    if (w <= 64) return Z().bv_val((uint64_t)v, w);
    // build from two halves
    z3::expr lo = Z().bv_val((uint64_t)v, 64);
    unsigned hw = w - 64;
    uint64_t hiv = (uint64_t)(v >> 64);
    if (hw <= 64) return z3::concat(Z().bv_val(hiv, hw), lo);
    return z3::concat(Z().bv_val(0, hw - 64), z3::concat(Z().bv_val(hiv, 64), lo));
}
z3::expr Val::ex() const {
    if (s) return s.e();
    return bv_const_u128(c, w);
}
static bool numeral_u128(const z3::expr &e, u128 &out) {
    if (!e.is_numeral()) return false;
    unsigned w = e.get_sort().bv_size();
    if (w <= 64) { out = e.get_numeral_uint64(); return true; }
    std::string s = Z3_get_numeral_string(Z(), e);
    u128 v = 0;
    for (char ch : s) v = v * 10 + (unsigned)(ch - '0');
    out = v;
    return w <= 128;
}
Val mk(const z3::expr &x) {
    z3::expr s = x.simplify();
    u128 v;
    if (s.is_numeral() && numeral_u128(s, v)) return Val::C(s.get_sort().bv_size(), v);
    return Val::S(s);
}
static z3::expr b2bv(const z3::expr &b) { return z3::ite(b, Z().bv_val(1, 1), Z().bv_val(0, 1)); }
static z3::expr bv2b(const Val &v) { return (v.ex() == Z().bv_val(1, 1)).simplify(); }

// ------------------------------------------------------------------ memory objects
struct Obj {
    int rc = 0;
    uint64_t base = 0, size = 0;
    bool freed = false;
    uint8_t kind = 0;  // 0 global, 1 heap, 2 stack
    std::vector<uint8_t> b;
    struct SB { SymRef e; uint16_t idx; uint16_t n; };
    std::unique_ptr<std::map<uint32_t, SB>> sb;
    Obj() = default;
    Obj(const Obj &o) : base(o.base), size(o.size), freed(o.freed), kind(o.kind), b(o.b) {
        if (o.sb) sb = std::make_unique<std::map<uint32_t, SB>>(*o.sb);
    }
};
struct ObjRef {
    Obj *p = nullptr;
    ObjRef() = default;
    explicit ObjRef(Obj *o) : p(o) { if (p) ++p->rc; }
    ObjRef(const ObjRef &o) : p(o.p) { if (p) ++p->rc; }
    ObjRef(ObjRef &&o) noexcept : p(o.p) { o.p = nullptr; }
    ObjRef &operator=(const ObjRef &o) { if (o.p) ++o.p->rc; rel(); p = o.p; return *this; }
    ObjRef &operator=(ObjRef &&o) noexcept { if (this != &o) { rel(); p = o.p; o.p = nullptr; } return *this; }
    ~ObjRef() { rel(); }
    void rel() { if (p && --p->rc == 0) delete p; p = nullptr; }
    Obj *operator->() const { return p; }
};

// ------------------------------------------------------------------ pre-decoded functions
struct Opnd {
    int32_t slot = -1;           // >= 0: register slot
    const Constant *c = nullptr;  // otherwise constant
    bool cached = false;
    Val cv;
};
struct FnInfo;
struct InstInfo {
    Instruction *I = nullptr;
    unsigned op = 0;
    int32_t dst = -1;
    std::vector<Opnd> ops;
    uint32_t succ[2] = {0, 0};
    // call
    Function *callee = nullptr;
    int builtin = -1;
    // gep
    int64_t gep_const = 0;
    std::vector<std::pair<uint32_t, uint64_t>> gep_var;  // (operand index in ops, element size)
    uint64_t imm = 0;                                     // alloca elt size, type width...
};
struct PhiInfo {
    int32_t dst;
    std::vector<std::pair<uint32_t, Opnd>> inc;  // (pred bb idx, value)
};
struct FnInfo {
    Function *F = nullptr;
    std::vector<InstInfo> insts;
    std::vector<uint32_t> bb_start;          // first non-phi instruction of each bb
    std::vector<std::vector<PhiInfo>> phis;  // per bb
    uint32_t nslots = 0;
    uint32_t nargs = 0;
    bool entered = false;
    uint64_t exec_count = 0;
    std::string name;
};

// ------------------------------------------------------------------ state
using Assign = std::shared_ptr<const std::vector<uint64_t>>;
struct CNode { std::shared_ptr<CNode> prev; z3::expr e; std::vector<uint32_t> vars; uint32_t n; CNode(std::shared_ptr<CNode> p, z3::expr x, std::vector<uint32_t> v) : prev(std::move(p)), e(x), vars(std::move(v)) { n = prev ? prev->n + 1 : 1; } };
struct LogNode { std::shared_ptr<LogNode> prev; std::string label; Val v; int kind; };  // kind 0 log,1 reach,2 assert-fail
struct InputNode { std::shared_ptr<InputNode> prev; std::string name; z3::expr e; InputNode(std::shared_ptr<InputNode> p, std::string n, z3::expr x) : prev(std::move(p)), name(std::move(n)), e(x) {} };

struct Frame {
    FnInfo *fi = nullptr;
    uint32_t pc = 0;
    uint32_t bb = 0;
    std::vector<Val> regs;
    size_t stack_mark = 0;
    uint64_t sp_mark = 0;
    const InstInfo *callsite = nullptr;  // in the caller's FnInfo
    int after_ret = 0;                    // engine continuation after this frame returns (0 none)
    uint64_t after_arg = 0;
};
struct EhHeader { uint64_t obj = 0; bool dependent = false; int handlers = 0; bool rethrown = false; };
struct EhObj { uint64_t tinfo = 0, dtor = 0; int refs = 0; };

enum ThStatus { TH_RUN = 0, TH_BLOCK_MUTEX, TH_BLOCK_COND, TH_BLOCK_JOIN, TH_DONE };
struct Thread {
    std::vector<Frame> st;
    std::vector<ObjRef> stack_objs;
    uint64_t sp = 0;
    std::map<const GlobalVariable *, uint64_t> tls;
    std::vector<uint64_t> caught;  // EH headers being handled
    int uncaught = 0;
    int status = TH_RUN;
    uint64_t wait_obj = 0;   // mutex/cond/thread waited for
    uint64_t wait_mutex = 0; // for cond waits: mutex to re-acquire
    bool timed = false;      // timed wait (may time out)
    bool notified = false;
    bool timed_out = false;
    bool reacquire = false;  // blocked re-acquiring a mutex after a condition wait
    int ret_slot = -1, ret_frame = -1;  // where a timed wait's return code lives
    uint64_t hook_cv = 0, hook_mutex = 0;  // single-threaded wait: condvar being waited on while verif_wait_hook runs
    bool hook_timed = false;
    Val wait_deadline;
    Val pending_late;   // lateness drawn at wait entry (kept across the restart of a forking builtin)
    int64_t wait_late = 0;
    std::vector<std::pair<uint64_t, uint64_t>> tls_dtors;
};

struct State {
    std::vector<Thread> th;
    int cur = 0;
    std::vector<ObjRef> heap;  // globals + heap objects, sorted by base (bump allocated)
    uint64_t brk = 0;
    Assign model;                   // an assignment of all symbolic inputs that satisfies the path condition
    std::shared_ptr<CNode> pc;      // path condition (persistent list)
    std::vector<uint32_t> uf;       // union-find over input variables: which constraints share variables
    std::map<unsigned, std::pair<z3::expr, bool>> known;  // ast id -> (expr kept alive so the id is not recycled, truth value implied by pc)
    std::shared_ptr<InputNode> inputs;
    std::shared_ptr<LogNode> log;
    std::map<std::string, int> name_count;
    std::map<uint64_t, EhHeader> eh_hdr;
    std::map<uint64_t, EhObj> eh_obj;
    std::map<uint64_t, int> mutex_owner;  // mutex addr -> tid+1
    std::map<uint64_t, int> mutex_count;  // recursion depth
    std::map<uint64_t, std::shared_ptr<std::string>> oss;  // engine-side model of std::ostringstream contents (keyed by object address)
    uint64_t steps = 0;
    uint64_t dhash = 1469598103934665603ULL;
    uint32_t depth = 0;
    Val clock;
    int64_t clk_step_lo = 1000, clk_step_hi = 1000, clk_late_max = 0;
    bool gated = false;
    int preempt = 0;
    std::string decisions;  // compact decision string (for diagnostics)
    uint32_t enum_budget = 0;
    std::map<std::string, uint32_t> reach_seen, assert_cnt, assert_proved;  // per-path counters, merged into the totals when the path completes
    mutable int mru[2] = {-1, -1};
};

struct Pending { State S; };

struct Violation { std::string id; std::string kind; std::map<std::string, std::string> model; std::string where; std::string decisions; };

struct Options {
    std::vector<std::string> modules;
    std::string out, entry = "harness_main";
    uint64_t max_steps = 400000000ULL;      // per path
    uint64_t max_total_steps = 0;           // 0: unlimited
    double max_wall = 0;                    // seconds, 0 unlimited
    unsigned query_timeout_ms = 10000;
    unsigned shard = 0, nshards = 1, shard_depth = 6;
    unsigned max_viol_per_id = 3;
    unsigned enum_cap = 64;
    unsigned max_samples = 24;
    int max_preempt = 2;
    std::string concrete_file;  // run with concrete inputs from file
    std::string sched;          // schedule choices to follow in concrete mode
    std::string dump_dir;       // thorough tier: dump discharged assertion queries for the second-solver cross-check
    unsigned dump_max = 40, dump_every = 7;
    bool verbose = false;
    bool trace_calls = false;
    uint64_t max_paths = 0;
};

struct Engine;
using Builtin = std::function<bool(Engine &, State &, const InstInfo &, std::vector<Val> &)>;

struct Engine {
    Module &M;
    const DataLayout &DL;
    Options opt;
    DenseMap<const GlobalValue *, uint64_t> gaddr;
    std::unordered_map<uint64_t, Function *> faddr;
    DenseMap<const Function *, FnInfo *> finfo;
    std::vector<std::unique_ptr<FnInfo>> finfo_store;
    std::unordered_map<std::string, int> builtin_id;
    std::vector<Builtin> builtins;
    std::vector<std::string> builtin_names;
    std::map<uint64_t, std::vector<std::pair<uint64_t, int64_t>>> ti_bases;  // typeinfo addr -> (base typeinfo addr, offset)
    std::map<uint64_t, std::string> ti_name;
    std::map<uint64_t, int> typeid_for;
    std::set<const GlobalVariable *> tls_globals;
    std::vector<Pending> pending;

    // statistics
    uint64_t paths = 0, paths_ok = 0, paths_infeasible = 0, paths_error = 0, paths_inconclusive = 0, paths_skipped_shard = 0;
    uint64_t total_steps = 0, queries = 0, q_sat = 0, q_unsat = 0, q_unknown = 0, forks = 0, states = 0;
    uint64_t model_hits = 0;
    double solver_s = 0;
    uint64_t cache_hits = 0, sliced_constraints = 0, total_constraints = 0;
    std::chrono::steady_clock::time_point t0;
    std::vector<Violation> violations;
    std::map<std::string, unsigned> viol_count;
    std::map<std::string, uint64_t> reach;
    std::map<std::string, std::map<std::string, std::string>> reach_witness;
    std::map<std::string, uint64_t> asserts_checked, asserts_proved_by_solver;
    std::map<std::string, uint64_t> error_kinds, inconclusive_kinds;
    std::vector<std::string> error_samples;
    struct Sample { std::map<std::string, std::string> model; std::vector<std::pair<std::string, std::string>> trace; std::string decisions; uint64_t steps; };
    std::vector<Sample> samples;
    std::set<uint64_t> nontrivial_hashes;
    std::set<std::string> stubs_hit;
    std::map<std::string, int64_t> concrete_inputs;
    bool concrete_mode = false;
    bool stop_all = false;
    size_t sched_pos = 0;
    unsigned dumped_queries = 0;
    std::map<std::string, uint64_t> unsat_sites;
    bool init_phase = false;
    uint64_t init_steps = 0;

    Engine(Module &m, Options o) : M(m), DL(m.getDataLayout()), opt(std::move(o)) {}

    // ---------------------------------------------------------------- solver
    // Input variables (all 64-bit), indexed in creation order
    std::vector<z3::expr> var_exprs;
    std::unordered_map<unsigned, uint32_t> var_index;  // ast id -> index
    uint32_t var_of(const z3::expr &v) {
        auto it = var_index.find(v.id());
        if (it != var_index.end()) return it->second;
        uint32_t i = (uint32_t)var_exprs.size();
        var_exprs.push_back(v);
        var_index[v.id()] = i;
        return i;
    }
    struct VarsMemo { z3::expr e; std::vector<uint32_t> vars; };
    std::unordered_map<unsigned, VarsMemo> vars_memo;
    const std::vector<uint32_t> &vars_in(const z3::expr &e) {
        auto it = vars_memo.find(e.id());
        if (it != vars_memo.end()) return it->second.vars;
        std::set<uint32_t> out;
        std::set<unsigned> seen;
        std::vector<z3::expr> st{e};
        while (!st.empty()) {
            z3::expr x = st.back(); st.pop_back();
            if (!seen.insert(x.id()).second) continue;
            if (x.is_app()) {
                if (x.num_args() == 0) { if (x.decl().decl_kind() == Z3_OP_UNINTERPRETED) out.insert(var_of(x)); }
                else for (unsigned i = 0; i < x.num_args(); i++) st.push_back(x.arg(i));
            }
        }
        if (vars_memo.size() > 500000) vars_memo.clear();
        auto r = vars_memo.emplace(e.id(), VarsMemo{e, std::vector<uint32_t>(out.begin(), out.end())});
        return r.first->second.vars;
    }
    static uint32_t uf_find(std::vector<uint32_t> &uf, uint32_t x) {
        while (uf.size() <= x) uf.push_back((uint32_t)uf.size());
        while (uf[x] != x) { uf[x] = uf[uf[x]]; x = uf[x]; }
        return x;
    }
    void solver_init() {}
    struct QCache { std::vector<z3::expr> keep; int res; std::vector<std::pair<uint32_t, uint64_t>> vals; };
    std::unordered_map<uint64_t, std::vector<QCache>> qcache;
    // check pc && extra with a fresh solver over the constraints that (transitively) share
    // variables with `extra`; returns 1 sat, 0 unsat, -1 unknown.  On sat, *out is a full assignment.
    int check(State &S, const z3::expr &extra, Assign *out, bool is_assert = false) {
        auto t = std::chrono::steady_clock::now();
        queries++;
        const std::vector<uint32_t> &qv = vars_in(extra);
        std::set<uint32_t> roots;
        for (uint32_t v : qv) roots.insert(uf_find(S.uf, v));
        std::vector<z3::expr> rel;
        std::vector<unsigned> ids;
        std::set<uint32_t> slice_vars(qv.begin(), qv.end());
        for (auto n = S.pc; n; n = n->prev) {
            total_constraints++;
            if (n->vars.empty()) continue;
            if (roots.count(uf_find(S.uf, n->vars[0]))) { rel.push_back(n->e); ids.push_back(n->e.id()); slice_vars.insert(n->vars.begin(), n->vars.end()); }
        }
        sliced_constraints += rel.size();
        std::sort(ids.begin(), ids.end());
        ids.erase(std::unique(ids.begin(), ids.end()), ids.end());
        uint64_t h = 1469598103934665603ULL ^ extra.id();
        for (unsigned id : ids) h = (h ^ id) * 1099511628211ULL;
        int res = -2;
        const std::vector<std::pair<uint32_t, uint64_t>> *vals = nullptr;
        auto &bucket = qcache[h];
        for (auto &qc : bucket) {
            if (qc.keep.size() != ids.size() + 1 || qc.keep[0].id() != extra.id()) continue;
            bool same = true;
            for (size_t i = 0; i < ids.size(); i++) if (qc.keep[i + 1].id() != ids[i]) { same = false; break; }
            if (same) { res = qc.res; vals = &qc.vals; cache_hits++; break; }
        }
        if (res == -2) {
            z3::solver sv(Z(), "QF_BV");
            z3::params p(Z());
            p.set("timeout", opt.query_timeout_ms);
            sv.set(p);
            for (auto &e : rel) sv.add(e);
            sv.add(extra);
            if (const char *dq = getenv("SYMX_DUMP")) if ((uint64_t)atoll(dq) == queries) { std::cerr << sv.to_smt2() << std::endl; }
            z3::check_result r = sv.check();
            if (is_assert && r == z3::unsat && !opt.dump_dir.empty() && dumped_queries < opt.dump_max && (q_unsat % opt.dump_every) == 0) {
                std::ofstream f(opt.dump_dir + "/q_" + std::to_string(opt.shard) + "_" + std::to_string(dumped_queries++) + ".smt2");
                f << "(set-logic QF_BV)\n" << sv.to_smt2() << "\n";
            }
            res = r == z3::sat ? 1 : (r == z3::unsat ? 0 : -1);
            QCache qc;
            qc.res = res;
            qc.keep.push_back(extra);
            {
                std::map<unsigned, z3::expr> byid;
                for (auto &e : rel) byid.emplace(e.id(), e);
                for (unsigned id : ids) qc.keep.push_back(byid.at(id));
            }
            if (res == 1) {
                z3::model m = sv.get_model();
                for (uint32_t v : slice_vars) {
                    z3::expr val = m.eval(var_exprs[v], true);
                    u128 x = 0;
                    numeral_u128(val, x);
                    qc.vals.push_back({v, (uint64_t)x});
                }
            }
            if (qcache.size() > 400000) qcache.clear();
            auto &bk = qcache[h];
            bk.push_back(std::move(qc));
            vals = &bk.back().vals;
            if (res == 1) q_sat++; else if (res == 0) q_unsat++; else q_unknown++;
        }
        if (res == 1 && out) {
            auto a = std::make_shared<std::vector<uint64_t>>(S.model ? *S.model : std::vector<uint64_t>());
            for (auto &kv : *vals) { if (a->size() <= kv.first) a->resize(kv.first + 1, 0); (*a)[kv.first] = kv.second; }
            *out = a;
        }
        solver_s += std::chrono::duration<double>(std::chrono::steady_clock::now() - t).count();
        return res;
    }
    void add_constraint(State &S, const z3::expr &c) {
        const std::vector<uint32_t> &vs = vars_in(c);
        S.pc = std::make_shared<CNode>(S.pc, c, vs);
        for (size_t i = 1; i < vs.size(); i++) { uint32_t a = uf_find(S.uf, vs[0]), b = uf_find(S.uf, vs[i]); if (a != b) S.uf[b] = a; }
        if (!vs.empty()) uf_find(S.uf, vs[0]);
        note_known(S, c, true);
    }
    void note_known(State &S, const z3::expr &c, bool v) {
        S.known.insert_or_assign(c.id(), std::make_pair(c, v));
        if (c.is_not()) { z3::expr a = c.arg(0); S.known.insert_or_assign(a.id(), std::make_pair(a, !v)); }
    }
    z3::expr eval_under(const Assign &a, const z3::expr &e) {
        const std::vector<uint32_t> &vs = vars_in(e);
        if (vs.empty()) return e.simplify();
        z3::expr_vector src(Z()), dst(Z());
        for (uint32_t v : vs) { src.push_back(var_exprs[v]); dst.push_back(Z().bv_val((uint64_t)(a && v < a->size() ? (*a)[v] : 0), 64)); }
        z3::expr x = e;
        return x.substitute(src, dst).simplify();
    }
    bool model_bool(State &S, const z3::expr &c) {
        z3::expr r = eval_under(S.model, c);
        if (r.is_true()) return true;
        if (r.is_false()) return false;
        throw PathEnd{PathEnd::Error, "model evaluation did not yield a boolean"};
    }
    u128 model_bv(State &S, const z3::expr &e) {
        z3::expr r = eval_under(S.model, e);
        u128 v;
        if (!numeral_u128(r, v)) throw PathEnd{PathEnd::Error, "model evaluation did not yield a numeral"};
        return v;
    }
    std::map<std::string, std::string> model_inputs(State &S, const Assign &m) {
        std::map<std::string, std::string> r;
        for (auto n = S.inputs; n; n = n->prev) {
            uint32_t v = var_of(n->e);
            uint64_t x = (m && v < m->size()) ? (*m)[v] : 0;
            r[n->name] = std::to_string((int64_t)x);
        }
        return r;
    }

    // Decide a symbolic boolean; forks when both sides are feasible.  Returns the side this
    // state continues on.  `on_other` prepares the forked state (already copied) for the other side.
    // Shard ownership hashes must be canonical: a function of the decisions taken (which side / which concrete
    // value), never of which side the current model happened to pick - models differ between shard processes.
    static uint64_t mix(uint64_t h, uint64_t v) { return (h ^ (v + 0x9e3779b97f4a7c15ULL)) * 1099511628211ULL; }
    bool decide(State &S, const z3::expr &cond, const std::function<void(State &, bool)> &on_other, bool enumerating = false, uint64_t enum_value = 0) {
        auto kn = S.known.find(cond.id());
        if (kn != S.known.end()) return kn->second.second;
        bool mv = model_bool(S, cond);
        model_hits++;
        z3::expr other = mv ? !cond : cond;
        Assign m2;
        int r = check(S, other, &m2);
        if (r == 1) {
            forks++;
            Pending P{S};
            P.S.model = m2;
            add_constraint(P.S, other);
            if (!enumerating) { P.S.dhash = mix(P.S.dhash, mv ? 0 : 1); P.S.depth++; }  // an enumerating fork's other side picks its own value later
            P.S.decisions.push_back(mv ? '0' : '1');
            on_other(P.S, !mv);
            pending.push_back(std::move(P));
            add_constraint(S, mv ? cond : !cond);
            S.decisions.push_back(mv ? '1' : '0');
            if (!enumerating) { S.dhash = mix(S.dhash, mv ? 1 : 0); S.depth++; shard_gate(S); }
        } else if (r == 0) {
            if (opt.verbose) { Frame &f = S.th[S.cur].st.back(); std::string k = f.fi->name.substr(0, 90); if (f.pc > 0) { const DebugLoc &dl = f.fi->insts[f.pc - 1].I->getDebugLoc(); if (dl) k += ":" + std::to_string(dl.getLine()); } unsat_sites[k]++; }
            note_known(S, cond, mv);
        } else {
            inconclusive_kinds["solver unknown on branch (other side dropped)"]++;
            add_constraint(S, mv ? cond : !cond);
        }
        return mv;
    }
    void shard_gate(State &S) {
        if (opt.nshards > 1 && !S.gated && S.depth >= opt.shard_depth) {
            S.gated = true;
            if ((S.dhash >> 17) % opt.nshards != opt.shard) throw PathEnd{PathEnd::Infeasible, "other shard"};
        }
    }
    bool shard_owns_short_path(State &S) {
        if (opt.nshards <= 1 || S.gated) return true;
        return (S.dhash >> 17) % opt.nshards == opt.shard;
    }

    // Make a value concrete by forking over its feasible values.
    // The forked (other) state re-executes the current instruction with v != chosen.
    u128 concretize(State &S, const Val &v, const char *what) {
        if (!v.sym()) return v.c;
        u128 mv = model_bv(S, v.s.e());
        z3::expr eq = v.s.e() == bv_const_u128(mv, v.w);
        if (S.enum_budget >= opt.enum_cap) {
            inconclusive_kinds[std::string("enumeration cap hit for ") + what]++;
            add_constraint(S, eq);
            return mv;
        }
        bool took = decide(S, eq, [&](State &O, bool) {
            // re-execute the current instruction in the other state
            Frame &f = O.th[O.cur].st.back();
            f.pc--;
            O.enum_budget++;
        }, /*enumerating=*/true, (uint64_t)mv);
        if (!took) throw PathEnd{PathEnd::Error, "concretize: model value infeasible"};
        S.enum_budget = 0;
        // canonical: every concretisation of a symbolic value contributes the chosen value, whether or not other
        // values were feasible and in whatever order the model proposed them
        S.dhash = mix(S.dhash, 0x5bd1e995ULL + (uint64_t)mv * 2654435761ULL);
        S.depth++;
        shard_gate(S);
        return mv;
    }

    // ---------------------------------------------------------------- memory
    static uint64_t stack_base(int tid) { return 0x700000000000ULL + (uint64_t)tid * 0x10000000ULL; }
    bool is_stack_addr(uint64_t a) const { return a >= 0x700000000000ULL && a < 0x700000000000ULL + 64ULL * 0x10000000ULL; }

    uint64_t alloc(State &S, uint64_t size, uint64_t align, uint8_t kind = 1) {
        if (align < 16) align = 16;
        S.brk = (S.brk + align - 1) & ~(align - 1);
        Obj *o = new Obj();
        o->base = S.brk;
        o->size = size;
        o->kind = kind;
        o->b.assign(size, 0);
        S.heap.emplace_back(o);
        S.brk += size + 16;  // red zone
        return o->base;
    }
    uint64_t alloc_stack(State &S, Thread &T, uint64_t size, uint64_t align) {
        if (align < 8) align = 8;
        T.sp = (T.sp + align - 1) & ~(align - 1);
        Obj *o = new Obj();
        o->base = T.sp;
        o->size = size;
        o->kind = 2;
        o->b.assign(size, 0);
        T.stack_objs.emplace_back(o);
        T.sp += size + 8;
        return o->base;
    }
    ObjRef *lookup(State &S, uint64_t a) {
        std::vector<ObjRef> *vec = &S.heap;
        if (is_stack_addr(a)) {
            int tid = (int)((a - 0x700000000000ULL) / 0x10000000ULL);
            if (tid >= (int)S.th.size()) return nullptr;
            vec = &S.th[tid].stack_objs;
        } else {
            for (int k = 0; k < 2; k++) {
                int i = S.mru[k];
                if (i >= 0 && i < (int)vec->size()) { Obj *o = (*vec)[i].p; if (a >= o->base && a < o->base + (o->size ? o->size : 1)) return &(*vec)[i]; }
            }
        }
        size_t lo = 0, hi = vec->size();
        while (lo < hi) { size_t mid = (lo + hi) / 2; if ((*vec)[mid]->base <= a) lo = mid + 1; else hi = mid; }
        if (lo == 0) return nullptr;
        ObjRef *r = &(*vec)[lo - 1];
        if (vec == &S.heap) { S.mru[1] = S.mru[0]; S.mru[0] = (int)(lo - 1); }
        return r;
    }
    Obj *find(State &S, uint64_t a, uint64_t n, bool write) {
        ObjRef *r = lookup(S, a);
        if (!r) mem_error(S, a, n, write, "no object");
        Obj *o = r->p;
        if (a < o->base || a + n > o->base + o->size) mem_error(S, a, n, write, "out of bounds");
        if (o->freed) mem_error(S, a, n, write, "use after free");
        if (write && o->rc > 1) { Obj *c = new Obj(*o); *r = ObjRef(c); o = c; }
        return o;
    }
    [[noreturn]] void mem_error(State &S, uint64_t a, uint64_t n, bool write, const char *why) {
        std::ostringstream os;
        os << "memory error: " << (write ? "store" : "load") << " of " << n << " bytes at 0x" << std::hex << a << " (" << why << ")";
        throw PathEnd{PathEnd::Error, os.str()};
    }
    void free_obj(State &S, uint64_t a) {
        if (!a) return;
        ObjRef *r = lookup(S, a);
        if (!r || r->p->base != a || r->p->kind != 1) throw PathEnd{PathEnd::Error, "memory error: invalid free"};
        if (r->p->freed) throw PathEnd{PathEnd::Error, "memory error: double free"};
        Obj *t = new Obj();
        t->base = r->p->base; t->size = r->p->size; t->freed = true; t->kind = 1;
        *r = ObjRef(t);
    }

    Val load(State &S, uint64_t a, unsigned bits) {
        unsigned n = (bits + 7) / 8;
        Obj *o = find(S, a, n, false);
        uint64_t off = a - o->base;
        bool anysym = false;
        if (o->sb) {
            auto it = o->sb->lower_bound((uint32_t)off);
            if (it != o->sb->end() && it->first < off + n) anysym = true;
        }
        if (!anysym) {
            u128 v = 0;
            for (unsigned i = 0; i < n && i < 16; i++) v |= (u128)o->b[off + i] << (8 * i);
            return Val::C(bits, v);
        }
        // fast path: exactly one stored value
        auto it0 = o->sb->find((uint32_t)off);
        if (it0 != o->sb->end() && it0->second.idx == 0 && it0->second.n == n) {
            bool whole = true;
            for (unsigned i = 1; i < n; i++) { auto it = o->sb->find((uint32_t)(off + i)); if (it == o->sb->end() || it->second.e.p != it0->second.e.p || it->second.idx != i) { whole = false; break; } }
            if (whole) {
                const z3::expr &e = it0->second.e.e();
                unsigned ew = e.get_sort().bv_size();
                if (ew == bits) return Val::S(e);
                if (ew > bits) return mk(e.extract(bits - 1, 0));
            }
        }
        z3::expr r(Z());
        bool first = true;
        for (int i = (int)n - 1; i >= 0; i--) {
            auto it = o->sb->find((uint32_t)(off + i));
            z3::expr by = it != o->sb->end() ? byte_of(it->second) : Z().bv_val((unsigned)o->b[off + i], 8);
            r = first ? by : z3::concat(r, by);
            first = false;
        }
        if (bits < n * 8) r = r.extract(bits - 1, 0);
        return mk(r);
    }
    static z3::expr byte_of(const Obj::SB &sb) {
        const z3::expr &e = sb.e.e();
        unsigned ew = e.get_sort().bv_size();
        unsigned lo = sb.idx * 8, hi = lo + 7;
        if (hi >= ew) {  // value narrower than its byte footprint (e.g. i1 in a byte)
            if (lo >= ew) return Z().bv_val(0, 8);
            return z3::zext(e.extract(ew - 1, lo), 8 - (ew - lo));
        }
        return e.extract(hi, lo);
    }
    void store(State &S, uint64_t a, const Val &v) {
        unsigned n = (v.w + 7) / 8;
        Obj *o = find(S, a, n, true);
        uint64_t off = a - o->base;
        if (!v.sym()) {
            for (unsigned i = 0; i < n; i++) o->b[off + i] = i < 16 ? (uint8_t)(v.c >> (8 * i)) : 0;
            if (o->sb) { for (unsigned i = 0; i < n; i++) o->sb->erase((uint32_t)(off + i)); if (o->sb->empty()) o->sb.reset(); }
            return;
        }
        if (!o->sb) o->sb = std::make_unique<std::map<uint32_t, Obj::SB>>();
        for (unsigned i = 0; i < n; i++) (*o->sb)[(uint32_t)(off + i)] = Obj::SB{v.s, (uint16_t)i, (uint16_t)n};
    }
    void copy_bytes(State &S, uint64_t d, uint64_t s, uint64_t len) {
        if (!len) return;
        Obj *so = find(S, s, len, false);
        // snapshot source (may alias destination object)
        uint64_t soff = s - so->base;
        std::vector<uint8_t> tmp(so->b.begin() + soff, so->b.begin() + soff + len);
        std::vector<std::pair<uint32_t, Obj::SB>> syms;
        if (so->sb) for (auto it = so->sb->lower_bound((uint32_t)soff); it != so->sb->end() && it->first < soff + len; ++it) syms.push_back({(uint32_t)(it->first - soff), it->second});
        Obj *dobj = find(S, d, len, true);
        uint64_t doff = d - dobj->base;
        std::memcpy(&dobj->b[doff], tmp.data(), len);
        if (dobj->sb) { auto b = dobj->sb->lower_bound((uint32_t)doff), e = dobj->sb->lower_bound((uint32_t)(doff + len)); dobj->sb->erase(b, e); if (dobj->sb->empty()) dobj->sb.reset(); }
        if (!syms.empty()) {
            if (!dobj->sb) dobj->sb = std::make_unique<std::map<uint32_t, Obj::SB>>();
            for (auto &kv : syms) {
                // a partially copied multi-byte value must be re-expressed as a byte value
                Obj::SB sb = kv.second;
                bool whole = sb.idx <= kv.first && (uint64_t)kv.first - sb.idx + sb.n <= len;
                if (!whole) { sb = Obj::SB{SymRef(byte_of(kv.second).simplify()), 0, 1}; }
                (*dobj->sb)[(uint32_t)(doff + kv.first)] = sb;
            }
        }
    }
    std::string read_cstr(State &S, uint64_t p, size_t max = 4096) {
        std::string r;
        for (size_t i = 0; i < max; i++) { Val ch = load(S, p + i, 8); if (ch.sym()) throw PathEnd{PathEnd::Error, "symbolic C string"}; if (!ch.c) break; r.push_back((char)ch.c); }
        return r;
    }

    // ---------------------------------------------------------------- types
    unsigned tw(Type *t) const {
        if (t->isPointerTy()) return 64;
        if (t->isIntegerTy()) return t->getIntegerBitWidth();
        if (t->isFloatTy()) return 32;
        if (t->isDoubleTy()) return 64;
        if (t->isX86_FP80Ty()) return 80;
        if (t->isHalfTy()) return 16;
        return 0;
    }
    Val load_ty(State &S, uint64_t a, Type *t) {
        if (unsigned w = tw(t)) return load(S, a, w);
        if (auto *st = dyn_cast<StructType>(t)) {
            auto *sl = DL.getStructLayout(st);
            std::vector<Val> v;
            for (unsigned i = 0; i < st->getNumElements(); i++) v.push_back(load_ty(S, a + sl->getElementOffset(i), st->getElementType(i)));
            return Val::Agg(std::move(v));
        }
        if (auto *at = dyn_cast<ArrayType>(t)) {
            uint64_t es = DL.getTypeAllocSize(at->getElementType());
            std::vector<Val> v;
            for (unsigned i = 0; i < at->getNumElements(); i++) v.push_back(load_ty(S, a + i * es, at->getElementType()));
            return Val::Agg(std::move(v));
        }
        throw PathEnd{PathEnd::Error, "load of unsupported type"};
    }
    void store_ty(State &S, uint64_t a, Type *t, const Val &v) {
        if (tw(t)) { if (v.w == 80) { Val x = v; store(S, a, x); return; } store(S, a, v); return; }
        if (auto *st = dyn_cast<StructType>(t)) {
            auto *sl = DL.getStructLayout(st);
            for (unsigned i = 0; i < st->getNumElements(); i++) store_ty(S, a + sl->getElementOffset(i), st->getElementType(i), v.agg->at(i));
            return;
        }
        if (auto *at = dyn_cast<ArrayType>(t)) {
            uint64_t es = DL.getTypeAllocSize(at->getElementType());
            for (unsigned i = 0; i < at->getNumElements(); i++) store_ty(S, a + i * es, at->getElementType(), v.agg->at(i));
            return;
        }
        throw PathEnd{PathEnd::Error, "store of unsupported type"};
    }
    Val zero_of(Type *t) {
        if (unsigned w = tw(t)) return Val::C(w, 0);
        std::vector<Val> v;
        if (auto *st = dyn_cast<StructType>(t)) for (unsigned i = 0; i < st->getNumElements(); i++) v.push_back(zero_of(st->getElementType(i)));
        else if (auto *at = dyn_cast<ArrayType>(t)) for (unsigned i = 0; i < at->getNumElements(); i++) v.push_back(zero_of(at->getElementType()));
        else if (t->isVoidTy()) return Val();
        else throw PathEnd{PathEnd::Error, "zero of unsupported type"};
        return Val::Agg(std::move(v));
    }

    // ---------------------------------------------------------------- constants
    std::unordered_map<const Constant *, Val> ccache;
    bool tls_dependent(const Constant *c) {
        if (auto *gv = dyn_cast<GlobalVariable>(c)) return gv->isThreadLocal();
        if (isa<GlobalValue>(c)) return false;
        for (unsigned i = 0; i < c->getNumOperands(); i++) if (auto *oc = dyn_cast<Constant>(c->getOperand(i))) if (tls_dependent(oc)) return true;
        return false;
    }
    uint64_t tls_addr(State &S, const GlobalVariable *gv) {
        Thread &T = S.th[S.cur];
        auto it = T.tls.find(gv);
        if (it != T.tls.end()) return it->second;
        uint64_t sz = DL.getTypeAllocSize(gv->getValueType());
        uint64_t a = alloc(S, sz ? sz : 1, gv->getAlignment() ? gv->getAlignment() : 16, 0);
        T.tls[gv] = a;
        if (gv->hasInitializer()) init_const(S, a, gv->getInitializer());
        return a;
    }
    Val constant(State &S, const Constant *c) {
        Type *t = c->getType();
        if (auto *ci = dyn_cast<ConstantInt>(c)) {
            const APInt &v = ci->getValue();
            if (v.getBitWidth() <= 64) return Val::C(v.getBitWidth(), v.getZExtValue());
            u128 x = 0;
            for (unsigned i = 0; i < v.getNumWords() && i < 2; i++) x |= (u128)v.getRawData()[i] << (64 * i);
            return Val::C(v.getBitWidth(), x);
        }
        if (isa<ConstantPointerNull>(c)) return Val::C(64, 0);
        if (isa<UndefValue>(c) || isa<ConstantAggregateZero>(c)) return zero_of(t);
        if (auto *ga = dyn_cast<GlobalAlias>(c)) return constant(S, ga->getAliasee());
        if (auto *gv = dyn_cast<GlobalVariable>(c)) {
            if (gv->isThreadLocal()) return Val::C(64, tls_addr(S, gv));
        }
        if (auto *g = dyn_cast<GlobalValue>(c)) {
            auto it = gaddr.find(g);
            if (it == gaddr.end()) throw PathEnd{PathEnd::Error, ("no address for global " + g->getName()).str()};
            return Val::C(64, it->second);
        }
        if (auto *cf = dyn_cast<ConstantFP>(c)) {
            APInt b = cf->getValueAPF().bitcastToAPInt();
            u128 x = 0;
            for (unsigned i = 0; i < b.getNumWords() && i < 2; i++) x |= (u128)b.getRawData()[i] << (64 * i);
            return Val::C(b.getBitWidth(), x);
        }
        if (auto *ce = dyn_cast<ConstantExpr>(c)) {
            switch (ce->getOpcode()) {
                case Instruction::BitCast: case Instruction::IntToPtr: case Instruction::PtrToInt: case Instruction::AddrSpaceCast: {
                    Val v = constant(S, ce->getOperand(0));
                    return Val::C(tw(t), v.c);
                }
                case Instruction::GetElementPtr: {
                    Val b = constant(S, ce->getOperand(0));
                    APInt off(64, 0);
                    if (!cast<GEPOperator>(ce)->accumulateConstantOffset(DL, off)) throw PathEnd{PathEnd::Error, "non-constant constant GEP"};
                    return Val::C(64, b.u64() + off.getZExtValue());
                }
                case Instruction::Trunc: case Instruction::ZExt: return Val::C(tw(t), constant(S, ce->getOperand(0)).c);
                case Instruction::SExt: { Val v = constant(S, ce->getOperand(0)); return Val::C(tw(t), (u128)v.sx128()); }
                case Instruction::Select: { Val cnd = constant(S, ce->getOperand(0)); return constant(S, ce->getOperand(cnd.c ? 1 : 2)); }
                case Instruction::ICmp: return icmp((CmpInst::Predicate)ce->getPredicate(), constant(S, ce->getOperand(0)), constant(S, ce->getOperand(1)));
                default:
                    if (Instruction::isBinaryOp(ce->getOpcode())) return binop(ce->getOpcode(), constant(S, ce->getOperand(0)), constant(S, ce->getOperand(1)));
            }
        }
        if (isa<ConstantStruct>(c) || isa<ConstantArray>(c)) {
            std::vector<Val> v;
            for (unsigned i = 0; i < c->getNumOperands(); i++) v.push_back(constant(S, cast<Constant>(c->getOperand(i))));
            return Val::Agg(std::move(v));
        }
        if (auto *cds = dyn_cast<ConstantDataSequential>(c)) {
            std::vector<Val> v;
            for (unsigned i = 0; i < cds->getNumElements(); i++) v.push_back(constant(S, cds->getElementAsConstant(i)));
            return Val::Agg(std::move(v));
        }
        std::string s; raw_string_ostream os(s); c->print(os);
        throw PathEnd{PathEnd::Error, "unsupported constant " + s.substr(0, 200)};
    }
    void init_const(State &S, uint64_t a, const Constant *c) {
        Type *t = c->getType();
        if (isa<ConstantAggregateZero>(c) || isa<UndefValue>(c)) return;
        if (auto *cds = dyn_cast<ConstantDataSequential>(c)) { StringRef raw = cds->getRawDataValues(); Obj *o = find(S, a, raw.size(), true); std::memcpy(&o->b[a - o->base], raw.data(), raw.size()); return; }
        if (auto *ca = dyn_cast<ConstantArray>(c)) { uint64_t es = DL.getTypeAllocSize(ca->getType()->getElementType()); for (unsigned i = 0; i < ca->getNumOperands(); i++) init_const(S, a + i * es, ca->getOperand(i)); return; }
        if (auto *cs = dyn_cast<ConstantStruct>(c)) { auto *sl = DL.getStructLayout(cs->getType()); for (unsigned i = 0; i < cs->getNumOperands(); i++) init_const(S, a + sl->getElementOffset(i), cs->getOperand(i)); return; }
        if (tw(t)) { store(S, a, constant(S, c)); return; }
        throw PathEnd{PathEnd::Error, "unsupported global initializer"};
    }

    // ---------------------------------------------------------------- module setup
    static bool std_exception_base(const std::string &n, std::string &base) {
        static const std::map<std::string, std::string> m = {
            {"St13runtime_error", "St9exception"}, {"St11logic_error", "St9exception"}, {"St9bad_alloc", "St9exception"},
            {"St8bad_cast", "St9exception"}, {"St10bad_typeid", "St9exception"}, {"St13bad_exception", "St9exception"},
            {"St12out_of_range", "St11logic_error"}, {"St16invalid_argument", "St11logic_error"}, {"St12length_error", "St11logic_error"},
            {"St12domain_error", "St11logic_error"}, {"St11range_error", "St13runtime_error"}, {"St14overflow_error", "St13runtime_error"},
            {"St15underflow_error", "St13runtime_error"}, {"St20bad_array_new_length", "St9bad_alloc"}, {"St17bad_function_call", "St9exception"},
            {"St12system_error", "St13runtime_error"}, {"St18bad_variant_access", "St9exception"}, {"St19bad_optional_access", "St9exception"},
        };
        auto it = m.find(n);
        if (it == m.end()) return false;
        base = it->second;
        return true;
    }
    void setup_globals(State &S) {
        uint64_t fa = 0x10000;
        for (Function &f : M) { gaddr[&f] = fa; faddr[fa] = &f; fa += 16; }
        S.brk = 0x1000000;
        // pass 1: addresses
        for (GlobalVariable &g : M.globals()) {
            if (g.isThreadLocal()) { tls_globals.insert(&g); continue; }
            uint64_t sz = g.getValueType()->isSized() ? DL.getTypeAllocSize(g.getValueType()) : 0;
            if (!g.hasInitializer()) sz = std::max<uint64_t>(sz, 512);  // external object: opaque storage
            gaddr[&g] = alloc(S, sz ? sz : 1, std::max<uint64_t>(g.getAlignment(), 16), 0);
        }
        for (GlobalAlias &ga : M.aliases()) {
            if (auto *g = dyn_cast<GlobalValue>(ga.getAliasee()->stripPointerCasts())) if (gaddr.count(g)) gaddr[&ga] = gaddr[g];
        }
        // pass 2: initialisers, typeinfo metadata
        for (GlobalVariable &g : M.globals()) {
            if (g.isThreadLocal()) continue;
            uint64_t a = gaddr[&g];
            StringRef nm = g.getName();
            if (g.hasInitializer()) init_const(S, a, g.getInitializer());
            if (nm.startswith("_ZTI")) {
                std::string tn = nm.substr(4).str();
                ti_name[a] = tn;
                if (!g.hasInitializer()) {
                    // synthesise: { vptr(0), name }
                    uint64_t sa = alloc(S, tn.size() + 1, 1, 0);
                    Obj *o = find(S, sa, tn.size() + 1, true);
                    std::memcpy(&o->b[0], tn.c_str(), tn.size() + 1);
                    store(S, a + 8, Val::C(64, sa));
                } else if (auto *cs = dyn_cast<ConstantStruct>(g.getInitializer())) {
                    // {vtable, name, base}  (si)   {vtable, name, flags, nbases, [base, offset_flags]...} (vmi)
                    std::string vt;
                    if (auto *v0 = dyn_cast<Constant>(cs->getOperand(0))) if (auto *gv = dyn_cast<GlobalValue>(v0->stripInBoundsConstantOffsets())) vt = gv->getName().str();
                    if (vt.find("__si_class_type_info") != std::string::npos && cs->getNumOperands() >= 3) {
                        if (auto *b = dyn_cast<GlobalValue>(cs->getOperand(2)->stripPointerCasts())) ti_bases[a].push_back({gaddr.lookup(b), 0});
                    } else if (vt.find("__vmi_class_type_info") != std::string::npos) {
                        for (unsigned i = 4; i + 1 < cs->getNumOperands(); i += 2) {
                            auto *b = dyn_cast<GlobalValue>(cs->getOperand(i)->stripPointerCasts());
                            auto *fl = dyn_cast<ConstantInt>(cs->getOperand(i + 1));
                            if (b && fl) { int64_t f = fl->getSExtValue(); ti_bases[a].push_back({gaddr.lookup(b), (f & 1) ? INT64_MIN + (f >> 8) : (f >> 8)}); }
                        }
                    }
                }
            }
        }
        // external std exception typeinfos: base links by name
        std::map<std::string, uint64_t> by_name;
        for (auto &kv : ti_name) by_name[kv.second] = kv.first;
        for (auto &kv : ti_name) {
            std::string base;
            if (ti_bases.count(kv.first)) continue;
            if (std_exception_base(kv.second, base) && by_name.count(base)) ti_bases[kv.first].push_back({by_name[base], 0});
        }
        if (auto *g = M.getNamedGlobal("__libc_single_threaded")) store(S, gaddr[g], Val::C(8, 1));
        // External VTTs of the iostream classes (virtual inheritance): inline constructors/destructors load vtable
        // pointers from them and read the virtual-base offset at vptr[-3].  Point every entry at a fake vtable that
        // carries the right basic_ios offset so that the (stubbed) stream objects stay navigable.
        for (GlobalVariable &g : M.globals()) {
            if (g.hasInitializer() || !g.getName().startswith("_ZTT")) continue;
            StringRef nm = g.getName();
            uint64_t vboff = nm.contains("basic_ostringstream") ? 112 : nm.contains("basic_istringstream") ? 120 : nm.contains("basic_stringstream") ? 128 : 8;
            uint64_t vt = alloc(S, 64, 16, 0);
            store(S, vt, Val::C(64, vboff));
            uint64_t a = gaddr[&g];
            for (unsigned i = 0; i < 16; i++) store(S, a + 8 * i, Val::C(64, vt + 24));
        }
    }

    // find (offset) of base typeinfo `want` inside object of dynamic type `have`; returns false if not a base
    bool ti_upcast(State &S, uint64_t have, uint64_t want, uint64_t objp, int64_t &off, int depth = 0) {
        if (have == want) { off = 0; return true; }
        if (ti_name.count(have) && ti_name.count(want) && ti_name[have] == ti_name[want]) { off = 0; return true; }
        if (depth > 16) return false;
        auto it = ti_bases.find(have);
        if (it == ti_bases.end()) return false;
        for (auto &b : it->second) {
            int64_t bo = b.second;
            if (bo < 0 && bo < INT64_MIN / 2) {  // virtual base: offset stored in vtable
                int64_t vo = bo - INT64_MIN;
                if (!objp) continue;
                uint64_t vptr = load(S, objp, 64).u64();
                bo = load(S, vptr + vo, 64).sx64();
            }
            int64_t sub;
            if (ti_upcast(S, b.first, want, objp ? objp + bo : 0, sub, depth + 1)) { off = bo + sub; return true; }
        }
        return false;
    }

    FnInfo *info(Function *F) {
        auto it = finfo.find(F);
        if (it != finfo.end()) return it->second;
        auto fi = std::make_unique<FnInfo>();
        fi->F = F;
        fi->name = F->getName().str();
        DenseMap<const Value *, int32_t> slot;
        DenseMap<const BasicBlock *, uint32_t> bbidx;
        int32_t ns = 0;
        for (Argument &a : F->args()) slot[&a] = ns++;
        fi->nargs = ns;
        uint32_t nb = 0;
        for (BasicBlock &bb : *F) { bbidx[&bb] = nb++; for (Instruction &I : bb) if (!I.getType()->isVoidTy()) slot[&I] = ns++; }
        fi->nslots = ns;
        fi->bb_start.resize(nb);
        fi->phis.resize(nb);
        State *nullS = nullptr;
        auto mkop = [&](const Value *v) {
            Opnd o;
            if (auto *c = dyn_cast<Constant>(v)) {
                o.c = c;
                if (!tls_dependent(c) && !isa<ConstantExpr>(c) && !isa<ConstantAggregate>(c) && !isa<ConstantDataSequential>(c) && !isa<BlockAddress>(c)) {
                    try { o.cv = constant(*nullS, c); o.cached = true; } catch (PathEnd &) {}
                } else if (!tls_dependent(c) && !isa<BlockAddress>(c)) {
                    try { o.cv = constant(*nullS, c); o.cached = true; } catch (PathEnd &) {}
                }
            } else if (isa<MetadataAsValue>(v) || isa<InlineAsm>(v)) {
                o.cached = true; o.cv = Val::C(64, 0);
            } else if (isa<BasicBlock>(v)) {
                o.cached = true; o.cv = Val::C(64, 0);
            } else {
                auto it = slot.find(v);
                if (it == slot.end()) { o.cached = true; o.cv = Val::C(64, 0); } else o.slot = it->second;
            }
            return o;
        };
        for (BasicBlock &bb : *F) {
            uint32_t bi = bbidx[&bb];
            bool started = false;
            for (Instruction &I : bb) {
                if (auto *p = dyn_cast<PHINode>(&I)) {
                    PhiInfo ph;
                    ph.dst = slot[p];
                    for (unsigned i = 0; i < p->getNumIncomingValues(); i++) ph.inc.push_back({bbidx[p->getIncomingBlock(i)], mkop(p->getIncomingValue(i))});
                    fi->phis[bi].push_back(std::move(ph));
                    continue;
                }
                if (!started) { fi->bb_start[bi] = (uint32_t)fi->insts.size(); started = true; }
                InstInfo ii;
                ii.I = &I;
                ii.op = I.getOpcode();
                ii.dst = I.getType()->isVoidTy() ? -1 : slot[&I];
                if (auto *cb = dyn_cast<CallBase>(&I)) {
                    for (auto &a : cb->args()) ii.ops.push_back(mkop(a.get()));
                    ii.ops.push_back(mkop(cb->getCalledOperand()));
                    Function *cf = dyn_cast<Function>(cb->getCalledOperand()->stripPointerCasts());
                    ii.callee = cf;
                    if (cf) { auto b = builtin_id.find(cf->getName().str()); if (b != builtin_id.end()) ii.builtin = b->second; }
                    if (auto *inv = dyn_cast<InvokeInst>(&I)) { ii.succ[0] = bbidx[inv->getNormalDest()]; ii.succ[1] = bbidx[inv->getUnwindDest()]; }
                } else {
                    for (unsigned i = 0; i < I.getNumOperands(); i++) ii.ops.push_back(mkop(I.getOperand(i)));
                    if (auto *br = dyn_cast<BranchInst>(&I)) { for (unsigned i = 0; i < br->getNumSuccessors(); i++) ii.succ[i] = bbidx[br->getSuccessor(i)]; }
                    if (auto *g = dyn_cast<GetElementPtrInst>(&I)) {
                        unsigned oi = 1;
                        for (auto gi = gep_type_begin(g), ge = gep_type_end(g); gi != ge; ++gi, ++oi) {
                            if (StructType *st = gi.getStructTypeOrNull()) {
                                ii.gep_const += DL.getStructLayout(st)->getElementOffset(cast<ConstantInt>(gi.getOperand())->getZExtValue());
                            } else {
                                uint64_t es = DL.getTypeAllocSize(gi.getIndexedType());
                                if (auto *ci = dyn_cast<ConstantInt>(gi.getOperand())) ii.gep_const += ci->getSExtValue() * (int64_t)es;
                                else ii.gep_var.push_back({oi, es});
                            }
                        }
                    }
                    if (auto *al = dyn_cast<AllocaInst>(&I)) ii.imm = DL.getTypeAllocSize(al->getAllocatedType());
                }
                fi->insts.push_back(std::move(ii));
            }
        }
        // switch successors need bb indices: stash in a side table keyed by instruction
        for (BasicBlock &bb : *F) if (auto *sw = dyn_cast<SwitchInst>(bb.getTerminator())) {
            std::vector<uint32_t> v;
            v.push_back(bbidx[sw->getDefaultDest()]);
            for (auto &cs : sw->cases()) v.push_back(bbidx[cs.getCaseSuccessor()]);
            switch_succ[sw] = std::move(v);
        }
        FnInfo *r = fi.get();
        finfo[F] = r;
        finfo_store.push_back(std::move(fi));
        return r;
    }
    DenseMap<const SwitchInst *, std::vector<uint32_t>> switch_succ;

    // ---------------------------------------------------------------- arithmetic
    struct DivMemo { z3::expr self; z3::expr x; u128 c; bool signed_; };
    std::unordered_map<unsigned, DivMemo> div_memo, rem_memo, mul_memo;
    size_t memo_size() const { return div_memo.size() + rem_memo.size() + mul_memo.size(); }
    void memo_clear() { div_memo.clear(); rem_memo.clear(); mul_memo.clear(); }
    Val binop(unsigned op, const Val &a, const Val &b) {
        if (!a.sym() && !b.sym()) {
            unsigned w = a.w;
            u128 x = a.c, y = b.c, r = 0;
            switch (op) {
                case Instruction::Add: r = x + y; break;
                case Instruction::Sub: r = x - y; break;
                case Instruction::Mul: r = x * y; break;
                case Instruction::And: r = x & y; break;
                case Instruction::Or: r = x | y; break;
                case Instruction::Xor: r = x ^ y; break;
                case Instruction::Shl: r = y >= w ? 0 : x << (unsigned)y; break;
                case Instruction::LShr: r = y >= w ? 0 : x >> (unsigned)y; break;
                case Instruction::AShr: { i128 sx = a.sx128(); r = (u128)(y >= w ? (sx < 0 ? -1 : 0) : (sx >> (unsigned)y)); break; }
                case Instruction::UDiv: if (!y) throw PathEnd{PathEnd::Error, "division by zero"}; r = x / y; break;
                case Instruction::URem: if (!y) throw PathEnd{PathEnd::Error, "division by zero"}; r = x % y; break;
                case Instruction::SDiv: if (!y) throw PathEnd{PathEnd::Error, "division by zero"}; r = (u128)(a.sx128() / b.sx128()); break;
                case Instruction::SRem: if (!y) throw PathEnd{PathEnd::Error, "division by zero"}; r = (u128)(a.sx128() % b.sx128()); break;
                default: throw PathEnd{PathEnd::Error, "binop"};
            }
            return Val::C(w, r);
        }
        // cheap identities
        if (!b.sym()) {
            if (b.c == 0 && (op == Instruction::Add || op == Instruction::Sub || op == Instruction::Or || op == Instruction::Xor || op == Instruction::Shl || op == Instruction::LShr || op == Instruction::AShr)) return a;
            if (b.c == 0 && (op == Instruction::Mul || op == Instruction::And)) return Val::C(a.w, 0);
            if (b.c == 1 && (op == Instruction::Mul || op == Instruction::UDiv || op == Instruction::SDiv)) return a;
        }
        if (!a.sym()) {
            if (a.c == 0 && (op == Instruction::Add || op == Instruction::Or || op == Instruction::Xor)) return b;
            if (a.c == 0 && (op == Instruction::Mul || op == Instruction::And)) return Val::C(a.w, 0);
        }
        // (x div c) * c + (x rem c) == x  (timespec split/recombine of a symbolic deadline): recognised through memo tables
        if (op == Instruction::Add) {
            for (int k = 0; k < 2; k++) {
                const Val &p = k ? b : a, &q = k ? a : b;
                if (!p.sym() || !q.sym()) break;
                auto mi = mul_memo.find(p.s.e().id());
                auto ri = rem_memo.find(q.s.e().id());
                if (mi != mul_memo.end() && ri != rem_memo.end()) {
                    auto di = div_memo.find(mi->second.x.id());
                    if (di != div_memo.end() && di->second.c == mi->second.c && ri->second.c == mi->second.c && di->second.signed_ == ri->second.signed_ &&
                        di->second.x.id() == ri->second.x.id())
                        return Val::S(di->second.x);
                }
            }
        }
        z3::expr x = a.ex(), y = b.ex();
        if ((op == Instruction::SDiv || op == Instruction::UDiv || op == Instruction::SRem || op == Instruction::URem) && a.sym() && !b.sym()) {
            bool sg = op == Instruction::SDiv || op == Instruction::SRem;
            bool isdiv = op == Instruction::SDiv || op == Instruction::UDiv;
            Val r = mk(op == Instruction::SDiv ? x / y : op == Instruction::UDiv ? z3::udiv(x, y) : op == Instruction::SRem ? z3::srem(x, y) : z3::urem(x, y));
            if (r.sym()) { if (memo_size() > 200000) memo_clear(); (isdiv ? div_memo : rem_memo).insert_or_assign(r.s.e().id(), DivMemo{r.s.e(), a.s.e(), b.c, sg}); }
            return r;
        }
        if (op == Instruction::Mul && (a.sym() != b.sym())) {
            const Val &sv = a.sym() ? a : b, &cv = a.sym() ? b : a;
            Val r = mk(x * y);
            if (r.sym() && div_memo.count(sv.s.e().id())) mul_memo.insert_or_assign(r.s.e().id(), DivMemo{r.s.e(), sv.s.e(), cv.c, true});
            return r;
        }
        switch (op) {
            case Instruction::Add: return mk(x + y);
            case Instruction::Sub: return mk(x - y);
            case Instruction::Mul: return mk(x * y);
            case Instruction::And: return mk(x & y);
            case Instruction::Or: return mk(x | y);
            case Instruction::Xor: return mk(x ^ y);
            case Instruction::Shl: return mk(z3::shl(x, y));
            case Instruction::LShr: return mk(z3::lshr(x, y));
            case Instruction::AShr: return mk(z3::ashr(x, y));
            case Instruction::UDiv: return mk(z3::udiv(x, y));
            case Instruction::URem: return mk(z3::urem(x, y));
            case Instruction::SDiv: return mk(x / y);
            case Instruction::SRem: return mk(z3::srem(x, y));
        }
        throw PathEnd{PathEnd::Error, "binop sym"};
    }
    Val icmp(CmpInst::Predicate p, const Val &a, const Val &b) {
        if (!a.sym() && !b.sym()) {
            bool r = false;
            u128 x = a.c, y = b.c;
            i128 sx = a.sx128(), sy = b.sx128();
            switch (p) {
                case CmpInst::ICMP_EQ: r = x == y; break; case CmpInst::ICMP_NE: r = x != y; break;
                case CmpInst::ICMP_ULT: r = x < y; break; case CmpInst::ICMP_ULE: r = x <= y; break;
                case CmpInst::ICMP_UGT: r = x > y; break; case CmpInst::ICMP_UGE: r = x >= y; break;
                case CmpInst::ICMP_SLT: r = sx < sy; break; case CmpInst::ICMP_SLE: r = sx <= sy; break;
                case CmpInst::ICMP_SGT: r = sx > sy; break; case CmpInst::ICMP_SGE: r = sx >= sy; break;
                default: throw PathEnd{PathEnd::Error, "icmp"};
            }
            return Val::C(1, r);
        }
        z3::expr x = a.ex(), y = b.ex(), r = Z().bool_val(false);
        switch (p) {
            case CmpInst::ICMP_EQ: r = x == y; break; case CmpInst::ICMP_NE: r = x != y; break;
            case CmpInst::ICMP_ULT: r = z3::ult(x, y); break; case CmpInst::ICMP_ULE: r = z3::ule(x, y); break;
            case CmpInst::ICMP_UGT: r = z3::ugt(x, y); break; case CmpInst::ICMP_UGE: r = z3::uge(x, y); break;
            case CmpInst::ICMP_SLT: r = x < y; break; case CmpInst::ICMP_SLE: r = x <= y; break;
            case CmpInst::ICMP_SGT: r = x > y; break; case CmpInst::ICMP_SGE: r = x >= y; break;
            default: throw PathEnd{PathEnd::Error, "icmp"};
        }
        return mk(b2bv(r));
    }
    Val cast_int(const Val &v, unsigned w, bool sign) {
        if (w == v.w) return v;
        if (!v.sym()) return Val::C(w, w < v.w ? v.c : (sign ? (u128)v.sx128() : v.c));
        if (w < v.w) return mk(v.s.e().extract(w - 1, 0));
        return mk(sign ? z3::sext(v.s.e(), w - v.w) : z3::zext(v.s.e(), w - v.w));
    }
    static double d_of(const Val &v) {
        if (v.sym()) throw PathEnd{PathEnd::Inconclusive, "symbolic value reached floating point"};
        if (v.w == 32) { float f; uint32_t b = (uint32_t)v.c; std::memcpy(&f, &b, 4); return f; }
        if (v.w == 64) { double d; uint64_t b = (uint64_t)v.c; std::memcpy(&d, &b, 8); return d; }
        if (v.w == 80) { long double ld = 0; u128 c = v.c; std::memcpy(&ld, &c, 10); return (double)ld; }
        throw PathEnd{PathEnd::Error, "fp width"};
    }
    static Val of_d(double d, unsigned w) {
        if (w == 32) { float f = (float)d; uint32_t b; std::memcpy(&b, &f, 4); return Val::C(32, b); }
        if (w == 64) { uint64_t b; std::memcpy(&b, &d, 8); return Val::C(64, b); }
        if (w == 80) { long double ld = d; u128 c = 0; std::memcpy(&c, &ld, 10); return Val::C(80, c); }
        throw PathEnd{PathEnd::Error, "fp width"};
    }

    // ---------------------------------------------------------------- frames
    Val getop(State &S, Frame &F, const Opnd &o) {
        if (o.slot >= 0) return F.regs[o.slot];
        if (o.cached) return o.cv;
        return constant(S, o.c);
    }
    void jump(State &S, Frame &F, uint32_t to) {
        FnInfo *fi = F.fi;
        auto &ph = fi->phis[to];
        if (!ph.empty()) {
            std::vector<Val> tmp;
            tmp.reserve(ph.size());
            for (auto &p : ph) {
                const Opnd *src = nullptr;
                for (auto &in : p.inc) if (in.first == F.bb) { src = &in.second; break; }
                if (!src) throw PathEnd{PathEnd::Error, "phi without incoming edge"};
                tmp.push_back(getop(S, F, *src));
            }
            for (size_t i = 0; i < ph.size(); i++) F.regs[ph[i].dst] = std::move(tmp[i]);
        }
        F.bb = to;
        F.pc = fi->bb_start[to];
    }
    void enter(State &S, Function *f, std::vector<Val> args, const InstInfo *site, int after = 0, uint64_t after_arg = 0) {
        if (f->isDeclaration()) throw PathEnd{PathEnd::Error, ("external function not modelled: " + f->getName()).str()};
        FnInfo *fi = info(f);
        if (f->isVarArg()) throw PathEnd{PathEnd::Error, ("varargs function: " + f->getName()).str()};
        fi->entered = true;
        fi->exec_count++;
        Thread &T = S.th[S.cur];
        if (T.st.size() > 4000) throw PathEnd{PathEnd::Error, "stack overflow (call depth)"};
        Frame fr;
        fr.fi = fi;
        fr.regs.resize(fi->nslots);
        for (uint32_t i = 0; i < fi->nargs && i < args.size(); i++) fr.regs[i] = std::move(args[i]);
        fr.stack_mark = T.stack_objs.size();
        fr.sp_mark = T.sp;
        fr.callsite = site;
        fr.after_ret = after;
        fr.after_arg = after_arg;
        fr.bb = 0;
        fr.pc = fi->bb_start[0];
        T.st.push_back(std::move(fr));
    }
    void pop_frame(State &S, Thread &T) {
        Frame &f = T.st.back();
        T.stack_objs.resize(f.stack_mark);
        T.sp = f.sp_mark;
        T.st.pop_back();
    }
    // finish a call instruction `ii` (in the current top frame) with result rv
    void finish_call(State &S, const InstInfo &ii, const Val *rv) {
        Frame &F = S.th[S.cur].st.back();
        if (ii.dst >= 0) F.regs[ii.dst] = rv ? *rv : zero_of(ii.I->getType());
        if (ii.op == Instruction::Invoke) jump(S, F, ii.succ[0]);
    }

    // ---------------------------------------------------------------- exceptions
    int typeid_of(uint64_t ti) {
        auto it = typeid_for.find(ti);
        if (it != typeid_for.end()) return it->second;
        int id = (int)typeid_for.size() + 1;
        typeid_for[ti] = id;
        return id;
    }
    // Unwind the current thread with in-flight exception header `hdr`, starting at the call
    // site the top frame is suspended at (`site`).
    void unwind(State &S, uint64_t hdr, const InstInfo *site) {
        Thread &T = S.th[S.cur];
        EhHeader &H = S.eh_hdr[hdr];
        uint64_t thrown_ti = S.eh_obj[H.obj].tinfo;
        while (true) {
            if (T.st.empty()) throw PathEnd{PathEnd::Error, "uncaught exception (" + demangled_ti(thrown_ti) + ")" + exc_what(S, H.obj, thrown_ti)};
            Frame &F = T.st.back();
            if (site && site->op == Instruction::Invoke) {
                auto *inv = cast<InvokeInst>(site->I);
                LandingPadInst *lp = inv->getLandingPadInst();
                int sel = 0;
                bool enter_lp = lp->isCleanup();
                for (unsigned i = 0; i < lp->getNumClauses(); i++) {
                    if (!lp->isCatch(i)) { enter_lp = true; continue; }  // filter: treat as must-enter
                    Constant *c = lp->getClause(i);
                    if (isa<ConstantPointerNull>(c)) { sel = typeid_of(0); enter_lp = true; break; }
                    auto *g = dyn_cast<GlobalValue>(c->stripPointerCasts());
                    uint64_t want = g ? gaddr.lookup(g) : 0;
                    int64_t off;
                    if (want && ti_upcast(S, thrown_ti, want, H.obj, off)) { sel = typeid_of(want); enter_lp = true; break; }
                }
                if (enter_lp) {
                    jump(S, F, site->succ[1]);
                    // the landingpad instruction is the first non-phi instruction
                    const InstInfo &li = F.fi->insts[F.pc];
                    if (li.op != Instruction::LandingPad) throw PathEnd{PathEnd::Error, "landing pad expected"};
                    F.regs[li.dst] = Val::Agg({Val::C(64, hdr), Val::C(32, (uint32_t)sel)});
                    F.pc++;
                    return;
                }
            }
            // leave this frame
            if (F.after_ret) throw PathEnd{PathEnd::Error, "exception escaped an engine-invoked destructor"};
            if (F.fi->F->doesNotThrow() && site) throw PathEnd{PathEnd::Error, "std::terminate: exception escaped noexcept function " + F.fi->name};
            site = F.callsite;
            pop_frame(S, T);
            if (T.st.empty()) throw PathEnd{PathEnd::Error, "uncaught exception (" + demangled_ti(thrown_ti) + ")" + exc_what(S, H.obj, thrown_ti)};
        }
    }
    std::string demangled_ti(uint64_t ti) {
        auto it = ti_name.find(ti);
        if (it == ti_name.end()) return "?";
        return llvm::demangle("_ZTI" + it->second);
    }
    std::string exc_what(State &S, uint64_t obj, uint64_t ti) {
        // best effort: std::logic_error / runtime_error layout {vptr, char* msg} in rt model
        try {
            int64_t off;
            uint64_t le = 0, re = 0;
            for (auto &kv : ti_name) { if (kv.second == "St11logic_error") le = kv.first; if (kv.second == "St13runtime_error") re = kv.first; }
            if ((le && ti_upcast(S, ti, le, obj, off)) || (re && ti_upcast(S, ti, re, obj, off))) {
                uint64_t p = load(S, obj + off + 8, 64).u64();
                if (p) return ": " + read_cstr(S, p, 300);
            }
        } catch (PathEnd &) {}
        return "";
    }
    void eh_release_obj(State &S, uint64_t obj, const InstInfo &ii, bool &entered_dtor) {
        entered_dtor = false;
        auto it = S.eh_obj.find(obj);
        if (it == S.eh_obj.end()) return;
        if (--it->second.refs > 0) return;
        uint64_t dtor = it->second.dtor;
        S.eh_obj.erase(it);
        if (dtor) {
            auto f = faddr.find(dtor);
            if (f == faddr.end()) throw PathEnd{PathEnd::Error, "bad exception destructor"};
            enter(S, f->second, {Val::C(64, obj)}, &ii, /*after=*/1, obj);
            entered_dtor = true;
        } else {
            free_obj(S, obj - 128);
        }
    }

    // ---------------------------------------------------------------- threads / sync
    bool multi_threaded(State &S) { int n = 0; for (auto &t : S.th) if (t.status != TH_DONE) n++; return n > 1; }
    std::vector<int> runnable(State &S) { std::vector<int> r; for (int i = 0; i < (int)S.th.size(); i++) if (S.th[i].status == TH_RUN) r.push_back(i); return r; }
    // Fork over n alternatives at a point where S is consistent (end of an instruction):
    // alternative 0 continues in S, alternatives 1..n-1 are queued.
    void fork_alternatives(State &S, int n, const std::function<void(State &, int)> &apply) {
        if (n > 1 && concrete_mode) {
            // schedule replay: follow the recorded choice letters
            int pick = 0;
            while (sched_pos < opt.sched.size() && (opt.sched[sched_pos] == '0' || opt.sched[sched_pos] == '1')) sched_pos++;
            if (sched_pos < opt.sched.size()) pick = opt.sched[sched_pos++] - 'a';
            if (pick < 0 || pick >= n) pick = 0;
            apply(S, pick);
            return;
        }
        if (n > 1 && !concrete_mode) {
            for (int i = n - 1; i >= 1; i--) {
                forks++;
                Pending P{S};
                P.S.dhash = mix(P.S.dhash, 0x1000 + (uint64_t)i);
                P.S.depth++;
                P.S.decisions.push_back((char)('a' + i));
                apply(P.S, i);
                pending.push_back(std::move(P));
            }
            S.dhash = mix(S.dhash, 0x1000);
            S.depth++;
            S.decisions.push_back('a');
        }
        apply(S, 0);
        if (n > 1 && !concrete_mode) shard_gate(S);
    }
    // Called at a synchronisation point, as the LAST action of an instruction: optionally switch
    // to another runnable thread (forking over the choices within the preemption budget).
    void sched_point(State &S, bool must_switch) {
        if (S.th.size() == 1 && S.th[0].status == TH_RUN) return;
        std::vector<int> rn = runnable(S);
        if (rn.empty()) {
            std::vector<int> tw;
            for (int i = 0; i < (int)S.th.size(); i++) if (S.th[i].status == TH_BLOCK_COND && S.th[i].timed) tw.push_back(i);
            if (tw.empty()) {
                bool all_done = true;
                for (auto &t : S.th) if (t.status != TH_DONE) all_done = false;
                if (all_done) throw PathEnd{PathEnd::Normal, ""};
                throw PathEnd{PathEnd::Error, "deadlock: no runnable thread"};
            }
            fork_alternatives(S, (int)tw.size(), [&](State &X, int i) {
                Thread &W = X.th[tw[i]];
                W.status = TH_RUN; W.notified = false; W.timed_out = true; W.timed = false;
                clock_timeout_advance(X, W);
                if (W.ret_slot >= 0 && W.ret_frame >= 0 && W.ret_frame < (int)W.st.size()) W.st[W.ret_frame].regs[W.ret_slot] = Val::C(32, 110);  // ETIMEDOUT
                X.cur = tw[i];
                reacquire_after_wait(X, X.cur);
                if (X.th[X.cur].status != TH_RUN) throw PathEnd{PathEnd::Error, "deadlock after timeout wake"};
            });
            return;
        }
        bool cur_runnable = S.th[S.cur].status == TH_RUN;
        if (cur_runnable && !must_switch && (rn.size() == 1 || S.preempt >= opt.max_preempt)) return;
        std::vector<int> cand;
        if (cur_runnable && !must_switch) cand.push_back(S.cur);
        for (int t : rn) if (t != S.cur) cand.push_back(t);
        if (cand.empty()) cand.push_back(S.cur);
        int cur = S.cur;
        fork_alternatives(S, (int)cand.size(), [&](State &X, int i) {
            if (cand[i] != cur) { if (cur_runnable && !must_switch) X.preempt++; X.cur = cand[i]; }
        });
    }
    void reacquire_after_wait(State &S, int tid) {
        Thread &T = S.th[tid];
        if (T.wait_mutex) {
            auto it = S.mutex_owner.find(T.wait_mutex);
            if (it != S.mutex_owner.end() && it->second != 0) { T.status = TH_BLOCK_MUTEX; T.wait_obj = T.wait_mutex; T.wait_mutex = 0; T.reacquire = true; return; }
            S.mutex_owner[T.wait_mutex] = tid + 1;
            S.mutex_count[T.wait_mutex] = 1;
            T.wait_mutex = 0;
        }
    }

    // ---------------------------------------------------------------- main loop
    void run_all(State S0);
    void run_path(State &S);
    void step(State &S);
    void do_call(State &S, const InstInfo &ii);
    void do_intrinsic(State &S, const InstInfo &ii, Function *f, std::vector<Val> &args);
    void register_builtins();
    void add_builtin(const std::string &name, Builtin b) { builtin_id[name] = (int)builtins.size(); builtins.push_back(std::move(b)); builtin_names.push_back(name); }
    void end_path(State &S, const PathEnd &pe);
    Val fresh_input_range(State &S, const std::string &name, int64_t lo, int64_t hi);
    void wait_continue(State &S, const InstInfo &ii);
    void clock_timeout_advance(State &S, Thread &T);
    void record_violation(State &S, const std::string &id, const std::string &kind, const Assign &m, const std::string &where);
    std::string where(State &S);
    void write_output();
};

}  // namespace symx

#include "symx_run.inc"
#include "symx_builtins.inc"

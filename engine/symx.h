// symx: bounded symbolic executor for LLVM 14 IR, z3 back end.  See DESIGN.md section 3.2.
#pragma once
#include <llvm/IR/Constants.h>
#include <llvm/IR/DataLayout.h>
#include <llvm/IR/DebugInfoMetadata.h>
#include <llvm/IR/GetElementPtrTypeIterator.h>
#include <llvm/IR/Instructions.h>
#include <llvm/IR/IntrinsicInst.h>
#include <llvm/IR/LLVMContext.h>
#include <llvm/IR/Module.h>
#include <llvm/IR/Operator.h>
#include <llvm/IRReader/IRReader.h>
#include <llvm/Support/SourceMgr.h>
#include <llvm/Support/raw_ostream.h>
#include <z3++.h>

#include <chrono>
#include <cstdint>
#include <cstring>
#include <functional>
#include <map>
#include <memory>
#include <set>
#include <string>
#include <unordered_map>
#include <vector>

namespace symx {

using u128 = unsigned __int128;
using i128 = __int128;

extern z3::context *ZC;
inline z3::context &Z() { return *ZC; }

struct PathEnd {  // thrown to terminate the current path
    enum Kind { Normal, Infeasible, Error, Inconclusive } kind;
    std::string msg;
};

// ---- intrusive ref-counted symbolic expression
struct SymNode {
    int rc = 0;
    z3::expr e;
    explicit SymNode(const z3::expr &x) : e(x) {}
};
struct SymRef {
    SymNode *p = nullptr;
    SymRef() = default;
    explicit SymRef(const z3::expr &x) : p(new SymNode(x)) { p->rc = 1; }
    SymRef(const SymRef &o) : p(o.p) { if (p) ++p->rc; }
    SymRef(SymRef &&o) noexcept : p(o.p) { o.p = nullptr; }
    SymRef &operator=(const SymRef &o) { if (o.p) ++o.p->rc; rel(); p = o.p; return *this; }
    SymRef &operator=(SymRef &&o) noexcept { if (this != &o) { rel(); p = o.p; o.p = nullptr; } return *this; }
    ~SymRef() { rel(); }
    void rel() { if (p && --p->rc == 0) delete p; p = nullptr; }
    explicit operator bool() const { return p != nullptr; }
    const z3::expr &e() const { return p->e; }
};

struct Val;
using AggRef = std::shared_ptr<std::vector<Val>>;

// A first-class IR value: integer / pointer / fp bit pattern of width w (<=128 concrete, any
// width symbolic), or an aggregate.
struct Val {
    uint32_t w = 0;
    u128 c = 0;
    SymRef s;
    AggRef agg;
    bool sym() const { return (bool)s; }
    static u128 mask(uint32_t w) { return w >= 128 ? ~(u128)0 : (((u128)1 << w) - 1); }
    static Val C(uint32_t w, u128 v) { Val r; r.w = w; r.c = v & mask(w); return r; }
    static Val S(const z3::expr &x) { Val r; r.w = x.get_sort().bv_size(); r.s = SymRef(x); return r; }
    static Val Agg(std::vector<Val> v) { Val r; r.agg = std::make_shared<std::vector<Val>>(std::move(v)); return r; }
    uint64_t u64() const { return (uint64_t)c; }
    int64_t sx64() const {
        if (w >= 64) return (int64_t)(uint64_t)c;
        uint64_t v = (uint64_t)c;
        return (int64_t)(v << (64 - w)) >> (64 - w);
    }
    i128 sx128() const {
        if (w >= 128) return (i128)c;
        return (i128)(c << (128 - w)) >> (128 - w);
    }
    z3::expr ex() const;
};

z3::expr bv_const_u128(u128 v, unsigned w);
Val mk(const z3::expr &x);  // simplify, fold numerals

}  // namespace symx

#!/bin/sh
# builds symx into /verif/.cache/symx (rebuilt when sources change)
set -e
D=$(dirname "$(readlink -f "$0")")
OUT=${VERIF_CACHE:-$D/../.cache}
mkdir -p "$OUT"
H=$(cat "$D"/build.sh "$D"/symx.h "$D"/symx.cpp "$D"/symx_run.inc "$D"/symx_builtins.inc | sha256sum | cut -c1-16)
if [ -x "$OUT/symx" ] && [ "$(cat "$OUT/symx.hash" 2>/dev/null)" = "$H" ]; then exit 0; fi
Z3=${SYMX_Z3:-/opt/veriftools/pyvenv/lib/python3.11/site-packages/z3}
if [ -f "$Z3/lib/libz3.so" ] && [ -f "$Z3/include/z3++.h" ]; then Z3INC="-I$Z3/include"; Z3LIB="-L$Z3/lib -Wl,-rpath,$Z3/lib"; else Z3INC=""; Z3LIB=""; fi
g++ -std=c++17 -O2 -g -o "$OUT/symx.tmp.$$" "$D/symx.cpp" $Z3INC $(/usr/lib/llvm-14/bin/llvm-config --cxxflags | sed 's/-std=c++14//; s/-fno-exceptions//; s/-fno-rtti//') -fexceptions -I/usr/include $(/usr/lib/llvm-14/bin/llvm-config --ldflags) -lLLVM-14 $Z3LIB -lz3 -lpthread
mv "$OUT/symx.tmp.$$" "$OUT/symx"
echo "$H" > "$OUT/symx.hash"

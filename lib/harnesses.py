"""Registry: property id -> list of harness descriptions.  Fragments live in lib/hreg/<ID>.py; each
calls reg(pid, **harness) one or more times and defines META = dict(level=..., note=...)."""
import importlib.util
import os

HARNESSES = {}
META = {}


def reg(pid, **kw):
    HARNESSES.setdefault(pid, []).append(kw)


_d = os.path.join(os.path.dirname(os.path.abspath(__file__)), "hreg")
for _fn in sorted(os.listdir(_d)):
    if _fn.endswith(".py") and not _fn.startswith("_"):
        _spec = importlib.util.spec_from_file_location("hreg_" + _fn[:-3], os.path.join(_d, _fn))
        _m = importlib.util.module_from_spec(_spec)
        _m.reg = reg
        _spec.loader.exec_module(_m)
        if hasattr(_m, "META"):
            META[_fn[:-3]] = _m.META
